import Cinco.Config.Nested
/-
  Lemmas about the walk `renderNested` over nested containers of configurations.
  `Held` is a nested inductive type, so every induction is a mutual structural recursion over a held value,
  a list of held values and a list of keyed held values.
-/
namespace Cinco.Nested
open Cinco

/-! ### Unfolding -/

@[simp] theorem renderNested_cfg (R : Nat → Tree) (id : Nat) (b : Tree) : renderNested R (.cfg id) b = R id := by
  rw [renderNested]

@[simp] theorem renderNested_leaf (R : Nat → Tree) (t b : Tree) : renderNested R (.leaf t) b = b := by
  rw [renderNested]

theorem renderNested_list (R : Nat → Tree) (items : List Held) (bs : List Tree) :
    renderNested R (.list items) (.list bs) = if items.length = bs.length then .list (renderItems R items bs) else .list bs := by
  rw [renderNested]

theorem renderNested_dict (R : Nat → Tree) (kvs : List (String × Held)) (bkvs : List (String × Tree)) :
    renderNested R (.dict kvs) (.dict bkvs) = if kvs.length = bkvs.length then .dict (renderVals R kvs bkvs) else .dict bkvs := by
  rw [renderNested]

theorem renderNested_list_not_list (R : Nat → Tree) (items : List Held) (b : Tree) (hb : ∀ bs, b ≠ .list bs) :
    renderNested R (.list items) b = b := by
  rw [renderNested]
  exact hb

theorem renderNested_dict_not_dict (R : Nat → Tree) (kvs : List (String × Held)) (b : Tree) (hb : ∀ bkvs, b ≠ .dict bkvs) :
    renderNested R (.dict kvs) b = b := by
  rw [renderNested]
  exact hb

@[simp] theorem renderItems_nil (R : Nat → Tree) (bs : List Tree) : renderItems R [] bs = [] := by
  rw [renderItems]
@[simp] theorem renderItems_cons_nil (R : Nat → Tree) (h : Held) (hs : List Held) : renderItems R (h :: hs) [] = [] := by
  rw [renderItems]
@[simp] theorem renderItems_cons (R : Nat → Tree) (h : Held) (hs : List Held) (b : Tree) (bs : List Tree) :
    renderItems R (h :: hs) (b :: bs) = renderNested R h b :: renderItems R hs bs := by
  rw [renderItems]

@[simp] theorem renderVals_nil (R : Nat → Tree) (bs : List (String × Tree)) : renderVals R [] bs = [] := by
  rw [renderVals]
@[simp] theorem renderVals_cons_nil (R : Nat → Tree) (e : String × Held) (hs : List (String × Held)) : renderVals R (e :: hs) [] = [] := by
  obtain ⟨k, h⟩ := e
  rw [renderVals]
@[simp] theorem renderVals_cons (R : Nat → Tree) (k' : String) (h : Held) (hs : List (String × Held)) (k : String) (b : Tree)
    (bs : List (String × Tree)) :
    renderVals R ((k', h) :: hs) ((k, b) :: bs) = (k, renderNested R h b) :: renderVals R hs bs := by
  rw [renderVals]

/-! ### The field's rendering, item by item -/

theorem toBasicItems_eq_map (U : Nat → Tree) : ∀ items : List Held, toBasicItems U items = items.map (toBasic U)
  | [] => by simp [toBasicItems]
  | h :: hs => by simp [toBasicItems, toBasicItems_eq_map U hs]

theorem toBasicVals_eq_map (U : Nat → Tree) : ∀ kvs : List (String × Held), toBasicVals U kvs = kvs.map (fun e => (e.1, toBasic U e.2))
  | [] => by simp [toBasicVals]
  | (k, h) :: rest => by simp [toBasicVals, toBasicVals_eq_map U rest]

@[simp] theorem length_toBasicItems (U : Nat → Tree) (items : List Held) : (toBasicItems U items).length = items.length := by
  simp [toBasicItems_eq_map]

@[simp] theorem length_toBasicVals (U : Nat → Tree) (kvs : List (String × Held)) : (toBasicVals U kvs).length = kvs.length := by
  simp [toBasicVals_eq_map]

theorem keys_toBasicVals (U : Nat → Tree) (kvs : List (String × Held)) : (toBasicVals U kvs).map (·.1) = kvs.map (·.1) := by
  simp [toBasicVals_eq_map]

theorem cfgIdsItems_eq_flatMap : ∀ items : List Held, cfgIdsItems items = items.flatMap cfgIds
  | [] => by simp [cfgIdsItems]
  | h :: hs => by simp [cfgIdsItems, cfgIdsItems_eq_flatMap hs]

theorem cfgIdsVals_eq_flatMap : ∀ kvs : List (String × Held), cfgIdsVals kvs = kvs.flatMap (fun e => cfgIds e.2)
  | [] => by simp [cfgIdsVals]
  | (k, h) :: rest => by simp [cfgIdsVals, cfgIdsVals_eq_flatMap rest]

/-! ### The zips are item-wise -/

@[simp] theorem length_renderItems (R : Nat → Tree) : ∀ (hs : List Held) (bs : List Tree),
    (renderItems R hs bs).length = min hs.length bs.length
  | [], bs => by simp
  | h :: hs, [] => by simp
  | h :: hs, b :: bs => by simp [length_renderItems R hs bs, Nat.succ_min_succ]

@[simp] theorem length_renderVals (R : Nat → Tree) : ∀ (hs : List (String × Held)) (bs : List (String × Tree)),
    (renderVals R hs bs).length = min hs.length bs.length
  | [], bs => by simp
  | e :: hs, [] => by simp
  | (k', h) :: hs, (k, b) :: bs => by simp [length_renderVals R hs bs, Nat.succ_min_succ]

theorem renderItems_eq_zipWith (R : Nat → Tree) : ∀ (hs : List Held) (bs : List Tree),
    renderItems R hs bs = List.zipWith (renderNested R) hs bs
  | [], bs => by simp
  | h :: hs, [] => by simp
  | h :: hs, b :: bs => by simp [renderItems_eq_zipWith R hs bs]

theorem renderVals_eq_zipWith (R : Nat → Tree) : ∀ (hs : List (String × Held)) (bs : List (String × Tree)),
    renderVals R hs bs = List.zipWith (fun e kb => (kb.1, renderNested R e.2 kb.2)) hs bs
  | [], bs => by simp
  | e :: hs, [] => by simp
  | (k', h) :: hs, (k, b) :: bs => by simp [renderVals_eq_zipWith R hs bs]

/-- the walk keeps the keys of `basic`, in order -/
theorem keys_renderVals (R : Nat → Tree) : ∀ (hs : List (String × Held)) (bs : List (String × Tree)), hs.length = bs.length →
    (renderVals R hs bs).map (·.1) = bs.map (·.1)
  | [], [], _ => by simp
  | [], _ :: _, hl => by simp at hl
  | _ :: _, [], hl => by simp at hl
  | (k', h) :: hs, (k, b) :: bs, hl => by
    simp only [List.length_cons, Nat.add_right_cancel_iff] at hl
    simp [keys_renderVals R hs bs hl]

/-! ### After the walk every configuration is rendered with the caller's options -/

mutual
  theorem render_toBasic (R U : Nat → Tree) : ∀ h : Held, renderNested R h (toBasic U h) = toBasic R h
    | .cfg id => by simp [toBasic]
    | .leaf t => by simp [toBasic]
    | .list items => by
      simp only [toBasic, renderNested_list, length_toBasicItems, if_true]
      rw [renderItems_toBasic R U items]
    | .dict kvs => by
      simp only [toBasic, renderNested_dict, length_toBasicVals, if_true]
      rw [renderVals_toBasic R U kvs]
  theorem renderItems_toBasic (R U : Nat → Tree) : ∀ items : List Held,
      renderItems R items (toBasicItems U items) = toBasicItems R items
    | [] => by simp [toBasicItems]
    | h :: hs => by
      simp only [toBasicItems, renderItems_cons]
      rw [render_toBasic R U h, renderItems_toBasic R U hs]
  theorem renderVals_toBasic (R U : Nat → Tree) : ∀ kvs : List (String × Held),
      renderVals R kvs (toBasicVals U kvs) = toBasicVals R kvs
    | [] => by simp [toBasicVals]
    | (k, h) :: rest => by
      simp only [toBasicVals, renderVals_cons]
      rw [render_toBasic R U h, renderVals_toBasic R U rest]
end

/-! ### No configuration inside: the walk rebuilds the very same tree, whatever `basic` is -/

mutual
  theorem render_noCfg (R : Nat → Tree) : ∀ (h : Held) (b : Tree), cfgIds h = [] → renderNested R h b = b
    | .cfg id, _, hc => by simp [cfgIds] at hc
    | .leaf t, _, _ => by simp
    | .list items, b, hc => by
      cases b with
      | list bs =>
        rw [renderNested_list]
        split
        · rename_i hl
          rw [renderItems_noCfg R items bs (by simpa [cfgIds] using hc) hl]
        · rfl
      | _ => exact renderNested_list_not_list R items _ (by simp)
    | .dict kvs, b, hc => by
      cases b with
      | dict bkvs =>
        rw [renderNested_dict]
        split
        · rename_i hl
          rw [renderVals_noCfg R kvs bkvs (by simpa [cfgIds] using hc) hl]
        · rfl
      | _ => exact renderNested_dict_not_dict R kvs _ (by simp)
  theorem renderItems_noCfg (R : Nat → Tree) : ∀ (hs : List Held) (bs : List Tree), cfgIdsItems hs = [] → hs.length = bs.length →
      renderItems R hs bs = bs
    | [], [], _, _ => by simp
    | [], _ :: _, _, hl => by simp at hl
    | _ :: _, [], _, hl => by simp at hl
    | h :: hs, b :: bs, hc, hl => by
      simp only [cfgIdsItems, List.append_eq_nil_iff] at hc
      simp only [List.length_cons, Nat.add_right_cancel_iff] at hl
      rw [renderItems_cons, render_noCfg R h b hc.1, renderItems_noCfg R hs bs hc.2 hl]
  theorem renderVals_noCfg (R : Nat → Tree) : ∀ (hs : List (String × Held)) (bs : List (String × Tree)), cfgIdsVals hs = [] →
      hs.length = bs.length → renderVals R hs bs = bs
    | [], [], _, _ => by simp
    | [], _ :: _, _, hl => by simp at hl
    | _ :: _, [], _, hl => by simp at hl
    | (k', h) :: hs, (k, b) :: bs, hc, hl => by
      simp only [cfgIdsVals, List.append_eq_nil_iff] at hc
      simp only [List.length_cons, Nat.add_right_cancel_iff] at hl
      rw [renderVals_cons, render_noCfg R h b hc.1, renderVals_noCfg R hs bs hc.2 hl]
end

/-! ### The walk only asks for the configurations that are inside -/

mutual
  theorem render_congr (R R' : Nat → Tree) : ∀ (h : Held) (b : Tree), (∀ id ∈ cfgIds h, R id = R' id) →
      renderNested R h b = renderNested R' h b
    | .cfg id, _, hr => by simpa using hr id (by simp [cfgIds])
    | .leaf t, _, _ => by simp
    | .list items, b, hr => by
      cases b with
      | list bs =>
        rw [renderNested_list, renderNested_list, renderItems_congr R R' items bs (by simpa [cfgIds] using hr)]
      | _ => rw [renderNested_list_not_list R items _ (by simp), renderNested_list_not_list R' items _ (by simp)]
    | .dict kvs, b, hr => by
      cases b with
      | dict bkvs =>
        rw [renderNested_dict, renderNested_dict, renderVals_congr R R' kvs bkvs (by simpa [cfgIds] using hr)]
      | _ => rw [renderNested_dict_not_dict R kvs _ (by simp), renderNested_dict_not_dict R' kvs _ (by simp)]
  theorem renderItems_congr (R R' : Nat → Tree) : ∀ (hs : List Held) (bs : List Tree), (∀ id ∈ cfgIdsItems hs, R id = R' id) →
      renderItems R hs bs = renderItems R' hs bs
    | [], _, _ => by simp
    | _ :: _, [], _ => by simp
    | h :: hs, b :: bs, hr => by
      simp only [cfgIdsItems, List.mem_append] at hr
      rw [renderItems_cons, renderItems_cons, render_congr R R' h b (fun id hm => hr id (Or.inl hm)),
        renderItems_congr R R' hs bs (fun id hm => hr id (Or.inr hm))]
  theorem renderVals_congr (R R' : Nat → Tree) : ∀ (hs : List (String × Held)) (bs : List (String × Tree)),
      (∀ id ∈ cfgIdsVals hs, R id = R' id) → renderVals R hs bs = renderVals R' hs bs
    | [], _, _ => by simp
    | _ :: _, [], _ => by simp
    | (k', h) :: hs, (k, b) :: bs, hr => by
      simp only [cfgIdsVals, List.mem_append] at hr
      rw [renderVals_cons, renderVals_cons, render_congr R R' h b (fun id hm => hr id (Or.inl hm)),
        renderVals_congr R R' hs bs (fun id hm => hr id (Or.inr hm))]
end

/-! ### Which strings the field's rendering contains: those of the held value itself and those of the configurations inside -/

mutual
  theorem anyStr_toBasic (p : Str → Bool) (U : Nat → Tree) : ∀ h : Held,
      Tree.anyStr p (toBasic U h) = (ownAnyStr p h || (cfgIds h).any (fun id => Tree.anyStr p (U id)))
    | .cfg id => by simp [toBasic, ownAnyStr, cfgIds]
    | .leaf t => by simp [toBasic, ownAnyStr, cfgIds]
    | .list items => by
      simp only [toBasic, Tree.anyStr, ownAnyStr, cfgIds]
      exact anyStrList_toBasic p U items
    | .dict kvs => by
      simp only [toBasic, Tree.anyStr, ownAnyStr, cfgIds]
      exact anyStrKvs_toBasic p U kvs
  theorem anyStrList_toBasic (p : Str → Bool) (U : Nat → Tree) : ∀ items : List Held,
      Tree.anyStrList p (toBasicItems U items) = (ownAnyStrItems p items || (cfgIdsItems items).any (fun id => Tree.anyStr p (U id)))
    | [] => by simp [toBasicItems, Tree.anyStrList, ownAnyStrItems, cfgIdsItems]
    | h :: hs => by
      simp only [toBasicItems, Tree.anyStrList, ownAnyStrItems, cfgIdsItems, List.any_append]
      rw [anyStr_toBasic p U h, anyStrList_toBasic p U hs]
      cases ownAnyStr p h <;> cases ownAnyStrItems p hs <;> simp
  theorem anyStrKvs_toBasic (p : Str → Bool) (U : Nat → Tree) : ∀ kvs : List (String × Held),
      Tree.anyStrKvs p (toBasicVals U kvs) = (ownAnyStrVals p kvs || (cfgIdsVals kvs).any (fun id => Tree.anyStr p (U id)))
    | [] => by simp [toBasicVals, Tree.anyStrKvs, ownAnyStrVals, cfgIdsVals]
    | (k, h) :: rest => by
      simp only [toBasicVals, Tree.anyStrKvs, ownAnyStrVals, cfgIdsVals, List.any_append]
      rw [anyStr_toBasic p U h, anyStrKvs_toBasic p U rest]
      cases p k.toList <;> cases ownAnyStr p h <;> cases ownAnyStrVals p rest <;> simp
end

end Cinco.Nested
