import Cinco.Heap.Model
/-
  Helper lemmas for C13 (heap model with ghost ownership).
-/
namespace Cinco.Heap

/-! ### A. heap primitives -/

@[simp] theorem Heap.next_alloc (h : Heap) (o : Owner) (c : Cell) : (h.alloc o c).2.next = h.next + 1 := by
  simp [Heap.alloc, Heap.next]

@[simp] theorem Heap.alloc_fst (h : Heap) (o : Owner) (c : Cell) : (h.alloc o c).1 = h.next := rfl

theorem Heap.get?_alloc (h : Heap) (o : Owner) (c : Cell) (a : Nat) :
    (h.alloc o c).2.get? a = if a = h.next then some (o, c) else h.get? a := by
  simp only [Heap.alloc, Heap.get?, Heap.next]
  by_cases h1 : a < h.cells.length
  · have h2 : a ≠ h.cells.length := Nat.ne_of_lt h1
    simp [List.getElem?_append_left h1, h2]
  · by_cases h2 : a = h.cells.length
    · subst h2; simp
    · have h3 : h.cells.length ≤ a := Nat.le_of_not_lt h1
      have h4 : h.cells.length + 1 ≤ a := by omega
      simp [h2, List.getElem?_eq_none h3, h4]

@[simp] theorem Heap.next_write (h : Heap) (a : Nat) (c : Cell) : (h.write a c).next = h.next := by
  simp [Heap.write, Heap.next]

theorem Heap.get?_write (h : Heap) (a : Nat) (c : Cell) (b : Nat) :
    (h.write a c).get? b = if a = b then (h.get? b).map (fun p => (p.1, c)) else h.get? b := by
  simp only [Heap.write, Heap.get?, List.getElem?_modify]
  by_cases hab : a = b
  · subst hab; cases h.cells[a]? <;> simp
  · cases h.cells[b]? <;> simp [hab]

theorem Heap.get?_lt {h : Heap} {a : Nat} {p : Owner × Cell} (e : h.get? a = some p) : a < h.next := by
  simp only [Heap.get?] at e
  have := List.getElem?_eq_some_iff.mp e
  exact this.1

theorem Heap.get?_none {h : Heap} {a : Nat} (e : h.next ≤ a) : h.get? a = none := by
  simp [Heap.get?, Heap.next] at *; exact e

theorem Heap.cell?_eq {h : Heap} {a : Nat} {o : Owner} {c : Cell} (e : h.get? a = some (o, c)) : h.cell? a = some c := by
  simp [Heap.cell?, e]

theorem Heap.cell?_some {h : Heap} {a : Nat} {c : Cell} (e : h.cell? a = some c) : ∃ o, h.get? a = some (o, c) := by
  simp only [Heap.cell?] at e
  cases hg : h.get? a with
  | none => simp [hg] at e
  | some p => simp [hg] at e; exact ⟨p.1, by rw [← e]⟩

/-! ### B. allocation-only heap extensions -/

/-- `v` is not a reference, or a reference into the address interval `[m, b)` -/
def NewBelow (m b : Nat) : HVal → Prop
  | .ref x => m ≤ x ∧ x < b
  | _ => True

theorem NewBelow.mono {m m' b b' : Nat} {v : HVal} (hm : m' ≤ m) (hb : b ≤ b') (p : NewBelow m b v) : NewBelow m' b' v := by
  cases v with
  | ref x => exact ⟨Nat.le_trans hm p.1, Nat.lt_of_lt_of_le p.2 hb⟩
  | atom _ => trivial
  | null => trivial

theorem NewBelow.lt {m b : Nat} {v : HVal} (p : NewBelow m b v) : ∀ x, v = .ref x → x < b := by
  intro x hx; subst hx; exact p.2

theorem mem_refsOf {b : Nat} : ∀ {vs : List HVal}, b ∈ refsOf vs ↔ HVal.ref b ∈ vs
  | [] => by simp [refsOf]
  | .ref x :: vs => by simp [refsOf, mem_refsOf (vs := vs)]
  | .atom _ :: vs => by simp [refsOf, mem_refsOf (vs := vs)]
  | .null :: vs => by simp [refsOf, mem_refsOf (vs := vs)]

theorem refsOf_append : ∀ (a b : List HVal), refsOf (a ++ b) = refsOf a ++ refsOf b
  | [], b => rfl
  | .ref x :: a, b => by simp [refsOf, refsOf_append a b]
  | .atom _ :: a, b => by simp [refsOf, refsOf_append a b]
  | .null :: a, b => by simp [refsOf, refsOf_append a b]

/-- `h'` is `h` plus new cells, all owned by `o`, whose references point to *earlier new* cells only, and no new cell
    is referenced twice from the new cells -/
structure Fresh (o : Owner) (h h' : Heap) : Prop where
  grow : ∃ ext, h'.cells = h.cells ++ ext ∧ ∀ p ∈ ext, p.1 = o
  ord : ∀ b o' c, h.next ≤ b → h'.get? b = some (o', c) → ∀ v ∈ c.kids, NewBelow h.next b v
  nodup : ∀ a o' c, h.next ≤ a → h'.get? a = some (o', c) → (refsOf c.kids).Nodup
  uniq : ∀ a1 o1 c1 a2 o2 c2 b, h.next ≤ a1 → h.next ≤ a2 → h'.get? a1 = some (o1, c1) → h'.get? a2 = some (o2, c2) →
    HVal.ref b ∈ c1.kids → HVal.ref b ∈ c2.kids → a1 = a2

/-- `v` (if a reference) is not referenced by any cell at an address `≥ m` -/
def Unref (m : Nat) (g : Heap) (v : HVal) : Prop :=
  ∀ b, v = .ref b → ∀ a o c, m ≤ a → g.get? a = some (o, c) → HVal.ref b ∉ c.kids

/-- the values returned by an allocating function: new (or not references), not yet referenced, pairwise distinct -/
structure KidsOK (h h' : Heap) (vs : List HVal) : Prop where
  nb : ∀ v ∈ vs, NewBelow h.next h'.next v
  unref : ∀ v ∈ vs, Unref h.next h' v
  nodup : (refsOf vs).Nodup

theorem KidsOK.nil (h h' : Heap) : KidsOK h h' [] := ⟨by simp, by simp, by simp [refsOf]⟩

theorem KidsOK.nonref (h h' : Heap) {v : HVal} (hv : v.isRef = false) : KidsOK h h' [v] := by
  cases v with
  | ref b => simp [HVal.isRef] at hv
  | atom s => exact ⟨by simp [NewBelow], by simp [Unref], by simp [refsOf]⟩
  | null => exact ⟨by simp [NewBelow], by simp [Unref], by simp [refsOf]⟩

theorem KidsOK.val {h h' : Heap} {v : HVal} (k : KidsOK h h' [v]) : NewBelow h.next h'.next v := k.nb v (by simp)

theorem Fresh.refl (o : Owner) (h : Heap) : Fresh o h h :=
  ⟨⟨[], by simp, by simp⟩, fun b o' c hb e => by have := Heap.get?_lt e; omega,
   fun a o' c hb e => by have := Heap.get?_lt e; omega,
   fun a1 o1 c1 a2 o2 c2 b hb _ e => by have := Heap.get?_lt e; omega⟩

theorem Fresh.next_le {o : Owner} {h h' : Heap} (f : Fresh o h h') : h.next ≤ h'.next := by
  obtain ⟨ext, e, _⟩ := f.grow
  simp [Heap.next, e]

theorem Fresh.get?_old {o : Owner} {h h' : Heap} (f : Fresh o h h') {a : Nat} (ha : a < h.next) : h'.get? a = h.get? a := by
  obtain ⟨ext, e, _⟩ := f.grow
  simp only [Heap.get?, e]
  exact List.getElem?_append_left ha

theorem Fresh.get?_of {o : Owner} {h h' : Heap} (f : Fresh o h h') {a : Nat} {p : Owner × Cell} (e : h.get? a = some p) :
    h'.get? a = some p := by rw [f.get?_old (Heap.get?_lt e)]; exact e

theorem Fresh.owner_new {o : Owner} {h h' : Heap} (f : Fresh o h h') {b : Nat} {o' : Owner} {c : Cell}
    (hb : h.next ≤ b) (e : h'.get? b = some (o', c)) : o' = o := by
  obtain ⟨ext, e1, e2⟩ := f.grow
  simp only [Heap.get?, e1] at e
  rw [List.getElem?_append_right hb] at e
  exact e2 _ (List.mem_of_getElem? e)

theorem Fresh.trans {o : Owner} {h h1 h2 : Heap} (f1 : Fresh o h h1) (f2 : Fresh o h1 h2) : Fresh o h h2 := by
  obtain ⟨x1, e1, o1⟩ := f1.grow
  obtain ⟨x2, e2, o2⟩ := f2.grow
  refine ⟨⟨x1 ++ x2, by rw [e2, e1, List.append_assoc], ?_⟩, ?_, ?_, ?_⟩
  · intro p hp
    rcases List.mem_append.mp hp with hp | hp
    · exact o1 p hp
    · exact o2 p hp
  · intro b o' c hb e v hv
    by_cases hb1 : b < h1.next
    · rw [f2.get?_old hb1] at e
      exact f1.ord b o' c hb e v hv
    · exact (f2.ord b o' c (Nat.le_of_not_lt hb1) e v hv).mono f1.next_le (Nat.le_refl _)
  · intro a o' c ha e
    by_cases hb1 : a < h1.next
    · rw [f2.get?_old hb1] at e
      exact f1.nodup a o' c ha e
    · exact f2.nodup a o' c (Nat.le_of_not_lt hb1) e
  · intro a1 o1' c1 a2 o2' c2 b ha1 ha2 e1' e2' hb1 hb2
    by_cases l1 : a1 < h1.next <;> by_cases l2 : a2 < h1.next
    · rw [f2.get?_old l1] at e1'; rw [f2.get?_old l2] at e2'
      exact f1.uniq a1 o1' c1 a2 o2' c2 b ha1 ha2 e1' e2' hb1 hb2
    · rw [f2.get?_old l1] at e1'
      have p1 := f1.ord a1 o1' c1 ha1 e1' _ hb1
      have p2 := f2.ord a2 o2' c2 (Nat.le_of_not_lt l2) e2' _ hb2
      have := p1.2; have := p2.1; omega
    · rw [f2.get?_old l2] at e2'
      have p2 := f1.ord a2 o2' c2 ha2 e2' _ hb2
      have p1 := f2.ord a1 o1' c1 (Nat.le_of_not_lt l1) e1' _ hb1
      have := p1.1; have := p2.2; omega
    · exact f2.uniq a1 o1' c1 a2 o2' c2 b (Nat.le_of_not_lt l1) (Nat.le_of_not_lt l2) e1' e2' hb1 hb2

theorem Fresh.alloc {o : Owner} {h0 h : Heap} (f : Fresh o h0 h) (c : Cell) (hk : KidsOK h0 h c.kids) :
    Fresh o h0 (h.alloc o c).2 := by
  obtain ⟨x, e, ho⟩ := f.grow
  have hle := f.next_le
  refine ⟨⟨x ++ [(o, c)], by simp [Heap.alloc, e], ?_⟩, ?_, ?_, ?_⟩
  · intro p hp
    rcases List.mem_append.mp hp with hp | hp
    · exact ho p hp
    · simp at hp; rw [hp]
  · intro b o' c' hb e' v hv
    rw [Heap.get?_alloc] at e'
    by_cases hbn : b = h.next
    · simp [hbn] at e'
      rw [← e'.2] at hv
      rw [hbn]; exact hk.nb v hv
    · simp [hbn] at e'
      exact f.ord b o' c' hb e' v hv
  · intro a o' c' ha e'
    rw [Heap.get?_alloc] at e'
    by_cases hbn : a = h.next
    · simp [hbn] at e'; rw [← e'.2]; exact hk.nodup
    · simp [hbn] at e'; exact f.nodup a o' c' ha e'
  · intro a1 o1 c1 a2 o2 c2 b ha1 ha2 e1 e2 hb1 hb2
    rw [Heap.get?_alloc] at e1 e2
    by_cases n1 : a1 = h.next <;> by_cases n2 : a2 = h.next
    · omega
    · simp [n1] at e1; simp [n2] at e2
      rw [← e1.2] at hb1
      exact absurd hb2 (hk.unref _ hb1 b rfl a2 o2 c2 ha2 e2)
    · simp [n1] at e1; simp [n2] at e2
      rw [← e2.2] at hb2
      exact absurd hb1 (hk.unref _ hb2 b rfl a1 o1 c1 ha1 e1)
    · simp [n1] at e1; simp [n2] at e2
      exact f.uniq a1 o1 c1 a2 o2 c2 b ha1 ha2 e1 e2 hb1 hb2

/-- the cell allocated last is a good result value -/
theorem fresh_alloc_ref {o : Owner} {h0 h : Heap} (f : Fresh o h0 h) (c : Cell) (hk : KidsOK h0 h c.kids) :
    Fresh o h0 (h.alloc o c).2 ∧ KidsOK h0 (h.alloc o c).2 [.ref (h.alloc o c).1] := by
  have f' := f.alloc c hk
  refine ⟨f', ⟨?_, ?_, by simp [refsOf]⟩⟩
  · intro v hv; simp at hv; subst hv
    simp only [NewBelow, Heap.next_alloc]
    exact ⟨f.next_le, Nat.lt_succ_self _⟩
  · intro v hv; simp at hv; subst hv
    intro b hb a o' c' ha e' hm
    simp at hb; subst hb
    have p := f'.ord a o' c' ha e' _ hm
    have := Heap.get?_lt e'
    simp at this
    have := p.2; omega

/-- sequencing: a first result, then a list of results produced afterwards -/
theorem KidsOK.cons {o : Owner} {h h1 h2 : Heap} {v : HVal} {vs : List HVal} (f1 : Fresh o h h1) (k1 : KidsOK h h1 [v])
    (f2 : Fresh o h1 h2) (k2 : KidsOK h1 h2 vs) : KidsOK h h2 (v :: vs) := by
  have hv := k1.val
  refine ⟨?_, ?_, ?_⟩
  · intro w hw
    rcases List.mem_cons.mp hw with hw | hw
    · subst hw; exact hv.mono (Nat.le_refl _) f2.next_le
    · exact (k2.nb w hw).mono f1.next_le (Nat.le_refl _)
  · intro w hw b hb a o' c ha e hm
    subst hb
    rcases List.mem_cons.mp hw with hw | hw
    · subst hw
      by_cases la : a < h1.next
      · rw [f2.get?_old la] at e
        exact k1.unref _ (by simp) b rfl a o' c ha e hm
      · have p := f2.ord a o' c (Nat.le_of_not_lt la) e _ hm
        have := p.1; have := hv.2; omega
    · have pw := k2.nb _ hw
      by_cases la : a < h1.next
      · rw [f2.get?_old la] at e
        have p := f1.ord a o' c ha e _ hm
        have := p.2; have := pw.1; omega
      · exact k2.unref _ hw b rfl a o' c (Nat.le_of_not_lt la) e hm
  · cases v with
    | ref b =>
      simp only [refsOf, List.nodup_cons]
      refine ⟨?_, k2.nodup⟩
      intro hm
      have p := k2.nb _ (mem_refsOf.mp hm)
      have := p.1; have := hv.2; omega
    | atom s => simpa [refsOf] using k2.nodup
    | null => simpa [refsOf] using k2.nodup

/-! ### C. the allocating functions only extend the heap -/

/-- the specification shared by every allocating function: extend only, and return a non-reference or a new,
    not yet referenced cell -/
def Allocates (o : Owner) (f : Heap → HVal × Heap) : Prop :=
  ∀ h, Fresh o h (f h).2 ∧ KidsOK h (f h).2 [(f h).1]

theorem allocates_pure (o : Owner) (v : HVal) (hv : v.isRef = false) : Allocates o (fun h => (v, h)) :=
  fun h => ⟨Fresh.refl o h, KidsOK.nonref h h hv⟩

mutual
  theorem allocT_fresh (o : Owner) : ∀ (t : Tree) (h : Heap),
      Fresh o h (allocT o t h).2 ∧ KidsOK h (allocT o t h).2 [(allocT o t h).1]
    | .null, h => ⟨Fresh.refl o h, KidsOK.nonref h h rfl⟩
    | .atom s, h => ⟨Fresh.refl o h, KidsOK.nonref h h rfl⟩
    | .list ts, h => by
      have ih := allocTs_fresh o ts h
      simp only [allocT]
      exact fresh_alloc_ref ih.1 _ ih.2
    | .dict kvs, h => by
      have ih := allocKvs_fresh o kvs h
      simp only [allocT]
      exact fresh_alloc_ref ih.1 _ ih.2
  theorem allocTs_fresh (o : Owner) : ∀ (ts : List Tree) (h : Heap),
      Fresh o h (allocTs o ts h).2 ∧ KidsOK h (allocTs o ts h).2 (Cell.list (allocTs o ts h).1).kids
    | [], h => ⟨Fresh.refl o h, KidsOK.nil h h⟩
    | t :: ts, h => by
      have i1 := allocT_fresh o t h
      have i2 := allocTs_fresh o ts (allocT o t h).2
      simp only [allocTs, Cell.kids]
      exact ⟨i1.1.trans i2.1, KidsOK.cons i1.1 i1.2 i2.1 i2.2⟩
  theorem allocKvs_fresh (o : Owner) : ∀ (ts : List (String × Tree)) (h : Heap),
      Fresh o h (allocKvs o ts h).2 ∧ KidsOK h (allocKvs o ts h).2 (Cell.dict (allocKvs o ts h).1).kids
    | [], h => ⟨Fresh.refl o h, KidsOK.nil h h⟩
    | (k, t) :: ts, h => by
      have i1 := allocT_fresh o t h
      have i2 := allocKvs_fresh o ts (allocT o t h).2
      simp only [allocKvs, Cell.kids, List.map_cons]
      exact ⟨i1.1.trans i2.1, KidsOK.cons i1.1 i1.2 i2.1 i2.2⟩
end

theorem allocT_allocates (o : Owner) (t : Tree) : Allocates o (allocT o t) := fun h => allocT_fresh o t h

theorem threadL_fresh {o : Owner} {f : HVal → Heap → HVal × Heap} (hf : ∀ v, Allocates o (f v)) :
    ∀ (vs : List HVal) (h : Heap),
      Fresh o h (threadL f vs h).2 ∧ KidsOK h (threadL f vs h).2 (Cell.list (threadL f vs h).1).kids
  | [], h => ⟨Fresh.refl o h, KidsOK.nil h h⟩
  | x :: vs, h => by
    have i1 := hf x h
    have i2 := threadL_fresh hf vs (f x h).2
    simp only [threadL, Cell.kids]
    exact ⟨i1.1.trans i2.1, KidsOK.cons i1.1 i1.2 i2.1 i2.2⟩

theorem threadK_fresh {o : Owner} {f : HVal → Heap → HVal × Heap} (hf : ∀ v, Allocates o (f v)) :
    ∀ (vs : Slots) (h : Heap),
      Fresh o h (threadK f vs h).2 ∧ KidsOK h (threadK f vs h).2 (Cell.dict (threadK f vs h).1).kids
  | [], h => ⟨Fresh.refl o h, KidsOK.nil h h⟩
  | (k, x) :: vs, h => by
    have i1 := hf x h
    have i2 := threadK_fresh hf vs (f x h).2
    simp only [threadK, Cell.kids, List.map_cons]
    exact ⟨i1.1.trans i2.1, KidsOK.cons i1.1 i1.2 i2.1 i2.2⟩

theorem copyV_fresh (o : Owner) : ∀ (n : Nat) (v : HVal), Allocates o (copyV o n v)
  | _, .null => by intro h; simp only [copyV]; exact ⟨Fresh.refl o h, KidsOK.nonref h h rfl⟩
  | _, .atom s => by intro h; simp only [copyV]; exact ⟨Fresh.refl o h, KidsOK.nonref h h rfl⟩
  | 0, .ref a => by intro h; simp only [copyV]; exact ⟨Fresh.refl o h, KidsOK.nonref h h rfl⟩
  | n + 1, .ref a => by
    intro h
    simp only [copyV]
    cases hc : h.cell? a with
    | none => exact ⟨Fresh.refl o h, KidsOK.nonref h h rfl⟩
    | some c =>
      cases c with
      | list items =>
        have ih := threadL_fresh (copyV_fresh o n) items h
        exact fresh_alloc_ref ih.1 _ ih.2
      | dict kvs =>
        have ih := threadK_fresh (copyV_fresh o n) kvs h
        exact fresh_alloc_ref ih.1 _ ih.2
      | cfg k sl dy =>
        have ih := threadK_fresh (copyV_fresh o n) sl h
        exact fresh_alloc_ref ih.1 (.cfg k _ dy) ih.2

theorem storeDefault_fresh (o : Owner) (d : Disc) (dv : HVal) (hd : d = .deep ∨ dv.isRef = false) :
    Allocates o (storeDefault o d dv) := by
  intro h
  rcases hd with hd | hd
  · subst hd; exact copyV_fresh o h.next dv h
  · cases d with
    | alias => exact allocates_pure o dv hd h
    | deep => exact copyV_fresh o h.next dv h
    | shallow =>
      have : shallowV o dv h = (dv, h) := by cases dv <;> simp [shallowV, HVal.isRef] at *
      simp only [storeDefault, this]
      exact allocates_pure o dv hd h

def FieldsDeep (fs : List (String × FieldDecl)) : Prop :=
  ∀ name disc dv, (name, FieldDecl.leaf disc dv) ∈ fs → disc = .deep ∨ dv.isRef = false

theorem FieldsDeep.tail {p : String × FieldDecl} {fs : List (String × FieldDecl)} (hd : FieldsDeep (p :: fs)) : FieldsDeep fs :=
  fun name disc dv hm => hd name disc dv (List.mem_cons_of_mem _ hm)

theorem AllDeep.fields {S : Schemas} (hS : AllDeep S) {k : Nat} {sd : SchemaDecl} (e : S[k]? = some sd) : FieldsDeep sd.fields :=
  fun name disc dv hm => hS sd (List.mem_of_getElem? e) name disc dv hm

/-- the value stored for one field by `buildFields` -/
def fieldVal (rec : Nat → Heap → HVal × Heap) (o : Owner) (d : FieldDecl) (h : Heap) : HVal × Heap :=
  match d with
  | .leaf disc dv => storeDefault o disc dv h
  | .sub s => rec s h
  | .cfgList _ => (.ref (h.alloc o (.list [])).1, (h.alloc o (.list [])).2)

theorem buildFields_cons (rec : Nat → Heap → HVal × Heap) (o : Owner) (name : String) (d : FieldDecl)
    (fs : List (String × FieldDecl)) (h : Heap) :
    buildFields rec o ((name, d) :: fs) h =
      ((name, (fieldVal rec o d h).1) :: (buildFields rec o fs (fieldVal rec o d h).2).1,
       (buildFields rec o fs (fieldVal rec o d h).2).2) := by
  cases d <;> simp [buildFields, fieldVal]

theorem fieldVal_fresh {o : Owner} {rec : Nat → Heap → HVal × Heap} (hr : ∀ s, Allocates o (rec s))
    (d : FieldDecl) (hd : ∀ disc dv, d = .leaf disc dv → disc = .deep ∨ dv.isRef = false) : Allocates o (fieldVal rec o d) := by
  intro h
  cases d with
  | leaf disc dv => exact storeDefault_fresh o disc dv (hd disc dv rfl) h
  | sub s => exact hr s h
  | cfgList s =>
    simp only [fieldVal]
    exact fresh_alloc_ref (Fresh.refl o h) (.list []) (KidsOK.nil h h)

theorem buildFields_fresh {o : Owner} {rec : Nat → Heap → HVal × Heap} (hr : ∀ s, Allocates o (rec s)) :
    ∀ (fs : List (String × FieldDecl)) (h : Heap), FieldsDeep fs →
      Fresh o h (buildFields rec o fs h).2 ∧
      KidsOK h (buildFields rec o fs h).2 ((buildFields rec o fs h).1.map (·.2))
  | [], h, _ => ⟨Fresh.refl o h, KidsOK.nil h h⟩
  | (name, d) :: fs, h, hd => by
    have i1 := fieldVal_fresh hr d (fun disc dv e => hd name disc dv (by rw [e]; exact List.mem_cons_self)) h
    have i2 := buildFields_fresh hr fs (fieldVal rec o d h).2 hd.tail
    rw [buildFields_cons]
    simp only [List.map_cons]
    exact ⟨i1.1.trans i2.1, KidsOK.cons i1.1 i1.2 i2.1 i2.2⟩

theorem buildCfg_fresh {S : Schemas} (hS : AllDeep S) (o : Owner) : ∀ (n k : Nat), Allocates o (buildCfg S o n k)
  | 0, k => fun h => ⟨Fresh.refl o h, KidsOK.nonref h h rfl⟩
  | n + 1, k => by
    intro h
    simp only [buildCfg]
    cases e : S[k]? with
    | none => exact ⟨Fresh.refl o h, KidsOK.nonref h h rfl⟩
    | some sd =>
      have ih := buildFields_fresh (rec := fun s h' => buildCfg S o n s h') (fun s => buildCfg_fresh hS o n s) sd.fields h (hS.fields e)
      exact fresh_alloc_ref ih.1 (.cfg k _ []) ih.2

/-! ### D. the shape of a step: allocate for `cfg i`, then at most one write to a `cfg i` cell -/

theorem Heap.get?_of_lt {h : Heap} {a : Nat} (ha : a < h.next) : ∃ p, h.get? a = some p := by
  simp only [Heap.get?, Heap.next] at *
  exact ⟨h.cells[a], List.getElem?_eq_getElem ha⟩

theorem OwnedBy.nonref {h : Heap} {o : Owner} {v : HVal} (hv : v.isRef = false) : OwnedBy h o v := by
  cases v <;> simp [OwnedBy, HVal.isRef] at *

theorem OwnedBy.lt {h : Heap} {o : Owner} {v : HVal} (ov : OwnedBy h o v) : ∀ b, v = .ref b → b < h.next := by
  intro b hb; subst hb
  obtain ⟨c, e⟩ := ov
  exact Heap.get?_lt e

theorem Fresh.ownedBy {o o' : Owner} {h h' : Heap} (f : Fresh o h h') {v : HVal} (p : OwnedBy h o' v) : OwnedBy h' o' v := by
  cases v with
  | ref b => obtain ⟨c, e⟩ := p; exact ⟨c, f.get?_of e⟩
  | atom _ => trivial
  | null => trivial

theorem Fresh.ownedBy_new {o : Owner} {h h' : Heap} (f : Fresh o h h') {v : HVal} (p : NewBelow h.next h'.next v) : OwnedBy h' o v := by
  cases v with
  | ref b =>
    obtain ⟨⟨o', c⟩, e⟩ := Heap.get?_of_lt p.2
    have := f.owner_new p.1 e
    subst this
    exact ⟨c, e⟩
  | atom _ => trivial
  | null => trivial

theorem Fresh.closed {o : Owner} {h h' : Heap} (f : Fresh o h h') (hc : Closed h) : Closed h' := by
  intro a o' c e v hv
  by_cases ha : a < h.next
  · rw [f.get?_old ha] at e
    exact f.ownedBy (hc a o' c e v hv)
  · have hle := Nat.le_of_not_lt ha
    have ho := f.owner_new hle e
    subst ho
    have nb := f.ord a _ c hle e v hv
    exact f.ownedBy_new (nb.mono (Nat.le_refl _) (Nat.le_of_lt (Heap.get?_lt e)))

theorem Fresh.noShare {o : Owner} {h h' : Heap} (f : Fresh o h h') (hc : Closed h) (ns : NoShare h) : NoShare h' := by
  refine ⟨?_, ?_⟩
  · intro a o' c e
    by_cases ha : a < h.next
    · rw [f.get?_old ha] at e; exact ns.nodup a o' c e
    · exact f.nodup a o' c (Nat.le_of_not_lt ha) e
  · intro a1 o1 c1 a2 o2 c2 b e1 e2 hb1 hb2
    by_cases l1 : a1 < h.next <;> by_cases l2 : a2 < h.next
    · rw [f.get?_old l1] at e1; rw [f.get?_old l2] at e2
      exact ns.uniq a1 o1 c1 a2 o2 c2 b e1 e2 hb1 hb2
    · rw [f.get?_old l1] at e1
      have := (hc a1 o1 c1 e1 _ hb1).lt b rfl
      have := (f.ord a2 o2 c2 (Nat.le_of_not_lt l2) e2 _ hb2).1
      omega
    · rw [f.get?_old l2] at e2
      have := (hc a2 o2 c2 e2 _ hb2).lt b rfl
      have := (f.ord a1 o1 c1 (Nat.le_of_not_lt l1) e1 _ hb1).1
      omega
    · exact f.uniq a1 o1 c1 a2 o2 c2 b (Nat.le_of_not_lt l1) (Nat.le_of_not_lt l2) e1 e2 hb1 hb2

theorem ownedBy_write {h : Heap} {a : Nat} {c' : Cell} {o : Owner} {v : HVal} (p : OwnedBy h o v) : OwnedBy (h.write a c') o v := by
  cases v with
  | ref b =>
    obtain ⟨c, e⟩ := p
    simp only [OwnedBy, Heap.get?_write]
    by_cases hab : a = b
    · exact ⟨c', by simp [hab, e]⟩
    · exact ⟨c, by simp [hab, e]⟩
  | atom _ => trivial
  | null => trivial

theorem closed_write {h : Heap} {a : Nat} {o : Owner} {c c' : Cell} (hc : Closed h) (e : h.get? a = some (o, c))
    (hk : ∀ w ∈ c'.kids, OwnedBy h o w) : Closed (h.write a c') := by
  intro b o' cb eb v hv
  rw [Heap.get?_write] at eb
  by_cases hab : a = b
  · subst hab
    simp [e] at eb
    rw [← eb.1]; rw [← eb.2] at hv
    exact ownedBy_write (hk v hv)
  · simp [hab] at eb
    exact ownedBy_write (hc b o' cb eb v hv)

/-- `Shape T i h h'`: `h'` is `h` after an allocation phase for owner `cfg i` that yields the value `v`, followed by at most one
    write to a cell `a` owned by `cfg i` (with `T a`), whose new content keeps old items or adds `v`, never duplicating one -/
inductive Shape (T : Nat → Prop) (i : Nat) (h h' : Heap) : Prop where
  | allocOnly : Fresh (.cfg i) h h' → Shape T i h h'
  | write (h1 : Heap) (a : Nat) (c c' : Cell) (v : HVal) :
      Fresh (.cfg i) h h1 → h.get? a = some (.cfg i, c) → KidsOK h h1 [v] →
      (∀ w ∈ c'.kids, w ∈ c.kids ∨ w = v) →
      ((refsOf c.kids).Nodup → (∀ b, v = .ref b → b ∉ refsOf c.kids) → (refsOf c'.kids).Nodup) →
      T a → h' = h1.write a c' → Shape T i h h'

theorem Shape.refl (T : Nat → Prop) (i : Nat) (h : Heap) : Shape T i h h := .allocOnly (Fresh.refl _ h)

theorem Shape.weaken {T T' : Nat → Prop} {i : Nat} {h h' : Heap} (sh : Shape T i h h') (w : ∀ a, T a → T' a) : Shape T' i h h' := by
  cases sh with
  | allocOnly f => exact .allocOnly f
  | write h1 a c c' v f e kv hk hn ht eq => exact .write h1 a c c' v f e kv hk hn (w a ht) eq

section
variable {T : Nat → Prop}

theorem Shape.closed {i : Nat} {h h' : Heap} (sh : Shape T i h h') (hc : Closed h) : Closed h' := by
  cases sh with
  | allocOnly f => exact f.closed hc
  | write h1 a c c' v f e kv hk _ _ eq =>
    subst eq
    refine closed_write (f.closed hc) (f.get?_of e) ?_
    intro w hw
    rcases hk w hw with hw | hw
    · exact f.ownedBy (hc a _ c e w hw)
    · subst hw; exact f.ownedBy_new kv.val

theorem Shape.noShare {i : Nat} {h h' : Heap} (sh : Shape T i h h') (hc : Closed h) (ns : NoShare h) : NoShare h' := by
  cases sh with
  | allocOnly f => exact f.noShare hc ns
  | write h1 a c c' v f e kv hk hn _ eq =>
    subst eq
    have ns1 := f.noShare hc ns
    have e1 := f.get?_of e
    have nbv := kv.val
    -- a kid of an old cell is an old cell
    have oldkid : ∀ x o cx b, x < h.next → h1.get? x = some (o, cx) → HVal.ref b ∈ cx.kids → b < h.next := by
      intro x o cx b hx ex hb
      rw [f.get?_old hx] at ex
      exact (hc x o cx ex _ hb).lt b rfl
    have vnotin : ∀ b, v = .ref b → b ∉ refsOf c.kids := by
      intro b hb hm
      subst hb
      have := oldkid a _ c b (Heap.get?_lt e) e1 (mem_refsOf.mp hm)
      have := nbv.1; omega
    -- the value `v` is referenced by no cell of `h1`
    have vunref : ∀ b, v = .ref b → ∀ x o cx, h1.get? x = some (o, cx) → HVal.ref b ∉ cx.kids := by
      intro b hb x o cx ex hm
      by_cases hx : x < h.next
      · have := oldkid x o cx b hx ex hm
        subst hb; have := nbv.1; omega
      · exact kv.unref v (by simp) b hb x o cx (Nat.le_of_not_lt hx) ex hm
    refine ⟨?_, ?_⟩
    · intro x o cx ex
      rw [Heap.get?_write] at ex
      by_cases hax : a = x
      · subst hax
        simp [e1] at ex
        rw [← ex.2]
        exact hn (ns1.nodup a _ c e1) vnotin
      · simp [hax] at ex
        exact ns1.nodup x o cx ex
    · intro x1 o1 c1 x2 o2 c2 b ex1 ex2 hb1 hb2
      rw [Heap.get?_write] at ex1 ex2
      by_cases h1a : a = x1 <;> by_cases h2a : a = x2
      · omega
      · subst h1a
        simp [e1] at ex1; simp [h2a] at ex2
        rw [← ex1.2] at hb1
        rcases hk _ hb1 with hb1 | hb1
        · exact ns1.uniq a _ c x2 o2 c2 b e1 ex2 hb1 hb2
        · exact absurd hb2 (vunref b hb1.symm x2 o2 c2 ex2)
      · subst h2a
        simp [e1] at ex2; simp [h1a] at ex1
        rw [← ex2.2] at hb2
        rcases hk _ hb2 with hb2 | hb2
        · exact ns1.uniq x1 o1 c1 a _ c b ex1 e1 hb1 hb2
        · exact absurd hb1 (vunref b hb2.symm x1 o1 c1 ex1)
      · simp [h1a] at ex1; simp [h2a] at ex2
        exact ns1.uniq x1 o1 c1 x2 o2 c2 b ex1 ex2 hb1 hb2

/-- cells not owned by `cfg i` are untouched -/
theorem Shape.frame {i : Nat} {h h' : Heap} (sh : Shape T i h h') {a : Nat} {o : Owner} {c : Cell}
    (e : h.get? a = some (o, c)) (ho : o ≠ .cfg i) : h'.get? a = some (o, c) := by
  cases sh with
  | allocOnly f => exact f.get?_of e
  | write h1 a' c0 c' v f e0 _ _ _ _ eq =>
    subst eq
    rw [Heap.get?_write]
    by_cases hab : a' = a
    · subst hab; rw [e0] at e; simp at e; exact absurd e.1.symm ho
    · simp [hab]; exact f.get?_of e

/-- cells other than the written one are untouched -/
theorem Shape.frame_addr {i : Nat} {h h' : Heap} (sh : Shape T i h h') {x : Nat} {o : Owner} {c : Cell}
    (e : h.get? x = some (o, c)) (hx : ¬ T x) : h'.get? x = some (o, c) := by
  cases sh with
  | allocOnly f => exact f.get?_of e
  | write h1 a' c0 c' v f e0 _ _ _ ht eq =>
    subst eq
    rw [Heap.get?_write]
    by_cases hab : a' = x
    · subst hab; exact absurd ht hx
    · simp [hab]; exact f.get?_of e

/-- no cell changes owner -/
theorem Shape.owner {i : Nat} {h h' : Heap} (sh : Shape T i h h') {a : Nat} {o : Owner} {c : Cell}
    (e : h.get? a = some (o, c)) : ∃ c', h'.get? a = some (o, c') := by
  cases sh with
  | allocOnly f => exact ⟨c, f.get?_of e⟩
  | write h1 a' c0 c' v f e0 _ _ _ _ eq =>
    subst eq
    rw [Heap.get?_write]
    by_cases hab : a' = a
    · exact ⟨c', by simp [hab, f.get?_of e]⟩
    · exact ⟨c, by simp [hab, f.get?_of e]⟩

theorem Shape.next_le {i : Nat} {h h' : Heap} (sh : Shape T i h h') : h.next ≤ h'.next := by
  cases sh with
  | allocOnly f => exact f.next_le
  | write h1 a' c0 c' v f e0 _ _ _ _ eq => subst eq; simpa using f.next_le

theorem Shape.owner_new {i : Nat} {h h' : Heap} (sh : Shape T i h h') {a : Nat} {o : Owner} {c : Cell}
    (ha : h.next ≤ a) (e : h'.get? a = some (o, c)) : o = .cfg i := by
  cases sh with
  | allocOnly f => exact f.owner_new ha e
  | write h1 a' c0 c' v f e0 _ _ _ _ eq =>
    subst eq
    rw [Heap.get?_write] at e
    have hne : a' ≠ a := by have := Heap.get?_lt e0; omega
    simp [hne] at e
    exact f.owner_new ha e

theorem Shape.ext {i : Nat} {h h' : Heap} (sh : Shape T i h h') : Ext i h h' where
  next_le := sh.next_le
  owner := by
    intro a ha
    obtain ⟨⟨o, c⟩, e⟩ := Heap.get?_of_lt ha
    obtain ⟨c', e'⟩ := sh.owner e
    simp [Heap.owner?, e, e']
  frame := fun a o c e ho => sh.frame e ho
  fresh := fun a o c ha e => sh.owner_new ha e

theorem Shape.ownedBy {i : Nat} {h h' : Heap} (sh : Shape T i h h') {o : Owner} {v : HVal} (p : OwnedBy h o v) : OwnedBy h' o v := by
  cases v with
  | ref b => obtain ⟨c, e⟩ := p; exact sh.owner e
  | atom _ => trivial
  | null => trivial

theorem Shape.ordered {i : Nat} {h h' : Heap} (sh : Shape T i h h') (ho : SchemaOrdered h) : SchemaOrdered h' := by
  intro a c e
  by_cases ha : a < h.next
  · obtain ⟨⟨o, c0⟩, e0⟩ := Heap.get?_of_lt ha
    obtain ⟨c1, e1⟩ := sh.owner e0
    rw [e1] at e; simp at e
    obtain ⟨rfl, _⟩ := e
    have := sh.frame e0 (by simp)
    rw [this] at e1; simp at e1; subst e1
    rename_i hcc; subst hcc
    exact ho a c0 e0
  · have := sh.owner_new (Nat.le_of_not_lt ha) e
    simp at this

end

/-! ### E. navigation stays inside the owner's region; every operation has the step shape -/

theorem lookup_mem {α : Type} {k : String} {v : α} : ∀ {l : List (String × α)}, lookup k l = some v → v ∈ l.map (·.2)
  | [], e => by simp [lookup] at e
  | (k', v') :: r, e => by
    simp only [lookup] at e
    split at e
    · simp at e; simp [e]
    · simp [lookup_mem e]

theorem put_mem {α : Type} {k : String} {v w : α} : ∀ {l : List (String × α)}, w ∈ (put k v l).map (·.2) → w ∈ l.map (·.2) ∨ w = v
  | [], e => by simp [put] at e; exact Or.inr e
  | (k', v') :: r, e => by
    simp only [put] at e
    split at e
    · simp at e; rcases e with e | e
      · exact Or.inr e
      · exact Or.inl (by simp; exact Or.inr e)
    · simp at e; rcases e with e | e
      · exact Or.inl (by simp [e])
      · rcases put_mem (l := r) (by simpa using e) with h | h
        · exact Or.inl (by simp at h ⊢; exact Or.inr h)
        · exact Or.inr h

theorem navCfg_owned {h : Heap} {o : Owner} (hc : Closed h) : ∀ (path : List PStep) (c : Nat) (cc : Cell) (t : Nat),
    h.get? c = some (o, cc) → navCfg h c path = .ok t → ∃ k sl dy, h.get? t = some (o, .cfg k sl dy)
  | [], c, cc, t, e, hn => by
    simp only [navCfg, Heap.cell?_eq e] at hn
    cases cc with
    | cfg k sl dy => simp at hn; subst hn; exact ⟨k, sl, dy, e⟩
    | list _ => simp at hn
    | dict _ => simp at hn
  | .fld name :: rest, c, cc, t, e, hn => by
    simp only [navCfg, Heap.cell?_eq e] at hn
    cases cc with
    | cfg k sl dy =>
      simp only at hn
      cases hl : lookup name sl with
      | none => simp [hl] at hn
      | some v =>
        cases v with
        | ref b =>
          simp only [hl] at hn
          have hm : HVal.ref b ∈ (Cell.cfg k sl dy).kids := lookup_mem hl
          obtain ⟨cb, eb⟩ := hc c o _ e _ hm
          exact navCfg_owned hc rest b cb t eb hn
        | atom _ => simp [hl] at hn
        | null => simp [hl] at hn
    | list _ => simp at hn
    | dict _ => simp at hn
  | .item name n :: rest, c, cc, t, e, hn => by
    simp only [navCfg, Heap.cell?_eq e] at hn
    cases cc with
    | cfg k sl dy =>
      simp only at hn
      cases hl : lookup name sl with
      | none => simp [hl] at hn
      | some v =>
        cases v with
        | ref l =>
          simp only [hl] at hn
          have hm : HVal.ref l ∈ (Cell.cfg k sl dy).kids := lookup_mem hl
          obtain ⟨cl, el⟩ := hc c o _ e _ hm
          simp only [Heap.cell?_eq el] at hn
          cases cl with
          | list items =>
            simp only at hn
            cases hi : items[n]? with
            | none => simp [hi] at hn
            | some w =>
              cases w with
              | ref b =>
                simp only [hi] at hn
                have hm2 : HVal.ref b ∈ (Cell.list items).kids := List.mem_of_getElem? hi
                obtain ⟨cb, eb⟩ := hc l o _ el _ hm2
                exact navCfg_owned hc rest b cb t eb hn
              | atom _ => simp [hi] at hn
              | null => simp [hi] at hn
          | dict _ => simp at hn
          | cfg _ _ _ => simp at hn
        | atom _ => simp [hl] at hn
        | null => simp [hl] at hn
    | list _ => simp at hn
    | dict _ => simp at hn

theorem navVal_owned {h : Heap} {o : Owner} (hc : Closed h) : ∀ (steps : List VStep) (v : HVal) (t : Nat),
    OwnedBy h o v → navVal h v steps = .ok t → ∃ c, h.get? t = some (o, c)
  | [], v, t, ov, hn => by
    cases v with
    | ref a => simp [navVal] at hn; subst hn; exact ov
    | atom _ => simp [navVal] at hn
    | null => simp [navVal] at hn
  | .idx n :: rest, v, t, ov, hn => by
    cases v with
    | ref a =>
      obtain ⟨ca, ea⟩ := ov
      simp only [navVal, Heap.cell?_eq ea] at hn
      cases ca with
      | list items =>
        simp only at hn
        cases hi : items[n]? with
        | none => simp [hi] at hn
        | some w =>
          simp only [hi] at hn
          have hm : w ∈ (Cell.list items).kids := List.mem_of_getElem? hi
          exact navVal_owned hc rest w t (hc a o _ ea w hm) hn
      | dict _ => simp at hn
      | cfg _ _ _ => simp at hn
    | atom _ => simp [navVal] at hn
    | null => simp [navVal] at hn
  | .key k :: rest, v, t, ov, hn => by
    cases v with
    | ref a =>
      obtain ⟨ca, ea⟩ := ov
      simp only [navVal, Heap.cell?_eq ea] at hn
      cases ca with
      | dict kvs =>
        simp only at hn
        cases hi : lookup k kvs with
        | none => simp [hi] at hn
        | some w =>
          simp only [hi] at hn
          have hm : w ∈ (Cell.dict kvs).kids := lookup_mem hi
          exact navVal_owned hc rest w t (hc a o _ ea w hm) hn
      | list _ => simp at hn
      | cfg _ _ _ => simp at hn
    | atom _ => simp [navVal] at hn
    | null => simp [navVal] at hn


theorem refsOf_eq_filterMap (vs : List HVal) :
    refsOf vs = vs.filterMap (fun v => match v with | .ref b => some b | _ => none) := by
  induction vs with
  | nil => rfl
  | cons v vs ih => cases v <;> simp [refsOf, ih]

theorem refsOf_sublist {l1 l2 : List HVal} (s : l1.Sublist l2) : (refsOf l1).Sublist (refsOf l2) := by
  rw [refsOf_eq_filterMap, refsOf_eq_filterMap]; exact s.filterMap _

theorem refsOf_cons_nodup {w : HVal} {vs : List HVal} :
    (refsOf (w :: vs)).Nodup ↔ (∀ b, w = .ref b → b ∉ refsOf vs) ∧ (refsOf vs).Nodup := by
  cases w <;> simp [refsOf]

theorem nodup_append_val {vs : List HVal} {v : HVal} (hn : (refsOf vs).Nodup) (hv : ∀ b, v = .ref b → b ∉ refsOf vs) :
    (refsOf (vs ++ [v])).Nodup := by
  rw [refsOf_append]
  cases v with
  | ref b =>
    simp only [refsOf]
    rw [List.nodup_append]
    refine ⟨hn, by simp, ?_⟩
    intro x hx y hy
    simp at hy; subst hy
    intro hxy; subst hxy
    exact hv x rfl hx
  | atom s => simpa [refsOf] using hn
  | null => simpa [refsOf] using hn

theorem nodup_put {k : String} {v : HVal} : ∀ {l : Slots}, (refsOf (l.map (·.2))).Nodup →
    (∀ b, v = .ref b → b ∉ refsOf (l.map (·.2))) → (refsOf ((put k v l).map (·.2))).Nodup
  | [], _, _ => by cases v <;> simp [put, refsOf]
  | (k', v') :: r, hn, hv => by
    simp only [List.map_cons] at hn hv
    rw [refsOf_cons_nodup] at hn
    have hvr : ∀ b, v = .ref b → b ∉ refsOf (r.map (·.2)) := by
      intro b hb hm
      exact hv b hb (by cases v' <;> simp [refsOf, hm])
    simp only [put]
    split
    · simp only [List.map_cons]
      rw [refsOf_cons_nodup]
      exact ⟨hvr, hn.2⟩
    · simp only [List.map_cons]
      rw [refsOf_cons_nodup]
      refine ⟨?_, nodup_put hn.2 hvr⟩
      intro b hb hm
      rcases put_mem (mem_refsOf.mp hm) with hm' | hm'
      · exact hn.1 b hb (mem_refsOf.mpr hm')
      · subst hb
        exact hv b hm'.symm (by simp [refsOf])

theorem shape_of_alloc_write {T : Nat → Prop} {i : Nat} {h : Heap} {f : Heap → HVal × Heap} (hf : Allocates (.cfg i) f)
    {a : Nat} {c c' : Cell} (e : h.get? a = some (.cfg i, c)) (hk : ∀ w ∈ c'.kids, w ∈ c.kids ∨ w = (f h).1)
    (hn : (refsOf c.kids).Nodup → (∀ b, (f h).1 = .ref b → b ∉ refsOf c.kids) → (refsOf c'.kids).Nodup) (ht : T a) :
    Shape T i h ((f h).2.write a c') :=
  .write (f h).2 a c c' (f h).1 (hf h).1 e (hf h).2 hk hn ht rfl

theorem shape_of_write {T : Nat → Prop} {i : Nat} {h : Heap} {a : Nat} {c c' : Cell} (e : h.get? a = some (.cfg i, c))
    (hk : ∀ w ∈ c'.kids, w ∈ c.kids) (hn : (refsOf c.kids).Nodup → (refsOf c'.kids).Nodup) (ht : T a) :
    Shape T i h (h.write a c') :=
  .write h a c c' .null (Fresh.refl _ h) e (KidsOK.nonref h h rfl) (fun w hw => Or.inl (hk w hw)) (fun h1 _ => hn h1) ht rfl

theorem applyHow_shape {T : Nat → Prop} {i : Nat} {h h' : Heap} {a : Nat} {c : Cell} (e : h.get? a = some (.cfg i, c)) (how : How)
    (ht : c.isCfg = false → T a) (hr : applyHow (.cfg i) h a how = .ok h') : Shape T i h h' := by
  cases how with
  | append t =>
    simp only [applyHow, Heap.cell?_eq e] at hr
    cases c with
    | list items =>
      simp at hr; subst hr
      exact shape_of_alloc_write (allocT_allocates _ t) e (by simp [Cell.kids]) (fun h1 h2 => nodup_append_val h1 h2) (ht rfl)
    | dict _ => simp at hr
    | cfg _ _ _ => simp at hr
  | setKey k t =>
    simp only [applyHow, Heap.cell?_eq e] at hr
    cases c with
    | dict kvs =>
      simp at hr; subst hr
      exact shape_of_alloc_write (allocT_allocates _ t) e (fun w hw => put_mem hw) (fun h1 h2 => nodup_put h1 h2) (ht rfl)
    | list _ => simp at hr
    | cfg _ _ _ => simp at hr
  | clear =>
    simp only [applyHow, Heap.cell?_eq e] at hr
    cases c with
    | list items => simp at hr; subst hr; exact shape_of_write e (by simp [Cell.kids]) (by simp [Cell.kids, refsOf]) (ht rfl)
    | dict kvs => simp at hr; subst hr; exact shape_of_write e (by simp [Cell.kids]) (by simp [Cell.kids, refsOf]) (ht rfl)
    | cfg _ _ _ => simp at hr
  | pop =>
    simp only [applyHow, Heap.cell?_eq e] at hr
    cases c with
    | list items =>
      simp only at hr
      split at hr
      · simp at hr
      · simp at hr; subst hr
        exact shape_of_write e (fun w hw => (List.dropLast_sublist _).subset hw)
          (fun hn => (refsOf_sublist (List.dropLast_sublist _)).nodup hn) (ht rfl)
    | dict _ => simp at hr
    | cfg _ _ _ => simp at hr

theorem declOf_deep {S : Schemas} (hS : AllDeep S) {k : Nat} {key : String} {disc : Disc} {dv : HVal}
    (e : declOf S k key = some (.leaf disc dv)) : disc = .deep ∨ dv.isRef = false := by
  simp only [declOf] at e
  cases hk : S[k]? with
  | none => simp [hk] at e
  | some sd =>
    simp only [hk] at e
    have hm : FieldDecl.leaf disc dv ∈ sd.fields.map (·.2) := lookup_mem e
    obtain ⟨⟨name, d⟩, hm1, hm2⟩ := List.mem_map.mp hm
    simp at hm2; subst hm2
    exact hS.fields hk name disc dv hm1

theorem execOp_shape {S : Schemas} (hS : AllDeep S) {i : Nat} {h h' : Heap} (hc : Closed h) {c : Nat} {cc : Cell}
    (e : h.get? c = some (.cfg i, cc)) (op : Op) (hr : execOp S (.cfg i) h c op = .ok h') : Shape (Target h c) i h h' := by
  cases op with
  | build => simp [execOp] at hr
  | set path key t =>
    simp only [execOp, Heap.cell?_eq e] at hr
    cases cc with
    | cfg k sl dy =>
      simp only at hr
      cases hd : declOf S k key with
      | none =>
        simp only [hd] at hr
        split at hr
        · simp at hr; subst hr
          exact shape_of_alloc_write (allocT_allocates _ t) e (fun w hw => put_mem (by simpa [Cell.kids] using hw))
            (fun h1 h2 => nodup_put h1 h2) (Or.inl rfl)
        · simp at hr
      | some d =>
        cases d with
        | leaf disc dv =>
          simp [hd] at hr; subst hr
          exact shape_of_alloc_write (allocT_allocates _ t) e (fun w hw => put_mem (by simpa [Cell.kids] using hw))
            (fun h1 h2 => nodup_put h1 h2) (Or.inl rfl)
        | sub _ => simp [hd] at hr
        | cfgList _ => simp [hd] at hr
    | list _ => simp at hr
    | dict _ => simp at hr
  | «mut» path key steps how =>
    simp only [execOp, Heap.cell?_eq e] at hr
    cases cc with
    | cfg k sl dy =>
      simp only at hr
      cases hl : lookup key sl with
      | none => simp [hl] at hr
      | some v =>
        simp only [hl] at hr
        cases hn : navVal h v steps with
        | error er => simp [hn] at hr
        | ok a =>
          simp only [hn] at hr
          have hm : v ∈ (Cell.cfg k sl dy).kids := lookup_mem hl
          obtain ⟨ca, ea⟩ := navVal_owned hc steps v a (hc c _ _ e v hm) hn
          exact applyHow_shape ea how
            (fun hcfg => Or.inr ⟨k, sl, dy, key, v, steps, ca, Heap.cell?_eq e, hl, hn, Heap.cell?_eq ea, hcfg⟩) hr
    | list _ => simp at hr
    | dict _ => simp at hr
  | reset path key =>
    simp only [execOp, Heap.cell?_eq e] at hr
    cases cc with
    | cfg k sl dy =>
      simp only at hr
      cases hd : declOf S k key with
      | none => simp [hd] at hr
      | some d =>
        cases d with
        | leaf disc dv =>
          simp [hd] at hr; subst hr
          exact shape_of_alloc_write (storeDefault_fresh _ disc dv (declOf_deep hS hd)) e
            (fun w hw => put_mem (by simpa [Cell.kids] using hw)) (fun h1 h2 => nodup_put h1 h2) (Or.inl rfl)
        | sub _ => simp [hd] at hr
        | cfgList _ => simp [hd] at hr
    | list _ => simp at hr
    | dict _ => simp at hr
  | addItem path key =>
    simp only [execOp, Heap.cell?_eq e] at hr
    cases cc with
    | cfg k sl dy =>
      simp only at hr
      cases hd : declOf S k key with
      | none => simp [hd] at hr
      | some d =>
        cases d with
        | cfgList s2 =>
          simp only [hd] at hr
          cases hl : lookup key sl with
          | none => simp [hl] at hr
          | some v =>
            cases v with
            | ref l =>
              simp only [hl] at hr
              have hm : HVal.ref l ∈ (Cell.cfg k sl dy).kids := lookup_mem hl
              obtain ⟨cl, el⟩ := hc c _ _ e _ hm
              simp only [Heap.cell?_eq el] at hr
              cases cl with
              | list items =>
                simp at hr; subst hr
                exact shape_of_alloc_write (buildCfg_fresh hS _ (buildFuel S) s2) el (by simp [Cell.kids])
                  (fun h1 h2 => nodup_append_val h1 h2)
                  (Or.inr ⟨k, sl, dy, key, .ref l, [], .list items, Heap.cell?_eq e, hl, by simp [navVal], Heap.cell?_eq el, rfl⟩)
              | dict _ => simp at hr
              | cfg _ _ _ => simp at hr
            | atom _ => simp [hl] at hr
            | null => simp [hl] at hr
        | leaf _ _ => simp [hd] at hr
        | sub _ => simp [hd] at hr
    | list _ => simp at hr
    | dict _ => simp at hr

/-! ### F. `step` preserves `Sep` -/

inductive StepRes (S : Schemas) (s : State) (i : Nat) (op : Op) (s' : State) : Prop where
  | same : s' = s → StepRes S s i op s'
  | built (a : Nat) : op = .build → i = s.roots.length → (buildCfg S (.cfg i) (buildFuel S) 0 s.heap).1 = .ref a →
      s' = { heap := (buildCfg S (.cfg i) (buildFuel S) 0 s.heap).2, roots := s.roots ++ [a] } → StepRes S s i op s'
  | exec (r c : Nat) (h' : Heap) : s.roots[i]? = some r → navCfg s.heap r op.path = .ok c →
      execOp S (.cfg i) s.heap c op = .ok h' → s' = { s with heap := h' } → StepRes S s i op s'

theorem step_exec_res (S : Schemas) (s : State) (i : Nat) (op : Op) :
    StepRes S s i op
      (match s.roots[i]? with
        | none => (s, Outcome.nocfg)
        | some r =>
          match navCfg s.heap r op.path with
          | .error e => (s, e)
          | .ok c =>
            match execOp S (.cfg i) s.heap c op with
            | .ok h' => ({ s with heap := h' }, Outcome.ok)
            | .error e => (s, e)).1 := by
  cases hr : s.roots[i]? with
  | none => exact .same rfl
  | some r =>
    simp only
    cases hn : navCfg s.heap r op.path with
    | error e => exact .same rfl
    | ok c =>
      simp only
      cases hx : execOp S (.cfg i) s.heap c op with
      | error e => exact .same rfl
      | ok h' => exact .exec r c h' hr hn hx rfl

theorem step_res (S : Schemas) (s : State) (i : Nat) (op : Op) : StepRes S s i op (step S s i op).1 := by
  cases op with
  | build =>
    simp only [step]
    split
    · rename_i hi
      split
      · rename_i a ha
        exact .built a rfl hi ha rfl
      · exact .same rfl
    · exact .same rfl
  | set p k t => exact step_exec_res S s i _
  | «mut» p k st how => exact step_exec_res S s i _
  | reset p k => exact step_exec_res S s i _
  | addItem p k => exact step_exec_res S s i _

/-- the cells a step on root `i` may write: the targets of the configuration cell its path leads to -/
def StepTarget (s : State) (i : Nat) (op : Op) (a : Nat) : Prop :=
  ∃ r C, s.roots[i]? = some r ∧ navCfg s.heap r op.path = .ok C ∧ Target s.heap C a

theorem step_shape {S : Schemas} (hS : AllDeep S) {s : State} (hs : Sep S s) (i : Nat) (op : Op) :
    Shape (StepTarget s i op) i s.heap (step S s i op).1.heap := by
  cases step_res S s i op with
  | same e => rw [e]; exact Shape.refl _ i _
  | built a _ _ _ e => rw [e]; exact .allocOnly (buildCfg_fresh hS _ _ _ _).1
  | exec r c h' hr hn hx e =>
    rw [e]
    obtain ⟨cr, er⟩ := hs.roots i r hr
    obtain ⟨k, sl, dy, ec⟩ := navCfg_owned hs.closed _ r cr c er hn
    exact (execOp_shape hS hs.closed ec op hx).weaken (fun a ha => ⟨r, c, hr, hn, ha⟩)

theorem step_sep {S : Schemas} (hS : AllDeep S) {s : State} (hs : Sep S s) (i : Nat) (op : Op) :
    Sep S (step S s i op).1 := by
  have sh := step_shape hS hs i op
  refine ⟨sh.closed hs.closed, ?_, fun sd hsd p hp => sh.ownedBy (hs.defaults sd hsd p hp), sh.ordered hs.ordered⟩
  intro k r hk
  cases step_res S s i op with
  | same e => rw [e] at hk ⊢; exact hs.roots k r hk
  | exec r0 c h' hr hn hx e =>
    have hroots : (step S s i op).1.roots = s.roots := by rw [e]
    rw [hroots] at hk
    obtain ⟨c0, e0⟩ := hs.roots k r hk
    exact sh.owner e0
  | built a hop hi ha e =>
    have hroots : (step S s i op).1.roots = s.roots ++ [a] := by rw [e]
    rw [hroots] at hk
    by_cases hlt : k < s.roots.length
    · rw [List.getElem?_append_left hlt] at hk
      obtain ⟨c0, e0⟩ := hs.roots k r hk
      exact sh.owner e0
    · have hle := Nat.le_of_not_lt hlt
      rw [List.getElem?_append_right hle] at hk
      have hk0 : k - s.roots.length = 0 := by
        cases hkk : k - s.roots.length with
        | zero => rfl
        | succ m => rw [hkk] at hk; simp at hk
      rw [hk0] at hk; simp at hk; subst hk
      have hki : k = i := by omega
      subst hki
      have fr := buildCfg_fresh hS (.cfg k) (buildFuel S) 0 s.heap
      rw [ha] at fr
      have hheap : (step S s k op).1.heap = (buildCfg S (.cfg k) (buildFuel S) 0 s.heap).2 := by rw [e]
      rw [hheap]
      obtain ⟨⟨o', c'⟩, e'⟩ := Heap.get?_of_lt fr.2.val.2
      have := fr.1.owner_new fr.2.val.1 e'
      subst this
      exact ⟨c', e'⟩

theorem run_sep {S : Schemas} (hS : AllDeep S) : ∀ (hist : List (Nat × Op)) {s : State}, Sep S s → Sep S (run S s hist)
  | [], _, hs => hs
  | (i, op) :: rest, _, hs => run_sep hS rest (step_sep hS hs i op)


/-! ### G. an observation depends only on the cells of its owner -/

theorem readV_ref_succ (n : Nat) (h : Heap) (a : Nat) {o : Owner} {c : Cell} (e : h.get? a = some (o, c)) :
    readV (n + 1) h (.ref a) =
      match c with
      | .list items => .list (items.map (fun v => readV n h v))
      | .dict kvs => .dict (kvs.map (fun p => (p.1, readV n h p.2)))
      | .cfg _ slots _ => .dict (slots.map (fun p => (p.1, readV n h p.2))) := by
  simp only [readV, Heap.cell?_eq e]
  cases c <;> rfl

/-- two heaps that agree on a family of cells closed under references read the same from any value inside the family -/
theorem read_agree {h h' : Heap} (P : Nat → Prop)
    (agree : ∀ a, P a → ∃ o c, h.get? a = some (o, c) ∧ h'.get? a = some (o, c) ∧ ∀ b, HVal.ref b ∈ c.kids → P b) :
    ∀ (n : Nat) (v : HVal), (∀ b, v = .ref b → P b) → readV n h' v = readV n h v
  | _, .null, _ => by simp [readV]
  | _, .atom s, _ => by simp [readV]
  | 0, .ref a, _ => by simp [readV]
  | n + 1, .ref a, hv => by
    obtain ⟨o, c, e, e', hk⟩ := agree a (hv a rfl)
    rw [readV_ref_succ n h a e, readV_ref_succ n h' a e']
    have ih := read_agree P agree n
    cases c with
    | list items =>
      simp only [Tree.list.injEq]
      apply List.map_congr_left
      intro v hm
      exact ih v (fun b hb => hk b (by subst hb; exact hm))
    | dict kvs =>
      simp only [Tree.dict.injEq]
      apply List.map_congr_left
      intro p hm
      rw [ih p.2 (fun b hb => hk b (by rw [← hb]; exact List.mem_map_of_mem hm))]
    | cfg k sl dy =>
      simp only [Tree.dict.injEq]
      apply List.map_congr_left
      intro p hm
      rw [ih p.2 (fun b hb => hk b (by rw [← hb]; exact List.mem_map_of_mem hm))]

/-- **congruence**: the deep read of a value owned by `o` depends only on the cells owned by `o` -/
theorem read_congr {h h' : Heap} {o : Owner} (hc : Closed h)
    (agree : ∀ a c, h.get? a = some (o, c) → h'.get? a = some (o, c)) (n : Nat) (v : HVal) (ov : OwnedBy h o v) :
    readV n h' v = readV n h v := by
  refine read_agree (fun a => ∃ c, h.get? a = some (o, c)) ?_ n v ?_
  · intro a ⟨c, e⟩
    exact ⟨o, c, e, agree a c e, fun b hb => hc a o c e _ hb⟩
  · intro b hb; subst hb; exact ov

theorem Shape.read {T : Nat → Prop} {i : Nat} {h h' : Heap} (sh : Shape T i h h') (hc : Closed h) {o : Owner} (ho : o ≠ .cfg i)
    (n : Nat) (v : HVal) (ov : OwnedBy h o v) : readV n h' v = readV n h v :=
  read_congr hc (fun _ _ e => sh.frame e ho) n v ov

/-- extension never changes what is read from an already valid value -/
theorem Fresh.read {o : Owner} {h h' : Heap} (f : Fresh o h h') (hc : Closed h) (n : Nat) (v : HVal)
    (hv : ∀ b, v = .ref b → b < h.next) : readV n h' v = readV n h v := by
  refine read_agree (fun a => a < h.next) ?_ n v hv
  intro a ha
  obtain ⟨⟨o', c⟩, e⟩ := Heap.get?_of_lt ha
  refine ⟨o', c, e, f.get?_of e, ?_⟩
  intro b hb
  obtain ⟨cb, eb⟩ := hc a o' c e _ hb
  exact Heap.get?_lt eb

/-! ### H. depth bound: the built-in fuel `next + 1` is always enough -/

theorem Dep.mono {h : Heap} {v : HVal} {d : Nat} (hd : Dep h v d) : ∀ {d' : Nat}, d ≤ d' → Dep h v d' := by
  induction hd with
  | null d => intro d' _; exact .null d'
  | atom s d => intro d' _; exact .atom s d'
  | ref a o c d e _ ih =>
    intro d' hle
    cases d' with
    | zero => omega
    | succ d'' => exact .ref a o c d'' e (fun w hw => ih w hw (by omega))

theorem read_enough {h : Heap} {v : HVal} {d : Nat} (hd : Dep h v d) : ∀ (n : Nat), d ≤ n → readV n h v = readV d h v := by
  induction hd with
  | null d => intro n _; simp [readV]
  | atom s d => intro n _; simp [readV]
  | ref a o c d e _ ih =>
    intro n hle
    cases n with
    | zero => omega
    | succ n' =>
      have hn : d ≤ n' := by omega
      rw [readV_ref_succ n' h a e, readV_ref_succ d h a e]
      cases c with
      | list items =>
        simp only [Tree.list.injEq]
        exact List.map_congr_left (fun w hw => ih w hw n' hn)
      | dict kvs =>
        simp only [Tree.dict.injEq]
        apply List.map_congr_left
        intro p hm
        rw [ih p.2 (List.mem_map_of_mem hm) n' hn]
      | cfg k sl dy =>
        simp only [Tree.dict.injEq]
        apply List.map_congr_left
        intro p hm
        rw [ih p.2 (List.mem_map_of_mem hm) n' hn]

/-- cells at addresses `≥ m` only refer to cells in `[m, own address)` -/
def OrdFrom (m : Nat) (g : Heap) : Prop :=
  ∀ b o c, m ≤ b → g.get? b = some (o, c) → ∀ v ∈ c.kids, NewBelow m b v

theorem OrdFrom.dep {m : Nat} {g : Heap} (og : OrdFrom m g) : ∀ (b : Nat), m ≤ b → b < g.next → Dep g (.ref b) (b - m + 1) := by
  intro b
  induction b using Nat.strongRecOn with
  | _ b ih =>
    intro hm hb
    obtain ⟨⟨o, c⟩, e⟩ := Heap.get?_of_lt hb
    refine .ref b o c (b - m) e ?_
    intro w hw
    have nb := og b o c hm e w hw
    cases w with
    | null => exact .null _
    | atom s => exact .atom s _
    | ref x =>
      have h1 : m ≤ x := nb.1
      have h2 : x < b := nb.2
      have hx := ih x h2 h1 (by omega)
      exact hx.mono (by omega)

theorem OrdFrom.write {m : Nat} {g : Heap} (og : OrdFrom m g) {a : Nat} (ha : a < m) (c' : Cell) : OrdFrom m (g.write a c') := by
  intro b o c hm e
  rw [Heap.get?_write] at e
  have : a ≠ b := by omega
  simp [this] at e
  exact og b o c hm e

theorem Fresh.dep {o : Owner} {h h' : Heap} (f : Fresh o h h') {v : HVal} {d : Nat} (hd : Dep h v d) : Dep h' v d := by
  induction hd with
  | null d => exact .null d
  | atom s d => exact .atom s d
  | ref a o' c d e _ ih => exact .ref a o' c d (f.get?_of e) ih

theorem Fresh.bounded {o : Owner} {h h' : Heap} (f : Fresh o h h') (hb : Bounded h) : Bounded h' := by
  intro a o' c e
  by_cases ha : a < h.next
  · rw [f.get?_old ha] at e
    exact (f.dep (hb a o' c e)).mono f.next_le
  · have := OrdFrom.dep (g := h') f.ord a (Nat.le_of_not_lt ha) (Heap.get?_lt e)
    exact this.mono (by have := Heap.get?_lt e; omega)

theorem Shape.bounded {T : Nat → Prop} {i : Nat} {h h' : Heap} (sh : Shape T i h h') (hb : Bounded h) : Bounded h' := by
  cases sh with
  | allocOnly f => exact f.bounded hb
  | write h1 a c c' v f e kv hk _ _ eq =>
    subst eq
    have nb := kv.val
    have ha : a < h.next := Heap.get?_lt e
    have og : OrdFrom h.next (h1.write a c') := OrdFrom.write f.ord ha c'
    have hle := f.next_le
    -- depth of the new cells
    have hnew : ∀ b, h.next ≤ b → b < h1.next → Dep (h1.write a c') (.ref b) (h1.next - h.next) := by
      intro b h1' h2'
      exact (og.dep b h1' (by simpa using h2')).mono (by omega)
    -- old values get at most `h1.next - h.next` deeper
    have hold : ∀ (w : HVal) (d : Nat), Dep h w d → Dep (h1.write a c') w (d + (h1.next - h.next)) := by
      intro w d hd
      induction hd with
      | null d => exact .null _
      | atom s d => exact .atom s _
      | ref x o cx d ex _ ih =>
        have : d + 1 + (h1.next - h.next) = d + (h1.next - h.next) + 1 := by omega
        rw [this]
        by_cases hax : a = x
        · subst hax
          rw [e] at ex; simp at ex
          obtain ⟨rfl, rfl⟩ := ex
          refine .ref a (.cfg i) c' _ (by rw [Heap.get?_write]; simp [f.get?_of e]) ?_
          intro w hw
          rcases hk w hw with hw | hw
          · exact ih w hw
          · subst hw
            cases w with
            | null => exact .null _
            | atom s => exact .atom s _
            | ref y => exact (hnew y nb.1 nb.2).mono (by omega)
        · exact .ref x o cx _ (by rw [Heap.get?_write]; simp [hax, f.get?_of ex]) ih
    intro x o cx ex
    by_cases hx : x < h.next
    · obtain ⟨⟨o0, c0⟩, e0⟩ := Heap.get?_of_lt hx
      have := hold _ _ (hb x o0 c0 e0)
      exact this.mono (by simp; omega)
    · have hx2 : x < h1.next := by simpa using Heap.get?_lt ex
      exact (hnew x (Nat.le_of_not_lt hx) hx2).mono (by simp)

theorem step_bounded {S : Schemas} (hS : AllDeep S) {s : State} (hs : Sep S s) (hb : Bounded s.heap) (i : Nat) (op : Op) :
    Bounded (step S s i op).1.heap := (step_shape hS hs i op).bounded hb

theorem run_bounded {S : Schemas} (hS : AllDeep S) : ∀ (hist : List (Nat × Op)) {s : State}, Sep S s → Bounded s.heap →
    Bounded (run S s hist).heap
  | [], _, _, hb => hb
  | (i, op) :: rest, _, hs, hb => run_bounded hS rest (step_sep hS hs i op) (step_bounded hS hs hb i op)

/-- under `Bounded`, any fuel above the heap size reads the same -/
theorem read_fuel {h : Heap} (hb : Bounded h) {o : Owner} {v : HVal} (ov : OwnedBy h o v) (n : Nat) (hn : h.next ≤ n) :
    readV n h v = readV h.next h v := by
  cases v with
  | null => simp [readV]
  | atom s => simp [readV]
  | ref a =>
    obtain ⟨c, e⟩ := ov
    exact read_enough (hb a o c e) n hn


/-! ### I. the initial state -/

theorem compileFields_fresh : ∀ (fs : List (String × FieldSpec)) (h : Heap),
    Fresh .schema h (compileFields fs h).2 ∧
    ∀ p ∈ leafDefaults (compileFields fs h).1, NewBelow h.next (compileFields fs h).2.next p.2
  | [], h => by simp [compileFields, leafDefaults, Fresh.refl]
  | (name, .leaf d t) :: fs, h => by
    have i1 := allocT_fresh .schema t h
    have i2 := compileFields_fresh fs (allocT .schema t h).2
    simp only [compileFields, leafDefaults, List.mem_cons, forall_eq_or_imp]
    refine ⟨i1.1.trans i2.1, i1.2.val.mono (Nat.le_refl _) i2.1.next_le, ?_⟩
    intro p hp
    exact (i2.2 p hp).mono i1.1.next_le (Nat.le_refl _)
  | (name, .sub s) :: fs, h => by
    have i2 := compileFields_fresh fs h
    simpa [compileFields, leafDefaults] using i2
  | (name, .cfgList s) :: fs, h => by
    have i2 := compileFields_fresh fs h
    simpa [compileFields, leafDefaults] using i2

theorem compile_fresh : ∀ (sps : List SchemaSpec) (h : Heap),
    Fresh .schema h (compile sps h).2 ∧
    ∀ sd ∈ (compile sps h).1, ∀ p ∈ leafDefaults sd.fields, NewBelow h.next (compile sps h).2.next p.2
  | [], h => by simp [compile, Fresh.refl]
  | sp :: sps, h => by
    have i1 := compileFields_fresh sp.fields h
    have i2 := compile_fresh sps (compileFields sp.fields h).2
    simp only [compile, List.mem_cons, forall_eq_or_imp]
    refine ⟨i1.1.trans i2.1, ?_, ?_⟩
    · intro p hp
      exact (i1.2 p hp).mono (Nat.le_refl _) i2.1.next_le
    · intro sd hsd p hp
      exact (i2.2 sd hsd p hp).mono i1.1.next_le (Nat.le_refl _)

theorem closed_empty : Closed ({} : Heap) := by
  intro a o c e; simp [Heap.get?] at e

theorem bounded_empty : Bounded ({} : Heap) := by
  intro a o c e; simp [Heap.get?] at e

theorem sep_init (specs : List SchemaSpec) : Sep (initS specs) (init specs) := by
  have f := compile_fresh specs {}
  refine ⟨f.1.closed closed_empty, ?_, ?_, ?_⟩
  · intro k r hk; simp [init] at hk
  · intro sd hsd p hp
    exact f.1.ownedBy_new (f.2 sd hsd p hp)
  · intro a c e b hb
    exact (f.1.ord a _ c (Nat.zero_le _) e _ hb).2

theorem bounded_init (specs : List SchemaSpec) : Bounded (init specs).heap :=
  (compile_fresh specs {}).1.bounded bounded_empty

/-- executable form of `AllDeep` -/
def fieldDeepB : FieldDecl → Bool
  | .leaf disc dv => disc == .deep || !dv.isRef
  | _ => true

def allDeepB (S : Schemas) : Bool := S.all (fun sd => sd.fields.all (fun p => fieldDeepB p.2))

theorem allDeep_of_check {S : Schemas} (h : allDeepB S = true) : AllDeep S := by
  intro sd hsd name disc dv hm
  simp only [allDeepB, List.all_eq_true] at h
  have := h sd hsd (name, .leaf disc dv) hm
  simp only [fieldDeepB, Bool.or_eq_true, beq_iff_eq, Bool.not_eq_true'] at this
  exact this


/-! ### J. a deep copy reads exactly like its original -/

theorem Fresh.ordered {o : Owner} {h h' : Heap} (f : Fresh o h h') (ho : SchemaOrdered h) : SchemaOrdered h' := by
  intro a c e b hb
  by_cases ha : a < h.next
  · rw [f.get?_old ha] at e; exact ho a c e b hb
  · exact (f.ord a _ c (Nat.le_of_not_lt ha) e _ hb).2

/-- hypotheses under which reading a copy equals reading the source -/
def CopyOK (h : Heap) : Prop := Closed h ∧ SchemaOrdered h

theorem CopyOK.fresh {o : Owner} {h h' : Heap} (ok : CopyOK h) (f : Fresh o h h') : CopyOK h' :=
  ⟨f.closed ok.1, f.ordered ok.2⟩

theorem threadL_read {o : Owner} {f : HVal → Heap → HVal × Heap} (hf : ∀ v, Allocates o (f v)) (P : HVal → Prop)
    (hread : ∀ v h, P v → CopyOK h → OwnedBy h .schema v → ∀ n, readV n (f v h).2 (f v h).1 = readV n h v) :
    ∀ (items : List HVal) (h : Heap), (∀ w ∈ items, P w) → CopyOK h → (∀ w ∈ items, OwnedBy h .schema w) →
      ∀ n, (threadL f items h).1.map (fun w => readV n (threadL f items h).2 w) = items.map (fun w => readV n h w)
  | [], h, _, _, _, n => by simp [threadL]
  | x :: vs, h, hP, ok, ow, n => by
    have a1 := hf x h
    have ok1 := ok.fresh a1.1
    have t2 := threadL_fresh hf vs (f x h).2
    have ih := threadL_read hf P hread vs (f x h).2 (fun w hw => hP w (List.mem_cons_of_mem _ hw)) ok1
      (fun w hw => a1.1.ownedBy (ow w (List.mem_cons_of_mem _ hw))) n
    simp only [threadL, List.map_cons, List.cons.injEq]
    constructor
    · rw [t2.1.read ok1.1 n _ a1.2.val.lt]
      exact hread x h (hP x List.mem_cons_self) ok (ow x List.mem_cons_self) n
    · rw [ih]
      apply List.map_congr_left
      intro w hw
      exact a1.1.read ok.1 n w (ow w (List.mem_cons_of_mem _ hw)).lt

theorem threadK_read {o : Owner} {f : HVal → Heap → HVal × Heap} (hf : ∀ v, Allocates o (f v)) (P : HVal → Prop)
    (hread : ∀ v h, P v → CopyOK h → OwnedBy h .schema v → ∀ n, readV n (f v h).2 (f v h).1 = readV n h v) :
    ∀ (kvs : Slots) (h : Heap), (∀ w ∈ kvs, P w.2) → CopyOK h → (∀ w ∈ kvs, OwnedBy h .schema w.2) →
      ∀ n, (threadK f kvs h).1.map (fun w => (w.1, readV n (threadK f kvs h).2 w.2)) = kvs.map (fun w => (w.1, readV n h w.2))
  | [], h, _, _, _, n => by simp [threadK]
  | (k, x) :: vs, h, hP, ok, ow, n => by
    have a1 := hf x h
    have ok1 := ok.fresh a1.1
    have t2 := threadK_fresh hf vs (f x h).2
    have ih := threadK_read hf P hread vs (f x h).2 (fun w hw => hP w (List.mem_cons_of_mem _ hw)) ok1
      (fun w hw => a1.1.ownedBy (ow w (List.mem_cons_of_mem _ hw))) n
    simp only [threadK, List.map_cons, List.cons.injEq]
    constructor
    · rw [t2.1.read ok1.1 n _ a1.2.val.lt]
      rw [hread x h (hP (k, x) List.mem_cons_self) ok (ow (k, x) List.mem_cons_self) n]
    · rw [ih]
      apply List.map_congr_left
      intro w hw
      rw [a1.1.read ok.1 n w.2 (ow w (List.mem_cons_of_mem _ hw)).lt]


theorem read_alloc_old {g : Heap} (hc : Closed g) (o : Owner) (c : Cell) (n : Nat) (v : HVal)
    (hv : ∀ x, v = .ref x → x < g.next) : readV n (g.alloc o c).2 v = readV n g v := by
  refine read_agree (fun a => a < g.next) ?_ n v hv
  intro a ha
  obtain ⟨⟨o', c'⟩, e⟩ := Heap.get?_of_lt ha
  refine ⟨o', c', e, ?_, ?_⟩
  · rw [Heap.get?_alloc]; have : a ≠ g.next := by omega
    simp [this, e]
  · intro b hb
    obtain ⟨cb, eb⟩ := hc a o' c' e _ hb
    exact Heap.get?_lt eb

/-- reading the cell just allocated -/
theorem read_alloc_new {g : Heap} (hc : Closed g) (o : Owner) (c : Cell) (n : Nat)
    (hk : ∀ w ∈ c.kids, ∀ x, w = .ref x → x < g.next) :
    readV (n + 1) (g.alloc o c).2 (.ref (g.alloc o c).1) =
      match c with
      | .list items => .list (items.map (fun v => readV n g v))
      | .dict kvs => .dict (kvs.map (fun p => (p.1, readV n g p.2)))
      | .cfg _ slots _ => .dict (slots.map (fun p => (p.1, readV n g p.2))) := by
  have e : (g.alloc o c).2.get? g.next = some (o, c) := by rw [Heap.get?_alloc]; simp
  rw [Heap.alloc_fst, readV_ref_succ n _ g.next e]
  cases c with
  | list items =>
    simp only [Tree.list.injEq]
    exact List.map_congr_left (fun w hw => read_alloc_old hc o _ n w (hk w hw))
  | dict kvs =>
    simp only [Tree.dict.injEq]
    apply List.map_congr_left
    intro p hp
    rw [read_alloc_old hc o _ n p.2 (hk p.2 (List.mem_map_of_mem hp))]
  | cfg k sl dy =>
    simp only [Tree.dict.injEq]
    apply List.map_congr_left
    intro p hp
    rw [read_alloc_old hc o _ n p.2 (hk p.2 (List.mem_map_of_mem hp))]

theorem copy_read (o : Owner) : ∀ (fuel : Nat) (v : HVal) (h : Heap), (∀ b, v = .ref b → b < fuel) → CopyOK h →
    OwnedBy h .schema v → ∀ n, readV n (copyV o fuel v h).2 (copyV o fuel v h).1 = readV n h v
  | _, .null, h, _, _, _, n => by simp [copyV, readV]
  | _, .atom s, h, _, _, _, n => by simp [copyV, readV]
  | 0, .ref a, h, hlt, _, _, n => by have := hlt a rfl; omega
  | fuel + 1, .ref a, h, hlt, ok, ov, n => by
    obtain ⟨c, e⟩ := ov
    have ha : a ≤ fuel := by have := hlt a rfl; omega
    have hP : ∀ w ∈ c.kids, (fun w => ∀ b, w = HVal.ref b → b < fuel) w := by
      intro w hw b hb; subst hb
      have := ok.2 a c e b hw; omega
    have hO : ∀ w ∈ c.kids, OwnedBy h .schema w := fun w hw => ok.1 a _ c e w hw
    have hrec := fun v h hp ok' ov' => copy_read o fuel v h hp ok' ov'
    simp only [copyV, Heap.cell?_eq e]
    cases n with
    | zero => cases c <;> simp [readV]
    | succ m =>
      rw [readV_ref_succ m h a e]
      cases c with
      | list items =>
        have t := threadL_fresh (copyV_fresh o fuel) items h
        have tr := threadL_read (copyV_fresh o fuel) _ hrec items h hP ok hO m
        simp only
        rw [read_alloc_new (t.1.closed ok.1) o _ m (fun w hw => (t.2.nb w hw).lt)]
        simp only [tr]
      | dict kvs =>
        have t := threadK_fresh (copyV_fresh o fuel) kvs h
        have tr := threadK_read (copyV_fresh o fuel) _ hrec kvs h
          (fun w hw => hP w.2 (List.mem_map_of_mem hw)) ok (fun w hw => hO w.2 (List.mem_map_of_mem hw)) m
        simp only
        rw [read_alloc_new (t.1.closed ok.1) o _ m (fun w hw => (t.2.nb w hw).lt)]
        simp only [tr]
      | cfg k sl dy =>
        have t := threadK_fresh (copyV_fresh o fuel) sl h
        have tr := threadK_read (copyV_fresh o fuel) _ hrec sl h
          (fun w hw => hP w.2 (List.mem_map_of_mem hw)) ok (fun w hw => hO w.2 (List.mem_map_of_mem hw)) m
        simp only
        rw [read_alloc_new (t.1.closed ok.1) o _ m (fun w hw => (t.2.nb w (by simpa [Cell.kids] using hw)).lt)]
        simp only [tr]


/-! ### K. a freshly built configuration reads as `pristine` -/

theorem mem_leafDefaults {name : String} {disc : Disc} {dv : HVal} :
    ∀ {fs : List (String × FieldDecl)}, (name, FieldDecl.leaf disc dv) ∈ fs → (name, dv) ∈ leafDefaults fs
  | [], hm => by simp at hm
  | (n', d) :: fs, hm => by
    rcases List.mem_cons.mp hm with hm | hm
    · simp at hm; obtain ⟨rfl, rfl⟩ := hm; simp [leafDefaults]
    · have := mem_leafDefaults hm
      cases d <;> simp [leafDefaults, this]

/-- the declared defaults of `fs` are schema-owned and read as `rd` says -/
def GoodF (rd : Nat → HVal → Tree) (h : Heap) (fs : List (String × FieldDecl)) : Prop :=
  ∀ name disc dv, (name, FieldDecl.leaf disc dv) ∈ fs → OwnedBy h .schema dv ∧ ∀ n, readV n h dv = rd n dv

def Good (S : Schemas) (rd : Nat → HVal → Tree) (h : Heap) : Prop :=
  CopyOK h ∧ ∀ sd ∈ S, GoodF rd h sd.fields

theorem GoodF.fresh {rd : Nat → HVal → Tree} {h h' : Heap} {fs : List (String × FieldDecl)} {o : Owner}
    (g : GoodF rd h fs) (hc : Closed h) (f : Fresh o h h') : GoodF rd h' fs := by
  intro name disc dv hm
  obtain ⟨ow, rdv⟩ := g name disc dv hm
  exact ⟨f.ownedBy ow, fun n => by rw [f.read hc n dv ow.lt]; exact rdv n⟩

theorem Good.fresh {S : Schemas} {rd : Nat → HVal → Tree} {h h' : Heap} {o : Owner}
    (g : Good S rd h) (f : Fresh o h h') : Good S rd h' :=
  ⟨g.1.fresh f, fun sd hsd => (g.2 sd hsd).fresh g.1.1 f⟩

theorem GoodF.tail {rd : Nat → HVal → Tree} {h : Heap} {p : String × FieldDecl} {fs : List (String × FieldDecl)}
    (g : GoodF rd h (p :: fs)) : GoodF rd h fs :=
  fun name disc dv hm => g name disc dv (List.mem_cons_of_mem _ hm)

theorem readV_nonref {v : HVal} (hv : v.isRef = false) (n m : Nat) (h h' : Heap) : readV n h v = readV m h' v := by
  cases v <;> simp [readV, HVal.isRef] at *

theorem storeDefault_read (o : Owner) (d : Disc) (dv : HVal) (hd : d = .deep ∨ dv.isRef = false) (h : Heap)
    (ok : CopyOK h) (ow : OwnedBy h .schema dv) (n : Nat) :
    readV n (storeDefault o d dv h).2 (storeDefault o d dv h).1 = readV n h dv := by
  have deep : readV n (copyV o h.next dv h).2 (copyV o h.next dv h).1 = readV n h dv :=
    copy_read o h.next dv h ow.lt ok ow n
  rcases hd with hd | hd
  · subst hd; exact deep
  · cases d with
    | deep => exact deep
    | alias => rfl
    | shallow =>
      have : shallowV o dv h = (dv, h) := by cases dv <;> simp [shallowV, HVal.isRef] at *
      simp only [storeDefault, this]

theorem buildFields_read {S : Schemas} {o : Owner} {rec : Nat → Heap → HVal × Heap} {rd : Nat → HVal → Tree}
    {subT : Nat → Nat → Tree} (hr : ∀ s, Allocates o (rec s))
    (hrec : ∀ s h, Good S rd h → ∀ n, readV n (rec s h).2 (rec s h).1 = subT n s) :
    ∀ (fs : List (String × FieldDecl)) (h : Heap), FieldsDeep fs → Good S rd h → GoodF rd h fs → ∀ n,
      (buildFields rec o fs h).1.map (fun p => (p.1, readV n (buildFields rec o fs h).2 p.2)) =
        pristineFields (rd n) (subT n) (emptyListAt n) fs
  | [], h, _, _, _, n => by simp [buildFields, pristineFields]
  | (name, d) :: fs, h, hd, g, gf, n => by
    have hd1 : ∀ disc dv, d = .leaf disc dv → disc = .deep ∨ dv.isRef = false :=
      fun disc dv e => hd name disc dv (by rw [e]; exact List.mem_cons_self)
    have a1 := fieldVal_fresh hr d hd1 h
    have g1 := g.fresh a1.1
    have t2 := buildFields_fresh hr fs (fieldVal rec o d h).2 hd.tail
    have ih := buildFields_read hr hrec fs (fieldVal rec o d h).2 hd.tail g1 (gf.tail.fresh g.1.1 a1.1) n
    rw [buildFields_cons]
    simp only [List.map_cons]
    rw [ih, t2.1.read g1.1.1 n _ a1.2.val.lt]
    cases d with
    | leaf disc dv =>
      obtain ⟨ow, rdv⟩ := gf name disc dv List.mem_cons_self
      simp only [fieldVal, pristineFields]
      rw [storeDefault_read o disc dv (hd1 disc dv rfl) h g.1 ow n, rdv n]
    | sub s =>
      simp only [fieldVal, pristineFields]
      rw [hrec s h g n]
    | cfgList s =>
      simp only [fieldVal, pristineFields]
      cases n with
      | zero => simp [readV, emptyListAt]
      | succ m =>
        have := read_alloc_new g.1.1 o (.list []) m (by simp [Cell.kids])
        rw [this]; simp [emptyListAt]

theorem buildCfg_read {S : Schemas} (hS : AllDeep S) (o : Owner) (rd : Nat → HVal → Tree) :
    ∀ (bf k : Nat) (h : Heap), Good S rd h → ∀ n,
      readV n (buildCfg S o bf k h).2 (buildCfg S o bf k h).1 = pristine S rd bf n k
  | 0, k, h, _, n => by simp [buildCfg, pristine, readV]
  | bf + 1, k, h, g, n => by
    simp only [buildCfg]
    cases e : S[k]? with
    | none => cases n <;> simp [pristine, readV, e]
    | some sd =>
      cases n with
      | zero => simp [pristine, readV]
      | succ m =>
        have hr : ∀ s, Allocates o (fun h' => buildCfg S o bf s h') := fun s => buildCfg_fresh hS o bf s
        have t := buildFields_fresh (rec := fun s h' => buildCfg S o bf s h') hr sd.fields h (hS.fields e)
        have rdf := buildFields_read (S := S) (rd := rd) (subT := fun n s => pristine S rd bf n s) hr
          (fun s h' g' n' => buildCfg_read hS o rd bf s h' g' n') sd.fields h (hS.fields e) g
          (g.2 sd (List.mem_of_getElem? e)) m
        simp only
        rw [read_alloc_new (t.1.closed g.1.1) o _ m (fun w hw => (t.2.nb w (by simpa [Cell.kids] using hw)).lt)]
        simp only [pristine, e, rdf]


/-! ### L. state-level consequences -/

theorem reach_owned {h : Heap} (hc : Closed h) {o : Owner} {v : HVal} {x : Nat} (r : Reach h v x) :
    OwnedBy h o v → ∃ c, h.get? x = some (o, c) := by
  induction r with
  | here a => intro ov; exact ov
  | step a o' c w x e hw _ ih =>
    intro ov
    obtain ⟨c0, e0⟩ := ov
    rw [e] at e0; simp at e0
    obtain ⟨rfl, rfl⟩ := e0
    exact ih (hc a o' c e w hw)

theorem Sep.default_owned {S : Schemas} {s : State} (hs : Sep S s) {sd : SchemaDecl} (hsd : sd ∈ S)
    {name : String} {disc : Disc} {dv : HVal} (hm : (name, FieldDecl.leaf disc dv) ∈ sd.fields) : OwnedBy s.heap .schema dv :=
  hs.defaults sd hsd (name, dv) (mem_leafDefaults hm)

theorem Sep.good {S : Schemas} {s : State} (hs : Sep S s) : Good S (fun n v => readV n s.heap v) s.heap :=
  ⟨⟨hs.closed, hs.ordered⟩, fun _ hsd _ _ _ hm => ⟨hs.default_owned hsd hm, fun _ => rfl⟩⟩

theorem step_roots_ne {S : Schemas} {s : State} {i j : Nat} (hij : i ≠ j) (op : Op) :
    (step S s i op).1.roots[j]? = s.roots[j]? := by
  cases step_res S s i op with
  | same e => rw [e]
  | exec r c h' _ _ _ e => rw [e]
  | built a _ hi _ e =>
    rw [e]
    simp only
    by_cases hj : j < s.roots.length
    · exact List.getElem?_append_left hj
    · rw [List.getElem?_eq_none (by simp; omega), List.getElem?_eq_none (by omega)]

/-- fuel normalisation for an owned value -/
theorem read_fuel2 {h : Heap} (hb : Bounded h) {o : Owner} {v : HVal} (ov : OwnedBy h o v) {n m : Nat}
    (hn : h.next ≤ n) (hm : h.next ≤ m) : readV n h v = readV m h v := by
  rw [read_fuel hb ov n hn, read_fuel hb ov m hm]

/-- one step on root `i`, read of a value owned by somebody else, with the built-in fuels -/
theorem step_read_other {S : Schemas} (hS : AllDeep S) {s : State} (hs : Sep S s) (hb : Bounded s.heap) (i : Nat) (op : Op)
    {o : Owner} (ho : o ≠ .cfg i) {v : HVal} (ov : OwnedBy s.heap o v) :
    readV ((step S s i op).1.heap.next + 1) (step S s i op).1.heap v = readV (s.heap.next + 1) s.heap v := by
  have sh := step_shape hS hs i op
  rw [sh.read hs.closed ho _ v ov]
  exact read_fuel2 hb ov (by have := sh.next_le; omega) (by omega)

theorem step_defaultsN {S : Schemas} (hS : AllDeep S) {s : State} (hs : Sep S s) (i : Nat) (op : Op) (n : Nat) :
    obsDefaultsN n (step S s i op).1.heap S = obsDefaultsN n s.heap S := by
  have sh := step_shape hS hs i op
  simp only [obsDefaultsN]
  apply List.map_congr_left
  intro sd hsd
  apply List.map_congr_left
  intro p hp
  rw [sh.read hs.closed (o := .schema) (by simp) n p.2 (hs.defaults sd hsd p hp)]

theorem step_defaults {S : Schemas} (hS : AllDeep S) {s : State} (hs : Sep S s) (hb : Bounded s.heap) (i : Nat) (op : Op) :
    obsDefaults (step S s i op).1.heap S = obsDefaults s.heap S := by
  simp only [obsDefaults, obsDefaultsN]
  apply List.map_congr_left
  intro sd hsd
  apply List.map_congr_left
  intro p hp
  rw [step_read_other hS hs hb i op (o := .schema) (by simp) (hs.defaults sd hsd p hp)]

theorem run_defaultsN {S : Schemas} (hS : AllDeep S) (n : Nat) : ∀ (hist : List (Nat × Op)) {s : State}, Sep S s →
    obsDefaultsN n (run S s hist).heap S = obsDefaultsN n s.heap S
  | [], _, _ => rfl
  | (i, op) :: rest, _, hs => by
    simp only [run]
    rw [run_defaultsN hS n rest (step_sep hS hs i op), step_defaultsN hS hs i op n]

theorem run_defaults {S : Schemas} (hS : AllDeep S) : ∀ (hist : List (Nat × Op)) {s : State}, Sep S s → Bounded s.heap →
    obsDefaults (run S s hist).heap S = obsDefaults s.heap S
  | [], _, _, _ => rfl
  | (i, op) :: rest, _, hs, hb => by
    simp only [run]
    rw [run_defaults hS rest (step_sep hS hs i op) (step_bounded hS hs hb i op), step_defaults hS hs hb i op]

/-- every declared default reads the same after any history, at every fuel -/
theorem run_default_read {S : Schemas} (hS : AllDeep S) : ∀ (hist : List (Nat × Op)) {s : State}, Sep S s →
    ∀ {sd : SchemaDecl}, sd ∈ S → ∀ {name : String} {disc : Disc} {dv : HVal}, (name, FieldDecl.leaf disc dv) ∈ sd.fields →
    ∀ n, readV n (run S s hist).heap dv = readV n s.heap dv
  | [], _, _, _, _, _, _, _, _, _ => rfl
  | (i, op) :: rest, _, hs, _, hsd, _, _, _, hm, n => by
    simp only [run]
    rw [run_default_read hS rest (step_sep hS hs i op) hsd hm n]
    exact (step_shape hS hs i op).read hs.closed (o := .schema) (by simp) n _ (hs.default_owned hsd hm)

theorem step_cfg_other {S : Schemas} (hS : AllDeep S) {s : State} (hs : Sep S s) (hb : Bounded s.heap) {i j : Nat} (hij : i ≠ j)
    (op : Op) : (step S s i op).1.cfg j = s.cfg j := by
  simp only [State.cfg, step_roots_ne hij op]
  cases hr : s.roots[j]? with
  | none => rfl
  | some r =>
    simp only [Option.map_some, Option.some.injEq, obsCfg, obsCfgN]
    exact step_read_other hS hs hb i op (o := .cfg j) (by simp; omega) (hs.roots j r hr)

theorem step_cfgN_other {S : Schemas} (hS : AllDeep S) {s : State} (hs : Sep S s) {i j : Nat} (hij : i ≠ j)
    (op : Op) (n : Nat) : (step S s i op).1.cfgN n j = s.cfgN n j := by
  simp only [State.cfgN, step_roots_ne hij op]
  cases hr : s.roots[j]? with
  | none => rfl
  | some r =>
    simp only [Option.map_some, Option.some.injEq, obsCfgN]
    exact (step_shape hS hs i op).read hs.closed (o := .cfg j) (by simp; omega) n _ (hs.roots j r hr)

theorem step_dyn_other {S : Schemas} (hS : AllDeep S) {s : State} (hs : Sep S s) {i j : Nat} (hij : i ≠ j)
    (op : Op) : (step S s i op).1.dyn j = s.dyn j := by
  simp only [State.dyn, step_roots_ne hij op]
  cases hr : s.roots[j]? with
  | none => rfl
  | some r =>
    obtain ⟨c, e⟩ := hs.roots j r hr
    have e' := (step_shape hS hs i op).frame e (by simp; omega)
    simp [obsDyn, Heap.cell?_eq e, Heap.cell?_eq e']


theorem Sep.good_of {S : Schemas} {s : State} (hs : Sep S s) (rd : Nat → HVal → Tree)
    (hrd : ∀ sd ∈ S, ∀ name disc dv, (name, FieldDecl.leaf disc dv) ∈ sd.fields → ∀ n, readV n s.heap dv = rd n dv) :
    Good S rd s.heap :=
  ⟨⟨hs.closed, hs.ordered⟩, fun sd hsd name disc dv hm => ⟨hs.default_owned hsd hm, hrd sd hsd name disc dv hm⟩⟩

/-- the observation of a root built now, at fuel `n`, is `pristine` of the default reads -/
theorem build_cfgN {S : Schemas} (hS : AllDeep S) {s : State} (hs : Sep S s) (rd : Nat → HVal → Tree)
    (hrd : ∀ sd ∈ S, ∀ name disc dv, (name, FieldDecl.leaf disc dv) ∈ sd.fields → ∀ n, readV n s.heap dv = rd n dv) (n : Nat) :
    (step S s s.roots.length .build).1.cfgN n s.roots.length =
      if (S[0]?).isSome then some (pristine S rd (buildFuel S) n 0) else none := by
  have rd0 := buildCfg_read hS (.cfg s.roots.length) rd (buildFuel S) 0 s.heap (hs.good_of rd hrd) n
  simp only [step, if_pos]
  cases e : S[0]? with
  | none =>
    have : buildCfg S (.cfg s.roots.length) (buildFuel S) 0 s.heap = (.null, s.heap) := by simp [buildFuel, buildCfg, e]
    simp [this, State.cfgN]
  | some sd =>
    have hb : ∃ a, (buildCfg S (.cfg s.roots.length) (buildFuel S) 0 s.heap).1 = .ref a := by
      simp [buildFuel, buildCfg, e]
    obtain ⟨a, ha⟩ := hb
    rw [ha] at rd0
    simp only [ha, State.cfgN, List.getElem?_concat_length, Option.map_some, Option.isSome_some, if_true, obsCfgN]
    rw [rd0]

theorem cfg_eq_cfgN {S : Schemas} {s : State} (hs : Sep S s) (hb : Bounded s.heap) (j : Nat) {n : Nat} (hn : s.heap.next ≤ n) :
    s.cfg j = s.cfgN n j := by
  simp only [State.cfg, State.cfgN]
  cases hr : s.roots[j]? with
  | none => rfl
  | some r =>
    simp only [Option.map_some, Option.some.injEq, obsCfg, obsCfgN]
    exact read_fuel2 hb (o := .cfg j) (v := .ref r) (hs.roots j r hr) (by omega) hn

theorem build_same {S : Schemas} (hS : AllDeep S) {s s0 : State} (hs : Sep S s) (hb : Bounded s.heap)
    (hs0 : Sep S s0) (hb0 : Bounded s0.heap)
    (hrd : ∀ sd ∈ S, ∀ name disc dv, (name, FieldDecl.leaf disc dv) ∈ sd.fields → ∀ n, readV n s.heap dv = readV n s0.heap dv) :
    (step S s s.roots.length .build).1.cfg s.roots.length = (step S s0 s0.roots.length .build).1.cfg s0.roots.length := by
  let n := (step S s s.roots.length .build).1.heap.next + (step S s0 s0.roots.length .build).1.heap.next
  rw [cfg_eq_cfgN (step_sep hS hs _ _) (step_bounded hS hs hb _ _) _ (n := n) (by omega),
      cfg_eq_cfgN (step_sep hS hs0 _ _) (step_bounded hS hs0 hb0 _ _) _ (n := n) (by omega),
      build_cfgN hS hs (fun m v => readV m s0.heap v) hrd n,
      build_cfgN hS hs0 (fun m v => readV m s0.heap v) (fun _ _ _ _ _ _ _ => rfl) n]


/-! ### M. deciding tree inequality (for the evaluated examples) -/

mutual
  theorem Tree.beq_refl : ∀ (t : Tree), Tree.beq t t = true
    | .null => rfl
    | .atom a => by simp [Tree.beq]
    | .list ts => by simp only [Tree.beq]; exact Tree.beqList_refl ts
    | .dict kvs => by simp only [Tree.beq]; exact Tree.beqKvs_refl kvs
  theorem Tree.beqList_refl : ∀ (ts : List Tree), Tree.beqList ts ts = true
    | [] => rfl
    | t :: ts => by simp [Tree.beqList, Tree.beq_refl t, Tree.beqList_refl ts]
  theorem Tree.beqKvs_refl : ∀ (ts : List (String × Tree)), Tree.beqKvs ts ts = true
    | [] => rfl
    | (k, t) :: ts => by simp [Tree.beqKvs, Tree.beq_refl t, Tree.beqKvs_refl ts]
end

theorem Tree.ne_of_beq_false {a b : Tree} (h : Tree.beq a b = false) : a ≠ b := by
  intro e; subst e; rw [Tree.beq_refl] at h; cases h

/-- inequality test for optional observations -/
def optTreeBeq : Option Tree → Option Tree → Bool
  | some a, some b => Tree.beq a b
  | none, none => true
  | _, _ => false

theorem optTree_ne {a b : Option Tree} (h : optTreeBeq a b = false) : a ≠ b := by
  intro e; subst e
  cases a with
  | none => simp [optTreeBeq] at h
  | some t => simp [optTreeBeq, Tree.beq_refl] at h

def defaultsBeq : List (List (String × Tree)) → List (List (String × Tree)) → Bool
  | [], [] => true
  | a :: as, b :: bs => Tree.beqKvs a b && defaultsBeq as bs
  | _, _ => false

theorem defaultsBeq_refl : ∀ (a : List (List (String × Tree))), defaultsBeq a a = true
  | [] => rfl
  | x :: xs => by simp [defaultsBeq, Tree.beqKvs_refl x, defaultsBeq_refl xs]

theorem defaults_ne {a b : List (List (String × Tree))} (h : defaultsBeq a b = false) : a ≠ b := by
  intro e; subst e; rw [defaultsBeq_refl] at h; cases h

theorem runOn_cons (S : Schemas) (s : State) (i : Nat) (o : Op) (ops : List Op) :
    runOn S s i (o :: ops) = runOn S (step S s i o).1 i ops := rfl

theorem run_append (S : Schemas) : ∀ (h1 h2 : List (Nat × Op)) (s : State), run S s (h1 ++ h2) = run S (run S s h1) h2
  | [], _, _ => rfl
  | (i, o) :: r, h2, s => by simp only [List.cons_append, run]; exact run_append S r h2 _


/-! ### N. sequences of operations on one root -/

theorem runOn_inv {S : Schemas} (hS : AllDeep S) (i : Nat) : ∀ (ops : List Op) {s : State}, Sep S s → Bounded s.heap →
    Sep S (runOn S s i ops) ∧ Bounded (runOn S s i ops).heap
  | [], _, hs, hb => ⟨hs, hb⟩
  | o :: ops, _, hs, hb => by
    rw [runOn_cons]; exact runOn_inv hS i ops (step_sep hS hs i o) (step_bounded hS hs hb i o)

theorem runOn_other {S : Schemas} (hS : AllDeep S) {i j : Nat} (hij : i ≠ j) : ∀ (ops : List Op) {s : State}, Sep S s → Bounded s.heap →
    (runOn S s i ops).cfg j = s.cfg j ∧ (runOn S s i ops).dyn j = s.dyn j ∧
    obsDefaults (runOn S s i ops).heap S = obsDefaults s.heap S ∧
    (∀ n, (runOn S s i ops).cfgN n j = s.cfgN n j) ∧ (∀ n, obsDefaultsN n (runOn S s i ops).heap S = obsDefaultsN n s.heap S)
  | [], _, _, _ => ⟨rfl, rfl, rfl, fun _ => rfl, fun _ => rfl⟩
  | o :: ops, s, hs, hb => by
    rw [runOn_cons]
    obtain ⟨h1, h2, h3, h4, h5⟩ := runOn_other hS hij ops (step_sep hS hs i o) (step_bounded hS hs hb i o)
    refine ⟨?_, ?_, ?_, ?_, ?_⟩
    · rw [h1, step_cfg_other hS hs hb hij o]
    · rw [h2, step_dyn_other hS hs hij o]
    · rw [h3, step_defaults hS hs hb i o]
    · intro n; rw [h4 n, step_cfgN_other hS hs hij o n]
    · intro n; rw [h5 n, step_defaultsN hS hs i o n]

theorem reached_inv {specs : List SchemaSpec} (hS : AllDeep (initS specs)) (hist : List (Nat × Op)) :
    Sep (initS specs) (run (initS specs) (init specs) hist) ∧ Bounded (run (initS specs) (init specs) hist).heap :=
  ⟨run_sep hS hist (sep_init specs), run_bounded hS hist (sep_init specs) (bounded_init specs)⟩


/-! ### O. no sharing is an invariant too -/

theorem noShare_empty : NoShare ({} : Heap) :=
  ⟨fun a o c e => by simp [Heap.get?] at e, fun a1 o1 c1 a2 o2 c2 b e => by simp [Heap.get?] at e⟩

theorem noShare_init (specs : List SchemaSpec) : NoShare (init specs).heap :=
  (compile_fresh specs {}).1.noShare closed_empty noShare_empty

theorem step_noShare {S : Schemas} (hS : AllDeep S) {s : State} (hs : Sep S s) (ns : NoShare s.heap) (i : Nat) (op : Op) :
    NoShare (step S s i op).1.heap := (step_shape hS hs i op).noShare hs.closed ns

theorem run_noShare {S : Schemas} (hS : AllDeep S) : ∀ (hist : List (Nat × Op)) {s : State}, Sep S s → NoShare s.heap →
    NoShare (run S s hist).heap
  | [], _, _, ns => ns
  | (i, op) :: rest, _, hs, ns => run_noShare hS rest (step_sep hS hs i op) (step_noShare hS hs ns i op)


/-! ### P. the heap graph under `NoShare`: unique parents, no cycles, chains -/

/-- one edge of the heap graph -/
def Kid (h : Heap) (x y : Nat) : Prop := ∃ o c, h.get? x = some (o, c) ∧ HVal.ref y ∈ c.kids

theorem Kid.reach {h : Heap} {x y : Nat} (k : Kid h x y) : Reach h (.ref x) y := by
  obtain ⟨o, c, e, hm⟩ := k
  exact .step x o c _ y e hm (.here y)

theorem reach_trans {h : Heap} {v : HVal} {y z : Nat} (r1 : Reach h v y) (r2 : Reach h (.ref y) z) : Reach h v z := by
  induction r1 with
  | here a => exact r2
  | step a o c w x e hw _ ih => exact .step a o c w z e hw (ih r2)

theorem Kid.reach_of {h : Heap} {x y z : Nat} (k : Kid h x y) (r : Reach h (.ref y) z) : Reach h (.ref x) z :=
  reach_trans k.reach r

/-- a path is empty or ends with an edge -/
theorem reach_last {h : Heap} {v : HVal} {y : Nat} (r : Reach h v y) : v = .ref y ∨ ∃ p, Reach h v p ∧ Kid h p y := by
  induction r with
  | here a => exact Or.inl rfl
  | step a o c w x e hw r ih =>
    right
    rcases ih with ih | ⟨p, rp, kp⟩
    · subst ih; exact ⟨a, .here a, o, c, e, hw⟩
    · exact ⟨p, .step a o c w p e hw rp, kp⟩

theorem NoShare.parent {h : Heap} (ns : NoShare h) {p p' y : Nat} (k : Kid h p y) (k' : Kid h p' y) : p = p' := by
  obtain ⟨o, c, e, hm⟩ := k
  obtain ⟨o', c', e', hm'⟩ := k'
  exact ns.uniq p o c p' o' c' y e e' hm hm'

theorem dep_reach {h : Heap} {v : HVal} {y : Nat} (r : Reach h v y) : ∀ {d : Nat}, Dep h v d → Dep h (.ref y) d := by
  induction r with
  | here a => intro d hd; exact hd
  | step a o c w x e hw _ ih =>
    intro d hd
    cases hd with
    | ref _ o' c' d' e' hk =>
      rw [e] at e'; simp at e'
      obtain ⟨rfl, rfl⟩ := e'
      exact (ih (hk w hw)).mono (Nat.le_succ _)

theorem dep_kid {h : Heap} {x y d : Nat} (hd : Dep h (.ref x) (d + 1)) (k : Kid h x y) : Dep h (.ref y) d := by
  obtain ⟨o, c, e, hm⟩ := k
  cases hd with
  | ref _ o' c' d' e' hk =>
    rw [e] at e'; simp at e'
    obtain ⟨rfl, rfl⟩ := e'
    exact hk _ hm

theorem no_cycle_dep {h : Heap} : ∀ (d : Nat) {x y : Nat}, Dep h (.ref x) d → Kid h x y → Reach h (.ref y) x → False
  | 0, _, _, hd, _, _ => by cases hd
  | d + 1, x, y, hd, k, r => by
    have h1 := dep_kid hd k
    have h2 := dep_reach r h1
    exact no_cycle_dep d h2 k r

/-- **no cycles** in a bounded heap -/
theorem no_cycle {h : Heap} (hb : Bounded h) {x y : Nat} (k : Kid h x y) (r : Reach h (.ref y) x) : False := by
  obtain ⟨o, c, e, _⟩ := k
  exact no_cycle_dep h.next (hb x o c e) ⟨o, c, e, ‹_›⟩ r

/-- **chains**: two cells that both reach a third are comparable -/
theorem reach_chain {h : Heap} (ns : NoShare h) {v : HVal} {a : Nat} (r : Reach h v a) :
    ∀ {y : Nat}, Reach h (.ref y) a → Reach h v y ∨ ∃ x, v = .ref x ∧ Reach h (.ref y) x := by
  induction r with
  | here a => intro y hy; exact Or.inr ⟨a, rfl, hy⟩
  | step a0 o c w a e hw _ ih =>
    intro y hy
    rcases ih hy with ih | ⟨x, hx, ryx⟩
    · exact Or.inl (.step a0 o c w y e hw ih)
    · subst hx
      rcases reach_last ryx with hl | ⟨p, rp, kp⟩
      · simp at hl; subst hl
        exact Or.inl (.step a0 o c _ y e hw (.here y))
      · have : p = a0 := ns.parent kp ⟨o, c, e, hw⟩
        subst this
        exact Or.inr ⟨p, rfl, rp⟩

theorem reach_chain' {h : Heap} (ns : NoShare h) {x y a : Nat} (r1 : Reach h (.ref x) a) (r2 : Reach h (.ref y) a) :
    Reach h (.ref x) y ∨ Reach h (.ref y) x := by
  rcases reach_chain ns r1 r2 with h1 | ⟨x', hx, h2⟩
  · exact Or.inl h1
  · simp at hx; subst hx; exact Or.inr h2


/-! ### Q. paths in a forest: distinct paths lead to unrelated configurations -/

/-- what a single path step does, as a relation -/
inductive PMove (h : Heap) (c : Nat) : PStep → Nat → Prop where
  | fld (name : String) (k : Nat) (sl : Slots) (dy : List String) (b : Nat) :
      h.cell? c = some (.cfg k sl dy) → lookup name sl = some (.ref b) → PMove h c (.fld name) b
  | item (name : String) (n : Nat) (k : Nat) (sl : Slots) (dy : List String) (l : Nat) (items : List HVal) (b : Nat) :
      h.cell? c = some (.cfg k sl dy) → lookup name sl = some (.ref l) → h.cell? l = some (.list items) →
      items[n]? = some (.ref b) → PMove h c (.item name n) b

def IsCfg (h : Heap) (c : Nat) : Prop := ∃ k sl dy, h.cell? c = some (.cfg k sl dy)

theorem navCfg_nil {h : Heap} {c X : Nat} (e : navCfg h c [] = .ok X) : X = c ∧ IsCfg h c := by
  simp only [navCfg] at e
  split at e
  · rename_i k sl dy hc
    simp at e; exact ⟨e.symm, k, sl, dy, hc⟩
  · simp at e

theorem navCfg_cons {h : Heap} {c X : Nat} {s : PStep} {rest : List PStep} (e : navCfg h c (s :: rest) = .ok X) :
    ∃ b, PMove h c s b ∧ navCfg h b rest = .ok X := by
  cases s with
  | fld name =>
    simp only [navCfg] at e
    cases hc : h.cell? c with
    | none => simp [hc] at e
    | some cc =>
      cases cc with
      | cfg k sl dy =>
        simp only [hc] at e
        cases hl : lookup name sl with
        | none => simp [hl] at e
        | some v =>
          cases v with
          | ref b => simp only [hl] at e; exact ⟨b, .fld name k sl dy b hc hl, e⟩
          | atom _ => simp [hl] at e
          | null => simp [hl] at e
      | list _ => simp [hc] at e
      | dict _ => simp [hc] at e
  | item name n =>
    simp only [navCfg] at e
    cases hc : h.cell? c with
    | none => simp [hc] at e
    | some cc =>
      cases cc with
      | cfg k sl dy =>
        simp only [hc] at e
        cases hl : lookup name sl with
        | none => simp [hl] at e
        | some v =>
          cases v with
          | ref l =>
            simp only [hl] at e
            cases hcl : h.cell? l with
            | none => simp [hcl] at e
            | some cl =>
              cases cl with
              | list items =>
                simp only [hcl] at e
                cases hi : items[n]? with
                | none => simp [hi] at e
                | some w =>
                  cases w with
                  | ref b => simp only [hi] at e; exact ⟨b, .item name n k sl dy l items b hc hl hcl hi, e⟩
                  | atom _ => simp [hi] at e
                  | null => simp [hi] at e
              | dict _ => simp [hcl] at e
              | cfg _ _ _ => simp [hcl] at e
          | atom _ => simp [hl] at e
          | null => simp [hl] at e
      | list _ => simp [hc] at e
      | dict _ => simp [hc] at e

theorem kid_of_cell {h : Heap} {x y : Nat} {c : Cell} (e : h.cell? x = some c) (hm : HVal.ref y ∈ c.kids) : Kid h x y := by
  obtain ⟨o, e'⟩ := Heap.cell?_some e
  exact ⟨o, c, e', hm⟩

/-- a move starts at a configuration cell and descends by at least one edge -/
theorem PMove.down {h : Heap} {c b : Nat} {s : PStep} (m : PMove h c s b) : IsCfg h c ∧ ∃ z, Kid h c z ∧ Reach h (.ref z) b := by
  cases m with
  | fld name k sl dy b hc hl =>
    exact ⟨⟨k, sl, dy, hc⟩, b, kid_of_cell hc (lookup_mem hl), .here b⟩
  | item name n k sl dy l items b hc hl hcl hi =>
    refine ⟨⟨k, sl, dy, hc⟩, l, kid_of_cell hc (lookup_mem hl), ?_⟩
    exact (kid_of_cell hcl (List.mem_of_getElem? hi)).reach

theorem navCfg_reach {h : Heap} : ∀ (p : List PStep) {c X : Nat}, navCfg h c p = .ok X →
    IsCfg h c ∧ IsCfg h X ∧ Reach h (.ref c) X
  | [], c, X, e => by
    obtain ⟨rfl, ic⟩ := navCfg_nil e
    exact ⟨ic, ic, .here _⟩
  | s :: rest, c, X, e => by
    obtain ⟨b, m, e'⟩ := navCfg_cons e
    obtain ⟨_, iX, r⟩ := navCfg_reach rest e'
    obtain ⟨ic, z, k, rz⟩ := m.down
    exact ⟨ic, iX, k.reach_of (reach_trans rz r)⟩

theorem lookup_inj {b : Nat} {k1 k2 : String} : ∀ {l : Slots}, (refsOf (l.map (·.2))).Nodup →
    lookup k1 l = some (.ref b) → lookup k2 l = some (.ref b) → k1 = k2
  | [], _, e1, _ => by simp [lookup] at e1
  | (k', v') :: r, hn, e1, e2 => by
    simp only [List.map_cons] at hn
    rw [refsOf_cons_nodup] at hn
    simp only [lookup] at e1 e2
    by_cases h1 : k' = k1 <;> by_cases h2 : k' = k2
    · rw [← h1, ← h2]
    · simp [h1] at e1; simp [h2] at e2
      exact absurd (mem_refsOf.mpr (lookup_mem e2)) (hn.1 b e1)
    · simp [h1] at e1; simp [h2] at e2
      exact absurd (mem_refsOf.mpr (lookup_mem e1)) (hn.1 b e2)
    · simp [h1] at e1; simp [h2] at e2
      exact lookup_inj hn.2 e1 e2

theorem getElem_inj_refs {b : Nat} : ∀ {items : List HVal} {i j : Nat}, (refsOf items).Nodup →
    items[i]? = some (.ref b) → items[j]? = some (.ref b) → i = j
  | [], i, j, _, e1, _ => by simp at e1
  | w :: r, i, j, hn, e1, e2 => by
    rw [refsOf_cons_nodup] at hn
    cases i with
    | zero =>
      cases j with
      | zero => rfl
      | succ j' =>
        simp at e1 e2
        exact absurd (mem_refsOf.mpr (List.mem_of_getElem? e2)) (hn.1 b e1)
    | succ i' =>
      cases j with
      | zero =>
        simp at e1 e2
        exact absurd (mem_refsOf.mpr (List.mem_of_getElem? e1)) (hn.1 b e2)
      | succ j' =>
        simp at e1 e2
        rw [getElem_inj_refs hn.2 e1 e2]


theorem nodup_of_cell {h : Heap} (ns : NoShare h) {x : Nat} {c : Cell} (e : h.cell? x = some c) : (refsOf c.kids).Nodup := by
  obtain ⟨o, e'⟩ := Heap.cell?_some e
  exact ns.nodup x o c e'

/-- a configuration strictly below `r` never reaches `r` -/
theorem move_no_back {h : Heap} (hb : Bounded h) {r r1 : Nat} {s : PStep} (m : PMove h r s r1) (back : Reach h (.ref r1) r) : False := by
  obtain ⟨_, z, k, rz⟩ := m.down
  exact no_cycle hb k (reach_trans rz back)

/-- from a configuration `r1 ≠ r2` that reaches `r2`, one can climb to the parent configuration of `r2` -/
theorem move_climb {h : Heap} (ns : NoShare h) {r r1 r2 : Nat} {s2 : PStep} (m2 : PMove h r s2 r2) (c1 : IsCfg h r1)
    (hne : r1 ≠ r2) (rr : Reach h (.ref r1) r2) : Reach h (.ref r1) r := by
  obtain ⟨k1, sl1, dy1, hc1⟩ := c1
  cases m2 with
  | fld name k sl dy b hc hl =>
    rcases reach_last rr with hl' | ⟨p, rp, kp⟩
    · simp at hl'; exact absurd hl' hne
    · have : p = r := ns.parent kp (kid_of_cell hc (lookup_mem hl))
      subst this; exact rp
  | item name n k sl dy l items b hc hl hcl hi =>
    rcases reach_last rr with hl' | ⟨p, rp, kp⟩
    · simp at hl'; exact absurd hl' hne
    · have : p = l := ns.parent kp (kid_of_cell hcl (List.mem_of_getElem? hi))
      subst this
      rcases reach_last rp with hl' | ⟨p', rp', kp'⟩
      · simp at hl'; subst hl'
        rw [hc1] at hcl; simp at hcl
      · have : p' = r := ns.parent kp' (kid_of_cell hc (lookup_mem hl))
        subst this; exact rp'

/-- **two moves from one configuration whose results are related are the same move** -/
theorem move_inj {h : Heap} (ns : NoShare h) (hb : Bounded h) {r r1 r2 : Nat} {s s2 : PStep}
    (m1 : PMove h r s r1) (m2 : PMove h r s2 r2) (c1 : IsCfg h r1) (rr : Reach h (.ref r1) r2) : s = s2 ∧ r1 = r2 := by
  have heq : r1 = r2 := by
    by_cases hne : r1 = r2
    · exact hne
    · exact (move_no_back hb m1 (move_climb ns m2 c1 hne rr)).elim
  subst heq
  refine ⟨?_, rfl⟩
  cases m1 with
  | fld name k sl dy b hc hl =>
    cases m2 with
    | fld name2 k2 sl2 dy2 b2 hc2 hl2 =>
      rw [hc] at hc2; simp at hc2
      obtain ⟨_, rfl, _⟩ := hc2
      have := lookup_inj (by simpa [Cell.kids] using nodup_of_cell ns hc) hl hl2
      rw [this]
    | item name2 n2 k2 sl2 dy2 l2 items2 b2 hc2 hl2 hcl2 hi2 =>
      have : r = l2 := ns.parent (kid_of_cell hc (lookup_mem hl)) (kid_of_cell hcl2 (List.mem_of_getElem? hi2))
      subst this
      rw [hc] at hcl2; simp at hcl2
  | item name n k sl dy l items b hc hl hcl hi =>
    cases m2 with
    | fld name2 k2 sl2 dy2 b2 hc2 hl2 =>
      have : l = r := ns.parent (kid_of_cell hcl (List.mem_of_getElem? hi)) (kid_of_cell hc2 (lookup_mem hl2))
      subst this
      rw [hc2] at hcl; simp at hcl
    | item name2 n2 k2 sl2 dy2 l2 items2 b2 hc2 hl2 hcl2 hi2 =>
      have : l = l2 := ns.parent (kid_of_cell hcl (List.mem_of_getElem? hi)) (kid_of_cell hcl2 (List.mem_of_getElem? hi2))
      subst this
      rw [hc] at hc2; simp at hc2
      obtain ⟨_, rfl, _⟩ := hc2
      rw [hcl] at hcl2; simp at hcl2; subst hcl2
      have e1 := lookup_inj (by simpa [Cell.kids] using nodup_of_cell ns hc) hl hl2
      have e2 := getElem_inj_refs (by simpa [Cell.kids] using nodup_of_cell ns hcl) hi hi2
      rw [e1, e2]

/-- **Lemma Q**: if the configuration at path `pB` reaches the configuration at path `q` (both from `r`), then `pB` is a prefix of `q` -/
theorem path_prefix {h : Heap} (ns : NoShare h) (hb : Bounded h) : ∀ (pB q : List PStep) {r B C : Nat},
    navCfg h r pB = .ok B → navCfg h r q = .ok C → Reach h (.ref B) C → pB <+: q
  | [], q, _, _, _, _, _, _ => List.nil_prefix
  | s :: pB', [], r, B, C, eB, eC, rr => by
    obtain ⟨rfl, _⟩ := navCfg_nil eC
    obtain ⟨r1, m, e'⟩ := navCfg_cons eB
    obtain ⟨_, _, r1B⟩ := navCfg_reach pB' e'
    exact (move_no_back hb m (reach_trans r1B rr)).elim
  | s :: pB', s2 :: q', r, B, C, eB, eC, rr => by
    obtain ⟨r1, m1, e1⟩ := navCfg_cons eB
    obtain ⟨r2, m2, e2⟩ := navCfg_cons eC
    obtain ⟨c1, _, r1B⟩ := navCfg_reach pB' e1
    obtain ⟨c2, _, r2C⟩ := navCfg_reach q' e2
    have r1C : Reach h (.ref r1) C := reach_trans r1B rr
    have hs : s = s2 ∧ r1 = r2 := by
      rcases reach_chain' ns r1C r2C with h12 | h21
      · exact move_inj ns hb m1 m2 c1 h12
      · obtain ⟨a, b⟩ := move_inj ns hb m2 m1 c2 h21
        exact ⟨a.symm, b.symm⟩
    obtain ⟨rfl, rfl⟩ := hs
    have := path_prefix ns hb pB' q' e1 e2 rr
    exact List.cons_prefix_cons.mpr ⟨rfl, this⟩


theorem navVal_reach {h : Heap} : ∀ (steps : List VStep) {v : HVal} {a : Nat}, navVal h v steps = .ok a → Reach h v a
  | [], v, a, e => by
    cases v with
    | ref x => simp [navVal] at e; subst e; exact .here _
    | atom _ => simp [navVal] at e
    | null => simp [navVal] at e
  | .idx n :: rest, v, a, e => by
    cases v with
    | ref x =>
      simp only [navVal] at e
      cases hc : h.cell? x with
      | none => simp [hc] at e
      | some c =>
        cases c with
        | list items =>
          simp only [hc] at e
          cases hi : items[n]? with
          | none => simp [hi] at e
          | some w =>
            simp only [hi] at e
            obtain ⟨o, e'⟩ := Heap.cell?_some hc
            exact .step x o _ w a e' (List.mem_of_getElem? hi) (navVal_reach rest e)
        | dict _ => simp [hc] at e
        | cfg _ _ _ => simp [hc] at e
    | atom _ => simp [navVal] at e
    | null => simp [navVal] at e
  | .key k :: rest, v, a, e => by
    cases v with
    | ref x =>
      simp only [navVal] at e
      cases hc : h.cell? x with
      | none => simp [hc] at e
      | some c =>
        cases c with
        | dict kvs =>
          simp only [hc] at e
          cases hi : lookup k kvs with
          | none => simp [hi] at e
          | some w =>
            simp only [hi] at e
            obtain ⟨o, e'⟩ := Heap.cell?_some hc
            exact .step x o _ w a e' (lookup_mem hi) (navVal_reach rest e)
        | list _ => simp [hc] at e
        | cfg _ _ _ => simp [hc] at e
    | atom _ => simp [navVal] at e
    | null => simp [navVal] at e

/-- **Lemma P**: index / key steps never enter a configuration: a configuration `B` that does not reach the container `X`
    but reaches the end `a` of a value path starting in `X` is that end itself -/
theorem navVal_sep {h : Heap} (ns : NoShare h) {B : Nat} (cB : IsCfg h B) : ∀ (steps : List VStep) {X : Nat} {cX : Cell} {v : HVal} {a : Nat},
    h.cell? X = some cX → v ∈ cX.kids → ¬ Reach h (.ref B) X → navVal h v steps = .ok a → Reach h (.ref B) a → B = a
  | [], X, cX, v, a, hX, hv, nX, e, rB => by
    cases v with
    | ref x =>
      simp [navVal] at e; subst e
      rcases reach_last rB with hl | ⟨p, rp, kp⟩
      · simp at hl; exact hl
      · have : p = X := ns.parent kp (kid_of_cell hX hv)
        subst this; exact absurd rp nX
    | atom _ => simp [navVal] at e
    | null => simp [navVal] at e
  | st :: rest, X, cX, v, a, hX, hv, nX, e, rB => by
    obtain ⟨kB, slB, dyB, hcB⟩ := cB
    cases v with
    | ref x =>
      -- `B` does not reach the plain container `x` either
      have nx : ∀ cx, h.cell? x = some cx → cx.isCfg = false → ¬ Reach h (.ref B) x := by
        intro cx hcx hplain rBx
        rcases reach_last rBx with hl | ⟨p, rp, kp⟩
        · simp at hl; subst hl
          rw [hcB] at hcx; simp at hcx; subst hcx; simp [Cell.isCfg] at hplain
        · have : p = X := ns.parent kp (kid_of_cell hX hv)
          subst this; exact nX rp
      cases st with
      | idx n =>
        simp only [navVal] at e
        cases hc : h.cell? x with
        | none => simp [hc] at e
        | some c =>
          cases c with
          | list items =>
            simp only [hc] at e
            cases hi : items[n]? with
            | none => simp [hi] at e
            | some w =>
              simp only [hi] at e
              exact navVal_sep ns ⟨kB, slB, dyB, hcB⟩ rest hc (List.mem_of_getElem? hi) (nx _ hc rfl) e rB
          | dict _ => simp [hc] at e
          | cfg _ _ _ => simp [hc] at e
      | key k =>
        simp only [navVal] at e
        cases hc : h.cell? x with
        | none => simp [hc] at e
        | some c =>
          cases c with
          | dict kvs =>
            simp only [hc] at e
            cases hi : lookup k kvs with
            | none => simp [hi] at e
            | some w =>
              simp only [hi] at e
              exact navVal_sep ns ⟨kB, slB, dyB, hcB⟩ rest hc (lookup_mem hi) (nx _ hc rfl) e rB
          | list _ => simp [hc] at e
          | cfg _ _ _ => simp [hc] at e
    | atom _ => simp [navVal] at e
    | null => simp [navVal] at e

theorem Target.reach {h : Heap} {C a : Nat} (t : Target h C a) : Reach h (.ref C) a := by
  rcases t with rfl | ⟨k, sl, dy, key, v, steps, c, hC, hl, hn, _, _⟩
  · exact .here _
  · obtain ⟨o, e⟩ := Heap.cell?_some hC
    exact .step C o _ v a e (lookup_mem hl) (navVal_reach steps hn)

/-- **separation of paths**: an operation at path `q` writes nothing reachable from the configuration at path `pB`,
    unless `pB` is a prefix of `q` -/
theorem sep_target {h : Heap} (ns : NoShare h) (hb : Bounded h) {r B C a : Nat} {pB q : List PStep}
    (eB : navCfg h r pB = .ok B) (eC : navCfg h r q = .ok C) (hp : ¬ pB <+: q) (t : Target h C a) : ¬ Reach h (.ref B) a := by
  have nC : ¬ Reach h (.ref B) C := fun rr => hp (path_prefix ns hb pB q eB eC rr)
  obtain ⟨_, cB, _⟩ := navCfg_reach pB eB
  rcases t with rfl | ⟨k, sl, dy, key, v, steps, c, hC, hl, hn, hca, hplain⟩
  · exact nC
  · intro rB
    have := navVal_sep ns cB steps hC (lookup_mem hl) nC hn rB
    subst this
    obtain ⟨kB, slB, dyB, hcB⟩ := cB
    rw [hcB] at hca; simp at hca; subst hca; simp [Cell.isCfg] at hplain

/-- what is reachable from an allocated cell is read the same in two heaps that agree on it -/
theorem read_unreached {h h' : Heap} (hc : Closed h) {B : Nat} {o : Owner} (oB : OwnedBy h o (.ref B))
    (agree : ∀ x o' c, Reach h (.ref B) x → h.get? x = some (o', c) → h'.get? x = some (o', c)) (n : Nat) :
    readV n h' (.ref B) = readV n h (.ref B) := by
  refine read_agree (fun x => Reach h (.ref B) x) ?_ n _ (fun b hb => by simp at hb; subst hb; exact .here _)
  intro x rx
  obtain ⟨c, e⟩ := reach_owned hc rx oB
  exact ⟨o, c, e, agree x o c rx e, fun b hb => reach_trans rx (Kid.reach ⟨o, c, e, hb⟩)⟩

theorem PMove.stable {h h' : Heap} {c b : Nat} {s : PStep} (m : PMove h c s b)
    (agree : ∀ z cz, Reach h (.ref z) b → h.cell? z = some cz → h'.cell? z = some cz) : PMove h' c s b := by
  cases m with
  | fld name k sl dy b hc hl =>
    exact .fld name k sl dy b (agree c _ (kid_of_cell hc (lookup_mem hl)).reach hc) hl
  | item name n k sl dy l items b hc hl hcl hi =>
    have kl := kid_of_cell hcl (List.mem_of_getElem? hi)
    exact .item name n k sl dy l items b (agree c _ ((kid_of_cell hc (lookup_mem hl)).reach_of kl.reach) hc) hl
      (agree l _ kl.reach hcl) hi

theorem PMove.nav {h : Heap} {c b X : Nat} {s : PStep} {rest : List PStep} (m : PMove h c s b) (e : navCfg h b rest = .ok X) :
    navCfg h c (s :: rest) = .ok X := by
  cases m with
  | fld name k sl dy b hc hl => simp only [navCfg, hc, hl]; exact e
  | item name n k sl dy l items b hc hl hcl hi => simp only [navCfg, hc, hl, hcl, hi]; exact e

/-- navigation only looks at cells that reach its result -/
theorem navCfg_stable {h h' : Heap} : ∀ (p : List PStep) {c X : Nat}, navCfg h c p = .ok X →
    (∀ z cz, Reach h (.ref z) X → h.cell? z = some cz → h'.cell? z = some cz) → navCfg h' c p = .ok X
  | [], c, X, e, agree => by
    obtain ⟨rfl, k, sl, dy, hc⟩ := navCfg_nil e
    simp [navCfg, agree X _ (.here _) hc]
  | s :: rest, c, X, e, agree => by
    obtain ⟨b, m, e'⟩ := navCfg_cons e
    obtain ⟨_, _, rbX⟩ := navCfg_reach rest e'
    have m' := m.stable (h' := h') (fun z cz rz hz => agree z cz (reach_trans rz rbX) hz)
    exact m'.nav (navCfg_stable rest e' agree)

theorem navCfg_append {h : Heap} : ∀ (p1 p2 : List PStep) {c X : Nat}, navCfg h c (p1 ++ p2) = .ok X →
    ∃ A, navCfg h c p1 = .ok A ∧ navCfg h A p2 = .ok X
  | [], p2, c, X, e => by
    obtain ⟨ic, _, _⟩ := navCfg_reach p2 (by simpa using e)
    obtain ⟨k, sl, dy, hc⟩ := ic
    exact ⟨c, by simp [navCfg, hc], by simpa using e⟩
  | s :: p1, p2, c, X, e => by
    obtain ⟨b, m, e'⟩ := navCfg_cons (by simpa using e)
    obtain ⟨A, eA, eX⟩ := navCfg_append p1 p2 e'
    exact ⟨A, m.nav eA, eX⟩


/-! ### R. state-level separation of paths -/

theorem inv_init (specs : List SchemaSpec) : Inv (initS specs) (init specs) :=
  ⟨sep_init specs, bounded_init specs, noShare_init specs⟩

theorem inv_step {S : Schemas} (hS : AllDeep S) {s : State} (inv : Inv S s) (i : Nat) (op : Op) : Inv S (step S s i op).1 :=
  ⟨step_sep hS inv.sep i op, step_bounded hS inv.sep inv.bounded i op, step_noShare hS inv.sep inv.noShare i op⟩

theorem inv_run {S : Schemas} (hS : AllDeep S) : ∀ (hist : List (Nat × Op)) {s : State}, Inv S s → Inv S (run S s hist)
  | [], _, inv => inv
  | (i, op) :: rest, _, inv => inv_run hS rest (inv_step hS inv i op)

theorem step_roots_old {S : Schemas} {s : State} {i j : Nat} {r : Nat} (op : Op) (hr : s.roots[j]? = some r) :
    (step S s i op).1.roots[j]? = some r := by
  cases step_res S s i op with
  | same e => rw [e]; exact hr
  | exec r0 c h' _ _ _ e => rw [e]; exact hr
  | built a _ hi _ e =>
    rw [e]
    have : j < s.roots.length := (List.getElem?_eq_some_iff.mp hr).1
    simp only
    rw [List.getElem?_append_left this]; exact hr

/-- the written cell of a step on root `i` (if any) is not reachable from a configuration at a path that is not a prefix of the
    operation's path -/
theorem step_target_unreached {S : Schemas} {s : State} (inv : Inv S s) {i r : Nat} (hr : s.roots[i]? = some r) (op : Op)
    {pB : List PStep} {B : Nat} (hB : navCfg s.heap r pB = .ok B) (hp : ¬ pB <+: op.path) {x : Nat}
    (rx : Reach s.heap (.ref B) x) : ¬ StepTarget s i op x := by
  intro ⟨r', C, hr', hC, t⟩
  rw [hr] at hr'; simp at hr'; subst hr'
  exact sep_target inv.noShare inv.bounded hB hC hp t rx

theorem step_read_path {S : Schemas} (hS : AllDeep S) {s : State} (inv : Inv S s) {i r : Nat} (hr : s.roots[i]? = some r) (op : Op)
    {pB : List PStep} {B : Nat} (hB : navCfg s.heap r pB = .ok B) (hp : ¬ pB <+: op.path) (n : Nat) :
    readV n (step S s i op).1.heap (.ref B) = readV n s.heap (.ref B) := by
  have sh := step_shape hS inv.sep i op
  obtain ⟨cr, er⟩ := inv.sep.roots i r hr
  obtain ⟨k, sl, dy, eB⟩ := navCfg_owned inv.sep.closed pB r cr B er hB
  refine read_unreached inv.sep.closed (o := .cfg i) ⟨_, eB⟩ ?_ n
  intro x o' c rx e
  exact sh.frame_addr e (step_target_unreached inv hr op hB hp rx)

theorem step_obs_path {S : Schemas} (hS : AllDeep S) {s : State} (inv : Inv S s) {i r : Nat} (hr : s.roots[i]? = some r) (op : Op)
    {pB : List PStep} {B : Nat} (hB : navCfg s.heap r pB = .ok B) (hp : ¬ pB <+: op.path) :
    obsCfg (step S s i op).1.heap B = obsCfg s.heap B := by
  have sh := step_shape hS inv.sep i op
  obtain ⟨cr, er⟩ := inv.sep.roots i r hr
  obtain ⟨k, sl, dy, eB⟩ := navCfg_owned inv.sep.closed pB r cr B er hB
  simp only [obsCfg, obsCfgN]
  rw [step_read_path hS inv hr op hB hp]
  exact read_fuel2 inv.bounded (o := .cfg i) (v := .ref B) ⟨_, eB⟩ (by have := sh.next_le; omega) (by omega)

/-- navigation to a configuration that the operation's target configuration does not lie above is unchanged -/
theorem step_nav_path {S : Schemas} (hS : AllDeep S) {s : State} (inv : Inv S s) {i r : Nat} (hr : s.roots[i]? = some r) (op : Op)
    {pA rest pB : List PStep} (hop : op.path = pA ++ rest) {B : Nat} (hB : navCfg s.heap r pB = .ok B) (hp : ¬ pA <+: pB) :
    navCfg (step S s i op).1.heap r pB = .ok B := by
  have sh := step_shape hS inv.sep i op
  refine navCfg_stable pB hB ?_
  intro z cz rz hz
  obtain ⟨o, ez⟩ := Heap.cell?_some hz
  refine Heap.cell?_eq (sh.frame_addr ez ?_)
  intro ⟨r', C, hr', hC, t⟩
  rw [hr] at hr'; simp at hr'; subst hr'
  rw [hop] at hC
  obtain ⟨A, eA, eAC⟩ := navCfg_append pA rest hC
  obtain ⟨_, _, rAC⟩ := navCfg_reach rest eAC
  exact hp (path_prefix inv.noShare inv.bounded pA pB eA hB (reach_trans rAC (reach_trans t.reach rz)))

theorem not_prefix_of_incomparable {α : Type} {pA pB rest : List α} (h1 : ¬ pA <+: pB) (h2 : ¬ pB <+: pA) : ¬ pB <+: pA ++ rest := by
  intro hp
  rcases List.prefix_or_prefix_of_prefix (List.prefix_append pA rest) hp with h | h
  · exact h1 h
  · exact h2 h

theorem State.at_some {s : State} {i : Nat} {p : List PStep} {B : Nat} (e : s.at i p = some B) :
    ∃ r, s.roots[i]? = some r ∧ navCfg s.heap r p = .ok B := by
  simp only [State.at] at e
  cases hr : s.roots[i]? with
  | none => simp [hr] at e
  | some r =>
    simp only [hr] at e
    cases hn : navCfg s.heap r p with
    | error er => simp [hn, Except.toOption] at e
    | ok b => simp [hn, Except.toOption] at e; subst e; exact ⟨r, rfl, hn⟩

theorem State.at_of {s : State} {i : Nat} {p : List PStep} {r B : Nat} (hr : s.roots[i]? = some r) (e : navCfg s.heap r p = .ok B) :
    s.at i p = some B := by simp [State.at, hr, e, Except.toOption]

/-- one step through `pA`, seen from the configuration at an incomparable path `pB` of the same root -/
theorem step_incomparable {S : Schemas} (hS : AllDeep S) {s : State} (inv : Inv S s) {i : Nat} (op : Op)
    {pA rest pB : List PStep} (hop : op.path = pA ++ rest) (h1 : ¬ pA <+: pB) (h2 : ¬ pB <+: pA) {B : Nat}
    (hB : s.at i pB = some B) :
    (step S s i op).1.at i pB = some B ∧ obsCfg (step S s i op).1.heap B = obsCfg s.heap B := by
  obtain ⟨r, hr, eB⟩ := State.at_some hB
  refine ⟨State.at_of (step_roots_old op hr) (step_nav_path hS inv hr op hop eB h1), ?_⟩
  exact step_obs_path hS inv hr op eB (by rw [hop]; exact not_prefix_of_incomparable h1 h2)

theorem runOn_incomparable {S : Schemas} (hS : AllDeep S) {i : Nat} {pA pB : List PStep} (h1 : ¬ pA <+: pB) (h2 : ¬ pB <+: pA) :
    ∀ (ops : List Op) {s : State}, Inv S s → (∀ o ∈ ops, pA <+: o.path) → ∀ {B : Nat}, s.at i pB = some B →
      (runOn S s i ops).at i pB = some B ∧ obsCfg (runOn S s i ops).heap B = obsCfg s.heap B
  | [], _, _, _, _, hB => ⟨hB, rfl⟩
  | o :: ops, s, inv, hops, B, hB => by
    obtain ⟨rest, hrest⟩ := hops o List.mem_cons_self
    obtain ⟨a1, a2⟩ := step_incomparable hS inv o hrest.symm h1 h2 hB
    obtain ⟨b1, b2⟩ := runOn_incomparable hS h1 h2 ops (inv_step hS inv i o) (fun o' ho' => hops o' (List.mem_cons_of_mem _ ho')) a1
    rw [runOn_cons]
    exact ⟨b1, b2.trans a2⟩

/-- a step on root `i`, seen from a configuration below another root `j` -/
theorem step_other_root_path {S : Schemas} (hS : AllDeep S) {s : State} (inv : Inv S s) {i j : Nat} (hij : i ≠ j) (op : Op)
    {pB : List PStep} {B : Nat} (hB : s.at j pB = some B) :
    (step S s i op).1.at j pB = some B ∧ obsCfg (step S s i op).1.heap B = obsCfg s.heap B := by
  obtain ⟨r, hr, eB⟩ := State.at_some hB
  have sh := step_shape hS inv.sep i op
  obtain ⟨cr, er⟩ := inv.sep.roots j r hr
  obtain ⟨k, sl, dy, e⟩ := navCfg_owned inv.sep.closed pB r cr B er eB
  have hne : Owner.cfg j ≠ Owner.cfg i := by simp; omega
  refine ⟨State.at_of (step_roots_old op hr) (navCfg_stable pB eB ?_), ?_⟩
  · intro z cz rz hz
    obtain ⟨o, ez⟩ := Heap.cell?_some hz
    obtain ⟨cB, eB'⟩ := reach_owned inv.sep.closed rz (o := o) ⟨cz, ez⟩
    rw [e] at eB'; simp at eB'
    have : o = .cfg j := eB'.1.symm
    subst this
    exact Heap.cell?_eq (sh.frame ez hne)
  · simp only [obsCfg, obsCfgN]
    exact step_read_other hS inv.sep inv.bounded i op (o := .cfg j) hne ⟨_, e⟩


theorem check_of_allDeep {S : Schemas} (h : AllDeep S) : allDeepB S = true := by
  simp only [allDeepB, List.all_eq_true]
  intro sd hsd p hp
  obtain ⟨name, d⟩ := p
  cases d with
  | leaf disc dv =>
    have := h sd hsd name disc dv hp
    simp only [fieldDeepB, Bool.or_eq_true, beq_iff_eq, Bool.not_eq_true']
    exact this
  | sub _ => rfl
  | cfgList _ => rfl


end Cinco.Heap
