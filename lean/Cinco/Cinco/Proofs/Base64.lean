import Cinco.Field.Base64
namespace Cinco.B64

theorem decChar_encChar : ∀ n, n < 64 → decChar (encChar n) = some n := by decide
theorem encChar_ne_pad : ∀ n, n < 64 → encChar n ≠ '=' := by decide
theorem encChar_ascii : ∀ n, n < 64 → (encChar n).toNat < 128 := by decide

theorem ofNat_toNat (a : UInt8) : UInt8.ofNat a.toNat = a := by simp

theorem step_data (quad left pads : Nat) (n : Nat) (hn : n < 64) (rest : Str) :
    decodeGo quad left pads (encChar n :: rest) =
      match quad with
      | 0 => decodeGo 1 n 0 rest
      | 1 => (decodeGo 2 (n % 16) 0 rest).map (UInt8.ofNat (left * 4 + n / 16) :: ·)
      | 2 => (decodeGo 3 (n % 4) 0 rest).map (UInt8.ofNat (left * 16 + n / 4) :: ·)
      | _ => (decodeGo 0 0 0 rest).map (UInt8.ofNat (left * 64 + n) :: ·) := by
  rw [decodeGo, if_neg (encChar_ne_pad n hn), decChar_encChar n hn]
  rfl

theorem decodeGo_encode : ∀ (b : Bytes), decodeGo 0 0 0 (encode b) = some b
  | [] => by simp [encode, decodeGo]
  | [a] => by
    have ha : a.toNat < 256 := a.toNat_lt
    have e : 0 * 4 + 0 = 0 := rfl
    simp only [encode]
    rw [step_data 0 0 0 _ (by omega), step_data 1 _ 0 _ (by omega)]
    have h1 : a.toNat / 4 * 4 + a.toNat % 4 * 16 / 16 = a.toNat := by omega
    have hd : decodeGo 2 (a.toNat % 4 * 16 % 16) 0 ['=', '='] = some [] := by
      simp [decodeGo]
    simp only [hd, Option.map_some, h1, ofNat_toNat]
  | [a, b] => by
    have ha : a.toNat < 256 := a.toNat_lt
    have hb : b.toNat < 256 := b.toNat_lt
    simp only [encode]
    rw [step_data 0 0 0 _ (by omega), step_data 1 _ 0 _ (by omega), step_data 2 _ 0 _ (by omega)]
    have h1 : (a.toNat * 256 + b.toNat) / 1024 * 4 + (a.toNat * 256 + b.toNat) / 16 % 64 / 16 = a.toNat := by omega
    have h2 : (a.toNat * 256 + b.toNat) / 16 % 64 % 16 * 16 + (a.toNat * 256 + b.toNat) % 16 * 4 / 4 = b.toNat := by omega
    have hd : decodeGo 3 ((a.toNat * 256 + b.toNat) % 16 * 4 % 4) 0 ['='] = some [] := by
      simp [decodeGo]
    simp only [hd, Option.map_some, h1, h2, ofNat_toNat]
  | a :: b :: c :: rest => by
    have ha : a.toNat < 256 := a.toNat_lt
    have hb : b.toNat < 256 := b.toNat_lt
    have hc : c.toNat < 256 := c.toNat_lt
    simp only [encode]
    rw [step_data 0 0 0 _ (by omega), step_data 1 _ 0 _ (by omega), step_data 2 _ 0 _ (by omega),
      step_data 3 _ 0 _ (by omega), decodeGo_encode rest]
    have h1 : (a.toNat * 65536 + b.toNat * 256 + c.toNat) / 262144 * 4 +
          (a.toNat * 65536 + b.toNat * 256 + c.toNat) / 4096 % 64 / 16 = a.toNat := by omega
    have h2 : (a.toNat * 65536 + b.toNat * 256 + c.toNat) / 4096 % 64 % 16 * 16 +
          (a.toNat * 65536 + b.toNat * 256 + c.toNat) / 64 % 64 / 4 = b.toNat := by omega
    have h3 : (a.toNat * 65536 + b.toNat * 256 + c.toNat) / 64 % 64 % 4 * 64 +
          (a.toNat * 65536 + b.toNat * 256 + c.toNat) % 64 = c.toNat := by omega
    simp only [Option.map_some, h1, h2, h3, ofNat_toNat]

theorem encode_ascii : ∀ (b : Bytes), (encode b).all (fun c => c.toNat < 128) = true
  | [] => rfl
  | [a] => by
    have ha : a.toNat < 256 := a.toNat_lt
    simp [encode, encChar_ascii (a.toNat / 4) (by omega), encChar_ascii (a.toNat % 4 * 16) (by omega)]
  | [a, b] => by
    have ha : a.toNat < 256 := a.toNat_lt
    have hb : b.toNat < 256 := b.toNat_lt
    simp [encode, encChar_ascii ((a.toNat * 256 + b.toNat) / 1024) (by omega),
      encChar_ascii ((a.toNat * 256 + b.toNat) / 16 % 64) (by omega),
      encChar_ascii ((a.toNat * 256 + b.toNat) % 16 * 4) (by omega)]
  | a :: b :: c :: rest => by
    have ha : a.toNat < 256 := a.toNat_lt
    have hb : b.toNat < 256 := b.toNat_lt
    have hc : c.toNat < 256 := c.toNat_lt
    have ih := encode_ascii rest
    simp only [encode, List.all_cons, Bool.and_eq_true, decide_eq_true_eq]
    exact ⟨encChar_ascii _ (by omega), encChar_ascii _ (by omega), encChar_ascii _ (by omega),
      encChar_ascii _ (by omega), by simpa using ih⟩

/-- **base64 decode inverts encode**, for every byte string. -/
theorem decode_encode (b : Bytes) : decode (encode b) = some b := by
  unfold decode
  rw [if_pos (encode_ascii b), decodeGo_encode]

/-! ### the strict decoder (`b64decode(validate=True)`) -/

/-- the alphabet is exactly the set of characters the decoder gives a value to -/
theorem inAlphabet_eq_decChar (c : Char) : inAlphabet c = (decChar c).isSome := by
  unfold inAlphabet decChar
  simp only []
  split
  · next h => simp [h.1, h.2]
  · split
    · next h => simp [h.1, h.2]
    · split
      · next h => simp [h.1, h.2]
      · split
        · next h => simp [h]
        · split
          · next h => simp [h]
          · next h1 h2 h3 h4 h5 =>
            simp only [Option.isSome_none, Bool.or_eq_false_iff, Bool.and_eq_false_iff, decide_eq_false_iff_not,
              beq_eq_false_iff_ne, ne_eq]
            omega

theorem encChar_inAlphabet (n : Nat) (hn : n < 64) : inAlphabet (encChar n) = true := by
  rw [inAlphabet_eq_decChar, decChar_encChar n hn]; rfl

theorem pad_not_inAlphabet : inAlphabet '=' = false := by decide

theorem strictShape_cons (c : Char) (s : Str) (h : inAlphabet c = true) : strictShape (c :: s) = strictShape s := by
  simp [strictShape, h]

/-- `encode` emits alphabet characters followed by at most two `=` -/
theorem encode_strictShape : ∀ (b : Bytes), strictShape (encode b) = true
  | [] => by simp [encode, strictShape]
  | [a] => by
    have ha : a.toNat < 256 := a.toNat_lt
    simp [encode, strictShape, encChar_inAlphabet (a.toNat / 4) (by omega),
      encChar_inAlphabet (a.toNat % 4 * 16) (by omega), pad_not_inAlphabet]
  | [a, b] => by
    have ha : a.toNat < 256 := a.toNat_lt
    have hb : b.toNat < 256 := b.toNat_lt
    simp [encode, strictShape, encChar_inAlphabet ((a.toNat * 256 + b.toNat) / 1024) (by omega),
      encChar_inAlphabet ((a.toNat * 256 + b.toNat) / 16 % 64) (by omega),
      encChar_inAlphabet ((a.toNat * 256 + b.toNat) % 16 * 4) (by omega), pad_not_inAlphabet]
  | a :: b :: c :: rest => by
    have ha : a.toNat < 256 := a.toNat_lt
    have hb : b.toNat < 256 := b.toNat_lt
    have hc : c.toNat < 256 := c.toNat_lt
    simp only [encode]
    rw [strictShape_cons _ _ (encChar_inAlphabet _ (by omega)), strictShape_cons _ _ (encChar_inAlphabet _ (by omega)),
      strictShape_cons _ _ (encChar_inAlphabet _ (by omega)), strictShape_cons _ _ (encChar_inAlphabet _ (by omega))]
    exact encode_strictShape rest

/-- **strict decode inverts encode**, for every byte string. -/
theorem decodeStrict_encode (b : Bytes) : decodeStrict (encode b) = some b := by
  unfold decodeStrict
  rw [if_pos (encode_strictShape b), decode_encode]

/-- the strict decoder only ever returns what the non-strict one returns -/
theorem decodeStrict_some_decode (s : Str) (b : Bytes) (h : decodeStrict s = some b) : decode s = some b := by
  unfold decodeStrict at h
  split at h
  · exact h
  · cases h

theorem mem_takeWhile_imp (p : Char → Bool) (c : Char) : ∀ l : Str, c ∈ l.takeWhile p → p c = true
  | [], h => by simp at h
  | x :: xs, h => by
    rw [List.takeWhile_cons] at h
    split at h
    · next hx =>
      rcases List.mem_cons.1 h with rfl | h'
      · exact hx
      · exact mem_takeWhile_imp p c xs h'
    · simp at h

/-- a text of the strict shape consists of alphabet characters and `=` only -/
theorem strictShape_mem (s : Str) (h : strictShape s = true) (c : Char) (hc : c ∈ s) :
    inAlphabet c = true ∨ c = '=' := by
  rw [← List.takeWhile_append_dropWhile (p := inAlphabet) (l := s), List.mem_append] at hc
  rcases hc with hc | hc
  · exact Or.inl (mem_takeWhile_imp inAlphabet c _ hc)
  · right
    unfold strictShape at h
    simp only [Bool.or_eq_true, beq_iff_eq] at h
    rcases h with (h | h) | h <;> rw [h] at hc <;> simp at hc
    · exact hc
    · exact hc

/-- **foreign characters are rejected**: one character outside `A–Z a–z 0–9 + / =` anywhere in the text and the strict
    decoder fails (the non-strict one would skip it). -/
theorem decodeStrict_rejects_foreign (s : Str) (h : ∃ c ∈ s, inAlphabet c = false ∧ c ≠ '=') :
    decodeStrict s = none := by
  obtain ⟨c, hc, hna, hne⟩ := h
  unfold decodeStrict
  split
  · next hs =>
    rcases strictShape_mem s hs c hc with h | h
    · rw [hna] at h; cases h
    · exact absurd h hne
  · rfl

/-- the strict shape is decided by the padding alone: no `=` inside, at most two at the end -/
example : strictShape "QUJD".toList = true ∧ strictShape "QUI=".toList = true ∧ strictShape "QQ==".toList = true ∧
    strictShape "Q===".toList = false ∧ strictShape "QQ==\n".toList = false ∧ strictShape "QQ=Q".toList = false ∧
    strictShape "!!!!".toList = false ∧ strictShape "".toList = true := by decide
/-- wrong length / padding is still the decoder's business -/
example : decodeStrict "QQ".toList = none ∧ decodeStrict "QQ=".toList = none ∧ decodeStrict "QQ==".toList = some [65] ∧
    decode "!!!!".toList = some [] ∧ decodeStrict "!!!!".toList = none ∧
    decode "QQ==!!??".toList = some [65] ∧ decodeStrict "QQ==!!??".toList = none := by decide

theorem hexVal_hexChar : ∀ n, n < 16 → hexVal (hexChar n) = some n := by decide
theorem hexChar_not_space : ∀ n, n < 16 → isHexSpace (hexChar n) = false := by decide

/-- **hex decode inverts encode**. -/
theorem hexDecode_hexEncode : ∀ (b : Bytes), hexDecode (hexEncode b) = some b
  | [] => rfl
  | a :: rest => by
    have ha : a.toNat < 256 := a.toNat_lt
    simp only [hexEncode, hexDecode, hexChar_not_space (a.toNat / 16) (by omega), Bool.false_eq_true, if_false,
      hexVal_hexChar (a.toNat / 16) (by omega), hexVal_hexChar (a.toNat % 16) (by omega),
      hexDecode_hexEncode rest, Option.map_some]
    have : a.toNat / 16 * 16 + a.toNat % 16 = a.toNat := by omega
    rw [this, ofNat_toNat]

end Cinco.B64
