import Cinco.Field.Base64
namespace Cinco.B64

theorem decChar_encChar : ∀ n, n < 64 → decChar (encChar n) = some n := by decide
theorem encChar_ne_pad : ∀ n, n < 64 → encChar n ≠ '=' := by decide
theorem encChar_ascii : ∀ n, n < 64 → (encChar n).toNat < 128 := by decide

theorem ofNat_toNat (a : UInt8) : UInt8.ofNat a.toNat = a := by simp

theorem step_data (quad left pads : Nat) (n : Nat) (hn : n < 64) (rest : Str) :
    decodeGo quad left pads (encChar n :: rest) =
      match quad with
      | 0 => decodeGo 1 n 0 rest
      | 1 => (decodeGo 2 (n % 16) 0 rest).map (UInt8.ofNat (left * 4 + n / 16) :: ·)
      | 2 => (decodeGo 3 (n % 4) 0 rest).map (UInt8.ofNat (left * 16 + n / 4) :: ·)
      | _ => (decodeGo 0 0 0 rest).map (UInt8.ofNat (left * 64 + n) :: ·) := by
  rw [decodeGo, if_neg (encChar_ne_pad n hn), decChar_encChar n hn]
  rfl

theorem decodeGo_encode : ∀ (b : Bytes), decodeGo 0 0 0 (encode b) = some b
  | [] => by simp [encode, decodeGo]
  | [a] => by
    have ha : a.toNat < 256 := a.toNat_lt
    have e : 0 * 4 + 0 = 0 := rfl
    simp only [encode]
    rw [step_data 0 0 0 _ (by omega), step_data 1 _ 0 _ (by omega)]
    have h1 : a.toNat / 4 * 4 + a.toNat % 4 * 16 / 16 = a.toNat := by omega
    have hd : decodeGo 2 (a.toNat % 4 * 16 % 16) 0 ['=', '='] = some [] := by
      simp [decodeGo]
    simp only [hd, Option.map_some, h1, ofNat_toNat]
  | [a, b] => by
    have ha : a.toNat < 256 := a.toNat_lt
    have hb : b.toNat < 256 := b.toNat_lt
    simp only [encode]
    rw [step_data 0 0 0 _ (by omega), step_data 1 _ 0 _ (by omega), step_data 2 _ 0 _ (by omega)]
    have h1 : (a.toNat * 256 + b.toNat) / 1024 * 4 + (a.toNat * 256 + b.toNat) / 16 % 64 / 16 = a.toNat := by omega
    have h2 : (a.toNat * 256 + b.toNat) / 16 % 64 % 16 * 16 + (a.toNat * 256 + b.toNat) % 16 * 4 / 4 = b.toNat := by omega
    have hd : decodeGo 3 ((a.toNat * 256 + b.toNat) % 16 * 4 % 4) 0 ['='] = some [] := by
      simp [decodeGo]
    simp only [hd, Option.map_some, h1, h2, ofNat_toNat]
  | a :: b :: c :: rest => by
    have ha : a.toNat < 256 := a.toNat_lt
    have hb : b.toNat < 256 := b.toNat_lt
    have hc : c.toNat < 256 := c.toNat_lt
    simp only [encode]
    rw [step_data 0 0 0 _ (by omega), step_data 1 _ 0 _ (by omega), step_data 2 _ 0 _ (by omega),
      step_data 3 _ 0 _ (by omega), decodeGo_encode rest]
    have h1 : (a.toNat * 65536 + b.toNat * 256 + c.toNat) / 262144 * 4 +
          (a.toNat * 65536 + b.toNat * 256 + c.toNat) / 4096 % 64 / 16 = a.toNat := by omega
    have h2 : (a.toNat * 65536 + b.toNat * 256 + c.toNat) / 4096 % 64 % 16 * 16 +
          (a.toNat * 65536 + b.toNat * 256 + c.toNat) / 64 % 64 / 4 = b.toNat := by omega
    have h3 : (a.toNat * 65536 + b.toNat * 256 + c.toNat) / 64 % 64 % 4 * 64 +
          (a.toNat * 65536 + b.toNat * 256 + c.toNat) % 64 = c.toNat := by omega
    simp only [Option.map_some, h1, h2, h3, ofNat_toNat]

theorem encode_ascii : ∀ (b : Bytes), (encode b).all (fun c => c.toNat < 128) = true
  | [] => rfl
  | [a] => by
    have ha : a.toNat < 256 := a.toNat_lt
    simp [encode, encChar_ascii (a.toNat / 4) (by omega), encChar_ascii (a.toNat % 4 * 16) (by omega)]
  | [a, b] => by
    have ha : a.toNat < 256 := a.toNat_lt
    have hb : b.toNat < 256 := b.toNat_lt
    simp [encode, encChar_ascii ((a.toNat * 256 + b.toNat) / 1024) (by omega),
      encChar_ascii ((a.toNat * 256 + b.toNat) / 16 % 64) (by omega),
      encChar_ascii ((a.toNat * 256 + b.toNat) % 16 * 4) (by omega)]
  | a :: b :: c :: rest => by
    have ha : a.toNat < 256 := a.toNat_lt
    have hb : b.toNat < 256 := b.toNat_lt
    have hc : c.toNat < 256 := c.toNat_lt
    have ih := encode_ascii rest
    simp only [encode, List.all_cons, Bool.and_eq_true, decide_eq_true_eq]
    exact ⟨encChar_ascii _ (by omega), encChar_ascii _ (by omega), encChar_ascii _ (by omega),
      encChar_ascii _ (by omega), by simpa using ih⟩

/-- **base64 decode inverts encode**, for every byte string. -/
theorem decode_encode (b : Bytes) : decode (encode b) = some b := by
  unfold decode
  rw [if_pos (encode_ascii b), decodeGo_encode]

theorem hexVal_hexChar : ∀ n, n < 16 → hexVal (hexChar n) = some n := by decide
theorem hexChar_not_space : ∀ n, n < 16 → isHexSpace (hexChar n) = false := by decide

/-- **hex decode inverts encode**. -/
theorem hexDecode_hexEncode : ∀ (b : Bytes), hexDecode (hexEncode b) = some b
  | [] => rfl
  | a :: rest => by
    have ha : a.toNat < 256 := a.toNat_lt
    simp only [hexEncode, hexDecode, hexChar_not_space (a.toNat / 16) (by omega), Bool.false_eq_true, if_false,
      hexVal_hexChar (a.toNat / 16) (by omega), hexVal_hexChar (a.toNat % 16) (by omega),
      hexDecode_hexEncode rest, Option.map_some]
    have : a.toNat / 16 * 16 + a.toNat % 16 = a.toNat := by omega
    rw [this, ofNat_toNat]

end Cinco.B64
