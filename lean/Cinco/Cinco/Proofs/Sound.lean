import Cinco.Proofs.RoundtripLeaf
import Cinco.Props.C01
/-
  Soundness of validation with respect to the constraints a field DECLARES.

  `Sat E f v` is written from the declaration `f` (kind, options, `required`), not by calling the validator's rule
  functions; `validate_sound` says that whatever `validate E f _` returns satisfies it, at every nesting depth.
  The environment `E` appears in `Sat` only for the two constraints that are *about* the environment: a URL field's
  "parses as a URL with a scheme" (`E.urlOk`) and a filename field's existence constraint (`E.fsKind`) /
  resolution against the start directory (`E.resolve`, `E.isabs`).
-/
namespace Cinco.Field
open Cinco Cinco.Num Cinco.Str

/-! ## 1. The declared constraints -/

/-- not below the declared minimum: Python's `value < min` is false.  The order is the project's exact order on the numeric
    tower (`Num.lt`): an int value is compared with a float bound exactly (no rounding of the int), a NaN bound (or a NaN
    value) compares false with everything and so constrains nothing. -/
def NotBelow (x : Ext) : Option Num → Prop
  | none => True
  | some m => lt x m.ext = false

/-- not above the declared maximum: Python's `value > max` is false -/
def NotAbove (x : Ext) : Option Num → Prop
  | none => True
  | some m => lt m.ext x = false

/-- the text is in case-normal form for the declared case transform -/
def CaseNormal : Option Case → Str → Prop
  | none, _ => True
  | some .lower, s => lower s = s
  | some .upper, s => upper s = s

/-- the text is strip-normal for the declared strip: stripping again changes nothing -/
def StripNormal : Strip → Str → Prop
  | .off, _ => True
  | .ws, s => strip s = s
  | .chars cs, s => stripChars cs s = s

/-- what the options of a `StringField` (and `required`) declare about a text -/
structure StrSat (o : StrOpts) (req : Bool) (s : Str) : Prop where
  nonempty : req = true → s ≠ []
  minLen : ∀ m, o.minLen = some m → m ≤ (s.length : Int)
  maxLen : ∀ m, o.maxLen = some m → (s.length : Int) ≤ m
  regex : ∀ r, o.regex = some r → Regex.isMatch r s = true
  choices : o.choices ≠ [] → s ∈ o.choices
  caseNormal : CaseNormal o.case s
  stripNormal : StripNormal o.strip s

/-- the declared bounds on the prefix length of a network -/
def PrefixSat (minP maxP : Option Int) (p : Nat) : Prop :=
  (∀ m, minP = some m → m ≤ (p : Int)) ∧ (∀ m, maxP = some m → (p : Int) ≤ m)

/-- the declared existence constraint of a `FilenameField`, about the path that is held -/
def ExistsSat (E : Env) : Exists → Str → Prop
  | .any, _ => True
  | .yes, p => E.fsKind p ≠ .absent
  | .no, p => E.fsKind p = .absent
  | .dir, p => E.fsKind p = .dir
  | .file, p => E.fsKind p = .file

mutual
  /-- **`v` satisfies what the field declares.**  With a custom validator nothing can be said (the catalogue function may
      return any value at all), so `Sat` is `True` there — at that level only: a list whose *item* field has a custom
      validator is still a non-empty-when-required list.  Otherwise: `None` exactly when the field is not required, or a
      value other than `None` satisfying the constraints of the kind. -/
  def Sat (E : Env) : FieldSpec → Val → Prop
    | .mk _ _ (some _), _ => True
    | .mk k r none, v => (v = .none ∧ r = false) ∨ (v ≠ .none ∧ SatKind E k r v)
  /-- an optional key / value field (absent = `AnyField()`: no constraint) -/
  def SatOpt (E : Env) : Option FieldSpec → Val → Prop
    | none, _ => True
    | some f, v => Sat E f v
  def SatKind (E : Env) : Kind → Bool → Val → Prop
    | .any, _, _ => True
    | .string o, req, v => ∃ s, v = .str s ∧ StrSat o req s
    | .int mn mx, _, v => ∃ i, v = .int i ∧ NotBelow (ofInt i) mn ∧ NotAbove (ofInt i) mx
    -- NaN satisfies every pair of bounds (`sat_float_nan`): that is what the code does (`nan < min` is false)
    | .float mn mx, _, v => ∃ x, v = .flt x ∧ NotBelow (ofFlt x) mn ∧ NotAbove (ofFlt x) mx
    | .bool, _, v => ∃ b, v = .bool b
    | .bytes _, _, v => ∃ b, v = .bytes b
    -- the held text is the canonical text of an address AND satisfies the string options (canonical = accepted text)
    | .ipv4addr o, req, v => ∃ s, v = .str s ∧ StrSat o req s ∧
        ∃ n, n < 4294967296 ∧ Net.parseAddr s = some n ∧ s = Net.printAddr n
    -- the held text is the canonical text `addr/len` of a network whose prefix length is within the declared bounds.
    -- The string options were applied to the INPUT text `t` (some text denoting the same network), not to the canonical
    -- text that is held (finding F22): they are NOT claimed of `s` (see `ipv4net_options_not_of_result`).
    | .ipv4net o minP maxP, req, v => ∃ s n p, v = .str s ∧ s = Net.printNet n p ∧ Net.parseNet s = some (n, p) ∧
        PrefixSat minP maxP p ∧ ∃ t, StrSat o req t ∧ Net.parseNet t = some (n, p)
    | .hostname o a, req, v => ∃ s, v = .str s ∧ StrSat o req s ∧
        ((a = true ∧ ∃ n, Net.parseAddr s = some n) ∨
         (Net.parseAddr s = none ∧
          (Regex.isMatch Generated.hostnameRe s = true ∨ Regex.isMatch Generated.netbiosRe s = true)))
    -- the held path is empty (only when not required) or meets the existence constraint; under a non-empty start
    -- directory it is empty or absolute (a relative text is never held there: it is resolved); it is a text `t` satisfying
    -- the string options, or the resolution of such a (relative) text against the non-empty start directory — the options
    -- are NOT claimed of a resolved path (finding F25, see `filename_options_not_of_result`)
    | .filename o ex sd, req, v => ∃ s, v = .str s ∧ (req = true → s ≠ []) ∧ (s = [] ∨ ExistsSat E ex s) ∧
        (∀ d, sd = some d → d ≠ [] → s = [] ∨ E.isabs s = true) ∧
        ∃ t, StrSat o req t ∧ (s = t ∨ ∃ d, sd = some d ∧ d ≠ [] ∧ t ≠ [] ∧ E.isabs t = false ∧ s = E.resolve d t)
    | .url o, req, v => ∃ s, v = .str s ∧ StrSat o req s ∧ E.urlOk s = true
    -- the algorithm of a held digest need not be the field's (finding F23): only the shape
    | .challenge _, _, v => ∃ s d a, v = .digest s d a
    | .secure _, req, v => ∃ s, v = .str s ∧ (req = true → s ≠ [])
    -- an untyped list or a list of `AnyField` is held as it was given (a tuple stays a tuple, items are not looked at);
    -- a typed list is a list whose every item satisfies the item field
    | .list item, req, v =>
        if untypedItem item = true then ∃ xs, (v = .list xs ∨ v = .tuple xs) ∧ (req = true → xs ≠ [])
        else ∃ xs, v = .list xs ∧ (req = true → xs ≠ []) ∧ ∀ x ∈ xs, SatOpt E item x
    -- a typed dict has pairwise distinct keys, every key / value satisfies its field
    | .dict kf vf, req, v => ∃ kvs, v = .dict kvs ∧ (req = true → kvs ≠ []) ∧
        (∀ kv ∈ kvs, SatOpt E kf kv.1 ∧ SatOpt E vf kv.2) ∧ ((kf.isNone && vf.isNone) = false → (keysD kvs).Nodup)
end

/-! ### What the numeric clauses say in familiar terms -/

theorem lt_ofInt_ofInt (a b : Int) : lt (ofInt a) (ofInt b) = decide (a < b) := by
  simp [lt, ofInt, finLt]

/-- an int value against an int bound: the order of the integers -/
theorem notBelow_int_int (i m : Int) : NotBelow (ofInt i) (some (.int m)) ↔ m ≤ i := by
  simp [NotBelow, Num.ext, lt_ofInt_ofInt]

theorem notAbove_int_int (i m : Int) : NotAbove (ofInt i) (some (.int m)) ↔ i ≤ m := by
  simp [NotAbove, Num.ext, lt_ofInt_ofInt]

/-- an int value against a finite float bound `m·2^e`: compared exactly, after scaling to the common exponent -/
theorem notBelow_int_flt (i m e : Int) :
    NotBelow (ofInt i) (some (.flt (.dy m e))) ↔ m * 2 ^ (e - min 0 e).toNat ≤ i * 2 ^ (0 - min 0 e).toNat := by
  simp [NotBelow, Num.ext, ofFlt, ofInt, lt, finLt]

theorem notAbove_int_flt (i m e : Int) :
    NotAbove (ofInt i) (some (.flt (.dy m e))) ↔ i * 2 ^ (0 - min e 0).toNat ≤ m * 2 ^ (e - min e 0).toNat := by
  simp [NotAbove, Num.ext, ofFlt, ofInt, lt, finLt]

/-- NaN is within every pair of declared bounds -/
theorem sat_float_nan (E : Env) (mn mx : Option Num) (r : Bool) : Sat E (.mk (.float mn mx) r none) (.flt .nan) := by
  refine Or.inr ⟨by simp, .nan, rfl, ?_, ?_⟩
  · cases mn <;> simp [NotBelow, ofFlt, lt]
  · cases mx with
    | none => trivial
    | some m => cases h : m.ext <;> simp [NotAbove, ofFlt, lt, h]

/-- `None` satisfies a field (without custom validator) iff the field is not required -/
theorem sat_none_iff (E : Env) (k : Kind) (r : Bool) : Sat E (.mk k r none) .none ↔ r = false := by
  simp [Sat]


/-! ## 2. Every rule, one by one -/


theorem transform_caseNormal (o : StrOpts) (s : Str) : CaseNormal o.case (transform o s) := by
  obtain ⟨minLen, maxLen, regex, choices, case, strp⟩ := o
  cases case with
  | none => trivial
  | some c =>
    cases c with
    | lower =>
      cases strp with
      | off => exact lower_idem s
      | ws => exact lower_idem (strip s)
      | chars cs => exact lower_stripChars_lower cs (stripChars cs s)
    | upper =>
      cases strp with
      | off => exact upper_idem s
      | ws => exact upper_idem (strip s)
      | chars cs => exact upper_stripChars_upper cs (stripChars cs s)

theorem transform_stripNormal (o : StrOpts) (s : Str) : StripNormal o.strip (transform o s) := by
  obtain ⟨minLen, maxLen, regex, choices, case, strp⟩ := o
  cases strp with
  | off => trivial
  | ws =>
    cases case with
    | none => exact strip_idem s
    | some c =>
      cases c with
      | lower =>
        show strip (lower (strip s)) = lower (strip s)
        rw [strip_lower, strip_idem]
      | upper =>
        show strip (upper (strip s)) = upper (strip s)
        rw [strip_upper, strip_idem]
  | chars cs =>
    cases case with
    | none => exact stripChars_idem cs s
    | some c => exact stripChars_idem cs _

theorem strChecks_sat {o : StrOpts} {req : Bool} {t : Str} (h : strChecks o req t = true)
    (hc : CaseNormal o.case t) (hs : StripNormal o.strip t) : StrSat o req t := by
  obtain ⟨mn, mx, re, ch, cs, st⟩ := o
  simp only [strChecks, Bool.and_eq_true] at h
  obtain ⟨⟨⟨⟨h1, h2⟩, h3⟩, h4⟩, h5⟩ := h
  refine ⟨?_, ?_, ?_, ?_, ?_, hc, hs⟩
  · intro hr e
    subst hr; subst e
    simp at h1
  · intro m hm
    simp only at hm
    subst hm
    simpa using h2
  · intro m hm
    simp only at hm
    subst hm
    simpa using h3
  · intro r hr
    simp only at hr
    subst hr
    simpa using h4
  · intro hne
    simp only [ne_eq] at hne
    simp only [Bool.or_eq_true, List.isEmpty_iff, hne, false_or] at h5
    simpa using h5

theorem strRule_sat {o : StrOpts} {req : Bool} {v0 : Val} {t : Str} (h : strRule o req v0 = .ok t) : StrSat o req t := by
  cases v0 with
  | str s =>
    simp only [strRule] at h
    split at h
    · next hc =>
      have ht : transform o s = t := by simpa using h
      subst ht
      exact strChecks_sat hc (transform_caseNormal o s) (transform_stripNormal o s)
    · simp at h
  | _ => simp [strRule] at h

theorem checkBounds_iff (mn mx : Option Num) (n : Ext) : checkBounds mn mx n = true ↔ NotBelow n mn ∧ NotAbove n mx := by
  cases mn <;> cases mx <;> simp [checkBounds, NotBelow, NotAbove]

theorem intRule_sat {mn mx : Option Num} {v0 v : Val} (h : intRule mn mx v0 = .ok v) :
    ∃ i, v = .int i ∧ NotBelow (ofInt i) mn ∧ NotAbove (ofInt i) mx := by
  cases v0 <;> simp only [intRule] at h <;> try (cases h; done)
  · split at h <;> cases h
    exact ⟨_, rfl, (checkBounds_iff _ _ _).1 ‹_›⟩
  · split at h
    · split at h <;> cases h
      exact ⟨_, rfl, (checkBounds_iff _ _ _).1 ‹_›⟩
    · cases h
    · cases h
  · split at h
    · split at h <;> cases h
      exact ⟨_, rfl, (checkBounds_iff _ _ _).1 ‹_›⟩
    · cases h

theorem floatRule_sat {E : Env} {mn mx : Option Num} {v0 v : Val} (h : floatRule E mn mx v0 = .ok v) :
    ∃ x, v = .flt x ∧ NotBelow (ofFlt x) mn ∧ NotAbove (ofFlt x) mx := by
  cases v0 <;> simp only [floatRule] at h <;> try (cases h; done)
  · (repeat' split at h) <;> cases h
    exact ⟨_, rfl, (checkBounds_iff _ _ _).1 ‹_›⟩
  · split at h <;> cases h
    exact ⟨_, rfl, (checkBounds_iff _ _ _).1 ‹_›⟩
  · split at h
    · split at h <;> cases h
      exact ⟨_, rfl, (checkBounds_iff _ _ _).1 ‹_›⟩
    · cases h

theorem secureRule_sat {req : Bool} {v0 v : Val} (h : secureRule req v0 = .ok v) :
    ∃ s, v = .str s ∧ (req = true → s ≠ []) := by
  cases v0 <;> simp only [secureRule] at h <;> try (cases h; done)
  split at h <;> cases h
  next hc =>
  refine ⟨_, rfl, ?_⟩
  intro hr e
  subst hr; subst e
  simp at hc

theorem prefixBad_iff (minP maxP : Option Int) (p : Nat) : prefixBad minP maxP p = false ↔ PrefixSat minP maxP p := by
  cases minP <;> cases maxP <;> simp [prefixBad, PrefixSat]

theorem addrRule_sat {o : StrOpts} {req : Bool} {v0 v : Val} (h : addrRule o req v0 = .ok v) :
    ∃ s, v = .str s ∧ StrSat o req s ∧ ∃ n, n < 4294967296 ∧ Net.parseAddr s = some n ∧ s = Net.printAddr n := by
  unfold addrRule at h
  obtain ⟨t, ht, h2⟩ := bind_ok h
  cases hp : Net.parseAddr t with
  | none => simp [hp] at h2
  | some n =>
    simp only [hp] at h2
    cases h2
    obtain ⟨he, hlt⟩ := Net.printAddr_of_parseAddr t n hp
    rw [he]
    exact ⟨t, rfl, strRule_sat ht, n, hlt, hp, he.symm⟩

theorem netRule_sat {o : StrOpts} {req : Bool} {minP maxP : Option Int} {v0 v : Val} (h : netRule o req minP maxP v0 = .ok v) :
    ∃ s n p, v = .str s ∧ s = Net.printNet n p ∧ Net.parseNet s = some (n, p) ∧
        PrefixSat minP maxP p ∧ ∃ t, StrSat o req t ∧ Net.parseNet t = some (n, p) := by
  unfold netRule at h
  obtain ⟨t, ht, h2⟩ := bind_ok h
  cases hp : Net.parseNet t with
  | none => simp [hp] at h2
  | some np =>
    obtain ⟨n, p⟩ := np
    simp only [hp] at h2
    cases hb : prefixBad minP maxP p with
    | true => simp [hb] at h2
    | false =>
      simp [hb] at h2
      subst h2
      exact ⟨_, n, p, rfl, rfl, parseNet_canonical t n p hp, (prefixBad_iff _ _ _).1 hb, t, strRule_sat ht, hp⟩

theorem hostRule_sat {o : StrOpts} {req a : Bool} {v0 v : Val} (h : hostRule o req a v0 = .ok v) :
    ∃ s, v = .str s ∧ StrSat o req s ∧
        ((a = true ∧ ∃ n, Net.parseAddr s = some n) ∨
         (Net.parseAddr s = none ∧
          (Regex.isMatch Generated.hostnameRe s = true ∨ Regex.isMatch Generated.netbiosRe s = true))) := by
  unfold hostRule at h
  obtain ⟨t, ht, h2⟩ := bind_ok h
  cases hp : Net.parseAddr t with
  | none =>
    simp only [hp] at h2
    split at h2
    · next hm =>
      cases h2
      exact ⟨t, rfl, strRule_sat ht, Or.inr ⟨hp, by simpa using hm⟩⟩
    · cases h2
  | some n =>
    simp only [hp] at h2
    split at h2
    · next ha =>
      cases h2
      rw [(Net.printAddr_of_parseAddr t n hp).1]
      exact ⟨t, rfl, strRule_sat ht, Or.inl ⟨ha, n, hp⟩⟩
    · cases h2

theorem urlRule_sat {E : Env} {o : StrOpts} {req : Bool} {v0 v : Val} (h : urlRule E o req v0 = .ok v) :
    ∃ s, v = .str s ∧ StrSat o req s ∧ E.urlOk s = true := by
  unfold urlRule at h
  obtain ⟨t, ht, h2⟩ := bind_ok h
  split at h2
  · next hu => cases h2; exact ⟨t, rfl, strRule_sat ht, hu⟩
  · cases h2

theorem fileBad_false_iff (E : Env) (ex : Exists) (p : Str) : fileBad E ex p = false ↔ ExistsSat E ex p := by
  cases ex <;> simp [fileBad, ExistsSat]

theorem fileRule_sat {E : Env} (hE : EnvOk E) {o : StrOpts} {req : Bool} {ex : Exists} {sd : Option Str} {v0 v : Val}
    (h : fileRule E o req ex sd v0 = .ok v) :
    ∃ s, v = .str s ∧ (req = true → s ≠ []) ∧ (s = [] ∨ ExistsSat E ex s) ∧
        (∀ d, sd = some d → d ≠ [] → s = [] ∨ E.isabs s = true) ∧
        ∃ t, StrSat o req t ∧ (s = t ∨ ∃ d, sd = some d ∧ d ≠ [] ∧ t ≠ [] ∧ E.isabs t = false ∧ s = E.resolve d t) := by
  unfold fileRule at h
  obtain ⟨t, ht, h2⟩ := bind_ok h
  have hsat := strRule_sat ht
  by_cases hte : t.isEmpty = true
  · simp only [hte, if_true] at h2
    cases h2
    exact ⟨t, rfl, hsat.nonempty, Or.inl (by simpa using hte), fun _ _ _ => Or.inl (by simpa using hte), t, hsat, Or.inl rfl⟩
  · have hte' : t.isEmpty = false := by simpa using hte
    have htne : t ≠ [] := by simpa using hte
    simp only [hte', Bool.false_eq_true, if_false] at h2
    cases hb : fileBad E ex (filePath E sd t) with
    | true => simp [hb] at h2
    | false =>
      simp [hb] at h2
      subst h2
      have hex := (fileBad_false_iff E ex _).1 hb
      -- the path is the text itself (absolute, if there is a non-empty start directory), or its resolution against a
      -- non-empty start directory
      have hpath : (filePath E sd t = t ∧ ∀ d, sd = some d → d ≠ [] → E.isabs t = true) ∨
          ∃ d, sd = some d ∧ d ≠ [] ∧ E.isabs t = false ∧ filePath E sd t = E.resolve d t := by
        cases sd with
        | none => exact Or.inl ⟨rfl, fun d hd => by cases hd⟩
        | some d =>
          by_cases hab : E.isabs t = true
          · exact Or.inl ⟨by simp [filePath, hab], fun _ _ _ => hab⟩
          · by_cases hd : d.isEmpty = true
            · refine Or.inl ⟨by simp [filePath, hd], ?_⟩
              intro d' hd' hne
              cases hd'
              exact absurd (by simpa using hd) hne
            · have hab' : E.isabs t = false := by simpa using hab
              have hd' : d.isEmpty = false := by simpa using hd
              exact Or.inr ⟨d, rfl, by simpa using hd, hab', by simp [filePath, hab', hd']⟩
      rcases hpath with ⟨hp, habs⟩ | ⟨d, hsd, hdne, hab, hp⟩
      · rw [hp] at hex ⊢
        exact ⟨t, rfl, fun _ => htne, Or.inr hex, fun d hd hne => Or.inr (habs d hd hne), t, hsat, Or.inl rfl⟩
      · rw [hp] at hex ⊢
        have hrne : E.resolve d t ≠ [] := by
          intro e
          have hra := hE.resolve_abs d t
          rw [e, hE.empty_not_abs] at hra
          cases hra
        exact ⟨_, rfl, fun _ => hrne, Or.inr hex, fun d' _ _ => Or.inr (hE.resolve_abs d t), t, hsat,
          Or.inr ⟨d, hsd, hdne, htne, hab, rfl⟩⟩

/-! ## 3. Soundness -/

mutual
  /-- **Validation is sound for the declared constraints**: whatever the input (of whatever type), whatever `validate`
      returns satisfies everything the field declares — at every nesting depth of typed lists and dicts.
      `EnvOk` (a resolved path is absolute, the empty path is not) is used for the filename field with a start directory
      only: a text that was resolved against the start directory is held as an absolute — hence non-empty — path. -/
  theorem validate_sound (E : Env) (hE : EnvOk E) : ∀ (f : FieldSpec) (v0 v : Val), validate E f v0 = .ok v → Sat E f v
    | .mk k req (some c), v0, v, h => by simp only [Sat]
    | .mk k req none, v0, v, h => by
      simp only [Sat]
      rcases validate_inv_nc h with ⟨_, hr, hw⟩ | ⟨hv0, hk⟩
      · exact Or.inl ⟨hw, hr⟩
      · exact Or.inr ⟨validateKind_ne_none E k req v0 v hv0 hk, validateKind_sound E hE k req v0 v hk⟩
  theorem validateOpt_sound (E : Env) (hE : EnvOk E) : ∀ (o : Option FieldSpec) (v0 v : Val),
      validateOpt E o v0 = .ok v → SatOpt E o v
    | none, _, _, _ => by simp only [SatOpt]
    | some f, v0, v, h => by
      simp only [validateOpt] at h
      simp only [SatOpt]
      exact validate_sound E hE f v0 v h
  theorem validateKind_sound (E : Env) (hE : EnvOk E) : ∀ (k : Kind) (req : Bool) (v0 v : Val),
      validateKind E k req v0 = .ok v → SatKind E k req v
    | .any, _, _, _, _ => by simp only [SatKind]
    | .string o, req, v0, v, h => by
      simp only [validateKind] at h
      simp only [SatKind]
      cases hs : strRule o req v0 with
      | error e => simp [hs, Except.map] at h
      | ok t => simp [hs, Except.map] at h; exact ⟨t, h.symm, strRule_sat hs⟩
    | .int mn mx, req, v0, v, h => by simp only [validateKind] at h; simp only [SatKind]; exact intRule_sat h
    | .float mn mx, req, v0, v, h => by simp only [validateKind] at h; simp only [SatKind]; exact floatRule_sat h
    | .bool, req, v0, v, h => by simp only [validateKind] at h; simp only [SatKind]; exact boolRule_shape h
    | .bytes _, req, v0, v, h => by simp only [validateKind] at h; simp only [SatKind]; exact bytesRule_shape h
    | .ipv4addr o, req, v0, v, h => by simp only [validateKind] at h; simp only [SatKind]; exact addrRule_sat h
    | .ipv4net o mn mx, req, v0, v, h => by simp only [validateKind] at h; simp only [SatKind]; exact netRule_sat h
    | .hostname o a, req, v0, v, h => by simp only [validateKind] at h; simp only [SatKind]; exact hostRule_sat h
    | .filename o ex sd, req, v0, v, h => by simp only [validateKind] at h; simp only [SatKind]; exact fileRule_sat hE h
    | .url o, req, v0, v, h => by simp only [validateKind] at h; simp only [SatKind]; exact urlRule_sat h
    | .challenge alg, req, v0, v, h => by simp only [validateKind] at h; simp only [SatKind]; exact challengeRule_shape h
    | .secure _, req, v0, v, h => by simp only [validateKind] at h; simp only [SatKind]; exact secureRule_sat h
    | .list item, req, v0, v, h => by
      obtain ⟨xs, hv0, hre, hcase⟩ := validateKind_list_inv h
      simp only [SatKind]
      rcases hcase with ⟨hvi, hw⟩ | ⟨ys, hvi, hw⟩
      · -- untyped: held as given
        have hu : untypedItem item = true := by
          cases hu : untypedItem item with
          | true => rfl
          | false =>
            obtain ⟨f, _, hf⟩ := validateItems_typed (E := E) xs hu
            rw [hf] at hvi; cases hvi
        rw [if_pos hu]
        refine ⟨xs, by subst hw; exact hv0, ?_⟩
        intro hr e
        subst hr; subst e
        simp at hre
      · cases hu : untypedItem item with
        | true => rw [validateItems_untyped xs hu] at hvi; cases hvi
        | false =>
          obtain ⟨f, hf, hfv⟩ := validateItems_typed (E := E) xs hu
          rw [hfv] at hvi
          simp only [Option.some.injEq] at hvi
          rw [if_neg (by simp)]
          refine ⟨ys, hw, ?_, ?_⟩
          · intro hr e
            have hemp := mapR_isEmpty hvi
            subst hr; subst e
            simp at hemp
            simp [hemp] at hre
          · intro y hy
            obtain ⟨x, _, hx⟩ := mapR_results hvi y hy
            exact validateOpt_sound E hE item x y (by rw [hf]; simpa [validateOpt] using hx)
    | .dict kf vf, req, v0, v, h => by
      obtain ⟨kvs, hv0, hre, hcase⟩ := validateKind_dict_inv h
      simp only [SatKind]
      rcases hcase with ⟨hnn, hw⟩ | ⟨hnn, es, hm, hw⟩
      · refine ⟨kvs, by rw [hw, hv0], ?_, ?_, fun hc => by rw [hnn] at hc; cases hc⟩
        · intro hr e
          subst hr; subst e
          simp at hre
        · simp only [Bool.and_eq_true, Option.isNone_iff_eq_none] at hnn
          obtain ⟨h1, h2⟩ := hnn
          subst h1; subst h2
          intro kv _
          exact ⟨trivial, trivial⟩
      · refine ⟨buildDict es, hw, ?_, ?_, fun _ => buildDict_nodup es⟩
        · intro hr e
          have hemp : (buildDict es).isEmpty = kvs.isEmpty := by rw [buildDict_isEmpty, mapEntries_isEmpty hm]
          subst hr
          rw [e] at hemp
          simp at hemp
          simp [hemp] at hre
        · apply buildDict_forall (P := SatOpt E kf) (Q := SatOpt E vf)
          intro kv' hkv'
          obtain ⟨kv, _, h1, h2⟩ := mapEntries_results' hm kv' hkv'
          exact ⟨validateOpt_sound E hE kf _ _ h1, validateOpt_sound E hE vf _ _ h2⟩
end

end Cinco.Field

/-! ## 4. Held values -/

namespace Cinco.Field
open Cinco Cinco.Num Cinco.Str

/-- a value produced by validation, or `None` on a field that is not required, satisfies what the field declares -/
theorem held_sat (E : Env) (hE : EnvOk E) (f : FieldSpec) (v : Val)
    (h : (v = .none ∧ f.required = false) ∨ ∃ u, validate E f u = .ok v) : Sat E f v := by
  rcases h with ⟨hv, hr⟩ | ⟨u, hu⟩
  · obtain ⟨k, r, c⟩ := f
    cases c with
    | some _ => simp only [Sat]
    | none => simp only [Sat]; exact Or.inl ⟨hv, hr⟩
  · exact validate_sound E hE f u v hu

end Cinco.Field

namespace Cinco.Config
open Cinco Cinco.Field

/-- what a configuration holds under a field (`Held`: unset, or a result of the field's validation) is unset or satisfies
    the declared constraints (an unset *required* field is reported by `Config.validate`, C11, not by assignment) -/
theorem held_unset_or_sat (W : World) (hE : EnvOk W.fe.toEnv) (f : FieldSpec) (v : Val) (h : Held W f v) :
    v = .none ∨ Sat W.fe.toEnv f v := by
  rcases h with h | ⟨u, hu⟩
  · exact Or.inl h
  · exact Or.inr (validate_sound W.fe.toEnv hE f u v hu)

theorem allLeaves_mono {P P' : FieldSpec → Val → Prop} (hPP : ∀ fs v, P fs v → P' fs v) :
    ∀ (d : Nat) (s : Schema) (c : Cfg), AllLeaves P d s c → AllLeaves P' d s c
  | 0, _, _, _ => trivial
  | d + 1, s, c, h => by
    refine allLeaves_succ_iff.2 ?_
    intro k f hk
    have hp := allLeaves_succ_iff.1 h k f hk
    cases f <;> rcases hc : c.get k with _ | (v | sub | cs) <;> rw [hc] at hp <;> simp only [LeavesAt] at hp ⊢
    · exact hPP _ _ hp
    · exact allLeaves_mono hPP d _ _ hp
    · exact allLeaves_mono hPP d _ _ hp
    · exact fun x hx => allLeaves_mono hPP d _ x (hp x hx)

/-- **Configuration level**: if every leaf value held at any depth (items of lists of configurations included) is a
    result of its own field's validation, every one of them satisfies what its field declares. -/
theorem allLeaves_sat (E : Env) (hE : EnvOk E) (d : Nat) (s : Schema) (c : Cfg)
    (h : AllLeaves (fun fs v => ∃ u, validate E fs u = .ok v) d s c) : AllLeaves (fun fs v => Sat E fs v) d s c :=
  allLeaves_mono (fun fs v ⟨u, hu⟩ => validate_sound E hE fs u v hu) d s c h

/-- the invariant of C01 is `AllLeaves Held` -/
theorem inv_iff_allLeaves (W : World) : ∀ (d : Nat) (s : Schema) (c : Cfg), Inv W d s c ↔ AllLeaves (Held W) d s c
  | 0, s, c => ⟨fun _ => trivial, fun _ => inv_zero W s c⟩
  | d + 1, s, c => by
    rw [inv_succ_iff, allLeaves_succ_iff]
    have key : ∀ f sl, SlotOk W d f sl ↔ LeavesAt (Held W) d f sl := by
      intro f sl
      cases f <;> rcases sl with _ | (v | sub | cs) <;> simp only [SlotOk, LeavesAt]
      · exact inv_iff_allLeaves W d _ _
      · exact inv_iff_allLeaves W d _ _
      · exact forall_congr' fun x => ⟨fun h hx => (inv_iff_allLeaves W d _ x).1 (h hx), fun h hx => (inv_iff_allLeaves W d _ x).2 (h hx)⟩
    exact forall_congr' fun k => forall_congr' fun f => ⟨fun h hk => (key f _).1 (h hk), fun h hk => (key f _).2 (h hk)⟩

/-- under the invariant of C01 every held leaf value is unset or satisfies what its field declares -/
theorem inv_sat (W : World) (hE : EnvOk W.fe.toEnv) (d : Nat) (s : Schema) (c : Cfg) (h : Inv W d s c) :
    AllLeaves (fun fs v => v = .none ∨ Sat W.fe.toEnv fs v) d s c :=
  allLeaves_mono (fun fs v hv => held_unset_or_sat W hE fs v hv) d s c ((inv_iff_allLeaves W d s c).1 h)

/-- **Every reachable state**: after construction and after every finite sequence of assignments, tree loads and resets
    (accepted or rejected), every leaf value held at any depth is unset or satisfies the constraints its field declares. -/
theorem reachable_sat (W : World) (hE : EnvOk W.fe.toEnv) (d fuel : Nat) (s : Schema) (n : Nat) (c0 : Cfg) (n0 : Nat)
    (hdv : DefaultsValid W (d + 1) s) (hnd : s.keysNodup = true) (hpl : s.containerDefaultsPlain = true)
    (hb : build W "" false none s n = .ok (c0, n0)) (ops : List C01.Op) :
    AllLeaves (fun fs v => v = .none ∨ Sat W.fe.toEnv fs v) (d + 1) s (C01.run W fuel s (c0, n0) ops).1 :=
  inv_sat W hE (d + 1) s _ (C01.inv_run W d fuel s n c0 n0 hdv hnd hpl hb ops)

end Cinco.Config

/-! ## 5. Non-vacuity and sharpness -/

namespace Cinco.Field.SoundExamples
open Cinco Cinco.Num Cinco.Str Cinco.Field

theorem envOk_env0 : EnvOk C05.env0 := ⟨fun sd t => by simp [C05.env0], by simp [C05.env0]⟩

/-- `IntField(min=0)` — note the bound 0 -/
def intMin0 : FieldSpec := .mk (.int (some (.int 0)) none) false none
/-- `StringField(transform_strip=True, transform_case='lower', max_len=5, required=True)` -/
def strField : FieldSpec := .mk (.string { strip := .ws, case := some .lower, maxLen := some 5 }) true none
/-- `IPv4NetworkField(max_prefix_len=0)` -/
def netMax0 : FieldSpec := .mk (.ipv4net {} none (some 0)) false none
/-- `ListField(PortField(required=True), required=True)` -/
def ports : FieldSpec := .mk (.list (some (.mk (.int (some (.int 1)) (some (.int 65535))) true none))) true none

/-! (a) `validate_sound` instantiated: the hypothesis is met by concrete inputs that are really normalised -/

example : Sat C05.env0 intMin0 (.int 7) :=
  validate_sound C05.env0 envOk_env0 intMin0 (.str "7".toList) (.int 7) (by decide +kernel)

example : Sat C05.env0 intMin0 (.int 0) :=
  validate_sound C05.env0 envOk_env0 intMin0 (.flt (.dy 1 (-1))) (.int 0) (by decide +kernel)

example : Sat C05.env0 strField (.str "hello".toList) :=
  validate_sound C05.env0 envOk_env0 strField (.str "  HeLLo \n".toList) (.str "hello".toList) (by decide +kernel)

example : Sat C05.env0 netMax0 (.str "0.0.0.0/0".toList) :=
  validate_sound C05.env0 envOk_env0 netMax0 (.str "0.0.0.0/0.0.0.0".toList) (.str "0.0.0.0/0".toList) (by decide +kernel)

example : Sat C05.env0 ports (.list [.int 80, .int 443, .int 8080]) :=
  validate_sound C05.env0 envOk_env0 ports (.tuple [.str " 80".toList, .int 443, .flt (.dy 1010 3)])
    (.list [.int 80, .int 443, .int 8080]) (by decide +kernel)

/-- what `Sat` gives back, in familiar terms: every held port is between 1 and 65535 -/
theorem ports_sat_spec {v : Val} (h : Sat C05.env0 ports v) :
    ∃ xs, v = .list xs ∧ xs ≠ [] ∧ ∀ x ∈ xs, ∃ i : Int, x = .int i ∧ 1 ≤ i ∧ i ≤ 65535 := by
  simp only [ports, Sat] at h
  rcases h with ⟨_, hr⟩ | ⟨_, h⟩
  · cases hr
  · simp only [SatKind, untypedItem, Kind.isAny, Bool.false_eq_true, if_false] at h
    obtain ⟨xs, hv, hne, hall⟩ := h
    refine ⟨xs, hv, hne trivial, ?_⟩
    intro x hx
    have hx' := hall x hx
    simp only [SatOpt, Sat] at hx'
    rcases hx' with ⟨_, hr⟩ | ⟨_, hk⟩
    · cases hr
    · simp only [SatKind] at hk
      obtain ⟨i, hi, h1, h2⟩ := hk
      exact ⟨i, hi, (notBelow_int_int i 1).1 h1, (notAbove_int_int i 65535).1 h2⟩

/-! (b) `Sat` is not trivially true: out-of-range values do not satisfy it -/

example : ¬ Sat C05.env0 intMin0 (.int (-5)) := by
  simp [Sat, SatKind, intMin0, NotBelow, Num.ext, lt_ofInt_ofInt]

example : ¬ Sat C05.env0 intMin0 (.str "7".toList) := by
  simp [Sat, SatKind, intMin0]

example : ¬ Sat C05.env0 intMin0 (.bool true) := by
  simp [Sat, SatKind, intMin0]

example : ¬ Sat C05.env0 strField (.str "toolong".toList) := by
  rintro (⟨h, _⟩ | ⟨_, h⟩)
  · cases h
  · obtain ⟨s, hs, hsat⟩ := h
    cases hs
    exact absurd (hsat.maxLen 5 rfl) (by decide)

example : ¬ Sat C05.env0 strField (.str "Hello".toList) := by
  rintro (⟨h, _⟩ | ⟨_, h⟩)
  · cases h
  · obtain ⟨s, hs, hsat⟩ := h
    cases hs
    exact absurd (show lower "Hello".toList = "Hello".toList from hsat.caseNormal) (by decide)

example : ¬ Sat C05.env0 strField (.str " hi".toList) := by
  rintro (⟨h, _⟩ | ⟨_, h⟩)
  · cases h
  · obtain ⟨s, hs, hsat⟩ := h
    cases hs
    exact absurd (show strip " hi".toList = " hi".toList from hsat.stripNormal) (by decide)

example : ¬ Sat C05.env0 strField (.str []) := by
  rintro (⟨h, _⟩ | ⟨_, h⟩)
  · cases h
  · obtain ⟨s, hs, hsat⟩ := h
    cases hs
    exact hsat.nonempty rfl rfl

example : ¬ Sat C05.env0 strField .none := by simp [Sat, strField]

/-- prefix length 8 with `max_prefix_len = 0` (finding F7: the unrepaired code ignored a bound of 0) -/
example : ¬ Sat C05.env0 netMax0 (.str "10.0.0.0/8".toList) := by
  rintro (⟨h, _⟩ | ⟨_, h⟩)
  · cases h
  · obtain ⟨s, n, p, hs, _, hp, hps, _⟩ := h
    cases hs
    have e : Net.parseNet "10.0.0.0/8".toList = some (167772160, 8) := by decide +kernel
    rw [e] at hp
    cases hp
    exact absurd (hps.2 0 rfl) (by decide)

/-- a text that is not the canonical text of a network is not held -/
example : ¬ Sat C05.env0 netMax0 (.str "0.0.0.0/0.0.0.0".toList) := by
  rintro (⟨h, _⟩ | ⟨_, h⟩)
  · cases h
  · obtain ⟨s, n, p, hs, he, hp, _, _⟩ := h
    cases hs
    have e : Net.parseNet "0.0.0.0/0.0.0.0".toList = some (0, 0) := by decide +kernel
    rw [e] at hp
    cases hp
    revert he
    decide +kernel

example : ¬ Sat C05.env0 ports (.list [.int 80, .int 0]) := by
  intro h
  obtain ⟨xs, hv, _, hall⟩ := ports_sat_spec h
  cases hv
  obtain ⟨i, hi, h1, _⟩ := hall (.int 0) (by simp)
  cases hi
  exact absurd h1 (by decide)

example : ¬ Sat C05.env0 ports (.list []) := by
  intro h
  obtain ⟨xs, hv, hne, _⟩ := ports_sat_spec h
  cases hv
  exact hne rfl

example : ¬ Sat C05.env0 ports (.tuple [.int 80]) := by
  intro h
  obtain ⟨xs, hv, _, _⟩ := ports_sat_spec h
  cases hv

/-! ### The clauses that are deliberately absent -/

/-- **Finding F22**: the string options of an `IPv4NetworkField` are applied to the input, not to the canonical text that
    is held — the held text of an accepted value can violate them (here `max_len = 8`). -/
theorem ipv4net_options_not_of_result :
    ∃ (o : StrOpts) (v0 : Val) (s : Str), validate C05.env0 (.mk (.ipv4net o none none) false none) v0 = .ok (.str s) ∧
      ¬ StrSat o false s :=
  ⟨{ maxLen := some 8 }, .str "10.0.0.1".toList, "10.0.0.1/32".toList, by decide +kernel,
    fun h => absurd (h.maxLen 8 rfl) (by decide)⟩

/-- **Finding F25**: the string options of a `FilenameField` with a start directory are applied to the text as given,
    not to the resolved path that is held (here `max_len = 1`, `a` resolved to `/a`). -/
theorem filename_options_not_of_result :
    ∃ (o : StrOpts) (v0 : Val) (s : Str),
      validate C05.env0 (.mk (.filename o .any (some "d".toList)) false none) v0 = .ok (.str s) ∧ ¬ StrSat o false s :=
  ⟨{ maxLen := some 1 }, .str "a".toList, "/a".toList, by decide +kernel,
    fun h => absurd (h.maxLen 1 rfl) (by decide)⟩

/-- NaN is accepted by a `FloatField` whatever its bounds (and `Sat` says so): `nan < min` and `nan > max` are false. -/
example : validate C05.env0 (.mk (.float (some (.int 0)) (some (.int 1))) true none) (.flt .nan) = .ok (.flt .nan) := by
  decide +kernel

/-- the algorithm of a held digest need not be the field's: a digest value is accepted as it is (finding F23) -/
example : validate C05.env0 (.mk (.challenge "sha256") true none) (.digest [1] [2] "md5") = .ok (.digest [1] [2] "md5") := by
  decide +kernel

/-- the items of a list of `AnyField` are not looked at — not even for `required` — so nothing is claimed of them -/
example : validate C05.env0 (.mk (.list (some (.mk .any true none))) true none) (.tuple [.none]) = .ok (.tuple [.none]) := by
  decide +kernel

end Cinco.Field.SoundExamples
