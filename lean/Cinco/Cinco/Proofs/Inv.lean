import Cinco.Config.Inv
import Cinco.Proofs.Cfg
namespace Cinco.Config
open Cinco Cinco.Field

/-! ## 1. Helper facts -/

/-- the clause of `Inv` for one declared field and the slot stored under its key -/
def SlotOk (W : World) (d : Nat) : SField → Option Slot → Prop
  | .leaf fs _, some (.val v) => Held W fs v
  | .sub s', some (.node sub) => Inv W d s' sub
  | .ctype s' _, some (.node sub) => Inv W d s' sub
  | .cfgList s' _ _ _, some (.nodes cs) => ∀ x ∈ cs, Inv W d s' x
  | _, _ => True

theorem inv_succ_iff {W : World} {d : Nat} {s : Schema} {c : Cfg} :
    Inv W (d + 1) s c ↔ ∀ k f, s.get k = some f → SlotOk W d f (c.get k) := Iff.rfl

theorem inv_zero (W : World) (s : Schema) (c : Cfg) : Inv W 0 s c := by
  unfold Inv; trivial

/-- the invariant only looks at the slots -/
theorem inv_congr_get {W : World} {s : Schema} {c c' : Cfg} (h : ∀ k, c'.get k = c.get k) :
    ∀ {d : Nat}, Inv W d s c → Inv W d s c'
  | 0, _ => inv_zero W s c'
  | d + 1, hi => by
    rw [inv_succ_iff] at hi ⊢
    intro k f hf
    rw [h k]
    exact hi k f hf

@[simp] theorem Cfg.get_withKeyfile (c : Cfg) (l : Option String) (k : String) : (c.withKeyfile l).get k = c.get k := rfl

theorem inv_withDyn {W : World} {d : Nat} {s : Schema} {c : Cfg} (l : List String) (h : Inv W d s c) :
    Inv W d s (c.withDyn l) := inv_congr_get (c := c) (c' := c.withDyn l) (fun _ => rfl) h

theorem inv_withLinked {W : World} {d : Nat} {s : Schema} {c : Cfg} (l : Bool) (h : Inv W d s c) :
    Inv W d s (c.withLinked l) := inv_congr_get (c := c) (c' := c.withLinked l) (fun _ => rfl) h

theorem inv_withDefaults {W : World} {d : Nat} {s : Schema} {c : Cfg} (l : List String) (h : Inv W d s c) :
    Inv W d s (c.withDefaults l) := inv_congr_get (c := c) (c' := c.withDefaults l) (fun _ => rfl) h

theorem inv_withKeyfile {W : World} {d : Nat} {s : Schema} {c : Cfg} (l : Option String) (h : Inv W d s c) :
    Inv W d s (c.withKeyfile l) := inv_congr_get (c := c) (c' := c.withKeyfile l) (fun _ => rfl) h

theorem Cfg.get_set_same (c : Cfg) (k : String) (s : Slot) : (c.set k s).get k = some s := by
  simp [Cfg.get, Cfg.set, Cfg.withSlots, Cfg.slots, getSlot_setSlot_same]

theorem Cfg.get_set_other (c : Cfg) {k k' : String} (h : k' ≠ k) (s : Slot) : (c.set k s).get k' = c.get k' := by
  simp [Cfg.get, Cfg.set, Cfg.withSlots, Cfg.slots, getSlot_setSlot_other h]

/-- a write to one key keeps the invariant when the new slot satisfies the clause of every field declared at that key
    (vacuous when the key is not declared) -/
theorem inv_of_write {W : World} {d : Nat} {s : Schema} {c c' : Cfg} {k : String} {slot : Slot}
    (hsame : c'.get k = some slot) (hother : ∀ k', k' ≠ k → c'.get k' = c.get k')
    (hi : Inv W (d + 1) s c) (hs : ∀ f, s.get k = some f → SlotOk W d f (some slot)) : Inv W (d + 1) s c' := by
  rw [inv_succ_iff] at hi ⊢
  intro k' f hf
  by_cases hk : k' = k
  · subst hk; rw [hsame]; exact hs f hf
  · rw [hother k' hk]; exact hi k' f hf

theorem inv_setUser {W : World} {d : Nat} {s : Schema} {c : Cfg} {k : String} {slot : Slot}
    (hi : Inv W (d + 1) s c) (hs : ∀ f, s.get k = some f → SlotOk W d f (some slot)) :
    Inv W (d + 1) s (c.setUser k slot) :=
  inv_of_write (Cfg.get_setUser_same c k slot) (fun _ h => Cfg.get_setUser_other c h slot) hi hs

theorem inv_setDefault {W : World} {d : Nat} {s : Schema} {c : Cfg} {k : String} {slot : Slot}
    (hi : Inv W (d + 1) s c) (hs : ∀ f, s.get k = some f → SlotOk W d f (some slot)) :
    Inv W (d + 1) s (c.setDefault k slot) :=
  inv_of_write (Cfg.get_setDefault_same c k slot) (fun _ h => Cfg.get_setDefault_other c h slot) hi hs

theorem inv_set {W : World} {d : Nat} {s : Schema} {c : Cfg} {k : String} {slot : Slot}
    (hi : Inv W (d + 1) s c) (hs : ∀ f, s.get k = some f → SlotOk W d f (some slot)) :
    Inv W (d + 1) s (c.set k slot) :=
  inv_of_write (Cfg.get_set_same c k slot) (fun _ h => Cfg.get_set_other c h slot) hi hs

/-- undeclared key: any slot may be written -/
theorem inv_setUser_undeclared {W : World} {d : Nat} {s : Schema} {c : Cfg} {k : String} (slot : Slot)
    (hk : s.get k = none) (hi : Inv W d s c) : Inv W d s (c.setUser k slot) := by
  cases d with
  | zero => exact inv_zero W s _
  | succ d => exact inv_setUser hi (fun f hf => by rw [hk] at hf; cases hf)

/-- monotonicity in the depth -/
theorem inv_mono {W : World} : ∀ {d : Nat} {s : Schema} {c : Cfg}, Inv W (d + 1) s c → Inv W d s c
  | 0, s, c, _ => inv_zero W s c
  | d + 1, s, c, h => by
    rw [inv_succ_iff] at h ⊢
    intro k f hf
    have := h k f hf
    cases f <;> cases hg : c.get k <;> try trivial
    all_goals rename_i sl; cases sl <;> try trivial
    all_goals simp only [hg, SlotOk] at this ⊢
    · exact this
    · exact inv_mono this
    · exact inv_mono this
    · exact fun x hx => inv_mono (this x hx)

theorem getField_declared {s : Schema} {c : Cfg} {k : String} {f : SField} (h : getField s c k = .declared f) :
    s.get k = some f := by
  unfold getField at h
  cases hg : s.get k with
  | none => simp only [hg] at h; split at h <;> cases h
  | some g => simp only [hg] at h; cases h; rfl

theorem getField_not_declared {s : Schema} {c : Cfg} {k : String} (h : ∀ f, getField s c k ≠ .declared f) :
    s.get k = none := by
  unfold getField at h
  cases hg : s.get k with
  | none => rfl
  | some g => simp only [hg] at h; exact absurd rfl (h g)

/-! ## 2. Assignment to a declared leaf -/

theorem inv_setValue_leaf (W : World) (d fuel : Nat) (s : Schema) (path : String) (c : Cfg) (k : String) (v : Val) (n : Nat)
    (fs : FieldSpec) (m : LeafMeta) (hk : s.get k = some (.leaf fs m)) (hi : Inv W (d + 1) s c) :
    Inv W (d + 1) s (setValue W (fuel + 1) s path c k (.val v) n).cfg := by
  have hg : getField s c k = .declared (.leaf fs m) := by simp [getField, hk]
  unfold setValue
  simp only [hg]
  cases hv : validate W.fe.toEnv fs v with
  | error e => exact hi
  | ok v' =>
    refine inv_setUser hi ?_
    intro f hf
    rw [hk] at hf; cases hf
    exact Or.inr ⟨v, hv⟩

/-! ## 3. `build` establishes the invariant

Two hypotheses are added to `DefaultsValid` (both are needed, see the comments at `inv_build`):
* `Schema.keysNodup`: at every level of the schema the declared keys are pairwise distinct;
* `Schema.containerDefaultsPlain`: a `ListField` / `DictField` leaf that declares a list / dict default has no custom validator. -/

mutual
  /-- `P` holds of the field list of the schema and of every schema nested in it -/
  def Schema.every (P : List (String × SField) → Bool) : Schema → Bool
    | .mk fields _ _ => P fields && everyFields P fields
  def SField.every (P : List (String × SField) → Bool) : SField → Bool
    | .leaf _ _ => true
    | .sub s => s.every P
    | .ctype s _ => s.every P
    | .cfgList s _ _ _ => s.every P
    | .virtual _ _ => true
    | .method => true
  def everyFields (P : List (String × SField) → Bool) : List (String × SField) → Bool
    | [] => true
    | (_, f) :: rest => f.every P && everyFields P rest
end

def nodupKeys : List (String × SField) → Bool
  | [] => true
  | (k, _) :: rest => (lookupField k rest).isNone && nodupKeys rest

/-- the keys of the schema, and of every schema nested in it, are pairwise distinct (decidable) -/
def Schema.keysNodup (s : Schema) : Bool := s.every nodupKeys

/-- a list (dict) field declaring a list (dict) default has no custom validator -/
def leafPlain (fs : FieldSpec) (m : LeafMeta) : Bool :=
  match fs.kind, m.default.value with
  | .list _, .list _ => fs.custom.isNone
  | .dict _ _, .dict _ => fs.custom.isNone
  | _, _ => true

def plainFields : List (String × SField) → Bool
  | [] => true
  | (_, .leaf fs m) :: rest => leafPlain fs m && plainFields rest
  | _ :: rest => plainFields rest

/-- at every level, container leaves with container defaults have no custom validator (decidable) -/
def Schema.containerDefaultsPlain (s : Schema) : Bool := s.every plainFields

theorem everyFields_lookup {P : List (String × SField) → Bool} :
    ∀ {fs : List (String × SField)} {k : String} {f : SField}, everyFields P fs = true → lookupField k fs = some f → f.every P = true
  | [], k, f, _, h => by simp [lookupField] at h
  | (k', f') :: rest, k, f, he, h => by
    simp only [everyFields, Bool.and_eq_true] at he
    simp only [lookupField] at h
    split at h
    · cases h; exact he.1
    · exact everyFields_lookup he.2 h

theorem plainFields_lookup :
    ∀ {l : List (String × SField)} {k : String} {fs : FieldSpec} {m : LeafMeta},
      plainFields l = true → lookupField k l = some (.leaf fs m) → leafPlain fs m = true
  | [], k, fs, m, _, h => by simp [lookupField] at h
  | (k', f') :: rest, k, fs, m, he, h => by
    simp only [lookupField] at h
    split at h
    · cases h
      simp only [plainFields, Bool.and_eq_true] at he
      exact he.1
    · cases f' <;> simp only [plainFields, Bool.and_eq_true] at he
      · exact plainFields_lookup he.2 h
      all_goals exact plainFields_lookup he h

/-- everything `build` needs of a schema, to depth `d` -/
def SchemaOk (W : World) (d : Nat) (s : Schema) : Prop :=
  DefaultsValid W d s ∧ s.keysNodup = true ∧ s.containerDefaultsPlain = true

/-- what `SchemaOk` says of one declared field -/
def FieldOk (W : World) (d : Nat) : SField → Prop
  | .leaf fs m => (Held W fs m.default.value ∧
          (match fs.kind, m.default.value with
           | .challenge _, .str _ => False
           | _, _ => True)) ∧ leafPlain fs m = true
  | .sub s' => SchemaOk W d s'
  | .ctype s' _ => SchemaOk W d s'
  | .cfgList s' _ _ m => SchemaOk W d s' ∧ (m.default.value = .none ∨ m.default.value = .list [])
  | .virtual _ _ => True
  | .method => True

theorem schemaOk_nodup {W : World} {d : Nat} {s : Schema} (h : SchemaOk W d s) : nodupKeys s.fields = true := by
  cases s with
  | mk fields dyn vs =>
    have := h.2.1
    simp only [Schema.keysNodup, Schema.every, Bool.and_eq_true] at this
    exact this.1

theorem schemaOk_get {W : World} {d : Nat} {s : Schema} {k : String} {f : SField}
    (h : SchemaOk W (d + 1) s) (hf : s.get k = some f) : FieldOk W d f := by
  obtain ⟨hdv, hnd, hpl⟩ := h
  have h1 := hdv k f hf
  cases s with
  | mk fields dyn vs =>
    simp only [Schema.keysNodup, Schema.every, Bool.and_eq_true] at hnd
    simp only [Schema.containerDefaultsPlain, Schema.every, Bool.and_eq_true] at hpl
    have hf' : lookupField k fields = some f := hf
    have h2 := everyFields_lookup hnd.2 hf'
    have h3 := everyFields_lookup hpl.2 hf'
    cases f with
    | leaf fs m => exact ⟨h1, plainFields_lookup hpl.1 hf'⟩
    | sub s' => exact ⟨h1, h2, h3⟩
    | ctype s' kf => exact ⟨h1, h2, h3⟩
    | cfgList s' it req m => exact ⟨⟨h1.1, h2, h3⟩, h1.2⟩
    | virtual _ _ => trivial
    | method => trivial

theorem schemaOk_mono {W : World} : ∀ {d : Nat} {s : Schema}, SchemaOk W (d + 1) s → SchemaOk W d s
  | 0, s, h => ⟨by unfold DefaultsValid; trivial, h.2⟩
  | d + 1, s, h => by
    refine ⟨?_, h.2⟩
    intro k f hf
    have h1 := schemaOk_get h hf
    cases f with
    | leaf fs m => exact h1.1
    | sub s' => exact (schemaOk_mono h1).1
    | ctype s' kf => exact (schemaOk_mono h1).1
    | cfgList s' it req m => exact ⟨(schemaOk_mono h1.1).1, h1.2⟩
    | virtual _ _ => trivial
    | method => trivial

/-! ### `Held` for re-validated container defaults -/

theorem validate_of_ne_none' (E : Env) (k : Kind) (req : Bool) (c : Option String) (v : Val) (hv : v ≠ .none) :
    validate E (.mk k req c) v =
      (match validateKind E k req v with
       | .error e => .error e
       | .ok v' => match c with
          | some name => E.custom name v'
          | none => .ok v') := by
  cases v <;> first | (exact absurd rfl hv) | (simp only [validate] <;> rfl)

theorem validate_none_ok {E : Env} {k : Kind} {req : Bool} {c : Option String} {v : Val}
    (h : validate E (.mk k req c) .none = .ok v) : v = .none := by
  cases req <;> simp [validate] at h
  exact h.symm

theorem mapR_length (g : Val → R Val) : ∀ (xs ys : List Val), mapR g xs = .ok ys → ys.length = xs.length
  | [], ys, h => by
    simp only [mapR] at h
    cases h; rfl
  | x :: xs, ys, h => by
    simp only [mapR, bind, Except.bind] at h
    cases hy : g x with
    | error e => simp [hy] at h
    | ok y =>
      simp only [hy] at h
      cases hr : mapR g xs with
      | error e => simp [hr] at h
      | ok r =>
        simp only [hr] at h
        cases h
        simp [mapR_length g xs r hr]

theorem mapEntries_length (fk fv : Val → R Val) :
    ∀ (l es : List (Val × Val)), mapEntries fk fv l = .ok es → es.length = l.length
  | [], es, h => by
    simp only [mapEntries] at h
    cases h; rfl
  | (k, v) :: rest, es, h => by
    simp only [mapEntries] at h
    cases hk : fk k with
    | error e => simp [hk] at h
    | ok k' =>
      simp only [hk] at h
      cases hv : fv v with
      | error e => simp [hv] at h
      | ok v' =>
        simp only [hv, bind, Except.bind] at h
        cases hr : mapEntries fk fv rest with
        | error e => simp [hr] at h
        | ok r =>
          simp only [hr] at h
          cases h
          simp [mapEntries_length fk fv rest r hr]

theorem isEmpty_eq_of_length_eq {α β : Type} {xs : List α} {ys : List β} (h : xs.length = ys.length) :
    xs.isEmpty = ys.isEmpty := by
  cases xs <;> cases ys <;> simp at h ⊢

theorem dictSet_ne_nil (k v : Val) (l : List (Val × Val)) : dictSet k v l ≠ [] := by
  cases l with
  | nil => simp [dictSet]
  | cons hd tl =>
    obtain ⟨a, b⟩ := hd
    simp only [dictSet]
    split <;> simp

theorem foldl_dictSet_ne_nil : ∀ (es acc : List (Val × Val)), (acc ≠ [] ∨ es ≠ []) →
    es.foldl (fun acc (kv : Val × Val) => dictSet kv.1 kv.2 acc) acc ≠ []
  | [], acc, h => by
    rcases h with h | h
    · simpa using h
    · exact absurd rfl h
  | e :: es, acc, _ => by
    simp only [List.foldl_cons]
    exact foldl_dictSet_ne_nil es _ (Or.inl (dictSet_ne_nil _ _ _))

theorem buildDict_isEmpty_eq (es : List (Val × Val)) : (buildDict es).isEmpty = es.isEmpty := by
  cases es with
  | nil => rfl
  | cons e es =>
    have := foldl_dictSet_ne_nil (e :: es) [] (Or.inr (by simp))
    simp only [buildDict]
    cases hb : List.foldl (fun acc (kv : Val × Val) => dictSet kv.1 kv.2 acc) [] (e :: es) with
    | nil => exact absurd hb this
    | cons _ _ => rfl

theorem validateItems_uniform {E : Env} {item : Option FieldSpec} {xs : List Val} {r : R (List Val)}
    (h : validateItems E item xs = some r) : ∃ g, ∀ zs, validateItems E item zs = some (mapR g zs) := by
  cases item with
  | none => simp [validateItems] at h
  | some f =>
    cases f with
    | mk k rq c =>
      simp only [validateItems] at h ⊢
      by_cases hk : k.isAny = true
      · simp [hk] at h
      · exact ⟨fun x => validate E (.mk k rq c) x, fun zs => by simp [hk]⟩

/-- a typed list default, valid for a list field without custom validator, stays `Held` after its items are validated again -/
theorem held_list_items {W : World} {item : Option FieldSpec} {req : Bool} {xs ys : List Val}
    (hh : Held W (.mk (.list item) req none) (.list xs))
    (hv : validateItems W.fe.toEnv item xs = some (.ok ys)) : Held W (.mk (.list item) req none) (.list ys) := by
  obtain ⟨g, hg⟩ := validateItems_uniform hv
  rcases hh with hh | ⟨u, hu⟩
  · cases hh
  · refine Or.inr ⟨.list xs, ?_⟩
    have hune : u ≠ .none := by
      intro e; subst e
      have := validate_none_ok hu
      cases this
    rw [validate_of_ne_none' _ _ _ _ _ hune] at hu
    have hempty : (req && xs.isEmpty) = false := by
      cases hk : validateKind W.fe.toEnv (.list item) req u with
      | error e => simp [hk] at hu
      | ok w =>
        simp only [hk] at hu
        cases hu
        cases u <;> simp only [validateKind] at hk <;> try (cases hk; done)
        all_goals
          rename_i xs0
          rw [hg xs0] at hk
          by_cases hre : (req && xs0.isEmpty) = true
          · simp [hre] at hk
          · simp only [hre, Bool.false_eq_true, if_false] at hk
            cases hm : mapR g xs0 with
            | error e => simp [hm, Except.map] at hk
            | ok xs1 =>
              simp only [hm, Except.map] at hk
              cases hk
              rw [isEmpty_eq_of_length_eq (mapR_length g xs0 xs hm)]
              simpa using hre
    rw [validate_of_ne_none' _ _ _ _ _ (by simp)]
    simp [validateKind, hempty, hv, Except.map]

/-- likewise for a typed dict default -/
theorem held_dict_entries {W : World} {kf vf : Option FieldSpec} {req : Bool} {kvs es : List (Val × Val)}
    (hh : Held W (.mk (.dict kf vf) req none) (.dict kvs)) (hne : (kf.isNone && vf.isNone) = false)
    (hv : mapEntries (fun x => validateOpt W.fe.toEnv kf x) (fun x => validateOpt W.fe.toEnv vf x) kvs = .ok es) :
    Held W (.mk (.dict kf vf) req none) (.dict (buildDict es)) := by
  rcases hh with hh | ⟨u, hu⟩
  · cases hh
  · refine Or.inr ⟨.dict kvs, ?_⟩
    have hune : u ≠ .none := by
      intro e; subst e
      have := validate_none_ok hu
      cases this
    rw [validate_of_ne_none' _ _ _ _ _ hune] at hu
    have hempty : (req && kvs.isEmpty) = false := by
      cases hk : validateKind W.fe.toEnv (.dict kf vf) req u with
      | error e => simp [hk] at hu
      | ok w =>
        simp only [hk] at hu
        cases hu
        cases u <;> simp only [validateKind] at hk <;> try (cases hk; done)
        rename_i kvs0
        by_cases hre : (req && kvs0.isEmpty) = true
        · simp [hre] at hk
        · simp only [hre, hne, Bool.false_eq_true, if_false] at hk
          cases hm : mapEntries (fun x => validateOpt W.fe.toEnv kf x) (fun x => validateOpt W.fe.toEnv vf x) kvs0 with
          | error e => simp [hm, Except.map] at hk
          | ok es0 =>
            simp only [hm, Except.map] at hk
            cases hk
            rw [buildDict_isEmpty_eq, isEmpty_eq_of_length_eq (mapEntries_length _ _ kvs0 es0 hm)]
            simpa using hre
    rw [validate_of_ne_none' _ _ _ _ _ (by simp)]
    simp [validateKind, hempty, hne, hv, Except.map]

/-! ### `setDefault`, `buildFields`, `build` -/

theorem setDefault_val_spec (W : World) (d : Nat) (fs : FieldSpec) (m : LeafMeta) (c : Cfg) (k : String) (v : Val)
    (hv : Held W fs v) :
    (∀ k', k' ≠ k → (c.setDefault k (.val v)).get k' = c.get k') ∧
      SlotOk W d (.leaf fs m) ((c.setDefault k (.val v)).get k) := by
  refine ⟨fun k' hk' => Cfg.get_setDefault_other c hk' _, ?_⟩
  rw [Cfg.get_setDefault_same]
  exact hv

/-- the hypothesis on `build` at the depth below, as used by `setDefault` for nested schemas -/
def BuildInv (W : World) (d : Nat) : Prop :=
  ∀ (path : String) (linked : Bool) (kf : Option String) (s : Schema) (n : Nat) (c : Cfg) (n' : Nat),
    SchemaOk W d s → build W path linked kf s n = .ok (c, n') → Inv W d s c

/-- `field.__setdefault__` touches only its own key, and what it stores there satisfies the field's clause -/
theorem setDefault_spec (W : World) (d : Nat) (hb : BuildInv W d)
    (path k : String) (f : SField) (c : Cfg) (n : Nat) (c1 : Cfg) (n1 : Nat)
    (hf : FieldOk W d f) (h : setDefault W path k f c n = .ok (c1, n1)) :
    (∀ k', k' ≠ k → c1.get k' = c.get k') ∧ SlotOk W d f (c1.get k) := by
  cases f with
  | virtual cst hs =>
    simp only [setDefault] at h
    cases h
    exact ⟨fun _ _ => rfl, by cases c.get k <;> trivial⟩
  | method =>
    simp only [setDefault] at h
    cases h
    exact ⟨fun _ _ => rfl, by cases c.get k <;> trivial⟩
  | sub s' =>
    simp only [setDefault] at h
    cases hbd : build W (joinPath path k) true none s' n with
    | error e => simp [hbd] at h
    | ok r =>
      obtain ⟨sub, n'⟩ := r
      simp only [hbd] at h
      cases h
      refine ⟨fun k' hk' => Cfg.get_setDefault_other c hk' _, ?_⟩
      rw [Cfg.get_setDefault_same]
      exact hb _ _ _ _ _ _ _ hf hbd
  | ctype s' kf =>
    simp only [setDefault] at h
    cases hbd : build W (joinPath path k) true kf s' n with
    | error e => simp [hbd] at h
    | ok r =>
      obtain ⟨sub, n'⟩ := r
      simp only [hbd] at h
      cases h
      refine ⟨fun k' hk' => Cfg.get_setDefault_other c hk' _, ?_⟩
      rw [Cfg.get_setDefault_same]
      exact hb _ _ _ _ _ _ _ hf hbd
  | cfgList s' it req m =>
    simp only [setDefault] at h
    rcases hf.2 with hd | hd
    · simp only [hd] at h
      cases h
      refine ⟨fun k' hk' => Cfg.get_setDefault_other c hk' _, ?_⟩
      rw [Cfg.get_setDefault_same]
      trivial
    · simp only [hd] at h
      cases h
      refine ⟨fun k' hk' => Cfg.get_setDefault_other c hk' _, ?_⟩
      rw [Cfg.get_setDefault_same]
      intro x hx
      cases hx
  | leaf fs m =>
    obtain ⟨⟨hheld, hch⟩, hpl⟩ := hf
    cases fs with
    | mk kind req cust =>
      cases kind
      case list item =>
        simp only [setDefault, FieldSpec.kind] at h
        cases hd : m.default.value
        case list xs =>
          simp only [hd] at h hheld
          have hc : cust = none := by
            simpa [leafPlain, FieldSpec.kind, FieldSpec.custom, hd] using hpl
          subst hc
          cases hvi : validateItems W.fe.toEnv item xs with
          | none =>
            simp only [hvi] at h
            cases h
            exact setDefault_val_spec W d _ m c k _ hheld
          | some r =>
            cases r with
            | error e => simp [hvi] at h
            | ok ys =>
              simp only [hvi] at h
              cases h
              exact setDefault_val_spec W d _ m c k _ (held_list_items hheld hvi)
        all_goals
          simp only [hd] at h hheld
          cases h
          exact setDefault_val_spec W d _ m c k _ hheld
      case dict kf vf =>
        simp only [setDefault, FieldSpec.kind] at h
        cases hd : m.default.value
        case dict kvs =>
          simp only [hd] at h hheld
          have hc : cust = none := by
            simpa [leafPlain, FieldSpec.kind, FieldSpec.custom, hd] using hpl
          subst hc
          by_cases hne : (kf.isNone && vf.isNone) = true
          · simp only [hne, if_true] at h
            cases h
            exact setDefault_val_spec W d _ m c k _ hheld
          · have hne' : (kf.isNone && vf.isNone) = false := Bool.eq_false_iff.mpr hne
            simp only [hne', Bool.false_eq_true, if_false] at h
            cases hme : mapEntries (fun x => validateOpt W.fe.toEnv kf x) (fun x => validateOpt W.fe.toEnv vf x) kvs with
            | error e => simp [hme] at h
            | ok es =>
              simp only [hme] at h
              cases h
              exact setDefault_val_spec W d _ m c k _ (held_dict_entries hheld hne' hme)
        all_goals
          simp only [hd] at h hheld
          cases h
          exact setDefault_val_spec W d _ m c k _ hheld
      case challenge alg =>
        simp only [setDefault, FieldSpec.kind] at h
        cases he : envValue W m with
        | some s =>
          simp only [he] at h
          cases hv : validate W.fe.toEnv (.mk (.challenge alg) req cust) (.str s) with
          | error e => simp [hv] at h
          | ok v =>
            simp only [hv] at h
            cases h
            exact setDefault_val_spec W d _ m c k _ (Or.inr ⟨_, hv⟩)
        | none =>
          simp only [he] at h
          cases hd : m.default.value
          case none =>
            simp only [hd] at h
            cases h
            exact setDefault_val_spec W d _ m c k _ (Or.inl rfl)
          case str p =>
            simp only [hd, FieldSpec.kind] at hch
          case digest sa dg a =>
            simp only [hd] at h hheld
            cases h
            exact setDefault_val_spec W d _ m c k _ hheld
          all_goals
            simp only [hd] at h
            cases h
      all_goals
        simp only [setDefault, FieldSpec.kind] at h
        cases he : envValue W m with
        | none =>
          simp only [he] at h
          cases h
          exact setDefault_val_spec W d _ m c k _ hheld
        | some s =>
          simp only [he] at h
          generalize hfs : FieldSpec.mk _ req cust = fs0 at h hheld
          cases hv : validate W.fe.toEnv fs0 (.str s) with
          | error e => simp [hv] at h
          | ok v =>
            simp only [hv] at h
            split at h
            · cases h
              exact setDefault_val_spec W d _ m c k _ hheld
            · cases h
              exact setDefault_val_spec W d _ m c k _ (Or.inr ⟨_, hv⟩)

theorem buildFields_spec (W : World) (d : Nat) (hb : BuildInv W d) (path : String) :
    ∀ (fs : List (String × SField)) (c : Cfg) (n : Nat) (c' : Cfg) (n' : Nat),
      nodupKeys fs = true → (∀ k f, lookupField k fs = some f → FieldOk W d f) →
      buildFields W path fs c n = .ok (c', n') →
      (∀ k, lookupField k fs = none → c'.get k = c.get k) ∧
      (∀ k f, lookupField k fs = some f → SlotOk W d f (c'.get k))
  | [], c, n, c', n', _, _, h => by
    simp only [buildFields] at h
    cases h
    exact ⟨fun _ _ => rfl, fun k f hf => by simp [lookupField] at hf⟩
  | (k, f) :: rest, c, n, c', n', hnd, hok, h => by
    simp only [buildFields] at h
    cases hs : setDefault W path k f c n with
    | error e => simp [hs] at h
    | ok r =>
      obtain ⟨c1, n1⟩ := r
      simp only [hs] at h
      simp only [nodupKeys, Bool.and_eq_true, Option.isNone_iff_eq_none] at hnd
      have hfk : FieldOk W d f := hok k f (by simp [lookupField])
      obtain ⟨ho, hsl⟩ := setDefault_spec W d hb path k f c n c1 n1 hfk hs
      have hne : ∀ k' f', lookupField k' rest = some f' → ¬ k = k' := by
        intro k' f' hl e
        subst e
        rw [hnd.1] at hl
        cases hl
      obtain ⟨ih1, ih2⟩ := buildFields_spec W d hb path rest c1 n1 c' n' hnd.2
        (fun k' f' hl => hok k' f' (by simp [lookupField, hne k' f' hl, hl])) h
      constructor
      · intro k' hl
        simp only [lookupField] at hl
        split at hl
        · cases hl
        · rename_i hkk
          rw [ih1 k' hl, ho k' (fun e => hkk e.symm)]
      · intro k' f' hl
        simp only [lookupField] at hl
        split at hl
        · rename_i hkk
          cases hl
          subst hkk
          rw [ih1 k hnd.1]
          exact hsl
        · exact ih2 k' f' hl

theorem inv_build_schemaOk (W : World) : ∀ (d : Nat), BuildInv W d
  | 0 => fun _ _ _ s _ c _ _ _ => inv_zero W s c
  | d + 1 => by
    intro path linked kf s n c n' hs h
    cases s with
    | mk fields dyn vs =>
      simp only [build] at h
      have hsp := buildFields_spec W d (inv_build_schemaOk W d) path fields _ _ _ _ (schemaOk_nodup hs)
        (fun k f hl => schemaOk_get hs hl) h
      rw [inv_succ_iff]
      intro k f hf
      exact hsp.2 k f hf

/-- **`Config(schema)` establishes the invariant.**

Hypotheses added to the statement `DefaultsValid W d s → build … = .ok (c, n') → Inv W d s c`, which is false without them:
* `hnd : s.keysNodup` — `Schema.get` returns the *first* field declared under a key while `buildFields` runs every
  `__setdefault__` in order, so with a duplicate key the slot holds the *last* field's default and `Inv` (which reads the
  first declaration) can fail.
* `hpl : s.containerDefaultsPlain` — `ListField.__setdefault__` / `DictField.__setdefault__` store the default after
  validating its *items* only (no `required` check, no custom validator), and `Held` asks for a result of the whole
  `validate`.  `required` is recovered from `DefaultsValid` (the re-validated container has the same length, see
  `held_list_items` / `held_dict_entries`); a custom validator cannot be (its result on the re-validated container is
  unconstrained), so list/dict leaves that declare a list/dict default must have `custom = none`.
  Nothing is assumed of other kinds, of container fields without a container default, or of `required`. -/
theorem inv_build (W : World) (d : Nat) (path : String) (linked : Bool) (kf : Option String) (s : Schema) (n : Nat)
    (c : Cfg) (n' : Nat) (hdv : DefaultsValid W d s) (hnd : s.keysNodup = true) (hpl : s.containerDefaultsPlain = true)
    (h : build W path linked kf s n = .ok (c, n')) : Inv W d s c :=
  inv_build_schemaOk W d path linked kf s n c n' ⟨hdv, hnd, hpl⟩ h

/-! ## 4. `_set_value` and `load_tree` keep the invariant, whether they return or raise -/

/-- the decoding step of `load_tree` for one entry (a copy of the `let decoded` of `loadTree`) -/
def decodeArg (W : World) (s : Schema) (path : String) (c : Cfg) (k : String) (value : Val) : Option (Except CErr Arg) :=
  match getField s c k with
  | .declared (.leaf f m) =>
    if (envValue W m).isSome then none
    else (match toPython W.fe f value with
      | .ok v => some (.ok (.val v))
      | .error e => some (.error (fieldErr path k e)))
  | .declared (.cfgList _ _ _ m) =>
    if (envValue W m).isSome then none
    else
      (match value with
       | .list xs => some (.ok (.val (.list xs)))
       | .tuple xs => some (.ok (.val (.list xs)))
       | v => if v.truthy then some (.error (.validation (joinPath path k))) else some (.ok (.val (.list []))))
  | _ => some (.ok (.val value))

theorem loadTree_cons_str (W : World) (fuel : Nat) (s : Schema) (path : String) (c : Cfg) (ks : List Char) (value : Val)
    (rest : List (Val × Val)) (dv : Bool) (n : Nat) :
    loadTree W fuel s path c ((.str ks, value) :: rest) dv n =
      (match decodeArg W s path c (String.ofList ks) value with
       | none => loadTree W fuel s path c rest dv n
       | some (.error e) => { cfg := c, err := some e, next := n }
       | some (.ok a) =>
         let o := setValue W fuel s path c (String.ofList ks) a n
         (match o.err with
          | some e => { cfg := o.cfg, err := some e, next := o.next }
          | none => loadTree W fuel s path o.cfg rest dv o.next)) := by
  conv => lhs; unfold loadTree
  rfl

/-- `load_tree` only ever assigns plain values -/
theorem decodeArg_val {W : World} {s : Schema} {path : String} {c : Cfg} {k : String} {value : Val} {a : Arg}
    (h : decodeArg W s path c k value = some (.ok a)) : ∃ v, a = .val v := by
  unfold decodeArg at h
  repeat' split at h
  all_goals first | (cases h; done) | (simp only [Option.some.injEq, Except.ok.injEq] at h; exact ⟨_, h.symm⟩)

def SetValueInv (W : World) (fuel : Nat) : Prop :=
  ∀ (d : Nat) (s : Schema) (path : String) (c : Cfg) (k : String) (a : Arg) (n : Nat),
    SchemaOk W (d + 1) s → ArgOk W d s k a → Inv W (d + 1) s c → Inv W (d + 1) s (setValue W fuel s path c k a n).cfg

def LoadTreeInv (W : World) (fuel : Nat) : Prop :=
  ∀ (d : Nat) (s : Schema) (path : String) (c : Cfg) (entries : List (Val × Val)) (dv : Bool) (n : Nat),
    SchemaOk W d s → Inv W d s c → Inv W d s (loadTree W fuel s path c entries dv n).cfg

def LoadItemsInv (W : World) (fuel : Nat) : Prop :=
  ∀ (d : Nat) (s' : Schema) (path k : String) (items : List Val) (pos : Nat) (acc : List Cfg) (n : Nat) (cs : List Cfg) (n' : Nat),
    SchemaOk W d s' → (∀ x ∈ acc, Inv W d s' x) →
    loadItems W fuel s' path k pos items acc n = (.ok cs, n') → ∀ x ∈ cs, Inv W d s' x

def SetSubInv (W : World) (fuel : Nat) : Prop :=
  ∀ (d : Nat) (s s' : Schema) (kf : Option String) (path : String) (c : Cfg) (k : String) (a : Arg) (n : Nat),
    SchemaOk W (d + 1) s → (s.get k = some (.sub s') ∨ ∃ kf', s.get k = some (.ctype s' kf')) →
    ArgOk W d s k a → Inv W (d + 1) s c → Inv W (d + 1) s (setSub W fuel s' kf path c k a n).cfg

theorem loadTreeInv_of_setValueInv {W : World} {fuel : Nat} (hsv : SetValueInv W fuel) : LoadTreeInv W fuel := by
  intro d s path c entries dv n hs
  cases d with
  | zero => exact fun _ => inv_zero W s _
  | succ d =>
    induction entries generalizing c n with
    | nil =>
      intro hi
      unfold loadTree
      split <;> exact hi
    | cons e rest ih =>
      intro hi
      obtain ⟨key, value⟩ := e
      cases key
      case str ks =>
        rw [loadTree_cons_str]
        cases hdec : decodeArg W s path c (String.ofList ks) value with
        | none => exact ih c n hi
        | some r =>
          cases r with
          | error e => exact hi
          | ok a =>
            obtain ⟨v, rfl⟩ := decodeArg_val hdec
            have h1 : Inv W (d + 1) s (setValue W fuel s path c (String.ofList ks) (.val v) n).cfg :=
              hsv d s path c _ _ n hs trivial hi
            simp only
            cases he : (setValue W fuel s path c (String.ofList ks) (.val v) n).err with
            | some e => exact h1
            | none => exact ih _ _ h1
      all_goals
        unfold loadTree
        exact hi

theorem loadItemsInv_of_loadTreeInv {W : World} {fuel : Nat} (hlt : LoadTreeInv W fuel) : LoadItemsInv W fuel := by
  intro d s' path k items
  induction items with
  | nil =>
    intro pos acc n cs n' _ hacc h
    unfold loadItems at h
    cases h
    intro x hx
    exact hacc x (List.mem_reverse.mp hx)
  | cons item rest ih =>
    intro pos acc n cs n' hs hacc h
    unfold loadItems at h
    cases item
    case dict kvs =>
      simp only at h
      cases hb : build W (itemPath path k pos) true none s' n with
      | error e => simp [hb] at h
      | ok r =>
        obtain ⟨fresh, n1⟩ := r
        simp only [hb] at h
        have hfresh : Inv W d s' fresh := inv_build_schemaOk W d _ _ _ _ _ _ _ hs hb
        have ho : Inv W d s' (loadTree W fuel s' (itemPath path k pos) fresh kvs true n1).cfg :=
          hlt d s' _ fresh kvs true n1 hs hfresh
        cases he : (loadTree W fuel s' (itemPath path k pos) fresh kvs true n1).err with
        | some e => simp [he] at h
        | none =>
          simp only [he] at h
          refine ih (pos + 1) _ _ cs n' hs ?_ h
          intro x hx
          rcases List.mem_cons.mp hx with hx | hx
          · subst hx; exact ho
          · exact hacc x hx
    all_goals
      simp only at h
      cases h

theorem setSubInv_of_loadTreeInv {W : World} {fuel : Nat} (hlt : LoadTreeInv W fuel) : SetSubInv W fuel := by
  intro d s s' kf path c k a n hs hk ha hi
  have hs' : SchemaOk W d s' := by
    rcases hk with hk | ⟨kf', hk⟩
    · exact schemaOk_get hs hk
    · exact schemaOk_get hs hk
  have hslot : ∀ x, Inv W d s' x → Inv W (d + 1) s (c.setUser k (.node x)) := by
    intro x hx
    refine inv_setUser hi ?_
    intro f hf
    rcases hk with hk | ⟨kf', hk⟩
    · rw [hk] at hf; cases hf; exact hx
    · rw [hk] at hf; cases hf; exact hx
  unfold setSub
  cases a with
  | cfg sub same =>
    cases same
    · exact hi
    · simp only [if_true]
      have hsub : Inv W d s' sub := by
        rcases hk with hk | ⟨kf', hk⟩
        · exact ha s' none (Or.inl hk)
        · exact ha s' kf' (Or.inr hk)
      exact hslot _ (inv_withLinked true hsub)
  | val v =>
    cases v
    case dict kvs =>
      simp only
      cases hb : build W (joinPath path k) true kf s' n with
      | error e => exact hi
      | ok r =>
        obtain ⟨fresh, n1⟩ := r
        simp only
        have hfresh : Inv W d s' fresh := inv_build_schemaOk W d _ _ _ _ _ _ _ hs' hb
        have ho : Inv W d s' (loadTree W fuel s' (joinPath path k) fresh kvs true n1).cfg :=
          hlt d s' _ fresh kvs true n1 hs' hfresh
        cases he : (loadTree W fuel s' (joinPath path k) fresh kvs true n1).err with
        | some e => exact hi
        | none => exact hslot _ ho
    all_goals exact hi

theorem setValueInv_succ {W : World} {fuel : Nat} (hss : SetSubInv W fuel) (hli : LoadItemsInv W fuel) :
    SetValueInv W (fuel + 1) := by
  intro d s path c k a n hs ha hi
  unfold setValue
  cases hg : getField s c k with
  | missing =>
    have hk : s.get k = none := getField_not_declared (fun f h => by rw [hg] at h; cases h)
    simp only
    by_cases hd : s.dynamic = true
    · simp only [hd, Bool.not_true, Bool.false_eq_true, if_false]
      cases a with
      | val v => exact inv_setUser_undeclared _ hk (inv_withDyn _ hi)
      | cfg sub same => exact inv_setUser_undeclared _ hk (inv_withDyn _ hi)
    · simp only [hd, Bool.not_false, if_true]
      exact hi
  | dynamic =>
    have hk : s.get k = none := getField_not_declared (fun f h => by rw [hg] at h; cases h)
    simp only
    cases a with
    | val v => exact inv_setUser_undeclared _ hk hi
    | cfg sub same => exact inv_setUser_undeclared _ hk hi
  | declared f =>
    have hk : s.get k = some f := getField_declared hg
    cases f with
    | leaf fs m =>
      have hheld : ∀ u v', validate W.fe.toEnv fs u = .ok v' → Inv W (d + 1) s (c.setUser k (.val v')) := by
        intro u v' hv
        refine inv_setUser hi ?_
        intro f hf
        rw [hk] at hf; cases hf
        exact Or.inr ⟨u, hv⟩
      cases a with
      | val v =>
        simp only
        cases hv : validate W.fe.toEnv fs v with
        | error e => exact hi
        | ok v' => exact hheld _ _ hv
      | cfg sub same =>
        simp only
        cases hv : validate W.fe.toEnv fs (.opaque "Config") with
        | error e => exact hi
        | ok v' => exact hheld _ _ hv
    | virtual cst hst => cases hst <;> exact hi
    | method => exact hi
    | sub s' => exact hss d s s' none path c k a n hs (Or.inl hk) ha hi
    | ctype s' kf => exact hss d s s' kf path c k a n hs (Or.inr ⟨kf, hk⟩) ha hi
    | cfgList s' it req m =>
      have hs' : SchemaOk W d s' := (schemaOk_get hs hk).1
      cases a with
      | cfg sub same => exact hi
      | val v =>
        cases v
        case none =>
          simp only
          cases req
          · simp only [Bool.false_eq_true, if_false]
            refine inv_setUser hi ?_
            intro f hf
            rw [hk] at hf; cases hf
            trivial
          · exact hi
        case list items =>
          simp only
          cases hl : loadItems W fuel s' path k 0 items [] n with
          | mk r n' =>
            cases r with
            | error e => exact hi
            | ok cs =>
              simp only
              by_cases hr : (req && cs.isEmpty) = true
              · simp only [hr, if_true]; exact hi
              · simp only [hr]
                refine inv_setUser hi ?_
                intro f hf
                rw [hk] at hf; cases hf
                exact hli d s' path k items 0 [] n cs n' hs' (fun x hx => by cases hx) hl
        all_goals exact hi

theorem setValueInv_all (W : World) : ∀ fuel, SetValueInv W fuel
  | 0 => by
    intro d s path c k a n _ _ hi
    unfold setValue
    exact hi
  | fuel + 1 =>
    have hlt := loadTreeInv_of_setValueInv (setValueInv_all W fuel)
    setValueInv_succ (setSubInv_of_loadTreeInv hlt) (loadItemsInv_of_loadTreeInv hlt)

theorem loadTreeInv_all (W : World) (fuel : Nat) : LoadTreeInv W fuel :=
  loadTreeInv_of_setValueInv (setValueInv_all W fuel)

/-- **`_set_value` keeps the invariant for every argument that respects it, whether it returns or raises.**
    Extra hypotheses (needed because a map assigned to a sub-configuration slot, or a list of maps assigned to a list of
    configurations, goes through `build`): `DefaultsValid` at the same depth, and the two schema conditions of `inv_build`. -/
theorem inv_setValue (W : World) (d fuel : Nat) (s : Schema) (path : String) (c : Cfg) (k : String) (a : Arg) (n : Nat)
    (hdv : DefaultsValid W (d + 1) s) (hnd : s.keysNodup = true) (hpl : s.containerDefaultsPlain = true)
    (ha : ArgOk W d s k a) (hi : Inv W (d + 1) s c) : Inv W (d + 1) s (setValue W fuel s path c k a n).cfg :=
  setValueInv_all W fuel d s path c k a n ⟨hdv, hnd, hpl⟩ ha hi

/-- **`load_tree` keeps the invariant, whether it returns or raises** (at the failing entry the entries before it are loaded). -/
theorem inv_loadTree (W : World) (d fuel : Nat) (s : Schema) (path : String) (c : Cfg) (entries : List (Val × Val))
    (doValidate : Bool) (n : Nat)
    (hdv : DefaultsValid W (d + 1) s) (hnd : s.keysNodup = true) (hpl : s.containerDefaultsPlain = true)
    (hi : Inv W (d + 1) s c) : Inv W (d + 1) s (loadTree W fuel s path c entries doValidate n).cfg :=
  loadTreeInv_all W fuel (d + 1) s path c entries doValidate n ⟨hdv, hnd, hpl⟩ hi

/-! ## 5. Dotted assignment and `reset_value` -/

theorem subSchema_some {f : SField} {s' : Schema} {kf : Option String} (h : subSchema f = some (s', kf)) :
    f = .sub s' ∨ f = .ctype s' kf := by
  cases f <;> simp [subSchema] at h
  · exact Or.inl (by rw [h.1])
  · exact Or.inr (by rw [h.1, h.2])

/-- what a declared sub-schema slot gives: the nested schema is fine and the nested configuration satisfies the invariant -/
theorem sub_of_inv {W : World} {d : Nat} {s s' : Schema} {kf : Option String} {c sub : Cfg} {k : String} {f : SField}
    (hs : SchemaOk W (d + 1) s) (hi : Inv W (d + 1) s c) (hk : s.get k = some f) (hss : subSchema f = some (s', kf))
    (hget : c.get k = some (.node sub)) :
    SchemaOk W d s' ∧ Inv W d s' sub ∧ (∀ x, Inv W d s' x → SlotOk W d f (some (.node x))) := by
  have h1 := schemaOk_get hs hk
  have h2 := hi k f hk
  rw [hget] at h2
  rcases subSchema_some hss with rfl | rfl
  · exact ⟨h1, h2, fun x hx => hx⟩
  · exact ⟨h1, h2, fun x hx => hx⟩

theorem inv_setItem_all (W : World) :
    ∀ (fuel d : Nat) (s : Schema) (path : String) (c : Cfg) (dotted : List Char) (a : Arg) (n : Nat),
      SchemaOk W d s → (∀ d' s' k', d' < d → ArgOk W d' s' k' a) → Inv W d s c →
      Inv W d s (setItem W fuel s path c dotted a n).cfg
  | 0, d, s, path, c, dotted, a, n, _, _, hi => by
    unfold setItem
    exact hi
  | fuel + 1, 0, s, path, c, dotted, a, n, _, _, _ => inv_zero W s _
  | fuel + 1, d + 1, s, path, c, dotted, a, n, hs, ha, hi => by
    have hsv : ∀ k, Inv W (d + 1) s (setValue W (fuel + 1) s path c k a n).cfg :=
      fun k => setValueInv_all W (fuel + 1) d s path c k a n hs (ha d s k (Nat.lt_succ_self d)) hi
    unfold setItem
    cases hp : partitionDot dotted with
    | mk k rest =>
      cases rest with
      | none => exact hsv _
      | some rest =>
        simp only
        by_cases hre : rest.isEmpty = true
        · simp only [hre, if_true]
          exact hsv _
        · simp only [hre, Bool.false_eq_true, if_false]
          cases hg : getField s c (String.ofList k) with
          | missing => exact hi
          | dynamic => exact hi
          | declared f =>
            simp only
            cases hss : subSchema f with
            | none => exact hi
            | some ss =>
              obtain ⟨s', kf⟩ := ss
              cases hget : c.get (String.ofList k) with
              | none => exact hi
              | some sl =>
                cases sl with
                | val v => exact hi
                | nodes cs => exact hi
                | node sub =>
                  simp only
                  have hk := getField_declared hg
                  obtain ⟨hs', hsub, hslot⟩ := sub_of_inv hs hi hk hss hget
                  have ih := inv_setItem_all W fuel d s' (joinPath path (String.ofList k)) sub rest a n hs'
                    (fun d' s'' k' h => ha d' s'' k' (Nat.lt_succ_of_lt h)) hsub
                  refine inv_set hi ?_
                  intro f' hf'
                  rw [hk] at hf'; cases hf'
                  exact hslot _ ih

/-- **`config["a.b.c"] = value` keeps the invariant for plain values, whether it returns or raises.** -/
theorem inv_setItem (W : World) (d fuel : Nat) (s : Schema) (path : String) (c : Cfg) (dotted : List Char) (v : Val) (n : Nat)
    (hdv : DefaultsValid W d s) (hnd : s.keysNodup = true) (hpl : s.containerDefaultsPlain = true)
    (hi : Inv W d s c) : Inv W d s (setItem W fuel s path c dotted (.val v) n).cfg :=
  inv_setItem_all W fuel d s path c dotted (.val v) n ⟨hdv, hnd, hpl⟩ (fun _ _ _ _ => trivial) hi

/-- the same for a configuration object, under the (crude) premise that the object respects the invariant for whichever
    slot along the path ends up receiving it -/
theorem inv_setItem_cfg (W : World) (d fuel : Nat) (s : Schema) (path : String) (c : Cfg) (dotted : List Char) (a : Arg) (n : Nat)
    (hdv : DefaultsValid W d s) (hnd : s.keysNodup = true) (hpl : s.containerDefaultsPlain = true)
    (ha : ∀ d' s' k', d' < d → ArgOk W d' s' k' a)
    (hi : Inv W d s c) : Inv W d s (setItem W fuel s path c dotted a n).cfg :=
  inv_setItem_all W fuel d s path c dotted a n ⟨hdv, hnd, hpl⟩ ha hi

theorem inv_setDefault_undeclared {W : World} {d : Nat} {s : Schema} {c : Cfg} {k : String} (slot : Slot)
    (hk : s.get k = none) (hi : Inv W d s c) : Inv W d s (c.setDefault k slot) := by
  cases d with
  | zero => exact inv_zero W s _
  | succ d => exact inv_setDefault hi (fun f hf => by rw [hk] at hf; cases hf)

/-- replacing the configuration that a dotted path leads to by one that satisfies the invariant of its own schema -/
theorem inv_replaceAt (W : World) (g : Cfg → Cfg) (s' : Schema) (owner : Cfg) :
    ∀ (fuel d : Nat) (s : Schema) (path : String) (c : Cfg) (dotted : List Char) (p' k : String),
      walk fuel s path c dotted = some (s', p', owner, k) → SchemaOk W d s → Inv W d s c →
      (∀ d', SchemaOk W d' s' → Inv W d' s' owner → Inv W d' s' (g owner)) →
      Inv W d s (replaceAt fuel c dotted g)
  | 0, d, s, path, c, dotted, p', k, hw, _, _, _ => by
    unfold walk at hw
    cases hw
  | fuel + 1, d, s, path, c, dotted, p', k, hw, hs, hi, hg => by
    unfold walk at hw
    unfold replaceAt
    cases hp : partitionDot dotted with
    | mk kk rest =>
      cases rest with
      | none =>
        simp only [hp] at hw
        cases hw
        exact hg d hs hi
      | some rest =>
        simp only [hp] at hw ⊢
        cases hk : s.get (String.ofList kk) with
        | none => simp [hk] at hw
        | some f =>
          simp only [hk] at hw
          cases hss : subSchema f with
          | none => simp [hss] at hw
          | some ss =>
            obtain ⟨s1, kf⟩ := ss
            cases hget : c.get (String.ofList kk) with
            | none => simp [hss, hget] at hw
            | some sl =>
              cases sl with
              | val v => simp [hss, hget] at hw
              | nodes cs => simp [hss, hget] at hw
              | node sub =>
                simp only [hss, hget] at hw ⊢
                cases d with
                | zero => exact inv_zero W s _
                | succ d =>
                  obtain ⟨hs1, hsub, hslot⟩ := sub_of_inv hs hi hk hss hget
                  have ih := inv_replaceAt W g s' owner fuel d s1 _ sub rest p' k hw hs1 hsub hg
                  refine inv_set hi ?_
                  intro f' hf'
                  rw [hk] at hf'; cases hf'
                  exact hslot _ ih

/-- `field.__setdefault__` on a configuration that satisfies the invariant -/
theorem inv_setDefault_field {W : World} {d : Nat} {s : Schema} {path k : String} {f : SField} {c c1 : Cfg} {n n1 : Nat}
    (hs : SchemaOk W d s) (hk : s.get k = some f) (hi : Inv W d s c)
    (h : setDefault W path k f c n = .ok (c1, n1)) : Inv W d s c1 := by
  cases d with
  | zero => exact inv_zero W s _
  | succ d =>
    obtain ⟨ho, hsl⟩ := setDefault_spec W d (inv_build_schemaOk W d) path k f c n c1 n1 (schemaOk_get hs hk) h
    rw [inv_succ_iff] at hi ⊢
    intro k' f' hf'
    by_cases hkk : k' = k
    · subst hkk
      rw [hk] at hf'; cases hf'
      exact hsl
    · rw [ho k' hkk]
      exact hi k' f' hf'

/-- **`reset_value(config, "a.b.c")` keeps the invariant, whether it returns or raises.** -/
theorem inv_resetValue (W : World) (d fuel : Nat) (s : Schema) (c : Cfg) (dotted : List Char) (n : Nat)
    (hdv : DefaultsValid W d s) (hnd : s.keysNodup = true) (hpl : s.containerDefaultsPlain = true)
    (hi : Inv W d s c) : Inv W d s (resetValue W fuel s c dotted n).cfg := by
  have hs : SchemaOk W d s := ⟨hdv, hnd, hpl⟩
  unfold resetValue
  cases hw : walk fuel s "" c dotted with
  | none => exact hi
  | some r =>
    obtain ⟨s', path, owner, k⟩ := r
    simp only
    cases hg : getField s' owner k with
    | missing => exact hi
    | dynamic =>
      have hk : s'.get k = none := getField_not_declared (fun f h => by rw [hg] at h; cases h)
      exact inv_replaceAt W _ s' owner fuel d s "" c dotted path k hw hs hi
        (fun d' _ ho => inv_setDefault_undeclared _ hk ho)
    | declared f =>
      have hk := getField_declared hg
      simp only
      cases hsd : setDefault W path k f owner n with
      | error e => exact hi
      | ok r =>
        obtain ⟨owner', n'⟩ := r
        exact inv_replaceAt W _ s' owner fuel d s "" c dotted path k hw hs hi
          (fun d' hs' ho => inv_setDefault_field hs' hk ho hsd)

/-! ## 6. The two hypotheses added to `inv_build` are necessary

Without `keysNodup` (any world) and without `containerDefaultsPlain` (a world whose catalogue validator "c" maps
`[True]` to `[1]` and rejects everything else) the statement `DefaultsValid → build = ok c → Inv` fails at depth 1. -/

def dupSchema : Schema :=
  .mk [("a", .leaf (.mk .bool false none) { default := .const (.bool true) }),
       ("a", .leaf (.mk .any false none) { default := .const (.int 7) })] false []

theorem boolField_not_int (E : Env) (u : Val) (i : Int) : validate E (.mk .bool false none) u ≠ .ok (.int i) := by
  intro h
  cases u <;> simp [validate, validateKind, boolRule] at h
  split at h
  · cases h
  · rename_i heq
    cases h
    repeat' split at heq
    all_goals cases heq

theorem inv_build_needs_keysNodup (W : World) :
    DefaultsValid W 1 dupSchema ∧ dupSchema.containerDefaultsPlain = true ∧
    ∃ c n', build W "" false none dupSchema 0 = .ok (c, n') ∧ ¬ Inv W 1 dupSchema c := by
  refine ⟨?_, by decide, ?_⟩
  · intro k f hf
    simp only [dupSchema, Schema.get, Schema.fields, lookupField] at hf
    split at hf
    · cases hf
      exact ⟨Or.inr ⟨.bool true, by simp [validate, validateKind, boolRule, Default.value]⟩, trivial⟩
    · simp at hf
  · refine ⟨_, _, by simp [dupSchema, build, buildFields, setDefault, envValue, FieldSpec.kind, Default.value]; exact ⟨rfl, rfl⟩, ?_⟩
    intro hi
    have := hi "a" _ rfl
    rw [Cfg.get_setDefault_same] at this
    rcases this with h | ⟨u, hu⟩
    · cases h
    · exact boolField_not_int _ _ _ hu

def cexWorld : World where
  environ := fun _ => none
  fe := { parseFloat := fun _ => none, fsKind := fun _ => .absent, isabs := fun _ => false, resolve := fun _ t => t,
          urlOk := fun _ => false, salt := fun _ => [], hash := fun _ b => b, utf8 := fun _ => [],
          custom := fun _ v => match v with
            | .list [.bool true] => .ok (.list [.int 1])
            | _ => .error .value,
          encryptS := fun _ _ => none, decryptS := fun _ => none }

def cexField : FieldSpec := .mk (.list (some (.mk .bool false none))) false (some "c")

def cexSchema : Schema := .mk [("l", .leaf cexField { default := .const (.list [.int 1]) })] false []

theorem cexField_validate : validate cexWorld.fe.toEnv cexField (.list [.int 1]) = .ok (.list [.int 1]) := by
  simp [cexField, validate, validateKind, validateItems, Kind.isAny, mapR, boolRule, bind, Except.bind, Except.map, cexWorld]

theorem cexField_never (u : Val) : validate cexWorld.fe.toEnv cexField u ≠ .ok (.list [.bool true]) := by
  intro h
  by_cases hu : u = .none
  · subst hu
    have := validate_none_ok h
    cases this
  · rw [cexField, validate_of_ne_none' _ _ _ _ _ hu] at h
    split at h
    · cases h
    · simp only [cexWorld] at h
      split at h <;> cases h

theorem inv_build_needs_plain :
    DefaultsValid cexWorld 1 cexSchema ∧ cexSchema.keysNodup = true ∧
    ∃ c n', build cexWorld "" false none cexSchema 0 = .ok (c, n') ∧ ¬ Inv cexWorld 1 cexSchema c := by
  refine ⟨?_, by decide, ?_⟩
  · intro k f hf
    simp only [cexSchema, Schema.get, Schema.fields, lookupField] at hf
    split at hf
    · cases hf
      exact ⟨Or.inr ⟨.list [.int 1], cexField_validate⟩, trivial⟩
    · cases hf
  · have hvi : validateItems cexWorld.fe.toEnv (some (.mk .bool false none)) [.int 1] = some (.ok [.bool true]) := by
      simp [validateItems, Kind.isAny, mapR, validate, validateKind, boolRule, bind, Except.bind]
    refine ⟨_, _, by simp [cexSchema, cexField, build, buildFields, setDefault, FieldSpec.kind, Default.value, hvi]; exact ⟨rfl, rfl⟩, ?_⟩
    intro hi
    have := hi "l" _ rfl
    rw [Cfg.get_setDefault_same] at this
    rcases this with h | ⟨u, hu⟩
    · cases h
    · exact cexField_never _ hu

end Cinco.Config
