import Cinco.Format.Xml
import Cinco.Proofs.Str
import Cinco.Proofs.Kvs
namespace Cinco.Xml
open Cinco Cinco.Str Cinco.Kvs

/-- what the XML codec needs from CPython's float text conversion -/
def FloatText.Lawful (ft : FloatText) : Prop := ∀ f, ft.parse (ft.print f) = some f

/-- what the XML codec needs from the generated Bool token tables -/
def TablesOk : Prop :=
  inTable Generated.trueValues (lower trueText) = true ∧
  inTable Generated.trueValues (lower falseText) = false ∧
  inTable Generated.falseValues (lower falseText) = true

theorem toElement_tag (ft : FloatText) (k : String) (t : Tree) : (toElement ft k t).tag = k := by
  cases t <;> simp [toElement, Elem.tag]

theorem set_append_of_not_mem {k : String} (v : Tree) : ∀ (d : Kvs), k ∉ keys d → Kvs.set k v d = d ++ [(k, v)]
  | [], _ => rfl
  | (k', v') :: rest, h => by
    simp only [keys, List.map_cons, List.mem_cons, not_or] at h
    have : ¬ k' = k := fun e => h.1 e.symm
    simp only [Kvs.set, this, if_false, List.cons_append]
    congr 1
    exact set_append_of_not_mem v rest h.2

mutual
  theorem codec (ft : FloatText) (hft : ft.Lawful) (htb : TablesOk) :
      ∀ (k : String) (t : Tree), t.wf = true → fromElement ft none (toElement ft k t) = t
    | k, .null, _ => by simp [toElement, fromElement]
    | k, .bool b, _ => by
        cases b
        · simp [toElement, fromElement, htb.2.1, htb.2.2]
        · simp [toElement, fromElement, htb.1]
    | k, .int i, _ => by simp [toElement, fromElement, pyInt_intRepr]
    | k, .flt f, _ => by simp [toElement, fromElement, hft f]
    | k, .str s, _ => by simp [toElement, fromElement]
    | k, .list xs, h => by
        simp only [toElement, fromElement, Tree.list.injEq]
        exact codecItems ft hft htb xs (by simpa [Tree.wf] using h)
    | k, .dict kvs, h => by
        simp only [toElement, fromElement, Tree.dict.injEq]
        have := codecEntries ft hft htb kvs [] (by simpa [Tree.wf] using h) (by simp [keys])
        simpa using this
  theorem codecItems (ft : FloatText) (hft : ft.Lawful) (htb : TablesOk) :
      ∀ (xs : List Tree), Tree.wfList xs = true → fromItems ft (toItems ft xs) = xs
    | [], _ => by simp [toItems, fromItems]
    | x :: xs, h => by
        simp only [Tree.wfList, Bool.and_eq_true] at h
        simp [toItems, fromItems, codec ft hft htb "item" x h.1, codecItems ft hft htb xs h.2]
  theorem codecEntries (ft : FloatText) (hft : ft.Lawful) (htb : TablesOk) :
      ∀ (kvs acc : Kvs), Tree.wfKvs kvs = true → (∀ k ∈ keys kvs, k ∉ keys acc) →
        fromEntries ft acc (toEntries ft kvs) = acc ++ kvs
    | [], acc, _, _ => by simp [toEntries, fromEntries]
    | (k, v) :: rest, acc, h, hdis => by
        simp only [Tree.wfKvs, Bool.and_eq_true, Bool.not_eq_true', List.contains_eq_mem,
          decide_eq_false_iff_not] at h
        obtain ⟨⟨hk, hv⟩, hrest⟩ := h
        have hka : k ∉ keys acc := hdis k (by simp [keys])
        simp only [toEntries, fromEntries, toElement_tag, codec ft hft htb k v hv,
          set_append_of_not_mem v acc hka]
        rw [codecEntries ft hft htb rest (acc ++ [(k, v)]) hrest]
        · simp
        · intro k' hk' hmem
          simp only [keys, List.map_append, List.map_cons, List.map_nil, List.mem_append,
            List.mem_singleton] at hmem
          rcases hmem with hmem | hmem
          · exact hdis k' (by simp only [keys, List.map_cons, List.mem_cons]; exact Or.inr hk') hmem
          · subst hmem; exact hk hk'
end

end Cinco.Xml
