import Cinco.Field.Net
/-
  Round trips between the IPv4 address / network printers and parsers of `Cinco.Field.Net`.
-/
namespace Cinco.Net
open Cinco Cinco.Str

/-! ### octets -/

theorem parseOctet_natRepr : ∀ n, n < 256 → parseOctet (natRepr n) = some n := by
  decide +kernel

theorem exists_digitChar_of_isDigit {c : Char} (h : c.isDigit = true) :
    ∃ d, d < 10 ∧ c = Nat.digitChar d := by
  have hb : 48 ≤ c.toNat ∧ c.toNat ≤ 57 := by
    simp only [Char.isDigit, Bool.and_eq_true, decide_eq_true_eq] at h
    exact ⟨h.1, h.2⟩
  refine ⟨c.toNat - 48, by omega, ?_⟩
  have hc : c = Char.ofNat c.toNat := (Char.ofNat_toNat c).symm
  obtain ⟨k, hk⟩ : ∃ k, c.toNat = k := ⟨_, rfl⟩
  rw [hk] at hb hc ⊢
  have : k = 48 ∨ k = 49 ∨ k = 50 ∨ k = 51 ∨ k = 52 ∨ k = 53 ∨ k = 54 ∨ k = 55 ∨ k = 56 ∨ k = 57 := by
    omega
  rcases this with e | e | e | e | e | e | e | e | e | e <;> subst e <;> rw [hc] <;> decide

def octetOk (l : Str) : Bool := (parseOctet l).all (fun n => natRepr n == l)

theorem octetOk_spec {l : Str} (h : octetOk l = true) {n : Nat} (hn : parseOctet l = some n) :
    natRepr n = l := by
  unfold octetOk at h
  rw [hn] at h
  simpa using h

theorem octet1 : ∀ a, a < 10 → octetOk [Nat.digitChar a] = true := by decide +kernel
theorem octet2 : ∀ a, a < 10 → ∀ b, b < 10 → octetOk [Nat.digitChar a, Nat.digitChar b] = true := by
  decide +kernel
theorem octet3 : ∀ a, a < 10 → ∀ b, b < 10 → ∀ c, c < 10 →
    octetOk [Nat.digitChar a, Nat.digitChar b, Nat.digitChar c] = true := by
  decide +kernel

theorem parseOctet_shape {s : Str} {n : Nat} (h : parseOctet s = some n) :
    s ≠ [] ∧ s.length ≤ 3 ∧ (∀ c ∈ s, c.isDigit = true) ∧ n ≤ 255 := by
  unfold parseOctet at h
  split at h
  · cases h
  · next h1 =>
    split at h
    · cases h
    · dsimp only at h
      split at h
      · next h3 =>
        cases h
        simp only [Bool.or_eq_true, Bool.not_eq_true', not_or, decide_eq_true_eq,
          Bool.not_eq_false] at h1
        refine ⟨?_, by omega, ?_, h3⟩
        · intro e; subst e; simp at h1
        · intro c hc
          have := h1.2
          simp only [List.all_eq_true] at this
          exact this c hc
      · cases h

theorem natRepr_of_parseOctet (s : Str) (n : Nat) (h : parseOctet s = some n) : natRepr n = s := by
  obtain ⟨hne, hlen, hd, _⟩ := parseOctet_shape h
  match s, hne, hlen, hd, h with
  | [a], _, _, hd, h =>
    obtain ⟨x, hx, rfl⟩ := exists_digitChar_of_isDigit (hd a (by simp))
    exact octetOk_spec (octet1 x hx) h
  | [a, b], _, _, hd, h =>
    obtain ⟨x, hx, rfl⟩ := exists_digitChar_of_isDigit (hd a (by simp))
    obtain ⟨y, hy, rfl⟩ := exists_digitChar_of_isDigit (hd b (by simp))
    exact octetOk_spec (octet2 x hx y hy) h
  | [a, b, c], _, _, hd, h =>
    obtain ⟨x, hx, rfl⟩ := exists_digitChar_of_isDigit (hd a (by simp))
    obtain ⟨y, hy, rfl⟩ := exists_digitChar_of_isDigit (hd b (by simp))
    obtain ⟨z, hz, rfl⟩ := exists_digitChar_of_isDigit (hd c (by simp))
    exact octetOk_spec (octet3 x hx y hy z hz) h
  | [], hne, _, _, _ => exact absurd rfl hne
  | _ :: _ :: _ :: _ :: _, _, hlen, _, _ => simp at hlen

/-! ### `splitOn` -/

theorem splitOn_ne_nil (c : Char) : ∀ s, splitOn c s ≠ []
  | [] => by simp [splitOn]
  | x :: rest => by
    unfold splitOn
    split
    · simp
    · split <;> simp

theorem splitOn_of_not_mem {c : Char} : ∀ {a : Str}, c ∉ a → splitOn c a = [a]
  | [], _ => rfl
  | x :: rest, h => by
    have hx : (x == c) = false := by
      simp only [beq_eq_false_iff_ne, ne_eq]; intro e; subst e; simp at h
    have hr : c ∉ rest := fun hm => h (by simp [hm])
    simp [splitOn, hx, splitOn_of_not_mem hr]

theorem splitOn_append_sep {c : Char} (rest : Str) : ∀ {a : Str}, c ∉ a →
    splitOn c (a ++ c :: rest) = a :: splitOn c rest
  | [], _ => by simp [splitOn]
  | x :: a, h => by
    have hx : (x == c) = false := by
      simp only [beq_eq_false_iff_ne, ne_eq]; intro e; subst e; simp at h
    have hr : c ∉ a := fun hm => h (by simp [hm])
    simp [splitOn, hx, splitOn_append_sep rest hr]

/-- The first part of a split carries no separator and the input is that part, followed (if there are
more parts) by the separator and a text that splits into the remaining parts. -/
theorem splitOn_cons_inv {c : Char} : ∀ {s a : Str} {t : List Str}, splitOn c s = a :: t →
    c ∉ a ∧ ((t = [] ∧ s = a) ∨ (∃ rest, s = a ++ c :: rest ∧ splitOn c rest = t))
  | [], a, t, h => by
    simp [splitOn] at h
    obtain ⟨rfl, rfl⟩ := h
    simp
  | x :: s, a, t, h => by
    unfold splitOn at h
    split at h
    · next hx =>
      have hx : x = c := by simpa using hx
      simp at h
      obtain ⟨rfl, rfl⟩ := h
      refine ⟨by simp, Or.inr ⟨s, by simp [hx], rfl⟩⟩
    · next hx =>
      have hx : x ≠ c := by simpa using hx
      split at h
      · next e => exact absurd e (splitOn_ne_nil c s)
      · next h' t' e =>
        simp at h
        obtain ⟨rfl, rfl⟩ := h
        obtain ⟨hn, hrest⟩ := splitOn_cons_inv e
        refine ⟨by simp [hn, Ne.symm hx], ?_⟩
        rcases hrest with ⟨rfl, rfl⟩ | ⟨rest, rfl, hr⟩
        · exact Or.inl ⟨rfl, rfl⟩
        · exact Or.inr ⟨rest, by simp, hr⟩

/-! ### addresses -/

theorem isDigit_of_mem_natRepr {k : Nat} {c : Char} (h : c ∈ natRepr k) : c.isDigit = true :=
  Nat.isDigit_of_mem_toDigits (by omega) (by omega) h

theorem dot_not_mem_natRepr (k : Nat) : '.' ∉ natRepr k := fun h => by
  have := isDigit_of_mem_natRepr h
  simp [Char.isDigit] at this

theorem slash_not_mem_natRepr (k : Nat) : '/' ∉ natRepr k := fun h => by
  have := isDigit_of_mem_natRepr h
  simp [Char.isDigit] at this

theorem parseAddr_printAddr (n : Nat) (h : n < 4294967296) : parseAddr (printAddr n) = some n := by
  unfold parseAddr printAddr
  simp only [List.append_assoc, List.cons_append, List.nil_append]
  rw [splitOn_append_sep _ (dot_not_mem_natRepr _), splitOn_append_sep _ (dot_not_mem_natRepr _),
    splitOn_append_sep _ (dot_not_mem_natRepr _), splitOn_of_not_mem (dot_not_mem_natRepr _)]
  simp only
  rw [parseOctet_natRepr _ (Nat.mod_lt _ (by omega)), parseOctet_natRepr _ (Nat.mod_lt _ (by omega)),
    parseOctet_natRepr _ (Nat.mod_lt _ (by omega)), parseOctet_natRepr _ (Nat.mod_lt _ (by omega))]
  simp only [Option.some.injEq]
  omega

theorem printAddr_of_parseAddr (s : Str) (n : Nat) (h : parseAddr s = some n) :
    printAddr n = s ∧ n < 4294967296 := by
  unfold parseAddr at h
  split at h
  · next a b c d hs =>
    split at h
    · next w x y z hw hx hy hz =>
      cases h
      have bw := (parseOctet_shape hw).2.2.2
      have bx := (parseOctet_shape hx).2.2.2
      have By := (parseOctet_shape hy).2.2.2
      have bz := (parseOctet_shape hz).2.2.2
      refine ⟨?_, by omega⟩
      obtain ⟨_, h1⟩ := splitOn_cons_inv hs
      rcases h1 with ⟨h1, _⟩ | ⟨r1, rfl, hs1⟩
      · cases h1
      obtain ⟨_, h2⟩ := splitOn_cons_inv hs1
      rcases h2 with ⟨h2, _⟩ | ⟨r2, rfl, hs2⟩
      · cases h2
      obtain ⟨_, h3⟩ := splitOn_cons_inv hs2
      rcases h3 with ⟨h3, _⟩ | ⟨r3, rfl, hs3⟩
      · cases h3
      obtain ⟨_, h4⟩ := splitOn_cons_inv hs3
      rcases h4 with ⟨_, rfl⟩ | ⟨r4, rfl, hs4⟩
      · unfold printAddr
        have e1 : (((w * 256 + x) * 256 + y) * 256 + z) / 16777216 % 256 = w := by omega
        have e2 : (((w * 256 + x) * 256 + y) * 256 + z) / 65536 % 256 = x := by omega
        have e3 : (((w * 256 + x) * 256 + y) * 256 + z) / 256 % 256 = y := by omega
        have e4 : (((w * 256 + x) * 256 + y) * 256 + z) % 256 = z := by omega
        rw [e1, e2, e3, e4, natRepr_of_parseOctet _ _ hw, natRepr_of_parseOctet _ _ hx,
          natRepr_of_parseOctet _ _ hy, natRepr_of_parseOctet _ _ hz]
        simp
      · exact absurd hs4 (splitOn_ne_nil _ _)
    · cases h
  · cases h

/-! ### networks -/

theorem slash_not_mem_printAddr (n : Nat) : '/' ∉ printAddr n := by
  unfold printAddr
  simp [slash_not_mem_natRepr]

theorem parsePrefix_natRepr (p : Nat) (hp : p ≤ 32) : parsePrefix (natRepr p) = some p := by
  have hd : (natRepr p).all Char.isDigit = true :=
    List.all_eq_true.2 fun c hc => isDigit_of_mem_natRepr hc
  have hne : (natRepr p).isEmpty = false := by
    simp [natRepr, Nat.toDigits_ne_nil]
  unfold parsePrefix
  simp only [hd, hne]
  simp [natRepr, hp]

theorem parseNet_printNet (n p : Nat) (hn : n < 4294967296) (hp : p ≤ 32)
    (hb : n % 2 ^ (32 - p) = 0) : parseNet (printNet n p) = some (n, p) := by
  unfold parseNet printNet
  simp only [List.append_assoc, List.cons_append, List.nil_append]
  rw [splitOn_append_sep _ (slash_not_mem_printAddr n), splitOn_of_not_mem (slash_not_mem_natRepr p)]
  simp only
  rw [parseAddr_printAddr n hn, parsePrefix_natRepr p hp]
  simp [hb]

end Cinco.Net
