import Cinco.Field.Validate
/-
  A specification of the built-in `list` operations the property names, on `List Val`
  (negative indices, `insert` clamping, slice and extended-slice assignment, `pop` / `remove` errors),
  validated three-way by the harness: real list, real ListProxy, this model.
-/
namespace Cinco.PyList
open Cinco

inductive LErr where
  | index        -- IndexError
  | value        -- ValueError (remove: not in list; extended slice size mismatch)
  | type         -- TypeError
  deriving DecidableEq, Repr

/-- an index as Python resolves it for item access: negative counts from the end; `none` = out of range -/
def resolveIdx (len : Nat) (i : Int) : Option Nat :=
  let j := if i < 0 then i + len else i
  if 0 ≤ j ∧ j < len then some j.toNat else none

/-- `list.insert` position: negative counts from the end, then clamped into `[0, len]` -/
def insertPos (len : Nat) (i : Int) : Nat :=
  let j := if i < 0 then i + len else i
  if j < 0 then 0 else if j > len then len else j.toNat

def insertAt (xs : List Val) (pos : Nat) (v : Val) : List Val := xs.take pos ++ v :: xs.drop pos

def setAt (xs : List Val) (pos : Nat) (v : Val) : List Val := xs.take pos ++ v :: xs.drop (pos + 1)

def removeAt (xs : List Val) (pos : Nat) : List Val := xs.take pos ++ xs.drop (pos + 1)

/-- `slice(start, stop, step).indices(len)` for step > 0 restricted to what slice assignment needs: the clamped bounds -/
def clampBound (len : Nat) (b : Option Int) (dflt : Nat) : Nat :=
  match b with
  | none => dflt
  | some i =>
    let j := if i < 0 then i + len else i
    if j < 0 then 0 else if j > len then len else j.toNat

/-- `xs[start:stop] = vals` (step 1 or None): the slice is replaced by the values, whatever their number -/
def setSlice (xs : List Val) (start stop : Option Int) (vals : List Val) : List Val :=
  let a := clampBound xs.length start 0
  let b := clampBound xs.length stop xs.length
  let b' := if b < a then a else b
  xs.take a ++ vals ++ xs.drop b'

/-- the positions `range(a, b, step)` for step ≥ 2 selects -/
def stepIndices (a b step : Nat) : List Nat :=
  (List.range ((b - a + step - 1) / step)).map (fun n => a + n * step)

/-- `xs[start:stop:step] = vals` for step ≥ 2: the number of values must equal the number of selected positions -/
def extIndices (xs : List Val) (start stop : Option Int) (step : Nat) : List Nat :=
  let a := clampBound xs.length start 0
  let b := clampBound xs.length stop xs.length
  if b ≤ a then [] else stepIndices a b step

def setExtSlice (xs : List Val) (start stop : Option Int) (step : Nat) (vals : List Val) : Except LErr (List Val) :=
  if (extIndices xs start stop step).length ≠ vals.length then .error .value
  else .ok (((extIndices xs start stop step).zip vals).foldl (fun acc (p : Nat × Val) => setAt acc p.1 p.2) xs)

/-- Python's `==` between two items of a typed list as far as it differs from structural equality: the two float zeros are equal -/
def pyEq (a b : Val) : Bool :=
  match a, b with
  | .flt x, .flt y => x == y || ((x == .negzero || x == .dy 0 0) && (y == .negzero || y == .dy 0 0))
  | _, _ => a == b

def indexOf (xs : List Val) (v : Val) : Option Nat := xs.findIdx? (fun x => pyEq x v)

end Cinco.PyList
