import Cinco.Field.Validate
/-
  `DictProxy` (cincoconfig/fields/dict_field.py:25-146) in code order over a key field and a value field, next to
  the same operations on a built-in dict (insertion-ordered association list).
-/
namespace Cinco.Proxy
open Cinco Cinco.Field

def dictDel (k : Val) : List (Val × Val) → List (Val × Val)
  | [] => []
  | (k', v) :: rest => if k' == k then rest else (k', v) :: dictDel k rest

def dictLookup (k : Val) : List (Val × Val) → Option Val
  | [] => none
  | (k', v) :: rest => if k' == k then some v else dictLookup k rest

inductive DOp where
  | set (k v : Val)
  | update (pairs : List (Val × Val)) (compatibleProxy : Bool) (kw : List (Val × Val))   -- update(iterable, **kw)
  | setdefault (k : Val) (v : Option Val)
  | ior (pairs : List (Val × Val))
  | pop (k : Val) (dflt : Option Val)
  | popitem
  | del (k : Val)
  | clear

inductive DOut where
  | none
  | value (v : Val)
  | keyError
  | rejected (key : Val)         -- ValidationError naming the entry
  deriving DecidableEq, Repr

/-- `self._validate(key, value)` -/
def validateEntry (E : Env) (kf vf : Option FieldSpec) (k v : Val) : Except Val (Val × Val) :=
  match validateOpt E kf k with
  | .error _ => .error k
  | .ok k' =>
    match validateOpt E vf v with
    | .error _ => .error k
    | .ok v' => .ok (k', v')

def validateEntries (E : Env) (kf vf : Option FieldSpec) : List (Val × Val) → Except Val (List (Val × Val))
  | [] => .ok []
  | (k, v) :: rest =>
    match validateEntry E kf vf k v with
    | .error e => .error e
    | .ok kv =>
      match validateEntries E kf vf rest with
      | .error e => .error e
      | .ok r => .ok (kv :: r)

def setAll (d : List (Val × Val)) (pairs : List (Val × Val)) : List (Val × Val) :=
  pairs.foldl (fun acc (kv : Val × Val) => dictSet kv.1 kv.2 acc) d

/-- `for key, value in kwargs.items(): self.__setitem__(key, value)`: sequential, stops at the first rejection -/
def setSeq (E : Env) (kf vf : Option FieldSpec) : List (Val × Val) → List (Val × Val) → List (Val × Val) × DOut
  | d, [] => (d, .none)
  | d, (k, v) :: rest =>
    match validateEntry E kf vf k v with
    | .error e => (d, .rejected e)
    | .ok (k', v') => setSeq E kf vf (dictSet k' v' d) rest

/-- the entry held under the key's normal form, when the key is acceptable -/
def presentUnder (E : Env) (kf : Option FieldSpec) (d : List (Val × Val)) (k : Val) : Option Val :=
  match validateOpt E kf k with
  | .ok k0 => dictLookup k0 d
  | .error _ => none

theorem presentUnder_of_ok {E : Env} {kf vf : Option FieldSpec} {k x k' v' : Val} (d : List (Val × Val))
    (h : validateEntry E kf vf k x = .ok (k', v')) : presentUnder E kf d k = dictLookup k' d := by
  unfold validateEntry at h
  unfold presentUnder
  cases hk : validateOpt E kf k with
  | error e => simp [hk] at h
  | ok k0 =>
    simp only [hk] at h ⊢
    cases hv : validateOpt E vf x with
    | error e => simp [hv] at h
    | ok v0 =>
      simp only [hv, Except.ok.injEq, Prod.mk.injEq] at h
      rw [h.1]

def dstep (E : Env) (kf vf : Option FieldSpec) (d : List (Val × Val)) : DOp → List (Val × Val) × DOut
  | .set k v =>
    (match validateEntry E kf vf k v with
     | .ok (k', v') => (dictSet k' v' d, .none)
     | .error e => (d, .rejected e))
  | .update pairs compat kw =>
    -- the iterable is validated as a whole (a list comprehension) before `dict.update`; keywords go one by one afterwards
    let afterIter : Except Val (List (Val × Val)) :=
      if pairs.isEmpty then .ok d
      else if compat then .ok (setAll d pairs)
      else (validateEntries E kf vf pairs).map (setAll d)
    (match afterIter with
     | .error e => (d, .rejected e)
     | .ok d1 => setSeq E kf vf d1 kw)
  | .setdefault k v =>
    -- an entry that is present under the normalised key is returned before the default is looked at (like dict.setdefault; F55)
    (match presentUnder E kf d k with
     | some old => (d, .value old)
     | none =>
       (match validateEntry E kf vf k (v.getD .none) with
        | .error e => (d, .rejected e)
        | .ok (k', v') =>
          (match dictLookup k' d with
           | some old => (d, .value old)
           | none => (dictSet k' v' d, .value v'))))
  | .ior pairs =>
    if pairs.isEmpty then (d, .none) else
    (match validateEntries E kf vf pairs with
     | .error e => (d, .rejected e)
     | .ok ps => (setAll d ps, .none))
  | .pop k dflt =>
    (match dictLookup k d with
     | some v => (dictDel k d, .value v)
     | none => (match dflt with | some x => (d, .value x) | none => (d, .keyError)))
  | .popitem =>
    (match d.getLast? with
     | some (k, v) => (d.dropLast, .value (.tuple [k, v]))
     | none => (d, .keyError))
  | .del k => (match dictLookup k d with | some _ => (dictDel k d, .none) | none => (d, .keyError))
  | .clear => ([], .none)

/-- the same operation on a built-in dict handed normalised keys and values -/
def bdstep (d : List (Val × Val)) : DOp → List (Val × Val) × DOut
  | .set k v => (dictSet k v d, .none)
  | .update pairs _ kw => (setAll (setAll d pairs) kw, .none)
  | .setdefault k v =>
    (match dictLookup k d with
     | some old => (d, .value old)
     | none => (dictSet k (v.getD .none) d, .value (v.getD .none)))
  | .ior pairs => (setAll d pairs, .none)
  | .pop k dflt =>
    (match dictLookup k d with
     | some v => (dictDel k d, .value v)
     | none => (match dflt with | some x => (d, .value x) | none => (d, .keyError)))
  | .popitem =>
    (match d.getLast? with
     | some (k, v) => (d.dropLast, .value (.tuple [k, v]))
     | none => (d, .keyError))
  | .del k => (match dictLookup k d with | some _ => (dictDel k d, .none) | none => (d, .keyError))
  | .clear => ([], .none)

def normDOp (E : Env) (kf vf : Option FieldSpec) : DOp → Option DOp
  | .set k v => (validateEntry E kf vf k v).toOption.map (fun kv => .set kv.1 kv.2)
  | .update pairs compat kw =>
    match (if compat then .ok pairs else validateEntries E kf vf pairs), validateEntries E kf vf kw with
    | .ok ps, .ok ks => some (.update ps compat ks)
    | _, _ => none
  | .setdefault k v => (validateEntry E kf vf k (v.getD .none)).toOption.map (fun kv => .setdefault kv.1 (some kv.2))
  | .ior pairs => (validateEntries E kf vf pairs).toOption.map .ior
  | op => some op

end Cinco.Proxy
