import Cinco.Proxy.PyList
/-
  `ListProxy` (cincoconfig/fields/list_field.py:25-128) in code order, over an item field: every inserting
  entry point validates before it delegates to `list`; `copy` / `+` build a new proxy; everything else is
  inherited from `list` unchanged.
-/
namespace Cinco.Proxy
open Cinco Cinco.Field Cinco.PyList

/-- the kinds of iterable the proxies distinguish -/
inductive Iter where
  | plain (xs : List Val)        -- list, tuple, iterator, generator, set … of candidate items
  | sameProxy (xs : List Val)    -- a ListProxy of the same item field (fast path: items are taken as they are)

inductive LOp where
  | append (v : Val)
  | insert (i : Int) (v : Val)
  | extend (it : Iter)
  | iadd (it : Iter)
  | setIdx (i : Int) (v : Val)
  | setSlice (start stop : Option Int) (step : Option Nat) (it : Iter)     -- step none / 1: plain slice; ≥ 2: extended
  | pop (i : Option Int)
  | remove (v : Val)
  | delIdx (i : Int)
  | reverse
  | clear
  | imul (k : Int)

inductive LOut where
  | none                        -- returned None / self
  | value (v : Val)             -- pop
  | err (e : LErr)
  | rejected (e : Field.Err)    -- the item field rejected a value
  deriving DecidableEq, Repr

/-- validate the items of an iterable one at a time, appending as the generator is consumed: on a rejection the items
    accepted so far have already been appended (`list.extend` over a generator) -/
def extendLazy (E : Env) (f : FieldSpec) : List Val → List Val → List Val × Option Field.Err
  | acc, [] => (acc, none)
  | acc, x :: rest =>
    match validate E f x with
    | .ok v => extendLazy E f (acc ++ [v]) rest
    | .error e => (acc, some e)

def itemsOf : Iter → List Val
  | .plain xs => xs
  | .sameProxy xs => xs

/-- one operation on a typed list holding `xs` -/
def lstep (E : Env) (f : FieldSpec) (xs : List Val) : LOp → List Val × LOut
  | .append v =>
    (match validate E f v with
     | .ok v' => (xs ++ [v'], .none)
     | .error e => (xs, .rejected e))
  | .insert i v =>
    (match validate E f v with
     | .ok v' => (insertAt xs (insertPos xs.length i) v', .none)
     | .error e => (xs, .rejected e))
  | .extend (.sameProxy ys) => (xs ++ ys, .none)
  | .extend (.plain ys) =>
    (match extendLazy E f xs ys with
     | (zs, none) => (zs, .none)
     | (zs, some e) => (zs, .rejected e))
  | .iadd (.sameProxy ys) => (xs ++ ys, .none)
  | .iadd (.plain ys) =>
    (match extendLazy E f xs ys with
     | (zs, none) => (zs, .none)
     | (zs, some e) => (zs, .rejected e))
  | .setIdx i v =>
    -- an index that names no item is refused before the new item is looked at (F76)
    (match resolveIdx xs.length i with
     | none => (xs, .err .index)
     | some p =>
       (match validate E f v with
        | .error e => (xs, .rejected e)
        | .ok v' => (setAt xs p v', .none)))
  | .setSlice start stop step it =>
    -- every item is validated first (a list comprehension), then the slice is assigned
    (match mapR (validate E f) (itemsOf it) with
     | .error e => (xs, .rejected e)
     | .ok vs =>
       (match step with
        | none => (setSlice xs start stop vs, .none)
        | some st =>
          if st ≤ 1 then (setSlice xs start stop vs, .none) else
          (match setExtSlice xs start stop st vs with
           | .ok ys => (ys, .none)
           | .error e => (xs, .err e))))
  | .pop i =>
    (match resolveIdx xs.length (i.getD (-1)) with
     | some p => (removeAt xs p, match xs[p]? with | some v => .value v | none => .err .index)
     | none => (xs, .err .index))
  | .remove v =>
    (match indexOf xs v with
     | some p => (removeAt xs p, .none)
     | none => (xs, .err .value))
  | .delIdx i =>
    (match resolveIdx xs.length i with
     | some p => (removeAt xs p, .none)
     | none => (xs, .err .index))
  | .reverse => (xs.reverse, .none)
  | .clear => ([], .none)
  | .imul k => ((List.replicate k.toNat xs).flatten, .none)

/-- the same operation on a built-in list that is handed already-normalised items -/
def bstep (xs : List Val) : LOp → List Val × LOut
  | .append v => (xs ++ [v], .none)
  | .insert i v => (insertAt xs (insertPos xs.length i) v, .none)
  | .extend it => (xs ++ itemsOf it, .none)
  | .iadd it => (xs ++ itemsOf it, .none)
  | .setIdx i v =>
    (match resolveIdx xs.length i with
     | some p => (setAt xs p v, .none)
     | none => (xs, .err .index))
  | .setSlice start stop step it =>
    (match step with
     | none => (setSlice xs start stop (itemsOf it), .none)
     | some st =>
       if st ≤ 1 then (setSlice xs start stop (itemsOf it), .none) else
       (match setExtSlice xs start stop st (itemsOf it) with
        | .ok ys => (ys, .none)
        | .error e => (xs, .err e)))
  | .pop i =>
    (match resolveIdx xs.length (i.getD (-1)) with
     | some p => (removeAt xs p, match xs[p]? with | some v => .value v | none => .err .index)
     | none => (xs, .err .index))
  | .remove v =>
    (match indexOf xs v with
     | some p => (removeAt xs p, .none)
     | none => (xs, .err .value))
  | .delIdx i =>
    (match resolveIdx xs.length i with
     | some p => (removeAt xs p, .none)
     | none => (xs, .err .index))
  | .reverse => (xs.reverse, .none)
  | .clear => ([], .none)
  | .imul k => ((List.replicate k.toNat xs).flatten, .none)

/-- the operation with its arguments replaced by their normal forms (what a caller of the built-in would pass) -/
def normOp (E : Env) (f : FieldSpec) : LOp → Option LOp
  | .append v => (validate E f v).toOption.map .append
  | .insert i v => (validate E f v).toOption.map (.insert i)
  | .extend (.plain ys) => (mapR (validate E f) ys).toOption.map (fun vs => .extend (.plain vs))
  | .extend (.sameProxy ys) => some (.extend (.sameProxy ys))
  | .iadd (.plain ys) => (mapR (validate E f) ys).toOption.map (fun vs => .iadd (.plain vs))
  | .iadd (.sameProxy ys) => some (.iadd (.sameProxy ys))
  | .setIdx i v => (validate E f v).toOption.map (.setIdx i)
  | .setSlice a b st it => (mapR (validate E f) (itemsOf it)).toOption.map (fun vs => .setSlice a b st (.plain vs))
  | op => some op

end Cinco.Proxy
