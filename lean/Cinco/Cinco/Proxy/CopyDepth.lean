/-
  How deep a copy of a typed list of lists is (`ListProxy.copy`, `l + []`, `l * 1`; cincoconfig/fields/list_field.py).

  C17 says a typed list behaves like the built-in list; `list.copy()` copies ONE level: the new outer list holds the very inner
  list objects the original holds.  The model keeps list objects by identity — an outer object holds references to inner objects,
  an inner object holds numbers — and the operations an application performs on `ListField(ListField(IntField()))`:

    copy a          `x = a.copy()`              a new outer object with the SAME references
    appendNew a     `a.append([])`              a new (empty) inner object, referenced from the outer object `a`
    appendAtom b n  `b.append(n)`               a number appended to the inner object `b`
    dropLast a      `del a[-1]`                 the last reference of the outer object `a` removed (the inner object lives on)

  `view` is what a reader sees through an outer object: the contents of every inner object it references, in order.
  `deepCopy` is what the seeded change C17-r8-2 did instead (new inner objects): it is here for the witness that tells the two apart.
-/
namespace Cinco.CopyDepth

inductive Cell where
  | outer (refs : List Nat)
  | inner (items : List Nat)
  deriving DecidableEq, Repr, Inhabited

structure H where
  cells : List Cell := []
  deriving Repr, Inhabited

def H.get (h : H) (a : Nat) : Option Cell := h.cells[a]?
def H.alloc (h : H) (c : Cell) : Nat × H := (h.cells.length, ⟨h.cells ++ [c]⟩)
def H.write (h : H) (a : Nat) (c : Cell) : H := ⟨h.cells.set a c⟩

inductive Op where
  | copy (a : Nat)
  | appendNew (a : Nat)
  | appendAtom (b : Nat) (n : Nat)
  | dropLast (a : Nat)
  deriving Repr

/-- an operation on an object of the wrong kind (or that does not exist) is not something the application can write: no effect -/
def step (h : H) : Op → H
  | .copy a => (match h.get a with
      | some (.outer refs) => (h.alloc (.outer refs)).2
      | _ => h)
  | .appendNew a => (match h.get a with
      | some (.outer refs) =>
        let (b, h1) := h.alloc (.inner [])
        h1.write a (.outer (refs ++ [b]))
      | _ => h)
  | .appendAtom b n => (match h.get b with
      | some (.inner items) => h.write b (.inner (items ++ [n]))
      | _ => h)
  | .dropLast a => (match h.get a with
      | some (.outer refs) => h.write a (.outer refs.dropLast)
      | _ => h)

def run (h : H) (ops : List Op) : H := ops.foldl step h

/-- the contents of an inner object ([] for anything else) -/
def itemsOf (h : H) (b : Nat) : List Nat :=
  match h.get b with
  | some (.inner items) => items
  | _ => []

/-- what a reader sees through the outer object `a` -/
def view (h : H) (a : Nat) : List (List Nat) :=
  match h.get a with
  | some (.outer refs) => refs.map (itemsOf h)
  | _ => []

def refsOf (h : H) (a : Nat) : List Nat :=
  match h.get a with
  | some (.outer refs) => refs
  | _ => []

/-- a fresh configuration: the field holds one empty outer list, object 0 -/
def init : H := ⟨[.outer []]⟩

/-- the other reading of "copy" (new inner objects as well): what C17-r8-2 implemented -/
def deepCopy (h : H) (a : Nat) : H :=
  match h.get a with
  | some (.outer refs) =>
    let (h1, newRefs) := refs.foldl (fun (acc : H × List Nat) b =>
      let (nb, h') := acc.1.alloc (.inner (itemsOf acc.1 b))
      (h', acc.2 ++ [nb])) (h, [])
    (h1.alloc (.outer newRefs)).2
  | _ => h

end Cinco.CopyDepth
