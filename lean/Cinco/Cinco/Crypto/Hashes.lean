/-
  Cinco.Hash — executable reference implementations of MD5, SHA-1, SHA-224,
  SHA-256, SHA-384 and SHA-512 (RFC 1321, FIPS 180-4).

  Everything here is total: no `partial`, `unsafe`, `implemented_by`, `sorry`
  or `native_decide`.  The only imports are Lean core (`Init`), which is
  implicit.  Loops are bounded `for … in [a:b]` loops in `Id`.

  Round constants and initial values were computed from their defining
  formulas (sines / square and cube roots of primes) with Python integer
  arithmetic; test vectors at the end were computed with Python `hashlib`
  and are checked at build time with `#guard`.
-/

namespace Cinco.Hash

/-! ## Bit helpers -/

@[inline] def rotl32 (x : UInt32) (n : UInt32) : UInt32 := (x <<< n) ||| (x >>> (32 - n))
@[inline] def rotr32 (x : UInt32) (n : UInt32) : UInt32 := (x >>> n) ||| (x <<< (32 - n))
@[inline] def rotr64 (x : UInt64) (n : UInt64) : UInt64 := (x >>> n) ||| (x <<< (64 - n))

/-- Big-endian 32-bit load at byte offset `i`. -/
@[inline] def be32 (d : ByteArray) (i : Nat) : UInt32 :=
  ((d.get! i).toUInt32 <<< 24) ||| ((d.get! (i+1)).toUInt32 <<< 16) |||
  ((d.get! (i+2)).toUInt32 <<< 8) ||| (d.get! (i+3)).toUInt32

/-- Little-endian 32-bit load at byte offset `i`. -/
@[inline] def le32 (d : ByteArray) (i : Nat) : UInt32 :=
  (d.get! i).toUInt32 ||| ((d.get! (i+1)).toUInt32 <<< 8) |||
  ((d.get! (i+2)).toUInt32 <<< 16) ||| ((d.get! (i+3)).toUInt32 <<< 24)

/-- Big-endian 64-bit load at byte offset `i`. -/
@[inline] def be64 (d : ByteArray) (i : Nat) : UInt64 :=
  ((be32 d i).toUInt64 <<< 32) ||| (be32 d (i+4)).toUInt64

def bytesBE32 (w : UInt32) : List UInt8 :=
  [(w >>> 24).toUInt8, (w >>> 16).toUInt8, (w >>> 8).toUInt8, w.toUInt8]

def bytesLE32 (w : UInt32) : List UInt8 :=
  [w.toUInt8, (w >>> 8).toUInt8, (w >>> 16).toUInt8, (w >>> 24).toUInt8]

def bytesBE64 (w : UInt64) : List UInt8 :=
  bytesBE32 (w >>> 32).toUInt32 ++ bytesBE32 w.toUInt32

/-! ## Merkle–Damgård padding -/

/-- The low `n` bytes of `v`, most significant byte first. -/
def natBytesBE (n v : Nat) : List UInt8 :=
  (List.range n).reverse.map fun i => UInt8.ofNat ((v >>> (8 * i)) % 256)

/-- `msg ‖ 0x80 ‖ 0…0 ‖ bitlen`, padded to a multiple of `blockSize` bytes.
    The bit length is a `Nat` (so no overflow for any realistic input) reduced
    modulo `2^(8*lenBytes)` and written in `lenBytes` bytes, big-endian if `be`
    else little-endian. -/
def pad (blockSize lenBytes : Nat) (be : Bool) (msg : List UInt8) : ByteArray :=
  let len := msg.length
  let z := (blockSize - (len + 1 + lenBytes) % blockSize) % blockSize
  let lb := natBytesBE lenBytes (len * 8)
  (msg ++ (0x80 :: (List.replicate z 0 ++ (if be then lb else lb.reverse)))).toByteArray

/-! ## MD5 (RFC 1321) -/

def md5S : Array UInt32 := #[
  7, 12, 17, 22, 7, 12, 17, 22, 7, 12, 17, 22, 7, 12, 17, 22,
  5, 9, 14, 20, 5, 9, 14, 20, 5, 9, 14, 20, 5, 9, 14, 20,
  4, 11, 16, 23, 4, 11, 16, 23, 4, 11, 16, 23, 4, 11, 16, 23,
  6, 10, 15, 21, 6, 10, 15, 21, 6, 10, 15, 21, 6, 10, 15, 21]

/-- `md5K[i] = ⌊2^32 · |sin (i+1)|⌋`. -/
def md5K : Array UInt32 := #[
  0xd76aa478, 0xe8c7b756, 0x242070db, 0xc1bdceee,
  0xf57c0faf, 0x4787c62a, 0xa8304613, 0xfd469501,
  0x698098d8, 0x8b44f7af, 0xffff5bb1, 0x895cd7be,
  0x6b901122, 0xfd987193, 0xa679438e, 0x49b40821,
  0xf61e2562, 0xc040b340, 0x265e5a51, 0xe9b6c7aa,
  0xd62f105d, 0x02441453, 0xd8a1e681, 0xe7d3fbc8,
  0x21e1cde6, 0xc33707d6, 0xf4d50d87, 0x455a14ed,
  0xa9e3e905, 0xfcefa3f8, 0x676f02d9, 0x8d2a4c8a,
  0xfffa3942, 0x8771f681, 0x6d9d6122, 0xfde5380c,
  0xa4beea44, 0x4bdecfa9, 0xf6bb4b60, 0xbebfbc70,
  0x289b7ec6, 0xeaa127fa, 0xd4ef3085, 0x04881d05,
  0xd9d4d039, 0xe6db99e5, 0x1fa27cf8, 0xc4ac5665,
  0xf4292244, 0x432aff97, 0xab9423a7, 0xfc93a039,
  0x655b59c3, 0x8f0ccc92, 0xffeff47d, 0x85845dd1,
  0x6fa87e4f, 0xfe2ce6e0, 0xa3014314, 0x4e0811a1,
  0xf7537e82, 0xbd3af235, 0x2ad7d2bb, 0xeb86d391]

def md5IV : Array UInt32 := #[
  0x67452301, 0xefcdab89, 0x98badcfe, 0x10325476]

def md5Block (st : Array UInt32) (d : ByteArray) (off : Nat) : Array UInt32 := Id.run do
  let mut w : Array UInt32 := Array.mkEmpty 16
  for i in [0:16] do
    w := w.push (le32 d (off + 4 * i))
  let mut a := st[0]!
  let mut b := st[1]!
  let mut c := st[2]!
  let mut e := st[3]!
  for i in [0:64] do
    let f : UInt32 :=
      if i < 16 then (b &&& c) ||| (~~~b &&& e)
      else if i < 32 then (e &&& b) ||| (~~~e &&& c)
      else if i < 48 then b ^^^ c ^^^ e
      else c ^^^ (b ||| ~~~e)
    let g : Nat :=
      if i < 16 then i
      else if i < 32 then (5 * i + 1) % 16
      else if i < 48 then (3 * i + 5) % 16
      else (7 * i) % 16
    let t := f + a + md5K[i]! + w[g]!
    a := e
    e := c
    c := b
    b := b + rotl32 t md5S[i]!
  return #[st[0]! + a, st[1]! + b, st[2]! + c, st[3]! + e]

def md5 (msg : List UInt8) : List UInt8 := Id.run do
  let d := pad 64 8 false msg
  let mut st := md5IV
  for k in [0:d.size / 64] do
    st := md5Block st d (64 * k)
  return st.toList.flatMap bytesLE32

/-! ## SHA-1 (FIPS 180-4 §6.1) -/

def sha1IV : Array UInt32 := #[
  0x67452301, 0xefcdab89, 0x98badcfe, 0x10325476, 0xc3d2e1f0]

/-- `⌊2^30 · √n⌋` for `n = 2, 3, 5, 10`. -/
def sha1K : Array UInt32 := #[
  0x5a827999, 0x6ed9eba1, 0x8f1bbcdc, 0xca62c1d6]

def sha1Block (st : Array UInt32) (d : ByteArray) (off : Nat) : Array UInt32 := Id.run do
  let mut w : Array UInt32 := Array.mkEmpty 80
  for i in [0:16] do
    w := w.push (be32 d (off + 4 * i))
  for i in [16:80] do
    w := w.push (rotl32 (w[i-3]! ^^^ w[i-8]! ^^^ w[i-14]! ^^^ w[i-16]!) 1)
  let mut a := st[0]!
  let mut b := st[1]!
  let mut c := st[2]!
  let mut e := st[3]!
  let mut g := st[4]!
  for i in [0:80] do
    let f : UInt32 :=
      if i < 20 then (b &&& c) ||| (~~~b &&& e)
      else if i < 40 then b ^^^ c ^^^ e
      else if i < 60 then (b &&& c) ||| (b &&& e) ||| (c &&& e)
      else b ^^^ c ^^^ e
    let t := rotl32 a 5 + f + g + sha1K[i / 20]! + w[i]!
    g := e
    e := c
    c := rotl32 b 30
    b := a
    a := t
  return #[st[0]! + a, st[1]! + b, st[2]! + c, st[3]! + e, st[4]! + g]

def sha1 (msg : List UInt8) : List UInt8 := Id.run do
  let d := pad 64 8 true msg
  let mut st := sha1IV
  for k in [0:d.size / 64] do
    st := sha1Block st d (64 * k)
  return st.toList.flatMap bytesBE32

/-! ## SHA-224 / SHA-256 (FIPS 180-4 §6.2, §6.3) -/

def sha224IV : Array UInt32 := #[
  0xc1059ed8, 0x367cd507, 0x3070dd17, 0xf70e5939,
  0xffc00b31, 0x68581511, 0x64f98fa7, 0xbefa4fa4]

def sha256IV : Array UInt32 := #[
  0x6a09e667, 0xbb67ae85, 0x3c6ef372, 0xa54ff53a,
  0x510e527f, 0x9b05688c, 0x1f83d9ab, 0x5be0cd19]

/-- First 32 bits of the fractional parts of the cube roots of the first 64 primes. -/
def sha256K : Array UInt32 := #[
  0x428a2f98, 0x71374491, 0xb5c0fbcf, 0xe9b5dba5,
  0x3956c25b, 0x59f111f1, 0x923f82a4, 0xab1c5ed5,
  0xd807aa98, 0x12835b01, 0x243185be, 0x550c7dc3,
  0x72be5d74, 0x80deb1fe, 0x9bdc06a7, 0xc19bf174,
  0xe49b69c1, 0xefbe4786, 0x0fc19dc6, 0x240ca1cc,
  0x2de92c6f, 0x4a7484aa, 0x5cb0a9dc, 0x76f988da,
  0x983e5152, 0xa831c66d, 0xb00327c8, 0xbf597fc7,
  0xc6e00bf3, 0xd5a79147, 0x06ca6351, 0x14292967,
  0x27b70a85, 0x2e1b2138, 0x4d2c6dfc, 0x53380d13,
  0x650a7354, 0x766a0abb, 0x81c2c92e, 0x92722c85,
  0xa2bfe8a1, 0xa81a664b, 0xc24b8b70, 0xc76c51a3,
  0xd192e819, 0xd6990624, 0xf40e3585, 0x106aa070,
  0x19a4c116, 0x1e376c08, 0x2748774c, 0x34b0bcb5,
  0x391c0cb3, 0x4ed8aa4a, 0x5b9cca4f, 0x682e6ff3,
  0x748f82ee, 0x78a5636f, 0x84c87814, 0x8cc70208,
  0x90befffa, 0xa4506ceb, 0xbef9a3f7, 0xc67178f2]

def sha256Block (st : Array UInt32) (d : ByteArray) (off : Nat) : Array UInt32 := Id.run do
  let mut w : Array UInt32 := Array.mkEmpty 64
  for i in [0:16] do
    w := w.push (be32 d (off + 4 * i))
  for i in [16:64] do
    let x := w[i-15]!
    let y := w[i-2]!
    let s0 := rotr32 x 7 ^^^ rotr32 x 18 ^^^ (x >>> 3)
    let s1 := rotr32 y 17 ^^^ rotr32 y 19 ^^^ (y >>> 10)
    w := w.push (w[i-16]! + s0 + w[i-7]! + s1)
  let mut a := st[0]!
  let mut b := st[1]!
  let mut c := st[2]!
  let mut e := st[3]!
  let mut f := st[4]!
  let mut g := st[5]!
  let mut h := st[6]!
  let mut j := st[7]!
  for i in [0:64] do
    let S1 := rotr32 f 6 ^^^ rotr32 f 11 ^^^ rotr32 f 25
    let ch := (f &&& g) ^^^ (~~~f &&& h)
    let t1 := j + S1 + ch + sha256K[i]! + w[i]!
    let S0 := rotr32 a 2 ^^^ rotr32 a 13 ^^^ rotr32 a 22
    let maj := (a &&& b) ^^^ (a &&& c) ^^^ (b &&& c)
    let t2 := S0 + maj
    j := h
    h := g
    g := f
    f := e + t1
    e := c
    c := b
    b := a
    a := t1 + t2
  return #[st[0]! + a, st[1]! + b, st[2]! + c, st[3]! + e,
           st[4]! + f, st[5]! + g, st[6]! + h, st[7]! + j]

/-- Shared SHA-224/256 driver: full 32-byte final state as bytes. -/
def sha256Core (iv : Array UInt32) (msg : List UInt8) : List UInt8 := Id.run do
  let d := pad 64 8 true msg
  let mut st := iv
  for k in [0:d.size / 64] do
    st := sha256Block st d (64 * k)
  return st.toList.flatMap bytesBE32

def sha256 (msg : List UInt8) : List UInt8 := sha256Core sha256IV msg
def sha224 (msg : List UInt8) : List UInt8 := (sha256Core sha224IV msg).take 28

/-! ## SHA-384 / SHA-512 (FIPS 180-4 §6.4, §6.5) -/

def sha384IV : Array UInt64 := #[
  0xcbbb9d5dc1059ed8, 0x629a292a367cd507,
  0x9159015a3070dd17, 0x152fecd8f70e5939,
  0x67332667ffc00b31, 0x8eb44a8768581511,
  0xdb0c2e0d64f98fa7, 0x47b5481dbefa4fa4]

def sha512IV : Array UInt64 := #[
  0x6a09e667f3bcc908, 0xbb67ae8584caa73b,
  0x3c6ef372fe94f82b, 0xa54ff53a5f1d36f1,
  0x510e527fade682d1, 0x9b05688c2b3e6c1f,
  0x1f83d9abfb41bd6b, 0x5be0cd19137e2179]

/-- First 64 bits of the fractional parts of the cube roots of the first 80 primes. -/
def sha512K : Array UInt64 := #[
  0x428a2f98d728ae22, 0x7137449123ef65cd,
  0xb5c0fbcfec4d3b2f, 0xe9b5dba58189dbbc,
  0x3956c25bf348b538, 0x59f111f1b605d019,
  0x923f82a4af194f9b, 0xab1c5ed5da6d8118,
  0xd807aa98a3030242, 0x12835b0145706fbe,
  0x243185be4ee4b28c, 0x550c7dc3d5ffb4e2,
  0x72be5d74f27b896f, 0x80deb1fe3b1696b1,
  0x9bdc06a725c71235, 0xc19bf174cf692694,
  0xe49b69c19ef14ad2, 0xefbe4786384f25e3,
  0x0fc19dc68b8cd5b5, 0x240ca1cc77ac9c65,
  0x2de92c6f592b0275, 0x4a7484aa6ea6e483,
  0x5cb0a9dcbd41fbd4, 0x76f988da831153b5,
  0x983e5152ee66dfab, 0xa831c66d2db43210,
  0xb00327c898fb213f, 0xbf597fc7beef0ee4,
  0xc6e00bf33da88fc2, 0xd5a79147930aa725,
  0x06ca6351e003826f, 0x142929670a0e6e70,
  0x27b70a8546d22ffc, 0x2e1b21385c26c926,
  0x4d2c6dfc5ac42aed, 0x53380d139d95b3df,
  0x650a73548baf63de, 0x766a0abb3c77b2a8,
  0x81c2c92e47edaee6, 0x92722c851482353b,
  0xa2bfe8a14cf10364, 0xa81a664bbc423001,
  0xc24b8b70d0f89791, 0xc76c51a30654be30,
  0xd192e819d6ef5218, 0xd69906245565a910,
  0xf40e35855771202a, 0x106aa07032bbd1b8,
  0x19a4c116b8d2d0c8, 0x1e376c085141ab53,
  0x2748774cdf8eeb99, 0x34b0bcb5e19b48a8,
  0x391c0cb3c5c95a63, 0x4ed8aa4ae3418acb,
  0x5b9cca4f7763e373, 0x682e6ff3d6b2b8a3,
  0x748f82ee5defb2fc, 0x78a5636f43172f60,
  0x84c87814a1f0ab72, 0x8cc702081a6439ec,
  0x90befffa23631e28, 0xa4506cebde82bde9,
  0xbef9a3f7b2c67915, 0xc67178f2e372532b,
  0xca273eceea26619c, 0xd186b8c721c0c207,
  0xeada7dd6cde0eb1e, 0xf57d4f7fee6ed178,
  0x06f067aa72176fba, 0x0a637dc5a2c898a6,
  0x113f9804bef90dae, 0x1b710b35131c471b,
  0x28db77f523047d84, 0x32caab7b40c72493,
  0x3c9ebe0a15c9bebc, 0x431d67c49c100d4c,
  0x4cc5d4becb3e42b6, 0x597f299cfc657e2a,
  0x5fcb6fab3ad6faec, 0x6c44198c4a475817]

def sha512Block (st : Array UInt64) (d : ByteArray) (off : Nat) : Array UInt64 := Id.run do
  let mut w : Array UInt64 := Array.mkEmpty 80
  for i in [0:16] do
    w := w.push (be64 d (off + 8 * i))
  for i in [16:80] do
    let x := w[i-15]!
    let y := w[i-2]!
    let s0 := rotr64 x 1 ^^^ rotr64 x 8 ^^^ (x >>> 7)
    let s1 := rotr64 y 19 ^^^ rotr64 y 61 ^^^ (y >>> 6)
    w := w.push (w[i-16]! + s0 + w[i-7]! + s1)
  let mut a := st[0]!
  let mut b := st[1]!
  let mut c := st[2]!
  let mut e := st[3]!
  let mut f := st[4]!
  let mut g := st[5]!
  let mut h := st[6]!
  let mut j := st[7]!
  for i in [0:80] do
    let S1 := rotr64 f 14 ^^^ rotr64 f 18 ^^^ rotr64 f 41
    let ch := (f &&& g) ^^^ (~~~f &&& h)
    let t1 := j + S1 + ch + sha512K[i]! + w[i]!
    let S0 := rotr64 a 28 ^^^ rotr64 a 34 ^^^ rotr64 a 39
    let maj := (a &&& b) ^^^ (a &&& c) ^^^ (b &&& c)
    let t2 := S0 + maj
    j := h
    h := g
    g := f
    f := e + t1
    e := c
    c := b
    b := a
    a := t1 + t2
  return #[st[0]! + a, st[1]! + b, st[2]! + c, st[3]! + e,
           st[4]! + f, st[5]! + g, st[6]! + h, st[7]! + j]

/-- Shared SHA-384/512 driver: full 64-byte final state as bytes. -/
def sha512Core (iv : Array UInt64) (msg : List UInt8) : List UInt8 := Id.run do
  let d := pad 128 16 true msg
  let mut st := iv
  for k in [0:d.size / 128] do
    st := sha512Block st d (128 * k)
  return st.toList.flatMap bytesBE64

def sha512 (msg : List UInt8) : List UInt8 := sha512Core sha512IV msg
def sha384 (msg : List UInt8) : List UInt8 := (sha512Core sha384IV msg).take 48

/-! ## Lookup by (hashlib) name -/

def byName : String → Option (List UInt8 → List UInt8)
  | "md5"    => some md5
  | "sha1"   => some sha1
  | "sha224" => some sha224
  | "sha256" => some sha256
  | "sha384" => some sha384
  | "sha512" => some sha512
  | _        => none

/-! ## Hex rendering (lower-case, as `hashlib.hexdigest`) -/

def hexDigit (n : UInt8) : Char :=
  if n < 10 then Char.ofNat (48 + n.toNat) else Char.ofNat (87 + n.toNat)

def toHex (bs : List UInt8) : String :=
  String.ofList (bs.flatMap fun (b : UInt8) => [hexDigit (b >>> 4), hexDigit (b &&& 15)])

/-! ## Build-time validation against Python `hashlib`

Messages:
* `""`, `"abc"`, the 56-byte NIST two-block (for 64-byte-block hashes) message;
* `msg200  = bytes((i*7+3)  % 256 for i in range(200))`;
* `msg1000 = bytes((i*13+5) % 256 for i in range(1000))`;
* `edgeMsg n = bytes((i*31+n) % 256 for i in range(n))` for lengths straddling
  every padding boundary of both block sizes.
-/

section Tests

private def msg56 : List UInt8 :=
  "abcdbcdecdefdefgefghfghighijhijkijkljklmklmnlmnomnopnopq".toUTF8.toList
private def msg200 : List UInt8 := (List.range 200).map fun i => UInt8.ofNat (i * 7 + 3)
private def msg1000 : List UInt8 := (List.range 1000).map fun i => UInt8.ofNat (i * 13 + 5)
private def edgeLens : List Nat := [1, 54, 55, 56, 57, 63, 64, 65, 110, 111, 112, 113, 119, 120, 127, 128, 129, 247, 248, 256]
private def edgeMsg (n : Nat) : List UInt8 := (List.range n).map fun i => UInt8.ofNat (i * 31 + n)

#guard msg56.length == 56 && msg200.length == 200 && msg1000.length == 1000
#guard byName "sha3_256" |>.isNone
#guard (pad 64 8 true msg56).size == 128 && (pad 128 16 true msg56).size == 128
#guard (pad 64 8 true (edgeMsg 55)).size == 64 && (pad 128 16 true (edgeMsg 111)).size == 128
#guard (pad 128 16 true (edgeMsg 112)).size == 256

-- md5
#guard toHex (md5 []) == "d41d8cd98f00b204e9800998ecf8427e"
#guard toHex (md5 "abc".toUTF8.toList) == "900150983cd24fb0d6963f7d28e17f72"
#guard toHex (md5 msg56) == "8215ef0796a20bcaaae116d3876c664a"
#guard toHex (md5 msg200) == "4c79b81ac94bad7a875519ce6b964c66"
#guard toHex (md5 msg1000) == "e4026fc120d885cabf777aa42d458106"
#guard (md5 msg1000).length == 16
#guard edgeLens.map (fun n => toHex (md5 (edgeMsg n))) ==
  ["55a54008ad1ba589aa210d2629c1df41", "c0efbac14fb042764af86d28e47a37ec", "fa1ee565da064b26ecce74a83aa4bf8c", "4816b1cca34a57a3a6e751d958dd9e9b", "81c05033ac5be9dfa2a7abf85753ebd0", "9fe8ad4ec318f2df2d53f22afb08bda7", "171f68812908fe2ccf0b1a3cfd345b03", "61ee6a89fa80e9054ee19f3af13b52bd", "22e17282f5932f3b61c4b1eddd1ec82b", "b289fb9f8417d6a9a3b79c9c7ccf1bc7", "50deb25552c345e4b29ffc58789e3d6b", "559fb9334a01d339bb03c21e7b4b545e", "88093ab624b7b278c38b0c9dedbedfa8", "8faf0c40fe4bd11fa2e4b5c08b76a006", "0819212f69efa6077b0dcb26099e30e4", "7cde02ba23c3f372cdc11ad390fe99c0", "2a9da85e13a72a4e7e5dc4f2456dc1cd", "6a3404c5cc14b8657486c6a8080cff50", "8adb848eb4b0e99a448222e73e951dcb", "f4ce464a960fbf403932c898b64bf7dd"]
#guard (byName "md5").map (fun f => toHex (f msg56)) == some "8215ef0796a20bcaaae116d3876c664a"

-- sha1
#guard toHex (sha1 []) == "da39a3ee5e6b4b0d3255bfef95601890afd80709"
#guard toHex (sha1 "abc".toUTF8.toList) == "a9993e364706816aba3e25717850c26c9cd0d89d"
#guard toHex (sha1 msg56) == "84983e441c3bd26ebaae4aa1f95129e5e54670f1"
#guard toHex (sha1 msg200) == "892b673ca3c696ab13ab8aab3cf3abfbc3aaeb3b"
#guard toHex (sha1 msg1000) == "ffd149adde1f5a54f6867caab24706fe406ff41f"
#guard (sha1 msg1000).length == 20
#guard edgeLens.map (fun n => toHex (sha1 (edgeMsg n))) ==
  ["bf8b4530d8d246dd74ac53a13471bba17941dff7", "47e1dabab1b812962e881b7be62d6835ed149e57", "f4d2f0b019e68d4d8d79a68efdbe8141f5cd9cc8", "ef4b5741de76e7c5067a1030d4d441378c97b877", "8c8533b63c8fdd34dc6aa79316b9b723b7638122", "e15e0e0e50f24ff2e890ed8550c3dc6382dfeb64", "b2f62e382014bec909954fbf86a19cb0c5cfe4bf", "d901d2e0b1c1bcb6693a57d5e033cb9ab4552d6a", "b796c14cb43f0f937102102ebad1423892bc33e0", "cb379f839f18e83cc8b124f6c1d5cd3ee12ec086", "c8cb8fec4a6ffab0ad3fe9d839442e5f08be1612", "cbeaca35ee60c3f3cd8d5f0c255a80e16db8b52a", "8531575cbc0c904ba6f184f7dfe6d29ebb51080e", "e346e2106fe381928ff4aa30ce41347c485b7285", "97e333aa752d44f9b8c374753a414a904799681e", "c131d8e40b6a8b7236d20393a17220bec5981461", "ff67210e1341d745a17842451e316a6abba66cda", "250b7b5669b72247c1c41fdda67e2891f12fa16a", "219e37984b716f79125b13ffa74abbdb0d042877", "0896f2770ef8841926349fc30cae6a18a6d4e243"]
#guard (byName "sha1").map (fun f => toHex (f msg56)) == some "84983e441c3bd26ebaae4aa1f95129e5e54670f1"

-- sha224
#guard toHex (sha224 []) == "d14a028c2a3a2bc9476102bb288234c415a2b01f828ea62ac5b3e42f"
#guard toHex (sha224 "abc".toUTF8.toList) == "23097d223405d8228642a477bda255b32aadbce4bda0b3f7e36c9da7"
#guard toHex (sha224 msg56) == "75388b16512776cc5dba5da1fd890150b0c6455cb4f58b1952522525"
#guard toHex (sha224 msg200) == "67e6d447872d6de5f0a53915ac4e88b60f08895e33f8453500d5bd30"
#guard toHex (sha224 msg1000) == "9fd4e73d529874e7849fb6633a0b32fa61759816e9f6d365728be6bf"
#guard (sha224 msg1000).length == 28
#guard edgeLens.map (fun n => toHex (sha224 (edgeMsg n))) ==
  ["505ac657b400452e962169d8b2e82f568eccec75aa2f8b555aa44e98", "69b248e01e729d50454756e3cb7e79a50fcef5fd6c543a35062ec774", "0d860748207608c5981f065104dade12753d5f435d69f01702d2e4b0", "7c0588a87d182bec8fdcb1b5b36bdcbfba84386b33a4f28417882c9c", "78179bbeba7dba40d9805289311feb24bef33830340e62b1eb03a397", "e0d8d9bee4b04b802df633266c9a4b43baae38d3a15a8aa872cec5f0", "f3290f7e719ad82d498e329805f80b63559c09d3da9356adeed2bfe8", "392ddbc5f3e75f7c2b0d031fe299d39b2461077dc4f3582188958152", "f23f7091c223072c703213a3f633074fff0a894d841fe25c269cab05", "6c6fd3a3d390e5e4184445aa4ddb2532543c92509f92ec6bd68e2139", "1e970d3f0cfeb068bf93f3c3a3e159545d3001912c03be81f2ad3227", "b2fcae11f4e49e2fb8d8750e57929c7c37ec388d3be7af5f6c178062", "cf7b2ec6d930192774f622cc34dfef0b6e4fed87802c20c29b680179", "b2859d7ecb8ea88b782c4e16931dfe46329cce0d8f74b1375424e924", "eaf6ba174eacbccc2083f42b4f95f04ca35017135f1b86f9ade825c6", "52c882e09c3ad34c624d509abda9a08a9619bfe6b7fc24df151ec024", "43b13ddf1ebacff7c751dfcc5a0b69f804bda1a45ffb222b8c9dba6e", "a047e55af55d9d2ae09c97aa044a226b1e59953fab6db82fc67af0df", "cc4163e190366d3efab7cc616cfdf8abb857dfc43907e861ec427a95", "a82a41fc78a7c8f63ecd80bc150fe90ec08800abdec4236b37517f1f"]
#guard (byName "sha224").map (fun f => toHex (f msg56)) == some "75388b16512776cc5dba5da1fd890150b0c6455cb4f58b1952522525"

-- sha256
#guard toHex (sha256 []) == "e3b0c44298fc1c149afbf4c8996fb92427ae41e4649b934ca495991b7852b855"
#guard toHex (sha256 "abc".toUTF8.toList) == "ba7816bf8f01cfea414140de5dae2223b00361a396177a9cb410ff61f20015ad"
#guard toHex (sha256 msg56) == "248d6a61d20638b8e5c026930c3e6039a33ce45964ff2167f6ecedd419db06c1"
#guard toHex (sha256 msg200) == "2c7e18c942ef065b526a2d4e5546283749cd3ddfb51d8fc71f42717363685f46"
#guard toHex (sha256 msg1000) == "7994e00959d889b2edd138584884b26ecd04053d86779cb88d89202dea18e599"
#guard (sha256 msg1000).length == 32
#guard edgeLens.map (fun n => toHex (sha256 (edgeMsg n))) ==
  ["4bf5122f344554c53bde2ebb8cd2b7e3d1600ad631c385a5d7cce23c7785459a", "1f64e4acf043076f100ed2e3fe6ab85156306e709157b623a8fb835788bc77b0", "0c74b286e2c8b409ed0fd89f5a8344aeb274bda5d9bfbe7b8e537cfc6142736d", "8136496fb4867a08f8c0f1afaf000ef4093ecc2d544f4f808ef9d5945ca4c2fa", "861c42dc0dc72b220fc6518be4a00fff6c981e2be9dc70f5cb090f14c3c11c57", "a7c6fa71b10f6f7bd8ce26f79db5693d265b2cde42e61955077e77c8764bc26f", "3ea97ec766b8247739939247b4d4cb362cf13c100deb0cc2ba5391f762023852", "7fc8e770811fb1035a2279b782a7b04024fe6a2229e9bb11a99686d3ca65f4a7", "771eba0490696c1b40005c4e288c8c60c032d3b0e105795eb56208540cede6b7", "c49e87f4dbda5512feaf56f1ab3b2813a1e950f48726564d5290c0c72e4947c5", "1fd5f1e32d3e8fff16bdf575939f903fc52804002253a36f28058cadc491cc40", "b82f588a618015edb5d6dc865a44b704ba88cfb8e474a8800d78ee21830601a8", "6cf3e40eee6bd154b923dbbe0b421de7934af82282113dd285bb895e4bb3f8f7", "696e486e83239a511feef5f0b438da322fa51490489668162c6ed9a9c6ad8055", "2bcc276222962a8489f66518df75ceb051de1e5fcf9cec388ced69ef82dcbe12", "3b35116c160c0ffdaf1287960af39caf2760811b02a36e3bd5294bdd61eea9a9", "2f8375e93af8ad9fa693f5f28f1f0d218678da7fb5554be6431c2f3ee245eccb", "f6d843733ec1eab6290a013c64895119517f57807c7f6dfdfe25299d106c90e1", "5316de7ee30a31bc87186f758f7745ca640052405594baa9a55342e26474f589", "41b5522dfcce5e658659f6d0f7d12e0122b2489b86da252d1ae3d85d98e7179e"]
#guard (byName "sha256").map (fun f => toHex (f msg56)) == some "248d6a61d20638b8e5c026930c3e6039a33ce45964ff2167f6ecedd419db06c1"

-- sha384
#guard toHex (sha384 []) == "38b060a751ac96384cd9327eb1b1e36a21fdb71114be07434c0cc7bf63f6e1da274edebfe76f65fbd51ad2f14898b95b"
#guard toHex (sha384 "abc".toUTF8.toList) == "cb00753f45a35e8bb5a03d699ac65007272c32ab0eded1631a8b605a43ff5bed8086072ba1e7cc2358baeca134c825a7"
#guard toHex (sha384 msg56) == "3391fdddfc8dc7393707a65b1b4709397cf8b1d162af05abfe8f450de5f36bc6b0455a8520bc4e6f5fe95b1fe3c8452b"
#guard toHex (sha384 msg200) == "8deb83535fa35d2f493c6c3695b1057b19232d2f531a0d398d2b958413855aa1594b6bcca0ddcbd24a981330a7ff1cc1"
#guard toHex (sha384 msg1000) == "77e6a62bc0976ab835a21b8fb0595ba58ca790156136a8c1235b77e2d77833249cbe5a5ae86f9456068c0264b509fd17"
#guard (sha384 msg1000).length == 48
#guard edgeLens.map (fun n => toHex (sha384 (edgeMsg n))) ==
  ["8d2ce87d86f55fcfab770a047b090da23270fa206832dfea7e0c946fff451f819add242374be551b0d6318ed6c7d41d8", "afd7430f3f54b24e7e0c75739ff90e40848799ac0d08e8f63bf2425e2207cc4d935f450baa76d0ef8949e48b57e05355", "d7703ce14b2b2552d3b09ed0f74cc8e8a1e190aff38bc1e1cf17aea37c65631d7b4f1bb226bfec9e8e096978fac3bf24", "1050d08599e91bf58849fe7ee0907e03259d2b4565797e236a7beaacbc65cf9647cbc4eaaaddc8a474a830bb7d69e4ba", "b34ab83c8faba6acc155fff0f34fb8c3e4ff9fd982577da0f6be11b20071a4bd3d2bc973992981cb339fbfdb5105557e", "2c05ff9e1a4c9b90013d439d585c28eb5dda026a2c1267b4cb5a8de9320ab1d85b54a7502930f816ade290aa45fddd3b", "48d7333eef9a7ce321b9d7f7fc215af30863d202dcc26129feb8f8af3a599ad34992eb8abfb604be0e8c8ea64eb077ee", "128075d9eb58fa9122efaef9917b185f0aba51f5af180538055c69b8b4869ed1180a14b19b9ef97292bdfcffd64c41e9", "1ba1f08d54346827793093ef591840b5d220602cde7ea1a9173109151da2f4ba7974fabaef780c453aadd5105f055147", "7b8b9302982450cd2ed201f54e5e9bcafd2ba218e7e8d261875bce2e270ff135926dcf69a38ce0801d351381c1b5235c", "b223593f3c7c8bcc8e78b21e93389b161105f2c66fecea0a0a2dd861299880d4bbd22464845402fd9fa55efdc05b2d2b", "dedca34c4aaaf8bff2c0079533ea8bb547d3598b57599a9f4d146948fc62effcd138153bc4c5e10353eb0d47e7558297", "e50e00bb8c3299234b92086f0f17f16a45d976bebe7e79668753eba5789a807d00bc6b3195cbf10886f7d966048236ec", "5a1ef4b2107df1f0a8cf2dd92666a50689f53fb681d9d13766c674dd9e0f25fbe425b172a768a60cf6967c6584769150", "55b23324d9bfe83a78ae0462f36e7e96aa720d831ee4e5c3b390a5ff2e4d39f4e7ca4c283d9a9626b941d1de8823cde1", "270c723fb72409cf712aed5848043bf075b7d59eb7fa211d8b88bd0222716a9487528dcad44766816e1e69fb5cdd32e8", "4d122072c80fd9451e0beb2cf5a1d61d7faaed78536aad0ca26f2e56055b703911079bdad64f512ac64d3d85631c929e", "f69acdedf4acd4cb781d1c639b8b84ab1ff948a8d4d229cb6fec8a689507915ff739f0732b847bdb76915b809a458c2c", "57ba17e5669ba5747959b480fe9eda19af10482172fadc8e0cdd7925b8e51cab71e635d3ffd826d80fa30b2e1d78f405", "0cd9732e43e2611cfd6d8691ec54e4a1fbfa8e4bcc0f13b0c4bdd3eaa99a7b69f4da71040e2142f894da4b06f14c61c1"]
#guard (byName "sha384").map (fun f => toHex (f msg56)) == some "3391fdddfc8dc7393707a65b1b4709397cf8b1d162af05abfe8f450de5f36bc6b0455a8520bc4e6f5fe95b1fe3c8452b"

-- sha512
#guard toHex (sha512 []) == "cf83e1357eefb8bdf1542850d66d8007d620e4050b5715dc83f4a921d36ce9ce47d0d13c5d85f2b0ff8318d2877eec2f63b931bd47417a81a538327af927da3e"
#guard toHex (sha512 "abc".toUTF8.toList) == "ddaf35a193617abacc417349ae20413112e6fa4e89a97ea20a9eeee64b55d39a2192992a274fc1a836ba3c23a3feebbd454d4423643ce80e2a9ac94fa54ca49f"
#guard toHex (sha512 msg56) == "204a8fc6dda82f0a0ced7beb8e08a41657c16ef468b228a8279be331a703c33596fd15c13b1b07f9aa1d3bea57789ca031ad85c7a71dd70354ec631238ca3445"
#guard toHex (sha512 msg200) == "cca3c0276046ef9f2897bdfc3ec330f77f4959914b1462bd581b232ddb3e9aa98acf5f5a2b21c7f49d2e43721daa61a2b5cee6af6052dfeb766e66ddb0d1719c"
#guard toHex (sha512 msg1000) == "f4ba19368b78c37d6be5c5ade6beaa2cfd73292e0cfcea4144165f391e91cc7b46ff2b03c3ba3d5b80b1f83cb30b454c212c2758b47607e97df251c406ffedfe"
#guard (sha512 msg1000).length == 64
#guard edgeLens.map (fun n => toHex (sha512 (edgeMsg n))) ==
  ["7b54b66836c1fbdd13d2441d9e1434dc62ca677fb68f5fe66a464baadecdbd00576f8d6b5ac3bcc80844b7d50b1cc6603444bbe7cfcf8fc0aa1ee3c636d9e339", "787bb90a97817513f8c563b1a6fe93f7b50a55af736cdd078fce07fd4bab4c2006cb2c7ce2c6eb07bca7a851abf52a7c55b9a343dd93ba08bc4cdf744470be74", "645e05035c3f82b2f0a760fccded155d51d286953f4ee988faedf5a4acab0da3b42521d47a1a993a7c4537f2fa8e381d9340165e8e6b2af7c2c0f4cbe156629d", "ece54cf320f6fde4aaa6d071b47d5284873b95cc0ecbfeb7b0a00a0280daae32667f1ad053cd3b0e4087ed753b478a33ca292bceed8f2f9a3687495db2843b3d", "b0f02f018ec677ffbfa0b990e382e48702aed7e44b4f279972a34cc92ccf71dc5b05c807e50aeb5ac1b6f9eda0d73fa4de51d4be33d84ea55b2c2e88ccda6d9e", "7d4336bba23219750ea0aa9cc24db7606060601d53e2aaf072e08e206ff0a8059da010f540804180b7f86dccaf83daa3181a4036d3551e7e3506178edfb4c240", "f0329105c49386a26c6ae6430ea95c9b6193e2f8e7285c78894b6c10c574fa143b0ec53d3d213e0046397e7a458f87592b1208d88667f62a31879c64517ac844", "7fd0597e35fecfb4664fbc332af359e7117f4e98d36ad69ea89475a8b01642adc04b555047513c595f110a9b7398dca59df5401addd5060a959c6fc54ead76a0", "38ab7663dbaf5f04216caa1611bb28d63dd8ccfc3c321b8b70a85f04eea46ba32ebdb383c5d8d3110235e2c5f05a310c1505b0d106c137e93d4fa0cedb7da94e", "f02935b9eff885ad93b40a21691544a497c0f79ea78ec048adf04c503fd4647196caf761f383482a32cfaa666a09a77a84997cf66c95f0b9a016d0de3d21484d", "d2a41957e85e8dca4f642ffa10ceced900ad64035184c23df105c7c89509c4fc853800a3c5951ab849ec075d116c782d561a24264de7395d0b2efb5e28d2b562", "d67bb6b9d82e5da4227b9523f393c5bafc667a509df8b8f70ae3eebe27321e70a31975bb96a67f2f2b6c82742709b5fad6a24f51208985d100ac2cc2654a10da", "9d60f275f7640f3aa76d2582230031e0a960aae0ac00da9bb0d65a36cb57b94fff9fd08f076b5aa1543e15f1f6400e27efba2d34bcfff6ec5f0cb3c1595178c1", "e91f1b7b44a1c37e562d3048a2d910c958676477b6209aab65e9bc24eaa5b2c02bfb49c684d6550ce6dc861c1f94890bb6dabead6820c653be64c1c373cbdaaf", "8de81fa2318600b24d451e5ffdaa7831b807fe45dcfe4a6127590b0e32ea313405ac9ec24c5f3fbc61d6e1ada11fd67785c0e45f386a077bc9722241937e1604", "19a5ca60c1b81d070e81980f48f2b856f0fa8bf1e85b79e4796c68cafcc92b5a7b1da3d7a6c96e3ee831b32d9655df5ce14a16822e72aaf7555c88c1b2b49b9d", "ed312e1560888383d74ea21104bf6bef41e6c47a6b3eac2e7f2e8fcc88b472ba2307c8b8921dfb519addccf0b0da1cf80ebcbcd86235d67eabce1d016a571db7", "d7d0463dd925e109fefbc791641a5d97e005a38bd610075c980e49e683daac84ad90c14fcaf630665ad7427e031247729ddbe6c433468f008f0077c3423c8b62", "84016817acb2286353bc794c83f0135c494fb76926392173d7ca41a92059b4384642b97a80a2cf3b1b197fcc844520afd9c3d456d4f49c7dd6874f8d9e722cda", "59aea8bd5b3b2cf76a24a4fb598eb57778b617c51d4fd749663126fcb7acd2a427981d1b6f54411d07e9db1b74c8d1bf69a6989ca4d56cfdf887708f9d4f103e"]
#guard (byName "sha512").map (fun f => toHex (f msg56)) == some "204a8fc6dda82f0a0ced7beb8e08a41657c16ef468b228a8279be331a703c33596fd15c13b1b07f9aa1d3bea57789ca031ad85c7a71dd70354ec631238ca3445"

end Tests

end Cinco.Hash
