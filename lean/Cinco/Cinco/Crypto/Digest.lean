import Cinco.Field.Base64
import Cinco.Generated.Tables
/-
  Model of DigestValue.create / challenge and ChallengeField._validate / to_basic / to_python
  (cincoconfig/fields/secure_field.py:57-107, 197-289) over an abstract hash `H alg data`.
  `tape` = what successive `os.urandom(digest_size)` calls return.
-/
namespace Cinco.Digest
open Cinco

abbrev Bytes := List UInt8

structure DigestValue where
  salt : Bytes
  digest : Bytes
  alg : String
  deriving DecidableEq, Repr

structure HashEnv where
  H : String → Bytes → Bytes
  size : String → Nat            -- hasher.digest_size

inductive Err where
  | shortSalt    -- TypeError: salt must be at least digest_size bytes
  | reject       -- ValueError: wrong type / malformed stored value
  deriving DecidableEq, Repr

/-- `DigestValue.create(plaintext, algorithm, salt)`; returns the value and the remaining tape -/
def create (E : HashEnv) (alg : String) (plaintext : Bytes) (salt : Option Bytes) (tape : List Bytes) :
    Except Err (DigestValue × List Bytes) :=
  match salt with
  | some (s0 :: ss) =>                                   -- a truthy salt
      let s := s0 :: ss
      if s.length < E.size alg then .error .shortSalt
      else
        let s' := s.take (E.size alg)
        .ok (⟨s', E.H alg (s' ++ plaintext), alg⟩, tape)
  | _ =>                                                 -- None or b"": os.urandom(digest_size)
      match tape with
      | r :: rest => .ok (⟨r, E.H alg (r ++ plaintext), alg⟩, rest)
      | [] => .ok (⟨[], E.H alg plaintext, alg⟩, [])

/-- `DigestValue.challenge(plaintext)`: true = returns, false = raises ValueError -/
def challenge (E : HashEnv) (dv : DigestValue) (q : Bytes) : Bool :=
  E.H dv.alg (dv.salt ++ q) == dv.digest

/-- in-memory values a ChallengeField can be given -/
inductive Input where
  | text (utf8 : Bytes)          -- a str (already UTF-8 encoded) or bytes
  | digest (dv : DigestValue)
  | other

/-- `ChallengeField._validate` -/
def validate (E : HashEnv) (alg : String) (v : Input) (tape : List Bytes) : Except Err (DigestValue × List Bytes) :=
  match v with
  | .text p => create E alg p none tape
  | .digest dv => .ok (dv, tape)
  | .other => .error .reject

/-- `ChallengeField.to_basic` -/
def toBasic (dv : Option DigestValue) : Tree :=
  match dv with
  | none => .null
  | some d => .dict [("salt", .str (B64.encode d.salt)), ("digest", .str (B64.encode d.digest))]

/-- `ChallengeField.to_python`; `utf8` encodes a plaintext found in the file -/
def toPython (E : HashEnv) (alg : String) (utf8 : Str → Bytes) (stored : Tree) (tape : List Bytes) :
    Except Err (Option DigestValue × List Bytes) :=
  match stored with
  | .null => .ok (none, tape)
  | .dict d =>
    match Kvs.lookup "salt" d with
    | some (.str s) =>
      match B64.decode s with
      | none => .error .reject
      | some salt =>
        match Kvs.lookup "digest" d with
        | some (.str g) =>
          match B64.decode g with
          | none => .error .reject
          | some dig => .ok (some ⟨salt, dig, alg⟩, tape)
        | _ => .error .reject
    | _ => .error .reject
  | .str p =>
    match create E alg (utf8 p) none tape with
    | .ok (dv, t) => .ok (some dv, t)
    | .error e => .error e
  | _ => .error .reject

end Cinco.Digest
