/-
AES-256 block cipher (FIPS-197) and CBC mode over whole blocks (SP 800-38A).

Executable reference implementation.  Everything is total and defined by plain
structural recursion / `List` combinators; no `partial`, `unsafe`,
`implemented_by`, `sorry` or `native_decide`.

State layout: a block / state is a `List UInt8` of length 16 in the FIPS-197
input order, i.e. column-major: byte `r + 4*c` is row `r`, column `c`.
Inputs of the wrong length never crash; keys and blocks are zero-padded /
truncated to 32 / 16 bytes.
-/

namespace Cinco.Aes

/-! ## Tables -/

/-- FIPS-197 Figure 7. -/
def sbox : Array UInt8 := #[
    0x63, 0x7c, 0x77, 0x7b, 0xf2, 0x6b, 0x6f, 0xc5, 0x30, 0x01, 0x67, 0x2b, 0xfe, 0xd7, 0xab, 0x76,
    0xca, 0x82, 0xc9, 0x7d, 0xfa, 0x59, 0x47, 0xf0, 0xad, 0xd4, 0xa2, 0xaf, 0x9c, 0xa4, 0x72, 0xc0,
    0xb7, 0xfd, 0x93, 0x26, 0x36, 0x3f, 0xf7, 0xcc, 0x34, 0xa5, 0xe5, 0xf1, 0x71, 0xd8, 0x31, 0x15,
    0x04, 0xc7, 0x23, 0xc3, 0x18, 0x96, 0x05, 0x9a, 0x07, 0x12, 0x80, 0xe2, 0xeb, 0x27, 0xb2, 0x75,
    0x09, 0x83, 0x2c, 0x1a, 0x1b, 0x6e, 0x5a, 0xa0, 0x52, 0x3b, 0xd6, 0xb3, 0x29, 0xe3, 0x2f, 0x84,
    0x53, 0xd1, 0x00, 0xed, 0x20, 0xfc, 0xb1, 0x5b, 0x6a, 0xcb, 0xbe, 0x39, 0x4a, 0x4c, 0x58, 0xcf,
    0xd0, 0xef, 0xaa, 0xfb, 0x43, 0x4d, 0x33, 0x85, 0x45, 0xf9, 0x02, 0x7f, 0x50, 0x3c, 0x9f, 0xa8,
    0x51, 0xa3, 0x40, 0x8f, 0x92, 0x9d, 0x38, 0xf5, 0xbc, 0xb6, 0xda, 0x21, 0x10, 0xff, 0xf3, 0xd2,
    0xcd, 0x0c, 0x13, 0xec, 0x5f, 0x97, 0x44, 0x17, 0xc4, 0xa7, 0x7e, 0x3d, 0x64, 0x5d, 0x19, 0x73,
    0x60, 0x81, 0x4f, 0xdc, 0x22, 0x2a, 0x90, 0x88, 0x46, 0xee, 0xb8, 0x14, 0xde, 0x5e, 0x0b, 0xdb,
    0xe0, 0x32, 0x3a, 0x0a, 0x49, 0x06, 0x24, 0x5c, 0xc2, 0xd3, 0xac, 0x62, 0x91, 0x95, 0xe4, 0x79,
    0xe7, 0xc8, 0x37, 0x6d, 0x8d, 0xd5, 0x4e, 0xa9, 0x6c, 0x56, 0xf4, 0xea, 0x65, 0x7a, 0xae, 0x08,
    0xba, 0x78, 0x25, 0x2e, 0x1c, 0xa6, 0xb4, 0xc6, 0xe8, 0xdd, 0x74, 0x1f, 0x4b, 0xbd, 0x8b, 0x8a,
    0x70, 0x3e, 0xb5, 0x66, 0x48, 0x03, 0xf6, 0x0e, 0x61, 0x35, 0x57, 0xb9, 0x86, 0xc1, 0x1d, 0x9e,
    0xe1, 0xf8, 0x98, 0x11, 0x69, 0xd9, 0x8e, 0x94, 0x9b, 0x1e, 0x87, 0xe9, 0xce, 0x55, 0x28, 0xdf,
    0x8c, 0xa1, 0x89, 0x0d, 0xbf, 0xe6, 0x42, 0x68, 0x41, 0x99, 0x2d, 0x0f, 0xb0, 0x54, 0xbb, 0x16
  ]

/-- FIPS-197 Figure 14. -/
def invSbox : Array UInt8 := #[
    0x52, 0x09, 0x6a, 0xd5, 0x30, 0x36, 0xa5, 0x38, 0xbf, 0x40, 0xa3, 0x9e, 0x81, 0xf3, 0xd7, 0xfb,
    0x7c, 0xe3, 0x39, 0x82, 0x9b, 0x2f, 0xff, 0x87, 0x34, 0x8e, 0x43, 0x44, 0xc4, 0xde, 0xe9, 0xcb,
    0x54, 0x7b, 0x94, 0x32, 0xa6, 0xc2, 0x23, 0x3d, 0xee, 0x4c, 0x95, 0x0b, 0x42, 0xfa, 0xc3, 0x4e,
    0x08, 0x2e, 0xa1, 0x66, 0x28, 0xd9, 0x24, 0xb2, 0x76, 0x5b, 0xa2, 0x49, 0x6d, 0x8b, 0xd1, 0x25,
    0x72, 0xf8, 0xf6, 0x64, 0x86, 0x68, 0x98, 0x16, 0xd4, 0xa4, 0x5c, 0xcc, 0x5d, 0x65, 0xb6, 0x92,
    0x6c, 0x70, 0x48, 0x50, 0xfd, 0xed, 0xb9, 0xda, 0x5e, 0x15, 0x46, 0x57, 0xa7, 0x8d, 0x9d, 0x84,
    0x90, 0xd8, 0xab, 0x00, 0x8c, 0xbc, 0xd3, 0x0a, 0xf7, 0xe4, 0x58, 0x05, 0xb8, 0xb3, 0x45, 0x06,
    0xd0, 0x2c, 0x1e, 0x8f, 0xca, 0x3f, 0x0f, 0x02, 0xc1, 0xaf, 0xbd, 0x03, 0x01, 0x13, 0x8a, 0x6b,
    0x3a, 0x91, 0x11, 0x41, 0x4f, 0x67, 0xdc, 0xea, 0x97, 0xf2, 0xcf, 0xce, 0xf0, 0xb4, 0xe6, 0x73,
    0x96, 0xac, 0x74, 0x22, 0xe7, 0xad, 0x35, 0x85, 0xe2, 0xf9, 0x37, 0xe8, 0x1c, 0x75, 0xdf, 0x6e,
    0x47, 0xf1, 0x1a, 0x71, 0x1d, 0x29, 0xc5, 0x89, 0x6f, 0xb7, 0x62, 0x0e, 0xaa, 0x18, 0xbe, 0x1b,
    0xfc, 0x56, 0x3e, 0x4b, 0xc6, 0xd2, 0x79, 0x20, 0x9a, 0xdb, 0xc0, 0xfe, 0x78, 0xcd, 0x5a, 0xf4,
    0x1f, 0xdd, 0xa8, 0x33, 0x88, 0x07, 0xc7, 0x31, 0xb1, 0x12, 0x10, 0x59, 0x27, 0x80, 0xec, 0x5f,
    0x60, 0x51, 0x7f, 0xa9, 0x19, 0xb5, 0x4a, 0x0d, 0x2d, 0xe5, 0x7a, 0x9f, 0x93, 0xc9, 0x9c, 0xef,
    0xa0, 0xe0, 0x3b, 0x4d, 0xae, 0x2a, 0xf5, 0xb0, 0xc8, 0xeb, 0xbb, 0x3c, 0x83, 0x53, 0x99, 0x61,
    0x17, 0x2b, 0x04, 0x7e, 0xba, 0x77, 0xd6, 0x26, 0xe1, 0x69, 0x14, 0x63, 0x55, 0x21, 0x0c, 0x7d
  ]

@[inline] def subByte (b : UInt8) : UInt8 := sbox[b.toNat]!
@[inline] def invSubByte (b : UInt8) : UInt8 := invSbox[b.toNat]!

/-! ## GF(2^8) arithmetic -/

/-- Multiplication by `x` (i.e. `{02}`) modulo `x^8 + x^4 + x^3 + x + 1`. -/
@[inline] def xtime (b : UInt8) : UInt8 :=
  (b <<< 1) ^^^ (if b &&& 0x80 = 0 then 0x00 else 0x1b)

@[inline] def mul2 (b : UInt8) : UInt8 := xtime b
@[inline] def mul3 (b : UInt8) : UInt8 := xtime b ^^^ b
@[inline] def mul9 (b : UInt8) : UInt8 := xtime (xtime (xtime b)) ^^^ b
@[inline] def mul11 (b : UInt8) : UInt8 := xtime (xtime (xtime b)) ^^^ xtime b ^^^ b
@[inline] def mul13 (b : UInt8) : UInt8 := xtime (xtime (xtime b)) ^^^ xtime (xtime b) ^^^ b
@[inline] def mul14 (b : UInt8) : UInt8 := xtime (xtime (xtime b)) ^^^ xtime (xtime b) ^^^ xtime b

/-! ## Helpers -/

/-- Truncate or zero-pad to exactly `n` bytes. -/
def padTo (n : Nat) (l : List UInt8) : List UInt8 :=
  (l ++ List.replicate (n - l.length) 0).take n

def xorBytes (a b : List UInt8) : List UInt8 := List.zipWith (· ^^^ ·) a b

/-! ## Round transformations -/

def addRoundKey (s rk : List UInt8) : List UInt8 := xorBytes s rk

def subBytes (s : List UInt8) : List UInt8 := s.map subByte
def invSubBytes (s : List UInt8) : List UInt8 := s.map invSubByte

def shiftRows : List UInt8 → List UInt8
  | [s0, s1, s2, s3, s4, s5, s6, s7, s8, s9, s10, s11, s12, s13, s14, s15] =>
    [s0, s5, s10, s15,  s4, s9, s14, s3,  s8, s13, s2, s7,  s12, s1, s6, s11]
  | s => s

def invShiftRows : List UInt8 → List UInt8
  | [s0, s1, s2, s3, s4, s5, s6, s7, s8, s9, s10, s11, s12, s13, s14, s15] =>
    [s0, s13, s10, s7,  s4, s1, s14, s11,  s8, s5, s2, s15,  s12, s9, s6, s3]
  | s => s

def mixColumns : List UInt8 → List UInt8
  | a :: b :: c :: d :: rest =>
    (mul2 a ^^^ mul3 b ^^^ c ^^^ d) ::
    (a ^^^ mul2 b ^^^ mul3 c ^^^ d) ::
    (a ^^^ b ^^^ mul2 c ^^^ mul3 d) ::
    (mul3 a ^^^ b ^^^ c ^^^ mul2 d) :: mixColumns rest
  | _ => []

def invMixColumns : List UInt8 → List UInt8
  | a :: b :: c :: d :: rest =>
    (mul14 a ^^^ mul11 b ^^^ mul13 c ^^^ mul9 d) ::
    (mul9 a ^^^ mul14 b ^^^ mul11 c ^^^ mul13 d) ::
    (mul13 a ^^^ mul9 b ^^^ mul14 c ^^^ mul11 d) ::
    (mul11 a ^^^ mul13 b ^^^ mul9 c ^^^ mul14 d) :: invMixColumns rest
  | _ => []

/-! ## Key expansion (Nk = 8, Nr = 14) -/

/-- One step of the AES-256 key schedule: from eight consecutive words
`w[8k] .. w[8k+7]` (32 bytes) compute the next eight words, using round
constant `rcon = x^k`. -/
def nextKeyChunk (rcon : UInt8) : List UInt8 → List UInt8
  | [a0, a1, a2, a3, b0, b1, b2, b3, c0, c1, c2, c3, d0, d1, d2, d3,
     e0, e1, e2, e3, f0, f1, f2, f3, g0, g1, g2, g3, h0, h1, h2, h3] =>
    -- w[i] = w[i-8] ^ SubWord(RotWord(w[i-1])) ^ Rcon
    let a0' := a0 ^^^ subByte h1 ^^^ rcon
    let a1' := a1 ^^^ subByte h2
    let a2' := a2 ^^^ subByte h3
    let a3' := a3 ^^^ subByte h0
    let b0' := b0 ^^^ a0'; let b1' := b1 ^^^ a1'; let b2' := b2 ^^^ a2'; let b3' := b3 ^^^ a3'
    let c0' := c0 ^^^ b0'; let c1' := c1 ^^^ b1'; let c2' := c2 ^^^ b2'; let c3' := c3 ^^^ b3'
    let d0' := d0 ^^^ c0'; let d1' := d1 ^^^ c1'; let d2' := d2 ^^^ c2'; let d3' := d3 ^^^ c3'
    -- i % 8 = 4: w[i] = w[i-8] ^ SubWord(w[i-1])
    let e0' := e0 ^^^ subByte d0'
    let e1' := e1 ^^^ subByte d1'
    let e2' := e2 ^^^ subByte d2'
    let e3' := e3 ^^^ subByte d3'
    let f0' := f0 ^^^ e0'; let f1' := f1 ^^^ e1'; let f2' := f2 ^^^ e2'; let f3' := f3 ^^^ e3'
    let g0' := g0 ^^^ f0'; let g1' := g1 ^^^ f1'; let g2' := g2 ^^^ f2'; let g3' := g3 ^^^ f3'
    let h0' := h0 ^^^ g0'; let h1' := h1 ^^^ g1'; let h2' := h2 ^^^ g2'; let h3' := h3 ^^^ g3'
    [a0', a1', a2', a3', b0', b1', b2', b3', c0', c1', c2', c3', d0', d1', d2', d3',
     e0', e1', e2', e3', f0', f1', f2', f3', g0', g1', g2', g3', h0', h1', h2', h3']
  | k => k

/-- `expandChunks n rcon k` is `k` followed by `n` further 32-byte chunks of the
key schedule, split into 16-byte round keys. -/
def expandChunks : Nat → UInt8 → List UInt8 → List (List UInt8)
  | 0, _, k => [k.take 16, k.drop 16]
  | n + 1, rcon, k => k.take 16 :: k.drop 16 :: expandChunks n (xtime rcon) (nextKeyChunk rcon k)

/-- The 15 round keys (16 bytes each) of AES-256 for a 32-byte key. -/
def keyExpansion (key : List UInt8) : List (List UInt8) :=
  (expandChunks 7 0x01 (padTo 32 key)).take 15

/-! ## Cipher and inverse cipher -/

/-- Rounds 1..Nr given the remaining round keys (the last one is used without
`MixColumns`). -/
def encRounds : List (List UInt8) → List UInt8 → List UInt8
  | [], s => s
  | [rk], s => addRoundKey (shiftRows (subBytes s)) rk
  | rk :: rks, s => encRounds rks (addRoundKey (mixColumns (shiftRows (subBytes s))) rk)

/-- FIPS-197 `Cipher` with an already expanded key. -/
def encryptBlockWith (rks : List (List UInt8)) (block : List UInt8) : List UInt8 :=
  match rks with
  | [] => padTo 16 block
  | rk0 :: rest => encRounds rest (addRoundKey (padTo 16 block) rk0)

/-- Inverse rounds; takes the round keys in *reverse* order without the
outermost one (`rk[Nr-1], ..., rk[0]`). -/
def decRounds : List (List UInt8) → List UInt8 → List UInt8
  | [], s => s
  | [rk], s => addRoundKey (invSubBytes (invShiftRows s)) rk
  | rk :: rks, s => decRounds rks (invMixColumns (addRoundKey (invSubBytes (invShiftRows s)) rk))

/-- FIPS-197 `InvCipher` with an already expanded key (`rks` in forward order). -/
def decryptBlockWith (rks : List (List UInt8)) (block : List UInt8) : List UInt8 :=
  match rks.reverse with
  | [] => padTo 16 block
  | rkN :: rest => decRounds rest (addRoundKey (padTo 16 block) rkN)

/-- AES-256 encryption of one 16-byte block under a 32-byte key. -/
def encryptBlock (key : List UInt8) (block : List UInt8) : List UInt8 :=
  encryptBlockWith (keyExpansion key) block

/-- AES-256 decryption of one 16-byte block under a 32-byte key. -/
def decryptBlock (key : List UInt8) (block : List UInt8) : List UInt8 :=
  decryptBlockWith (keyExpansion key) block

/-! ## CBC mode (whole blocks only, no padding, IV not prepended) -/

/-- Encrypt `n` blocks of `data`, chaining from `prev`. -/
def cbcEncryptBlocks (rks : List (List UInt8)) : Nat → List UInt8 → List UInt8 → List UInt8
  | 0, _, _ => []
  | n + 1, prev, data =>
    let c := encryptBlockWith rks (xorBytes (padTo 16 (data.take 16)) prev)
    c ++ cbcEncryptBlocks rks n c (data.drop 16)

/-- Decrypt `n` blocks of `data`, chaining from `prev`. -/
def cbcDecryptBlocks (rks : List (List UInt8)) : Nat → List UInt8 → List UInt8 → List UInt8
  | 0, _, _ => []
  | n + 1, prev, data =>
    let c := padTo 16 (data.take 16)
    xorBytes (decryptBlockWith rks c) prev ++ cbcDecryptBlocks rks n c (data.drop 16)

/-- AES-256-CBC encryption.  `plaintextPadded.length` should be a multiple of 16
(a trailing partial block is zero-padded). -/
def cbcEncrypt (key iv plaintextPadded : List UInt8) : List UInt8 :=
  cbcEncryptBlocks (keyExpansion key) ((plaintextPadded.length + 15) / 16) (padTo 16 iv)
    plaintextPadded

/-- AES-256-CBC decryption.  `ciphertext.length` should be a multiple of 16
(a trailing partial block is zero-padded). -/
def cbcDecrypt (key iv ciphertext : List UInt8) : List UInt8 :=
  cbcDecryptBlocks (keyExpansion key) ((ciphertext.length + 15) / 16) (padTo 16 iv) ciphertext

/-! ## Build-time validation -/

section Tests

private def hexVal (c : Char) : UInt8 :=
  if '0' ≤ c ∧ c ≤ '9' then (c.toNat - '0'.toNat).toUInt8
  else if 'a' ≤ c ∧ c ≤ 'f' then (c.toNat - 'a'.toNat + 10).toUInt8
  else if 'A' ≤ c ∧ c ≤ 'F' then (c.toNat - 'A'.toNat + 10).toUInt8
  else 0

private def hexList : List Char → List UInt8
  | a :: b :: rest => (hexVal a <<< 4 ||| hexVal b) :: hexList rest
  | _ => []

/-- Hex string to bytes (test helper). -/
private def hex (s : String) : List UInt8 := hexList s.toList

#guard sbox.size = 256
#guard invSbox.size = 256
#guard (List.range 256).all fun i => invSbox[(sbox[i]!).toNat]! = i.toUInt8
#guard (List.range 256).all fun i => sbox[(invSbox[i]!).toNat]! = i.toUInt8
#guard subByte 0x53 = 0xed
#guard xtime 0x57 = 0xae ∧ xtime 0xae = 0x47 ∧ xtime 0x47 = 0x8e ∧ xtime 0x8e = 0x07

-- FIPS-197 Appendix A.3 (key expansion, 256-bit key): w[8..11] and w[56..59].
#guard (keyExpansion (hex "603deb1015ca71be2b73aef0857d77811f352c073b6108d72d9810a30914dff4")).length = 15
#guard (keyExpansion (hex "603deb1015ca71be2b73aef0857d77811f352c073b6108d72d9810a30914dff4")).all (·.length = 16)
#guard (keyExpansion (hex "603deb1015ca71be2b73aef0857d77811f352c073b6108d72d9810a30914dff4"))[2]! =
  hex "9ba354118e6925afa51a8b5f2067fcde"
#guard (keyExpansion (hex "603deb1015ca71be2b73aef0857d77811f352c073b6108d72d9810a30914dff4"))[14]! =
  hex "fe4890d1e6188d0b046df344706c631e"

-- FIPS-197 Appendix C.3.
#guard encryptBlock (hex "000102030405060708090a0b0c0d0e0f101112131415161718191a1b1c1d1e1f")
  (hex "00112233445566778899aabbccddeeff") = hex "8ea2b7ca516745bfeafc49904b496089"
#guard decryptBlock (hex "000102030405060708090a0b0c0d0e0f101112131415161718191a1b1c1d1e1f")
  (hex "8ea2b7ca516745bfeafc49904b496089") = hex "00112233445566778899aabbccddeeff"

-- NIST SP 800-38A F.2.5 / F.2.6 (CBC-AES256); expected value computed with Python `cryptography`.
private def nistKey := hex "603deb1015ca71be2b73aef0857d77811f352c073b6108d72d9810a30914dff4"
private def nistIv := hex "000102030405060708090a0b0c0d0e0f"
private def nistPt := hex <|
  "6bc1bee22e409f96e93d7e117393172a" ++ "ae2d8a571e03ac9c9eb76fac45af8e51" ++
  "30c81c46a35ce411e5fbc1191a0a52ef" ++ "f69f2445df4f9b17ad2b417be66c3710"
private def nistCt := hex <|
  "f58c4c04d6e5f1ba779eabfb5f7bfbd6" ++ "9cfc4e967edb808d679f777bc6702c7d" ++
  "39f23369a9d9bacfa530e26304231461" ++ "b2eb05e2c39be9fcda6c19078c6a9d1b"
#guard cbcEncrypt nistKey nistIv nistPt = nistCt
#guard cbcDecrypt nistKey nistIv nistCt = nistPt

-- Random vectors (Python `random.seed(20260926)`), expected values from Python `cryptography`.
private def randomVectors : List (String × String × String) := [
  ("251708755e123abefd7e7341d11a9e66e653623fa5b0807aac06d8b7800c2d5b",
   "c0f759d3364ccc4f50596129bb141fec", "d48177e04c135e01972a2d1950208bef"),
  ("768a99db133741b3343c1e716fe9ca264710b44cdbf9d2eec0829f10d99c5640",
   "cb06041a997cfb575e7df60b2dedad86", "8bf88bb48cbc98798e958e0ba53d8479"),
  ("9bfe5cc60f9f0934fd915cab0b7f0ab419f91dd7bcb2b8a386c6ba08e09fe53d",
   "d604eeed244de2d0cc00401a62492b24", "011c62d473e636e59160eadc94d63c1e"),
  ("83c08791a849d75a1964ee38002201bdcf053bc81619c8da52370bfa0d84be58",
   "2c0ded015f08a00e7b976431d2a54ad4", "2b8c481522abe5f51193ddb76d09bcf3")]
#guard randomVectors.all fun (k, p, c) => encryptBlock (hex k) (hex p) = hex c
#guard randomVectors.all fun (k, p, c) => decryptBlock (hex k) (hex c) = hex p

private def rcbcKey := hex "1bdf986c3a6e58b50a162cfccdf5308ed8374f200fe8ed1fb5c8c6065ef0df9c"
private def rcbcIv := hex "ebac672f876d91f0684b8090b7220068"
private def rcbcPt := hex <|
  "2217e83777639e183767141af8e34577" ++ "776738cd0ac7d54c69d0e0308fe7aa69" ++
  "8d3ae84dab4cc79ac6abd0c7ca80b845"
private def rcbcCt := hex <|
  "372f0aadd2c696a253549afc1e5cc8d4" ++ "e18846afd28e275dffba5f4853b31ac0" ++
  "89f05c07edd0ce5867105953697f3d3c"
#guard cbcEncrypt rcbcKey rcbcIv rcbcPt = rcbcCt
#guard cbcDecrypt rcbcKey rcbcIv rcbcCt = rcbcPt

-- Wrong-length inputs do not crash and still yield whole blocks.
#guard (encryptBlock [] []).length = 16
#guard (decryptBlock [1, 2, 3] [4]).length = 16
#guard cbcEncrypt [] [] [] = []
#guard (cbcEncrypt [] [] [1]).length = 16
#guard (cbcDecrypt [] [] (List.replicate 17 0)).length = 32

end Tests

/-! ## S-box inversion

Checked by the kernel by exhaustive evaluation (`decide +kernel`; no `native_decide`).
One linear pass over `sbox` with 256 list lookups into `invSbox` (a few seconds). -/

private theorem sbox_inv_list :
    sbox.toList.map (fun v => invSbox.toList.getD v.toNat 0)
      = (List.range 256).map UInt8.ofNat := by
  decide +kernel

private theorem getElem!_eq_toList_getD (a : Array UInt8) (i : Nat) :
    a[i]! = a.toList.getD i 0 := by
  simp [List.getD, getElem!_def]
  rfl

/-- `invSbox` is a left inverse of `sbox`. -/
theorem sbox_inv : ∀ b : UInt8, invSbox[(sbox[b.toNat]!).toNat]! = b := by
  intro b
  have hb : b.toNat < 256 := UInt8.toNat_lt b
  have h := congrArg (fun l => l[b.toNat]?) sbox_inv_list
  simp only [List.getElem?_map, List.getElem?_range hb, Option.map_some] at h
  rw [getElem!_eq_toList_getD, getElem!_eq_toList_getD]
  cases hs : sbox.toList[b.toNat]? with
  | none => simp [hs] at h
  | some v =>
    simp only [hs, Option.map_some, Option.some.injEq] at h
    simp only [List.getD, hs, Option.getD_some]
    simpa [List.getD] using h

end Cinco.Aes
