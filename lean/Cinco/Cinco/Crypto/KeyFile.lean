import Cinco.Crypto.Cipher
/-
  Model of `KeyFile` (cincoconfig/encryption.py:77-213) as a state machine over one key-file path:
  per object `(key, refcount)`, a world `(file, tape)` where `tape` is what successive `os.urandom(32)` calls return.
  Code order of `__enter__`:   if not self.__key: self.__load_key();  self.__refcount += 1
          `__load_key`:        try: key = read(file)  except OSError: key = generate()  else: validate (on failure the key is dropped)
          `__exit__`:          refcount -= 1; if refcount == 0: key = None
-/
namespace Cinco.KeyFile
open Cinco.Crypto

inductive File where
  | absent                 -- open(..., "rb") raises OSError, open(..., "wb") creates
  | data (b : Bytes)
  | unwritable             -- neither readable nor creatable (missing parent directory, parent is a file)
  deriving DecidableEq, Repr

structure World where
  file : File
  tape : List Bytes
  deriving Repr

structure Obj where
  key : Option Bytes
  refcount : Nat
  deriving DecidableEq, Repr

def Obj.fresh : Obj := ⟨none, 0⟩

inductive Err where
  | encryption   -- EncryptionError: invalid key file
  | os           -- OSError from creating the file
  | notOpen      -- TypeError: key file is not open
  | misuse       -- __exit__ without a matching __enter__ (outside the property's quantifier)
  deriving DecidableEq, Repr

/-- Python truthiness of `self.__key` -/
def hasKey (o : Obj) : Bool :=
  match o.key with
  | some k => !k.isEmpty
  | none => false

/-- `__load_key`: returns the new key slot, the new world, and whether it raised -/
def loadKey (w : World) : Option Bytes × World × Option Err :=
  match w.file with
  | .data b =>
      if b.length = 32 then (some b, w, none)
      else (none, w, some .encryption)            -- validate failed: key dropped before re-raising
  | .absent =>
      match w.tape with
      | r :: rest => (some r, { file := .data r, tape := rest }, none)   -- generate: urandom(32), write, no validation
      | [] => (none, w, some .os)
  | .unwritable =>
      match w.tape with                             -- `os.urandom(32)` is drawn before the failing `open(..., "wb")`
      | _ :: rest => (none, { w with tape := rest }, some .os)
      | [] => (none, w, some .os)

def enter (o : Obj) (w : World) : Obj × World × Option Err :=
  if hasKey o then ({ o with refcount := o.refcount + 1 }, w, none)
  else
    match loadKey w with
    | (k, w', none) => ({ key := k, refcount := o.refcount + 1 }, w', none)
    | (k, w', some e) => ({ o with key := k }, w', some e)

def exit (o : Obj) : Obj × Option Err :=
  match o.refcount with
  | 0 => (o, some .misuse)
  | 1 => ({ key := none, refcount := 0 }, none)
  | n + 1 => ({ o with refcount := n }, none)

/-- `encrypt` / `decrypt` with method xor (the method-independent part: they refuse to run without a loaded key) -/
def useKey (o : Obj) : Except Err Bytes :=
  match o.key with
  | some k => if k.isEmpty then .error .notOpen else .ok k
  | none => .error .notOpen

inductive Op where
  | enter (i : Nat)
  | exit (i : Nat)
  | use (i : Nat)                 -- encrypt or decrypt through object i
  | newObj                        -- KeyFile(path): a new object for the same path
  | extWrite (b : Bytes)          -- the file is replaced from outside
  | extDelete
  | extUnwritable
  deriving Repr

structure State where
  objs : List Obj
  world : World
  deriving Repr

inductive Out where
  | ok
  | key (k : Bytes)               -- the key an encrypt/decrypt would use (observable through XOR of a known plaintext)
  | err (e : Err)
  | noObj
  deriving DecidableEq, Repr

def step (s : State) : Op → State × Out
  | .enter i =>
    match s.objs[i]? with
    | none => (s, .noObj)
    | some o =>
      let (o', w', e) := enter o s.world
      ({ objs := s.objs.set i o', world := w' }, match e with | none => .ok | some e => .err e)
  | .exit i =>
    match s.objs[i]? with
    | none => (s, .noObj)
    | some o =>
      let (o', e) := exit o
      ({ s with objs := s.objs.set i o' }, match e with | none => .ok | some e => .err e)
  | .use i =>
    match s.objs[i]? with
    | none => (s, .noObj)
    | some o => (s, match useKey o with | .ok k => .key k | .error e => .err e)
  | .newObj => ({ s with objs := s.objs ++ [Obj.fresh] }, .ok)
  | .extWrite b => ({ s with world := { s.world with file := .data b } }, .ok)
  | .extDelete => ({ s with world := { s.world with file := .absent } }, .ok)
  | .extUnwritable => ({ s with world := { s.world with file := .unwritable } }, .ok)

def run (s : State) : List Op → State × List Out
  | [] => (s, [])
  | op :: ops =>
    let (s', o) := step s op
    let (s'', os) := run s' ops
    (s'', o :: os)

end Cinco.KeyFile
