import Cinco.Crypto.Cipher
import Cinco.Field.Base64
/-
  Model of KeyFile._get_provider / encrypt / decrypt (with an open key) and of SecureField.to_basic /
  to_python (cincoconfig/encryption.py:163-213, fields/secure_field.py:308-350), in code order.
  Parameters: the block cipher, the UTF-8 codec, whether `cryptography` is importable.
-/
namespace Cinco.Secure
open Cinco Cinco.Crypto

inductive Method where | aes | xor
  deriving DecidableEq, Repr

def Method.name : Method → String | .aes => "aes" | .xor => "xor"

/-- `_get_provider(method)`: `aes`, or `best` when AES is available → AES; `xor` or `best` → XOR; else TypeError.
    (`aes` without `cryptography` installed raises inside AesProvider.__init__.) -/
def resolveMethod (aesAvailable : Bool) (m : String) : Option Method :=
  if m = "aes" ∨ (m = "best" ∧ aesAvailable) then (if aesAvailable then some .aes else none)
  else if m = "xor" ∨ m = "best" then some .xor
  else none

structure Utf8 where
  enc : Str → Bytes
  dec : Bytes → Option Str

def Utf8.Lawful (u : Utf8) : Prop := ∀ s, u.dec (u.enc s) = some s

structure Env where
  cipher : BlockCipher
  utf8 : Utf8
  aesAvailable : Bool

/-- `KeyFile.encrypt(text, method)` with the key open; `iv` = the 16 bytes `os.urandom` returns -/
def encrypt (E : Env) (key iv : Bytes) (method : String) (text : Bytes) : Option (Method × Bytes) :=
  match resolveMethod E.aesAvailable method with
  | some .aes => some (.aes, aesEncrypt E.cipher key iv text)
  | some .xor => some (.xor, xorKey key text)
  | none => none

/-- `KeyFile.decrypt(SecureValue(method, ciphertext))` -/
def decrypt (E : Env) (key : Bytes) (method : String) (ct : Bytes) : Option Bytes :=
  match resolveMethod E.aesAvailable method with
  | some .aes => match aesDecrypt E.cipher key ct with
      | .ok p => some p
      | .error _ => none
  | some .xor => some (xorKey key ct)
  | none => none

/-- `SecureField.to_basic`: empty (or unset) → null; otherwise `{"method": concrete, "ciphertext": base64}` -/
def toBasic (E : Env) (key iv : Bytes) (method : String) (value : Option Str) : Option Tree :=
  match value with
  | none => some .null
  | some [] => some .null
  | some s =>
    match encrypt E key iv method (E.utf8.enc s) with
    | some (m, ct) => some (.dict [("method", .str m.name.toList), ("ciphertext", .str (B64.encode ct))])
    | none => none

/-- `SecureField.to_python`; `none` = rejected (ValueError / TypeError / UnicodeDecodeError) -/
def toPython (E : Env) (key : Bytes) (stored : Tree) : Option (Option Str) :=
  match stored with
  | .null => some none
  | .str s => some (some s)
  | .dict d =>
    match Kvs.lookup "method" d with
    | some (.str m) =>
      if m.isEmpty then none else                         -- `if not method`
      match Kvs.lookup "ciphertext" d with
      | some (.str c) =>
        match B64.decodeStrict c with                      -- `b64decode(text, validate=True)`
        | none => none
        | some ct =>
          match decrypt E key (String.ofList m) ct with
          | none => none
          | some p => (E.utf8.dec p).map some
      | _ => none                                          -- not a str
    | _ => none                -- missing / falsy / not a known method name (non-str methods never match "aes"/"xor"/"best")
  | _ => none

end Cinco.Secure
