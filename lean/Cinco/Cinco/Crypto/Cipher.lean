/-
  Models of the two encryption providers (cincoconfig/encryption.py:225-286) as byte-list algebra.
  XorProvider:  `for i, c in zip(range(len(buff)), cycle(key)): buff[i] ^= c`
  AesProvider:  iv = os.urandom(16); PKCS7(128) pad; AES-256-CBC; `iv + ciphertext`
                decrypt: `if not ct or len(ct) < 32: raise`; split IV; CBC decrypt (needs block-aligned input); unpad.
  The block function is a parameter (`BlockCipher`): a hypothesis, not an axiom.
-/
namespace Cinco.Crypto

abbrev Bytes := List UInt8

/-- XOR with the key repeated over the data (an empty key leaves the data unchanged, as `cycle(b"")` yields nothing) -/
def xorKey (key p : Bytes) : Bytes :=
  p.mapIdx (fun i b => match key[i % key.length]? with
    | some k => b ^^^ k
    | none => b)

/-- bytewise XOR of two blocks -/
def xorB (a b : Bytes) : Bytes := List.zipWith (· ^^^ ·) a b

/-- PKCS7 padding to 16-byte blocks: always 1..16 bytes, each equal to the pad length -/
def padLen (n : Nat) : Nat := 16 - n % 16
def pad (p : Bytes) : Bytes := p ++ List.replicate (padLen p.length) (UInt8.ofNat (padLen p.length))

/-- PKCS7 unpadder (`cryptography`): input must be a non-empty multiple of 16; last byte n in 1..16; last n bytes all n -/
def unpad (d : Bytes) : Option Bytes :=
  if d.length = 0 ∨ d.length % 16 ≠ 0 then none else
  match d.getLast? with
  | none => none
  | some l =>
    let n := l.toNat
    if n = 0 ∨ n > 16 then none
    else if (d.drop (d.length - n)).all (· == l) then some (d.take (d.length - n)) else none

structure BlockCipher where
  enc : Bytes → Bytes → Bytes         -- key, block
  dec : Bytes → Bytes → Bytes

/-- what CBC needs from the block function -/
structure BlockCipher.Lawful (C : BlockCipher) : Prop where
  dec_enc : ∀ k b, b.length = 16 → C.dec k (C.enc k b) = b
  enc_len : ∀ k b, b.length = 16 → (C.enc k b).length = 16

/-- cut into 16-byte blocks (the last one may be short) -/
def blocksAux : Nat → Bytes → List Bytes
  | 0, _ => []
  | n + 1, d => if d.isEmpty then [] else d.take 16 :: blocksAux n (d.drop 16)
def blocks (d : Bytes) : List Bytes := blocksAux d.length d

def cbcEnc (C : BlockCipher) (k : Bytes) : Bytes → List Bytes → List Bytes
  | _, [] => []
  | iv, b :: bs => let c := C.enc k (xorB b iv); c :: cbcEnc C k c bs

def cbcDec (C : BlockCipher) (k : Bytes) : Bytes → List Bytes → List Bytes
  | _, [] => []
  | iv, c :: cs => xorB (C.dec k c) iv :: cbcDec C k c cs

/-- `AesProvider.encrypt` with the IV drawn from the random tape made explicit -/
def aesEncrypt (C : BlockCipher) (k iv p : Bytes) : Bytes :=
  iv ++ (cbcEnc C k iv (blocks (pad p))).flatten

inductive DecErr where
  | tooShort        -- EncryptionError("invalid initialization vector")
  | notAligned      -- ValueError from the CBC decryptor's finalize
  | badPadding      -- ValueError from the PKCS7 unpadder
  deriving DecidableEq, Repr

/-- `AesProvider.decrypt` -/
def aesDecrypt (C : BlockCipher) (k ct : Bytes) : Except DecErr Bytes :=
  if ct.length < 32 then .error .tooShort else
  let iv := ct.take 16
  let body := ct.drop 16
  if body.length % 16 ≠ 0 then .error .notAligned else
  match unpad (cbcDec C k iv (blocks body)).flatten with
  | some p => .ok p
  | none => .error .badPadding

end Cinco.Crypto
