import Cinco.Basic.Tree
/-
  Model of `IncludeField.combine_trees` (cincoconfig/fields/include_field.py:83-102), in code order:
      ret = dict(base)
      for key, value in child.items():
          if key in base and isinstance(base[key], dict) and isinstance(value, dict):
              ret[key] = combine_trees(base[key], value)
          else:
              ret[key] = value
-/
namespace Cinco.Include
open Cinco

mutual
  /-- the loop body's right-hand side for one `(key, value)` of `child` -/
  def mergeVal (bv : Option Tree) : Tree → Tree
    | .dict cv => match bv with
        | some (.dict b) => .dict (combineInto b b cv)
        | _ => .dict cv
    | v => v
  /-- the `for` loop: `ret` accumulates, `base` is only read -/
  def combineInto (base ret : Kvs) : Kvs → Kvs
    | [] => ret
    | (k, v) :: rest => combineInto base (Kvs.set k (mergeVal (Kvs.lookup k base) v) ret) rest
end

/-- `combine_trees(base, child)` -/
def combine (base child : Kvs) : Kvs := combineInto base base child

end Cinco.Include

/-
  Model of `Config._process_includes` (cincoconfig/core.py:1374-1413), in code order.
  `resolve v` abstracts `IncludeField.include` up to the merge: validate the file name against
  `FilenameField(exists="file", startdir=…)`, open, read, parse with the same format; `none` = any of
  those failed (→ the load raises), `some child` = the parsed map of the included file.
-/
namespace Cinco.Include

/-- the part of a schema `_process_includes` looks at: include-field keys in schema order, nested schemas in schema order -/
inductive IncSchema where
  | mk (includes : List String) (subs : List (String × IncSchema))
  deriving Repr, Inhabited

inductive IncErr where
  | unresolved      -- include path rejected / unreadable / unparsable: ValidationError or OSError or parser error
  | notAMap         -- `tree.get` on a non-map value given for a nested schema: AttributeError
  deriving DecidableEq, Repr

/-- Python truthiness of a plain-data value -/
def truthy : Tree → Bool
  | .null => false
  | .bool b => b
  | .int i => i != 0
  | .flt (.dy m _) => m != 0
  | .flt .negzero => false
  | .flt _ => true
  | .str s => !s.isEmpty
  | .list xs => !xs.isEmpty
  | .dict kvs => !kvs.isEmpty

/-- the first loop: `for key, field in includes: filename = tree.get(key); if filename is None: continue; tree = include(...)` -/
def processIncs (resolve : Tree → Option Kvs) : List String → Kvs → Except IncErr Kvs
  | [], t => .ok t
  | inc :: rest, t =>
    match Kvs.lookup inc t with
    | none => processIncs resolve rest t
    | some .null => processIncs resolve rest t
    | some fn =>
      match resolve fn with
      | none => .error .unresolved
      | some child => processIncs resolve rest (combine t child)

mutual
  def process (resolve : Tree → Option Kvs) : IncSchema → Kvs → Except IncErr Kvs
    | .mk incs subs, t =>
      match processIncs resolve incs t with
      | .error e => .error e
      | .ok t1 => processSubs resolve subs t1
  /-- the second loop: `for key, sub_schema in sub_schemas: if tree.get(key): tree[key] = _process_includes(sub_schema, tree[key])` -/
  def processSubs (resolve : Tree → Option Kvs) : List (String × IncSchema) → Kvs → Except IncErr Kvs
    | [], t => .ok t
    | (k, s) :: rest, t =>
      match Kvs.lookup k t with
      | some (.dict sub) =>
        if sub.isEmpty then processSubs resolve rest t else
        match process resolve s sub with
        | .error e => .error e
        | .ok sub' => processSubs resolve rest (Kvs.set k (.dict sub') t)
      | some _ => processSubs resolve rest t        -- anything but a map is left for load_tree to reject
      | none => processSubs resolve rest t
end

end Cinco.Include
