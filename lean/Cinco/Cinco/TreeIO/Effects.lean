/-
  A tiny effect IR for the straight-line I/O methods of `Config` (`save`, `dumps`, `load`, `loads`) and its
  semantics over the destination file with fault injection.  The *programs* are generated from the source on
  every run (Cinco/Generated/Effects.lean); this file is the hand-written interpreter the C19/C06 theorems use.
-/
namespace Cinco.Effects

abbrev Bytes := List UInt8

inductive Eff where
  | call (target fn : String)     -- `target = fn(...)` (target "" when the result is not bound to a plain name)
  | openW (path : String)         -- `with open(path, "wb")`: creates or truncates
  | openR (path : String)
  | write (arg : String)          -- `file.write(arg)` inside the with block
  | read
  | close
  | unknown (what : String)       -- syntax the translator does not understand: anything may happen
  deriving DecidableEq, Repr

/-- what the destination holds -/
inductive Dest where
  | untouched                     -- byte-for-byte (and existence) as before the call
  | truncated
  | written (b : Bytes)
  | garbage
  deriving DecidableEq, Repr

structure St where
  dest : Dest := .untouched
  opened : Bool := false
  contentVar : Option String := none     -- the variable holding what `self.dumps` returned
  raised : Bool := false
  deriving DecidableEq, Repr

def step (content : Bytes) (s : St) : Eff → St
  | .call tgt fn =>
      if fn = "self.dumps" then { s with contentVar := if tgt = "" then none else some tgt }
      else if tgt ≠ "" ∧ some tgt = s.contentVar then { s with contentVar := none } else s
  | .openW _ => { s with dest := .truncated, opened := true }
  | .openR _ => s
  | .write arg =>
      if s.opened then
        (if s.contentVar = some arg then { s with dest := .written content } else { s with dest := .garbage })
      else { s with raised := true }
  | .read => s
  | .close => { s with opened := false }
  | .unknown _ => { s with dest := .garbage }

/-- run `prog` from index `i`; the effect at index `fault` raises instead of happening (the `with` block then closes the file) -/
def exec (content : Bytes) (fault : Option Nat) : Nat → St → List Eff → St
  | _, s, [] => s
  | i, s, e :: rest =>
    if fault = some i then { s with raised := true, opened := false }
    else exec content fault (i + 1) (step content s e) rest

/-- effects that cannot change the destination -/
def harmless : Eff → Bool
  | .call _ _ => true
  | .openR _ => true
  | .read => true
  | .close => true
  | _ => false

/-- index of the first effect that can touch the destination -/
def firstUnsafe (prog : List Eff) : Nat := (prog.takeWhile harmless).length

def isCall (fn : String) : Eff → Bool
  | .call _ f => f == fn
  | _ => false

end Cinco.Effects
