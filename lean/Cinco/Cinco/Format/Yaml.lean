import Cinco.Basic.Tree
/-
  Model of the root-key wrapping of YamlConfigFormat.dumps/loads (cincoconfig/formats/yaml.py:70-103)
  around an abstract YAML codec.
-/
namespace Cinco.Yaml
open Cinco

/-- `if self.root_key: tree = {self.root_key: tree}` (a falsy root key — None or "" — wraps nothing) -/
def wrap (rootKey : Option String) (tree : Kvs) : Kvs :=
  match rootKey with
  | some k => if k.isEmpty then tree else [(k, .dict tree)]
  | none => tree

/-- `if self.root_key and self.root_key in tree: tree = tree[self.root_key]` -/
def unwrap (rootKey : Option String) (tree : Kvs) : Tree :=
  match rootKey with
  | some k => if k.isEmpty then .dict tree else
      match Kvs.lookup k tree with
      | some v => v
      | none => .dict tree
  | none => .dict tree

end Cinco.Yaml
