import Cinco.Basic.Str
import Cinco.Generated.Tables
/-
  Model of XmlConfigFormat._to_element / _from_element / the root-tag check of loads
  (cincoconfig/formats/xml.py:49-189) over an abstract element tree.  `isinstance` order is the code's:
  str, bool (before int), int, float, None, list, dict.
  Float text is a parameter (`repr(float)` / `float(text)` are CPython's); int text is modelled.
-/
namespace Cinco.Xml
open Cinco Cinco.Str

inductive Elem where
  | mk (tag : String) (type : Option String) (text : Option Str) (children : List Elem)
  deriving Repr, Inhabited

def Elem.tag : Elem → String | .mk t _ _ _ => t

structure FloatText where
  print : Flt → Str              -- str(x)
  parse : Str → Option Flt       -- float(text), none = ValueError

def trueText : Str := ['t', 'r', 'u', 'e']
def falseText : Str := ['f', 'a', 'l', 's', 'e']

mutual
  def toElement (ft : FloatText) (key : String) : Tree → Elem
    | .str s => .mk key (some "str") (some s) []
    | .bool b => .mk key (some "bool") (some (if b then trueText else falseText)) []
    | .int i => .mk key (some "int") (some (intRepr i)) []
    | .flt f => .mk key (some "float") (some (ft.print f)) []
    | .null => .mk key (some "none") none []
    | .list xs => .mk key (some "list") none (toItems ft xs)
    | .dict kvs => .mk key (some "dict") none (toEntries ft kvs)
  def toItems (ft : FloatText) : List Tree → List Elem
    | [] => []
    | x :: xs => toElement ft "item" x :: toItems ft xs
  def toEntries (ft : FloatText) : List (String × Tree) → List Elem
    | [] => []
    | (k, v) :: rest => toElement ft k v :: toEntries ft rest
end

def inTable (tbl : List String) (s : Str) : Bool := tbl.contains (String.ofList s)

mutual
  /-- `_from_element(ele, py_type)`; `forced` is the `py_type` argument -/
  def fromElement (ft : FloatText) (forced : Option String) : Elem → Tree
    | .mk _ ty text children =>
      let pyType := match forced with
        | some t => if t.isEmpty then ty else some t        -- `py_type or ele.attrib.get("type")`
        | none => ty
      let txt := text.getD []                                 -- `ele.text or ""`
      match pyType with
      | some "str" => .str txt
      | some "bool" =>
          if inTable Generated.trueValues (lower txt) then .bool true
          else if inTable Generated.falseValues (lower txt) then .bool false
          else .str txt
      | some "int" => match pyInt txt with
          | some i => .int i
          | none => .str txt
      | some "float" => match ft.parse txt with
          | some f => .flt f
          | none => .str txt
      | some "none" => .null
      | some "list" => .list (fromItems ft children)
      | some "dict" => .dict (fromEntries ft [] children)
      | _ => .str txt
  def fromItems (ft : FloatText) : List Elem → List Tree
    | [] => []
    | e :: rest => fromElement ft none e :: fromItems ft rest
  /-- `for sub in ele: value[sub.tag] = _from_element(sub)` -/
  def fromEntries (ft : FloatText) (acc : Kvs) : List Elem → Kvs
    | [] => acc
    | e :: rest => fromEntries ft (Kvs.set e.tag (fromElement ft none e) acc) rest
end

/-- `dumps`: the element handed to the pretty printer -/
def dumpsElem (ft : FloatText) (rootTag : String) (tree : Kvs) : Elem := toElement ft rootTag (.dict tree)

/-- `loads` after parsing: root tag check, then `_from_element(root, "dict")` -/
def loadsElem (ft : FloatText) (rootTag : String) (root : Elem) : Option Tree :=
  if root.tag != rootTag then none else some (fromElement ft (some "dict") root)

end Cinco.Xml
