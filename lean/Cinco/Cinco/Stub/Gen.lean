/-
  Model of `cincoconfig/stubs.py` (C20): `get_annotation_typestr`, `get_method_annotation`, `generate_stub`.
  Core Lean only.  A stub is modelled twice: as a small declaration tree (`Stub`) and as the lines of text
  that `generate_stub` joins with "\n" (`Stub.lines`).  Python's own reading of a parameter list with
  its `/` and `*` markers is `readKinds`.
-/
namespace Cinco.Stub

/-- What `get_annotation_typestr` is handed, after the `isinstance` dispatch at the top of the function:
    a class (builtin or qualified), or something whose `str()` is the annotation. -/
inductive Ty where
  | builtin (name : String)                 -- `isinstance(storage_type, type)`, module `builtins`
  | named (module name : String)            -- any other class: `module.__name__`
  | noneT                                   -- annotation `None`
  | text (s : String)                       -- a string annotation, rendered as is ("" means typing.Any)
  | generic (base : String) (args : List Ty) -- typing generic: `str()` gives `base[arg, arg]`
deriving Repr, Inhabited

mutual
/-- `typing._type_repr` / `str()` of a typing object. -/
def Ty.repr : Ty → String
  | .builtin n => n
  | .named m n => m ++ "." ++ n
  | .noneT => "None"
  | .text s => s
  | .generic b args => b ++ "[" ++ ", ".intercalate (Ty.reprs args) ++ "]"
def Ty.reprs : List Ty → List String
  | [] => []
  | t :: r => Ty.repr t :: Ty.reprs r
end

/-- `get_annotation_typestr`: `retval or "typing.Any"`. -/
def typestr (t : Ty) : String :=
  let s := t.repr
  if s = "" then "typing.Any" else s

inductive PKind where
  | posOnly | pos | varArgs | kwOnly | varKw
deriving DecidableEq, Repr, Inhabited

structure Param where
  name : String
  annot : Option Ty
deriving Repr, Inhabited

/-- The bound function as `inspect` reports it.  `posonly ++ pos` starts with the configuration parameter. -/
structure Method where
  posonly : List Param
  pos : List Param
  varargs : Option String
  kwonly : List Param
  varkw : Option String
  /-- `none`: no return annotation; `some none`: one that `get_annotation_typestr` rejects (rendered as nothing). -/
  ret : Option (Option Ty)
deriving Repr, Inhabited

/-- One entry of a rendered parameter list. -/
inductive Item where
  | plain (name : String) (ty : Option String)
  | slash
  | star
  | starArgs (name : String)
  | starKw (name : String)
deriving DecidableEq, Repr, Inhabited

def Item.render : Item → String
  | .plain n none => n
  | .plain n (some t) => n ++ ": " ++ t
  | .slash => "/"
  | .star => "*"
  | .starArgs n => "*" ++ n
  | .starKw n => "**" ++ n

/-- An argument of `args`: annotated → its type string, otherwise `typing.Any`. -/
def argItem (p : Param) : Item :=
  .plain p.name (some (match p.annot with | some t => typestr t | none => "typing.Any"))

/-- the `*` / `*args` entry appended to `args` when there are keyword-only parameters, then those parameters;
    otherwise `*args` after the loop -/
def starPart (m : Method) : List Item :=
  match m.kwonly, m.varargs with
  | [], none => []
  | [], some v => [.starArgs v]
  | k :: ks, none => .star :: (k :: ks).map argItem
  | k :: ks, some v => .starArgs v :: (k :: ks).map argItem

def kwPart (m : Method) : List Item :=
  match m.varkw with
  | none => []
  | some k => [.starKw k]

def baseItems (m : Method) : List Item :=
  (m.posonly ++ m.pos).map argItem ++ starPart m ++ kwPart m

/-- `items[0] = "self"` -/
def setFirstSelf : List Item → List Item
  | [] => []
  | _ :: r => .plain "self" none :: r

/-- the positional-only marker goes after the last positional-only parameter -/
def insertSlash (n : Nat) (items : List Item) : List Item :=
  if n = 0 then items else items.take n ++ .slash :: items.drop n

def items (m : Method) : List Item :=
  insertSlash m.posonly.length (setFirstSelf (baseItems m))

/-- ` -> typestr` or nothing -/
def retStr (m : Method) : String :=
  match m.ret with
  | some (some t) => " -> " ++ typestr t
  | _ => ""

/-- `get_method_annotation` -/
def methodLine (key : String) (m : Method) : String :=
  "def " ++ key ++ "(" ++ ", ".intercalate ((items m).map Item.render) ++ ")" ++ retStr m ++ ": ..."

/-! ### How Python reads a parameter list -/

def hasSlash : List Item → Bool
  | [] => false
  | .slash :: _ => true
  | _ :: r => hasSlash r

/-- Names and kinds declared by a parameter list: everything before `/` is positional-only, everything
    after `*` or `*args` keyword-only. -/
def readFrom : (beforeSlash star : Bool) → List Item → List (String × PKind)
  | _, _, [] => []
  | bs, st, .plain n _ :: r =>
      (n, if bs then .posOnly else if st then .kwOnly else .pos) :: readFrom bs st r
  | _, st, .slash :: r => readFrom false st r
  | bs, _, .star :: r => readFrom bs true r
  | bs, _, .starArgs n :: r => (n, .varArgs) :: readFrom bs true r
  | bs, st, .starKw n :: r => (n, .varKw) :: readFrom bs st r

def readKinds (l : List Item) : List (String × PKind) := readFrom (hasSlash l) false l

/-- Names and kinds of the bound function (what `inspect.signature` reports). -/
def declared (m : Method) : List (String × PKind) :=
  m.posonly.map (fun p => (p.name, .posOnly)) ++ m.pos.map (fun p => (p.name, .pos)) ++
  (match m.varargs with | some v => [(v, .varArgs)] | none => []) ++
  m.kwonly.map (fun p => (p.name, .kwOnly)) ++
  (match m.varkw with | some k => [(k, .varKw)] | none => [])

/-- the first parameter is the configuration; the stub calls it `self` -/
def renameFirst : List (String × PKind) → List (String × PKind)
  | [] => []
  | (_, k) :: r => ("self", k) :: r

/-! ### The stub -/

inductive SF where
  | attr (ty : Ty)        -- any persistent field (Field, Schema, ConfigTypeField)
  | virt (ty : Ty)        -- VirtualField
  | meth (m : Method)     -- InstanceMethodField
deriving Repr, Inhabited

abbrev Fields := List (String × SF)

structure MethodDecl where
  name : String
  params : List Item
  ret : String
deriving Repr, Inhabited

structure Stub where
  className : String
  attrs : List (String × String)     -- annotated class attributes, in order
  init : List (String × String)      -- constructor parameters after `self`
  methods : List MethodDecl
deriving Repr, Inhabited

def attrsOf : Fields → List (String × String)
  | [] => []
  | (k, .attr t) :: r => (k, typestr t) :: attrsOf r
  | (k, .virt t) :: r => (k, typestr t) :: attrsOf r
  | (_, .meth _) :: r => attrsOf r

def initOf : Fields → List (String × String)
  | [] => []
  | (k, .attr t) :: r => (k, typestr t) :: initOf r
  | (_, .virt _) :: r => initOf r
  | (_, .meth _) :: r => initOf r

def methodsOf : Fields → List MethodDecl
  | [] => []
  | (k, .meth m) :: r => ⟨k, items m, retStr m⟩ :: methodsOf r
  | (_, _) :: r => methodsOf r

/-- `generate_stub` as a declaration tree -/
def generate (cls : String) (fs : Fields) : Stub :=
  { className := cls, attrs := attrsOf fs, init := initOf fs, methods := methodsOf fs }

def annot (p : String × String) : String := p.1 ++ ": " ++ p.2

def indent (s : String) : String := "    " ++ s

def MethodDecl.line (d : MethodDecl) : String :=
  indent ("def " ++ d.name ++ "(" ++ ", ".intercalate (d.params.map Item.render) ++ ")" ++ d.ret ++ ": ...")

/-- the `blocks` list of `generate_stub` -/
def Stub.lines (s : Stub) : List String :=
  ["class " ++ s.className ++ "(cincoconfig.core.ConfigType):"] ++
  s.attrs.map (fun p => indent (annot p)) ++ [""] ++
  [indent ("def __init__(" ++ ", ".intercalate ("self" :: s.init.map annot) ++ "): ...")] ++
  (if s.methods.isEmpty then [] else [""]) ++
  s.methods.map MethodDecl.line

/-- side effects of a call to `generate_stub` that a caller can observe -/
inductive Effect where
  | stdout (text : String)
  | schemaWrite (what : String)
deriving DecidableEq, Repr

/-- The model's `generate_stub`: text plus effects. -/
def generateStub (cls : String) (fs : Fields) : List String × List Effect :=
  ((generate cls fs).lines, [])

end Cinco.Stub
