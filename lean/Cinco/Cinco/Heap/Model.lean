/-
  C13 — a heap model with ghost ownership, in which aliasing between a schema's mutable defaults and the
  configurations built from it is expressible.  Self-contained (core only).

  * Addresses are positions in the cell list: the heap is the association list `[(0,·),(1,·),…]` with the keys
    left implicit, so `next = cells.length` can never get out of sync with the allocated addresses.
  * Every cell carries a ghost `Owner` (`schema` or the index of the *root* configuration that holds it).
    Ownership never influences an operation's result; it is only read by the invariant `Sep`.
  * `Schemas` is an immutable parameter of `step`: by construction no operation can change the declared field
    set / field options (the harness checks the real schema's field table separately).
-/
namespace Cinco.Heap

/-- addresses are natural numbers (positions in the cell list); written `Nat` below so that `omega` sees them -/
abbrev Addr := Nat
abbrev Atom := String

inductive HVal where
  | atom (a : Atom)
  | ref (a : Nat)
  | null
  deriving DecidableEq, Repr, Inhabited

abbrev Slots := List (String × HVal)

inductive Cell where
  | list (items : List HVal)
  | dict (kvs : Slots)
  | cfg (schema : Nat) (slots : Slots) (dyn : List String)
  deriving DecidableEq, Repr, Inhabited

/-- the values stored in a cell (the out-edges of the heap graph are the `ref`s among them) -/
def Cell.kids : Cell → List HVal
  | .list items => items
  | .dict kvs => kvs.map (·.2)
  | .cfg _ slots _ => slots.map (·.2)

inductive Owner where
  | schema
  | cfg (i : Nat)
  deriving DecidableEq, Repr, Inhabited

structure Heap where
  cells : List (Owner × Cell) := []
  deriving Repr, Inhabited

namespace Heap
def next (h : Heap) : Nat := h.cells.length
def get? (h : Heap) (a : Nat) : Option (Owner × Cell) := h.cells[a]?
def cell? (h : Heap) (a : Nat) : Option Cell := (h.get? a).map (·.2)
def owner? (h : Heap) (a : Nat) : Option Owner := (h.get? a).map (·.1)
/-- allocation: the new cell gets address `next`; afterwards `next` is one larger -/
def alloc (h : Heap) (o : Owner) (c : Cell) : Nat × Heap := (h.next, ⟨h.cells ++ [(o, c)]⟩)
/-- in-place update of an allocated cell (the ghost owner is kept); no effect on an unallocated address -/
def write (h : Heap) (a : Nat) (c : Cell) : Heap := ⟨h.cells.modify a (fun p => (p.1, c))⟩
end Heap

/-! ### plain data -/

inductive Tree where
  | null
  | atom (s : Atom)
  | list (ts : List Tree)
  | dict (kvs : List (String × Tree))
  deriving Repr, Inhabited

mutual
  def Tree.beq : Tree → Tree → Bool
    | .null, .null => true
    | .atom a, .atom b => a == b
    | .list a, .list b => Tree.beqList a b
    | .dict a, .dict b => Tree.beqKvs a b
    | _, _ => false
  def Tree.beqList : List Tree → List Tree → Bool
    | [], [] => true
    | a :: as, b :: bs => Tree.beq a b && Tree.beqList as bs
    | _, _ => false
  def Tree.beqKvs : List (String × Tree) → List (String × Tree) → Bool
    | [], [] => true
    | (k, a) :: as, (k', b) :: bs => k == k' && Tree.beq a b && Tree.beqKvs as bs
    | _, _ => false
end

/-! ### association lists -/

def lookup {α : Type} (k : String) : List (String × α) → Option α
  | [] => none
  | (k', v) :: r => if k' = k then some v else lookup k r

/-- replace the first binding of `k`, or append a new one (Python dict assignment keeps the position) -/
def put {α : Type} (k : String) (v : α) : List (String × α) → List (String × α)
  | [] => [(k, v)]
  | (k', v') :: r => if k' = k then (k, v) :: r else (k', v') :: put k v r

/-! ### schema table -/

inductive Disc where
  | alias | shallow | deep
  deriving DecidableEq, Repr, Inhabited

inductive FieldDecl where
  | leaf (disc : Disc) (default : HVal)
  | sub (schema : Nat)
  | cfgList (schema : Nat)
  deriving DecidableEq, Repr, Inhabited

structure SchemaDecl where
  fields : List (String × FieldDecl)
  dynamic : Bool
  deriving Repr, Inhabited

abbrev Schemas := List SchemaDecl

/-- declaration-level input: defaults are still plain trees -/
inductive FieldSpec where
  | leaf (disc : Disc) (default : Tree)
  | sub (schema : Nat)
  | cfgList (schema : Nat)
  deriving Repr, Inhabited

structure SchemaSpec where
  fields : List (String × FieldSpec)
  dynamic : Bool
  deriving Repr, Inhabited

/-! ### allocation of plain data -/

mutual
  /-- allocate a fresh copy of a tree, every new cell owned by `o` -/
  def allocT (o : Owner) : Tree → Heap → HVal × Heap
    | .null, h => (.null, h)
    | .atom s, h => (.atom s, h)
    | .list ts, h =>
      let r := allocTs o ts h
      let p := r.2.alloc o (.list r.1)
      (.ref p.1, p.2)
    | .dict kvs, h =>
      let r := allocKvs o kvs h
      let p := r.2.alloc o (.dict r.1)
      (.ref p.1, p.2)
  def allocTs (o : Owner) : List Tree → Heap → List HVal × Heap
    | [], h => ([], h)
    | t :: ts, h =>
      let r := allocT o t h
      let rs := allocTs o ts r.2
      (r.1 :: rs.1, rs.2)
  def allocKvs (o : Owner) : List (String × Tree) → Heap → Slots × Heap
    | [], h => ([], h)
    | (k, t) :: ts, h =>
      let r := allocT o t h
      let rs := allocKvs o ts r.2
      ((k, r.1) :: rs.1, rs.2)
end

/-! ### deep read -/

/-- deep read with fuel (depth bound); atoms and `null` need no fuel, an exhausted or dangling reference reads `null`.
    A configuration cell reads as the dict of its slots, in order. -/
def readV : Nat → Heap → HVal → Tree
  | _, _, .null => .null
  | _, _, .atom s => .atom s
  | 0, _, .ref _ => .null
  | n + 1, h, .ref a =>
    match h.cell? a with
    | none => .null
    | some (.list items) => .list (items.map (fun v => readV n h v))
    | some (.dict kvs) => .dict (kvs.map (fun p => (p.1, readV n h p.2)))
    | some (.cfg _ slots _) => .dict (slots.map (fun p => (p.1, readV n h p.2)))

/-! ### copying defaults -/

def threadL (f : HVal → Heap → HVal × Heap) : List HVal → Heap → List HVal × Heap
  | [], h => ([], h)
  | v :: vs, h =>
    let r := f v h
    let rs := threadL f vs r.2
    (r.1 :: rs.1, rs.2)

def threadK (f : HVal → Heap → HVal × Heap) : Slots → Heap → Slots × Heap
  | [], h => ([], h)
  | (k, v) :: vs, h =>
    let r := f v h
    let rs := threadK f vs r.2
    ((k, r.1) :: rs.1, rs.2)

/-- deep copy (`copy.deepcopy` of plain data): every reachable list/dict is copied into a new cell owned by `o`.
    Fuel-bounded; on exhaustion (or on a dangling reference) the copy is `null`, never an alias. -/
def copyV (o : Owner) : Nat → HVal → Heap → HVal × Heap
  | _, .null, h => (.null, h)
  | _, .atom s, h => (.atom s, h)
  | 0, .ref _, h => (.null, h)
  | n + 1, .ref a, h =>
    match h.cell? a with
    | some (.list items) =>
      let r := threadL (copyV o n) items h
      let p := r.2.alloc o (.list r.1)
      (.ref p.1, p.2)
    | some (.dict kvs) =>
      let r := threadK (copyV o n) kvs h
      let p := r.2.alloc o (.dict r.1)
      (.ref p.1, p.2)
    | some (.cfg k slots dyn) =>
      let r := threadK (copyV o n) slots h
      let p := r.2.alloc o (.cfg k r.1 dyn)
      (.ref p.1, p.2)
    | none => (.null, h)

/-- shallow copy (`list(x)` / `dict(x)` / `copy.copy`): a new top-level container holding the *same* item values -/
def shallowV (o : Owner) (v : HVal) (h : Heap) : HVal × Heap :=
  match v with
  | .ref a =>
    match h.cell? a with
    | some (.list items) => let p := h.alloc o (.list items); (.ref p.1, p.2)
    | some (.dict kvs) => let p := h.alloc o (.dict kvs); (.ref p.1, p.2)
    | _ => (v, h)
  | _ => (v, h)

/-- how a declared default reaches a configuration slot -/
def storeDefault (o : Owner) (d : Disc) (v : HVal) (h : Heap) : HVal × Heap :=
  match d with
  | .alias => (v, h)
  | .shallow => shallowV o v h
  | .deep => copyV o h.next v h

/-! ### building configurations -/

def buildFields (rec : Nat → Heap → HVal × Heap) (o : Owner) : List (String × FieldDecl) → Heap → Slots × Heap
  | [], h => ([], h)
  | (name, d) :: fs, h =>
    let r : HVal × Heap := match d with
      | .leaf disc dv => storeDefault o disc dv h
      | .sub s => rec s h
      | .cfgList _ => let p := h.alloc o (.list []); (.ref p.1, p.2)
    let rs := buildFields rec o fs r.2
    ((name, r.1) :: rs.1, rs.2)

/-- `schema()`: slots first (in field order), then the configuration cell.  The fuel bounds the nesting depth of
    sub-schemas; `S.length + 1` is enough for every non-cyclic schema table. -/
def buildCfg (S : Schemas) (o : Owner) : Nat → Nat → Heap → HVal × Heap
  | 0, _, h => (.null, h)
  | n + 1, k, h =>
    match S[k]? with
    | none => (.null, h)
    | some sd =>
      let r := buildFields (fun s h' => buildCfg S o n s h') o sd.fields h
      let p := r.2.alloc o (.cfg k r.1 [])
      (.ref p.1, p.2)

/-! ### operations -/

/-- a step from a configuration to a sub-configuration: a `sub` field, or the `n`-th item of a `cfgList` field -/
inductive PStep where
  | fld (name : String)
  | item (name : String) (n : Nat)
  deriving DecidableEq, Repr, Inhabited

inductive VStep where
  | idx (n : Nat)
  | key (k : String)
  deriving DecidableEq, Repr, Inhabited

inductive How where
  | append (t : Tree)
  | setKey (k : String) (t : Tree)
  | clear
  | pop
  deriving Repr, Inhabited

inductive Op where
  | build
  | set (path : List PStep) (key : String) (value : Tree)
  | mut (path : List PStep) (key : String) (steps : List VStep) (how : How)
  | reset (path : List PStep) (key : String)
  | addItem (path : List PStep) (key : String)
  deriving Repr, Inhabited

def Op.path : Op → List PStep
  | .build => []
  | .set p _ _ => p
  | .mut p _ _ _ => p
  | .reset p _ => p
  | .addItem p _ => p

inductive Outcome where
  | ok | attr | index | key | type | nocfg
  deriving DecidableEq, Repr, Inhabited

/-- follow sub-configuration steps from the configuration cell `c`; the result is a configuration cell -/
def navCfg (h : Heap) : Nat → List PStep → Except Outcome Nat
  | c, [] =>
    match h.cell? c with
    | some (.cfg _ _ _) => .ok c
    | _ => .error .type
  | c, .fld name :: rest =>
    match h.cell? c with
    | some (.cfg _ slots _) =>
      match lookup name slots with
      | some (.ref b) => navCfg h b rest
      | some _ => .error .type
      | none => .error .attr
    | _ => .error .type
  | c, .item name n :: rest =>
    match h.cell? c with
    | some (.cfg _ slots _) =>
      match lookup name slots with
      | some (.ref l) =>
        match h.cell? l with
        | some (.list items) =>
          match items[n]? with
          | some (.ref b) => navCfg h b rest
          | some _ => .error .type
          | none => .error .index
        | _ => .error .type
      | some _ => .error .type
      | none => .error .attr
    | _ => .error .type

/-- follow index / key steps through lists and dicts (never through a configuration); must end at a reference -/
def navVal (h : Heap) : HVal → List VStep → Except Outcome Nat
  | .ref a, [] => .ok a
  | .ref a, .idx n :: rest =>
    match h.cell? a with
    | some (.list items) =>
      match items[n]? with
      | some v => navVal h v rest
      | none => .error .index
    | _ => .error .type
  | .ref a, .key k :: rest =>
    match h.cell? a with
    | some (.dict kvs) =>
      match lookup k kvs with
      | some v => navVal h v rest
      | none => .error .key
    | _ => .error .type
  | _, _ => .error .type

/-- in-place mutation of the container at `a`; new values are allocated for owner `o` -/
def applyHow (o : Owner) (h : Heap) (a : Nat) : How → Except Outcome Heap
  | .append t =>
    match h.cell? a with
    | some (.list items) => let r := allocT o t h; .ok (r.2.write a (.list (items ++ [r.1])))
    | _ => .error .type
  | .setKey k t =>
    match h.cell? a with
    | some (.dict kvs) => let r := allocT o t h; .ok (r.2.write a (.dict (put k r.1 kvs)))
    | _ => .error .type
  | .clear =>
    match h.cell? a with
    | some (.list _) => .ok (h.write a (.list []))
    | some (.dict _) => .ok (h.write a (.dict []))
    | _ => .error .type
  | .pop =>
    match h.cell? a with
    | some (.list items) => if items.isEmpty then .error .index else .ok (h.write a (.list items.dropLast))
    | _ => .error .type

def declOf (S : Schemas) (k : Nat) (key : String) : Option FieldDecl :=
  match S[k]? with
  | some sd => lookup key sd.fields
  | none => none

def isDynamic (S : Schemas) (k : Nat) : Bool :=
  match S[k]? with
  | some sd => sd.dynamic
  | none => false

def buildFuel (S : Schemas) : Nat := S.length + 1

/-- one operation on the configuration cell `c` (already reached through the path), for owner `o` -/
def execOp (S : Schemas) (o : Owner) (h : Heap) (c : Nat) : Op → Except Outcome Heap
  | .build => .error .type
  | .set _ key t =>
    match h.cell? c with
    | some (.cfg k slots dyn) =>
      match declOf S k key with
      | some (.leaf _ _) => let r := allocT o t h; .ok (r.2.write c (.cfg k (put key r.1 slots) dyn))
      | some _ => .error .type
      | none =>
        if isDynamic S k then
          let r := allocT o t h
          .ok (r.2.write c (.cfg k (put key r.1 slots) (if dyn.contains key then dyn else dyn ++ [key])))
        else .error .attr
    | _ => .error .type
  | .mut _ key steps how =>
    match h.cell? c with
    | some (.cfg _ slots _) =>
      match lookup key slots with
      | some v =>
        match navVal h v steps with
        | .ok a => applyHow o h a how
        | .error e => .error e
      | none => .error .attr
    | _ => .error .type
  | .reset _ key =>
    match h.cell? c with
    | some (.cfg k slots dyn) =>
      match declOf S k key with
      | some (.leaf disc dv) => let r := storeDefault o disc dv h; .ok (r.2.write c (.cfg k (put key r.1 slots) dyn))
      | some _ => .error .type
      | none => .error .attr
    | _ => .error .type
  | .addItem _ key =>
    match h.cell? c with
    | some (.cfg k slots _) =>
      match declOf S k key with
      | some (.cfgList s) =>
        match lookup key slots with
        | some (.ref l) =>
          match h.cell? l with
          | some (.list items) =>
            let r := buildCfg S o (buildFuel S) s h
            .ok (r.2.write l (.list (items ++ [r.1])))
          | _ => .error .type
        | _ => .error .type
      | some _ => .error .type
      | none => .error .attr
    | _ => .error .type

structure State where
  heap : Heap
  /-- addresses of the root configurations, in build order -/
  roots : List Nat
  deriving Repr, Inhabited

/-- `step S s i op`: operation `op` on root configuration number `i`.
    `build` creates root number `i` from schema 0 and is only accepted for `i = number of roots so far`. -/
def step (S : Schemas) (s : State) (i : Nat) (op : Op) : State × Outcome :=
  match op with
  | .build =>
    if i = s.roots.length then
      let r := buildCfg S (.cfg i) (buildFuel S) 0 s.heap
      match r.1 with
      | .ref a => ({ heap := r.2, roots := s.roots ++ [a] }, .ok)
      | _ => (s, .nocfg)
    else (s, .nocfg)
  | op =>
    match s.roots[i]? with
    | none => (s, .nocfg)
    | some r =>
      match navCfg s.heap r op.path with
      | .error e => (s, e)
      | .ok c =>
        match execOp S (.cfg i) s.heap c op with
        | .ok h' => ({ s with heap := h' }, .ok)
        | .error e => (s, e)

def run (S : Schemas) (s : State) : List (Nat × Op) → State
  | [] => s
  | (i, op) :: rest => run S (step S s i op).1 rest

/-- all operations on one root -/
def runOn (S : Schemas) (s : State) (i : Nat) (ops : List Op) : State := run S s (ops.map (fun o => (i, o)))

/-! ### initial state -/

def compileFields : List (String × FieldSpec) → Heap → List (String × FieldDecl) × Heap
  | [], h => ([], h)
  | (name, .leaf d t) :: fs, h =>
    let r := allocT .schema t h
    let rs := compileFields fs r.2
    ((name, .leaf d r.1) :: rs.1, rs.2)
  | (name, .sub s) :: fs, h => let rs := compileFields fs h; ((name, .sub s) :: rs.1, rs.2)
  | (name, .cfgList s) :: fs, h => let rs := compileFields fs h; ((name, .cfgList s) :: rs.1, rs.2)

def compile : List SchemaSpec → Heap → Schemas × Heap
  | [], h => ([], h)
  | sp :: sps, h =>
    let r := compileFields sp.fields h
    let rs := compile sps r.2
    ({ fields := r.1, dynamic := sp.dynamic } :: rs.1, rs.2)

/-- the schema table with the declared default trees allocated (owner `schema`) -/
def initS (specs : List SchemaSpec) : Schemas := (compile specs {}).1
/-- the initial state: only the declared defaults are on the heap, no configuration yet -/
def init (specs : List SchemaSpec) : State := { heap := (compile specs {}).2, roots := [] }

/-! ### observations -/

def obsCfgN (n : Nat) (h : Heap) (r : Nat) : Tree := readV n h (.ref r)
/-- deep read of a configuration; the fuel `next + 1` exceeds the depth of every acyclic heap (see `Bounded`) -/
def obsCfg (h : Heap) (r : Nat) : Tree := obsCfgN (h.next + 1) h r

def obsDyn (h : Heap) (r : Nat) : List String :=
  match h.cell? r with
  | some (.cfg _ _ dyn) => dyn
  | _ => []

def leafDefaults : List (String × FieldDecl) → List (String × HVal)
  | [] => []
  | (n, .leaf _ v) :: fs => (n, v) :: leafDefaults fs
  | _ :: fs => leafDefaults fs

def obsDefaultsN (n : Nat) (h : Heap) (S : Schemas) : List (List (String × Tree)) :=
  S.map (fun sd => (leafDefaults sd.fields).map (fun p => (p.1, readV n h p.2)))
def obsDefaults (h : Heap) (S : Schemas) : List (List (String × Tree)) := obsDefaultsN (h.next + 1) h S

/-- the declared field names.  `Schemas` is a parameter of `step`, never part of the state, so the declared field set and
    the field options are immutable by construction. -/
def fieldNames (S : Schemas) : List (List String) := S.map (fun sd => sd.fields.map (·.1))

def State.cfg (s : State) (j : Nat) : Option Tree := (s.roots[j]?).map (obsCfg s.heap)
def State.cfgN (n : Nat) (s : State) (j : Nat) : Option Tree := (s.roots[j]?).map (obsCfgN n s.heap)
def State.dyn (s : State) (j : Nat) : Option (List String) := (s.roots[j]?).map (obsDyn s.heap)

/-- the whole world of a run: the schema table and the state.  `step` returns only a new `State`; the table is passed through
    untouched, which is the model-level reason why no operation can change the declared field set or the field options. -/
def stepWorld (w : Schemas × State) (i : Nat) (op : Op) : Schemas × State := (w.1, (step w.1 w.2 i op).1)

def runWorld (w : Schemas × State) : List (Nat × Op) → Schemas × State
  | [] => w
  | (i, op) :: rest => runWorld (stepWorld w i op) rest

/-! ### what a freshly built configuration must read as -/

/-- the read of a fresh empty list at fuel `n` -/
def emptyListAt : Nat → Tree
  | 0 => .null
  | _ + 1 => .list []

def pristineFields (rd : HVal → Tree) (sub : Nat → Tree) (el : Tree) : List (String × FieldDecl) → List (String × Tree)
  | [] => []
  | (name, .leaf _ dv) :: fs => (name, rd dv) :: pristineFields rd sub el fs
  | (name, .sub s) :: fs => (name, sub s) :: pristineFields rd sub el fs
  | (name, .cfgList _) :: fs => (name, el) :: pristineFields rd sub el fs

/-- `pristine S rd bf n k`: the deep read, at fuel `n`, of a configuration of schema `k` built with build fuel `bf`,
    as a function of the schema table and of the reads `rd` of the declared defaults only -/
def pristine (S : Schemas) (rd : Nat → HVal → Tree) : Nat → Nat → Nat → Tree
  | 0, _, _ => .null
  | _ + 1, 0, _ => .null
  | bf + 1, n + 1, k =>
    match S[k]? with
    | none => .null
    | some sd => .dict (pristineFields (rd n) (fun s => pristine S rd bf n s) (emptyListAt n) sd.fields)

/-! ### the invariant (`Sep`) and the hypotheses of the C13 theorems -/

def HVal.isRef : HVal → Bool
  | .ref _ => true
  | _ => false

/-- every leaf of every schema copies its default deeply, or its default is not a container at all -/
def AllDeep (S : Schemas) : Prop :=
  ∀ sd ∈ S, ∀ name disc dv, (name, FieldDecl.leaf disc dv) ∈ sd.fields → disc = .deep ∨ dv.isRef = false

/-- a value that is a reference points to an allocated cell owned by `o` (atoms and `null` belong to everybody) -/
def OwnedBy (h : Heap) (o : Owner) : HVal → Prop
  | .ref b => ∃ c, h.get? b = some (o, c)
  | _ => True

/-- ownership regions are closed under following references (in particular no reference dangles) -/
def Closed (h : Heap) : Prop := ∀ a o c, h.get? a = some (o, c) → ∀ v ∈ c.kids, OwnedBy h o v

/-- references inside schema-owned cells point to strictly lower addresses
    (the cells were allocated bottom-up by `init` and are never written afterwards) -/
def SchemaOrdered (h : Heap) : Prop :=
  ∀ a c, h.get? a = some (.schema, c) → ∀ b, HVal.ref b ∈ c.kids → b < a

/-- `x` is reachable from the value `v` by following references (reflexively: `ref a` reaches `a`) -/
inductive Reach (h : Heap) : HVal → Nat → Prop where
  | here (a : Nat) : Reach h (.ref a) a
  | step (a : Nat) (o : Owner) (c : Cell) (w : HVal) (x : Nat) :
      h.get? a = some (o, c) → w ∈ c.kids → Reach h w x → Reach h (.ref a) x

/-- **Separation invariant.**  Regions are closed (so everything reachable from root `k` is owned by `cfg k` and everything
    reachable from a declared default is owned by `schema`, see `Sep.reach_root` / `Sep.reach_default`), root `k` is an
    allocated cell owned by `cfg k`, declared defaults are schema-owned, and the schema region is still in allocation order. -/
structure Sep (S : Schemas) (s : State) : Prop where
  closed : Closed s.heap
  roots : ∀ k r, s.roots[k]? = some r → ∃ c, s.heap.get? r = some (.cfg k, c)
  defaults : ∀ sd ∈ S, ∀ p ∈ leafDefaults sd.fields, OwnedBy s.heap .schema p.2
  ordered : SchemaOrdered s.heap

/-- the addresses referenced by a list of values, with multiplicity -/
def refsOf : List HVal → List Nat
  | [] => []
  | .ref b :: vs => b :: refsOf vs
  | .atom _ :: vs => refsOf vs
  | .null :: vs => refsOf vs

/-- **no sharing**: no cell is referenced twice — neither from two cells nor twice from one cell.  Under `AllDeep` the heap is a
    forest; this is what keeps two sub-configurations (or two items of configuration lists) of the *same* root apart. -/
structure NoShare (h : Heap) : Prop where
  nodup : ∀ a o c, h.get? a = some (o, c) → (refsOf c.kids).Nodup
  uniq : ∀ a1 o1 c1 a2 o2 c2 b, h.get? a1 = some (o1, c1) → h.get? a2 = some (o2, c2) →
    HVal.ref b ∈ c1.kids → HVal.ref b ∈ c2.kids → a1 = a2

def Cell.isCfg : Cell → Bool
  | .cfg _ _ _ => true
  | _ => false

/-- the cells an operation acting at the configuration cell `C` may write: `C` itself, or a list/dict reached from one of the
    slots of `C` by index / key steps (which never pass through another configuration) -/
def Target (h : Heap) (C : Nat) (a : Nat) : Prop :=
  a = C ∨ ∃ k sl dy key v steps c, h.cell? C = some (.cfg k sl dy) ∧ lookup key sl = some v ∧
    navVal h v steps = .ok a ∧ h.cell? a = some c ∧ c.isCfg = false

/-- `Dep h v d`: every chain of references starting at `v` has at most `d` cells (and none dangles) -/
inductive Dep (h : Heap) : HVal → Nat → Prop where
  | null (d : Nat) : Dep h .null d
  | atom (s : Atom) (d : Nat) : Dep h (.atom s) d
  | ref (a : Nat) (o : Owner) (c : Cell) (d : Nat) : h.get? a = some (o, c) → (∀ w, w ∈ c.kids → Dep h w d) → Dep h (.ref a) (d + 1)

/-- the heap is acyclic with depth at most the number of cells: the built-in fuel of `obsCfg` / `obsDefaults` is enough -/
def Bounded (h : Heap) : Prop := ∀ a o c, h.get? a = some (o, c) → Dep h (.ref a) h.next

/-- all three invariants of reachable states under `AllDeep`: ownership separation, acyclicity with bounded depth, no sharing -/
structure Inv (S : Schemas) (s : State) : Prop where
  sep : Sep S s
  bounded : Bounded s.heap
  noShare : NoShare s.heap

/-- the configuration cell at the end of a path from root `i` (`none` if the root or the path does not exist) -/
def State.at (s : State) (i : Nat) (p : List PStep) : Option Nat :=
  match s.roots[i]? with
  | some r => (navCfg s.heap r p).toOption
  | none => none

/-- the deep observation of the configuration at a path below root `i` -/
def State.cfgAt (s : State) (i : Nat) (p : List PStep) : Option Tree := (s.at i p).map (obsCfg s.heap)

/-- what a step on root `i` may do to the heap: cells that exist and are not owned by `cfg i` are left exactly as they are,
    no cell changes owner, and every new cell is owned by `cfg i` -/
structure Ext (i : Nat) (h h' : Heap) : Prop where
  next_le : h.next ≤ h'.next
  owner : ∀ a, a < h.next → h'.owner? a = h.owner? a
  frame : ∀ a o c, h.get? a = some (o, c) → o ≠ .cfg i → h'.get? a = some (o, c)
  fresh : ∀ a o c, h.next ≤ a → h'.get? a = some (o, c) → o = .cfg i

end Cinco.Heap
