import Cinco.Heap.Model
/-
  C13b — transfer of a typed container between configurations (`a.rows = b.rows`, `a.rows += b.rows`,
  `a.d.update(b.d)` …), on the heap model of `Cinco/Heap/Model.lean`.

  The value held under `key` by the *root* configuration `j` (the giver) is stored under `key` in the configuration reached
  from root `i` through `path` (the receiver).  Two modes:

  * `revalidate` — the repaired library: the receiving field validates the value again, which re-creates every level of it
    for the receiver: the stored value is `copyV (.cfg i) heap.next v heap` (every reachable cell copied, owner `cfg i`);
  * `adopt` — the defective library: a new top-level container whose inner containers are the giver's own objects: the
    stored value is `shallowV (.cfg i) v heap`.

  Everything here is computable (the driver evaluates it).
-/
namespace Cinco.Heap

inductive TransferMode where
  | revalidate
  | adopt
  deriving DecidableEq, Repr, Inhabited

/-- the value held under `key` by the configuration cell `r` (`getattr`): `attr` if the configuration has no such slot,
    `type` if `r` is not a configuration cell -/
def heldValue (h : Heap) (r : Nat) (key : String) : Except Outcome HVal :=
  match h.cell? r with
  | some (.cfg _ slots _) =>
    match lookup key slots with
    | some v => .ok v
    | none => .error .attr
  | _ => .error .type

/-- how the transferred value reaches the receiver: an allocating function, like `storeDefault`.
    The fuel of the deep copy is `h.next`, the convention of `storeDefault … .deep` (enough for every `Bounded` heap). -/
def transferValue (o : Owner) (mode : TransferMode) (v : HVal) (h : Heap) : HVal × Heap :=
  match mode with
  | .revalidate => copyV o h.next v h
  | .adopt => shallowV o v h

/-- the store half of a transfer, on the configuration cell `c` (already reached through the path), for owner `o`:
    like `execOp … (.set …)`, except that the stored value is produced by `transferValue` instead of `allocT`, and that
    `key` must be a *declared* leaf (typed containers are declared fields): an undeclared key is `attr` even on a dynamic
    schema, so a transfer never touches a dynamic-field list. -/
def execTransfer (S : Schemas) (o : Owner) (h : Heap) (c : Nat) (key : String) (mode : TransferMode) (v : HVal) :
    Except Outcome Heap :=
  match h.cell? c with
  | some (.cfg k slots dyn) =>
    match declOf S k key with
    | some (.leaf _ _) => let r := transferValue o mode v h; .ok (r.2.write c (.cfg k (put key r.1 slots) dyn))
    | some _ => .error .type
    | none => .error .attr
  | _ => .error .type

/-- `transfer S s i j path key mode`: `cfg_i.<path>.key = cfg_j.key`.
    The right-hand side is evaluated first (root `j`, slot `key`), then the path below root `i` is followed, then the store
    happens.  Every error leaves the state unchanged: `nocfg` when root `i` or root `j` does not exist, `attr` when the giver
    has no slot `key`, the navigation errors of `navCfg`, and `attr` / `type` from `execTransfer`.  `i = j` is allowed. -/
def transfer (S : Schemas) (s : State) (i j : Nat) (path : List PStep) (key : String) (mode : TransferMode) :
    State × Outcome :=
  match s.roots[i]? with
  | none => (s, .nocfg)
  | some ri =>
    match s.roots[j]? with
    | none => (s, .nocfg)
    | some rj =>
      match heldValue s.heap rj key with
      | .error e => (s, e)
      | .ok v =>
        match navCfg s.heap ri path with
        | .error e => (s, e)
        | .ok c =>
          match execTransfer S (.cfg i) s.heap c key mode v with
          | .ok h' => ({ s with heap := h' }, .ok)
          | .error e => (s, e)

/-! ### observation of one slot -/

/-- deep read, at fuel `n`, of the value held under `key` by the configuration cell `c` -/
def obsKeyN (n : Nat) (h : Heap) (c : Nat) (key : String) : Option Tree :=
  match h.cell? c with
  | some (.cfg _ slots _) => (lookup key slots).map (readV n h)
  | _ => none

/-- with the built-in fuel (`next + 1`, as `obsCfg`; enough under `Bounded`) -/
def obsKey (h : Heap) (c : Nat) (key : String) : Option Tree := obsKeyN (h.next + 1) h c key

/-- the value observed under `key` in the configuration at path `p` below root `i` (`none` if there is no such
    configuration or no such slot) -/
def State.valN (n : Nat) (s : State) (i : Nat) (p : List PStep) (key : String) : Option Tree :=
  (s.at i p).bind (fun c => obsKeyN n s.heap c key)

def State.val (s : State) (i : Nat) (p : List PStep) (key : String) : Option Tree :=
  (s.at i p).bind (fun c => obsKey s.heap c key)

/-! ### executable check of `NoShare` (for the driver and the evaluated examples) -/

/-- the addresses referenced by the cell at `a`, with multiplicity -/
def Heap.refsAt (h : Heap) (a : Nat) : List Nat :=
  match h.cell? a with
  | some c => refsOf c.kids
  | none => []

/-- all references stored in the heap, with multiplicity -/
def Heap.childRefs (h : Heap) : List Nat := (List.range h.next).flatMap h.refsAt

/-- no cell is referenced twice (`NoShare h → noShareB h = true`, see `noShareB_of_noShare`) -/
def noShareB (h : Heap) : Bool := decide (h.childRefs.Nodup)

end Cinco.Heap
