import Cinco.Basic.Tree
/-
  Hand-written models of `base64.b64encode`, `base64.b64decode` (non-strict: `binascii.a2b_base64`'s state
  machine — characters outside the alphabet are skipped, padding is counted, leftovers are an error),
  `base64.b64decode(validate=True)` (strict: the full-match check on the alphabet and the padding, then the same machine),
  `bytes.hex` and `bytes.fromhex`.  Arithmetic is over `Nat` so that the sextet laws are linear (`omega`).
  Validated against CPython by the correspondence checks (trusted base).
-/
namespace Cinco.B64
open Cinco

abbrev Bytes := List UInt8

def encChar (n : Nat) : Char :=
  if n < 26 then Char.ofNat (65 + n) else if n < 52 then Char.ofNat (71 + n)
  else if n < 62 then Char.ofNat (n - 4) else if n = 62 then '+' else '/'

def decChar (c : Char) : Option Nat :=
  let n := c.toNat
  if 65 ≤ n ∧ n ≤ 90 then some (n - 65) else if 97 ≤ n ∧ n ≤ 122 then some (n - 71)
  else if 48 ≤ n ∧ n ≤ 57 then some (n + 4) else if n = 43 then some 62 else if n = 47 then some 63 else none

/-- `base64.b64encode(b).decode()` -/
def encode : Bytes → Str
  | [] => []
  | [a] => let n := a.toNat; [encChar (n / 4), encChar (n % 4 * 16), '=', '=']
  | [a, b] => let n := a.toNat * 256 + b.toNat
              [encChar (n / 1024), encChar (n / 16 % 64), encChar (n % 16 * 4), '=']
  | a :: b :: c :: rest =>
      let n := a.toNat * 65536 + b.toNat * 256 + c.toNat
      encChar (n / 262144) :: encChar (n / 4096 % 64) :: encChar (n / 64 % 64) :: encChar (n % 64) :: encode rest

/-- `binascii.a2b_base64` in non-strict mode, after the ASCII check: `quad` = position in the quad (0..3),
    `left` = bits carried over, `pads` = padding characters seen since the last data character. -/
def decodeGo (quad left pads : Nat) : Str → Option Bytes
  | [] => if quad = 0 then some [] else none
  | c :: rest =>
    if c = '=' then
      if 2 ≤ quad ∧ 4 ≤ quad + (pads + 1) then some []
      else decodeGo quad left (if 2 ≤ quad then pads + 1 else pads) rest
    else match decChar c with
      | none => decodeGo quad left pads rest
      | some v =>
        match quad with
        | 0 => decodeGo 1 v 0 rest
        | 1 => (decodeGo 2 (v % 16) 0 rest).map (UInt8.ofNat (left * 4 + v / 16) :: ·)
        | 2 => (decodeGo 3 (v % 4) 0 rest).map (UInt8.ofNat (left * 16 + v / 4) :: ·)
        | _ => (decodeGo 0 0 0 rest).map (UInt8.ofNat (left * 64 + v) :: ·)

/-- `base64.b64decode(text)` for a `str` argument: non-ASCII text is a ValueError -/
def decode (s : Str) : Option Bytes :=
  if s.all (fun c => c.toNat < 128) then decodeGo 0 0 0 s else none

/-- a character of the base64 alphabet `A–Z a–z 0–9 + /` (the padding character `=` is not one) -/
def inAlphabet (c : Char) : Bool :=
  let n := c.toNat
  (65 ≤ n && n ≤ 90) || (97 ≤ n && n ≤ 122) || (48 ≤ n && n ≤ 57) || n == 43 || n == 47

/-- `re.fullmatch(b'[A-Za-z0-9+/]*={0,2}', s)`: alphabet characters, then at most two `=`, then nothing
    (no trailing newline: `fullmatch`, not `match` with `$`). -/
def strictShape (s : Str) : Bool :=
  let pad := s.dropWhile inAlphabet
  pad == [] || pad == ['='] || pad == ['=', '=']

/-- `base64.b64decode(text, validate=True)` for a `str` argument: the text must fully match the shape above,
    then the non-strict decoder runs on it (which still rejects wrong length / padding). -/
def decodeStrict (s : Str) : Option Bytes :=
  if strictShape s then decode s else none

def hexChar (n : Nat) : Char := if n < 10 then Char.ofNat (48 + n) else Char.ofNat (87 + n)
def hexVal (c : Char) : Option Nat :=
  let n := c.toNat
  if 48 ≤ n ∧ n ≤ 57 then some (n - 48) else if 97 ≤ n ∧ n ≤ 102 then some (n - 87)
  else if 65 ≤ n ∧ n ≤ 70 then some (n - 55) else none

/-- `b.hex()` -/
def hexEncode : Bytes → Str
  | [] => []
  | a :: rest => hexChar (a.toNat / 16) :: hexChar (a.toNat % 16) :: hexEncode rest

def isHexSpace (c : Char) : Bool := c == ' ' || c == '\t' || c == '\n' || c == '\r' || c.toNat == 11 || c.toNat == 12

/-- `bytes.fromhex(text)`: ASCII whitespace is skipped between bytes; two hex digits per byte -/
def hexDecode : Str → Option Bytes
  | [] => some []
  | [c] => if isHexSpace c then some [] else none
  | c :: d :: rest =>
    if isHexSpace c then hexDecode (d :: rest)
    else match hexVal c, hexVal d with
      | some x, some y => (hexDecode rest).map (UInt8.ofNat (x * 16 + y) :: ·)
      | _, _ => none

end Cinco.B64
