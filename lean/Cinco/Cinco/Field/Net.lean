import Cinco.Basic.Str
/-
  Hand-written model of the parts of CPython's `ipaddress` the library uses:
  `IPv4Address(text)`, `IPv4Network(text)` (strict), `str()` of both.  Validated by the correspondence.
-/
namespace Cinco.Net
open Cinco Cinco.Str

/-- `s.split(c)` -/
def splitOn (c : Char) : Str → List Str
  | [] => [[]]
  | x :: rest =>
    if x == c then [] :: splitOn c rest
    else match splitOn c rest with
      | [] => [[x]]
      | h :: t => (x :: h) :: t

/-- `_parse_octet`: 1–3 ASCII digits, no leading zero, at most 255 -/
def parseOctet (s : Str) : Option Nat :=
  if s.isEmpty || s.length > 3 || !s.all Char.isDigit then none
  else if s.length > 1 && s.head? == some '0' then none
  else
    let n := Nat.ofDigitChars 10 s 0
    if n ≤ 255 then some n else none

/-- `IPv4Address(text)` as a 32-bit number -/
def parseAddr (s : Str) : Option Nat :=
  match splitOn '.' s with
  | [a, b, c, d] =>
    match parseOctet a, parseOctet b, parseOctet c, parseOctet d with
    | some w, some x, some y, some z => some (((w * 256 + x) * 256 + y) * 256 + z)
    | _, _, _, _ => none
  | _ => none

def natRepr (n : Nat) : Str := (Nat.toDigits 10 n)

/-- `str(IPv4Address(n))` -/
def printAddr (n : Nat) : Str :=
  natRepr (n / 16777216 % 256) ++ ['.'] ++ natRepr (n / 65536 % 256) ++ ['.'] ++ natRepr (n / 256 % 256) ++ ['.'] ++ natRepr (n % 256)

/-- number of trailing zero bits of a 32-bit number (32 for 0) -/
def trailingZeros : Nat → Nat → Nat
  | 0, _ => 0
  | bits + 1, n => if n % 2 == 1 then 0 else 1 + trailingZeros bits (n / 2)

/-- `_prefix_from_ip_int`: the number is `prefixlen` ones followed by zeros -/
def prefixFromInt (n : Nat) : Option Nat :=
  let tz := if n == 0 then 32 else trailingZeros 32 n
  let p := 32 - tz
  if n / 2 ^ tz == 2 ^ p - 1 then some p else none

/-- `_make_netmask(text)`: a prefix length `0..32` in ASCII digits, else a netmask, else a hostmask -/
def parsePrefix (s : Str) : Option Nat :=
  if !s.isEmpty && s.all Char.isDigit then
    let p := Nat.ofDigitChars 10 s 0
    if p ≤ 32 then some p else
      -- not a valid prefix length; `_prefix_from_ip_string` cannot parse a dotless string either
      none
  else
    match parseAddr s with
    | none => none
    | some m =>
      match prefixFromInt m with
      | some p => some p
      | none => prefixFromInt (4294967295 - m)

/-- `IPv4Network(text)` (strict): `(network address, prefix length)` -/
def parseNet (s : Str) : Option (Nat × Nat) :=
  match splitOn '/' s with
  | [a] => (parseAddr a).map (fun n => (n, 32))
  | [a, m] =>
    match parseAddr a, parsePrefix m with
    | some n, some p =>
      let hostBits := n % 2 ^ (32 - p)
      if hostBits == 0 then some (n, p) else none
    | _, _ => none
  | _ => none

/-- `str(IPv4Network)` -/
def printNet (n p : Nat) : Str := printAddr n ++ ['/'] ++ natRepr p

end Cinco.Net
