import Cinco.Field.Validate
/-
  Several validators registered on one field (`cincoconfig.validator(field)` used more than once, or a `validator=` argument
  plus the decorator): the library composes them in registration order, each one receiving what the previous one returned
  (`support.validator`, after F41).  `chain` is that composition over the validator catalogue; `Ran` says what a successful run means.
-/
namespace Cinco.Field
open Cinco

/-- run the registered validators in registration order, threading the value -/
def chain (custom : String → Val → Except Err Val) : List String → Val → Except Err Val
  | [], v => .ok v
  | n :: ns, v =>
    match custom n v with
    | .error e => .error e
    | .ok v' => chain custom ns v'

/-- "every validator of `ns` was run in order, each on what its predecessor returned, and passed; the last one returned `v'`" -/
inductive Ran (custom : String → Val → Except Err Val) : List String → Val → Val → Prop where
  | nil (v : Val) : Ran custom [] v v
  | cons {n : String} {ns : List String} {v u v' : Val} : custom n v = .ok u → Ran custom ns u v' → Ran custom (n :: ns) v v'

/-- how a second registration on a field that already has a validator is treated, as a mode of the model:
    `replace` is the behaviour before F41 (the last one registered wins) -/
inductive RegMode where
  | chain | replace
  deriving DecidableEq, Repr

def registered (mode : RegMode) (names : List String) : List String :=
  match mode with
  | .chain => names
  | .replace => match names.getLast? with | some n => [n] | none => []

/-- a catalogue that understands composite names `a+b+c` as the chain of `a`, `b`, `c` (how the driver receives a field on which
    several catalogue validators were registered) -/
def compositeCatalogue (base : String → Val → Except Err Val) (mode : RegMode) (name : String) (v : Val) : Except Err Val :=
  let parts := name.splitOn "+"
  if parts.length ≤ 1 then base name v else chain base (registered mode parts) v

end Cinco.Field
