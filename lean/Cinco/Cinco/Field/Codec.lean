import Cinco.Field.Validate
/-
  `to_basic` / `to_python` of every built-in persistent field class (cincoconfig/fields/*.py), in code order.
  Encryption is a parameter of the environment (the Secure model of Cinco/Crypto/Secure.lean with the
  configuration's key bound in).
-/
namespace Cinco.Field
open Cinco Cinco.Str

structure CodecEnv extends Env where
  encryptS : String → Str → Option Val          -- SecureField.to_basic on a non-empty secret (method given); none = failure
  decryptS : Val → Option (Option Str)          -- SecureField.to_python; none = rejected

def encodeBytes : Enc → Bytes → Str
  | .base64, b => B64.encode b
  | .hex, b => B64.hexEncode b

def decodeBytes : Enc → Str → Option Bytes
  | .base64, s => B64.decode s
  | .hex, s => B64.hexDecode s

def digestToBasic (salt dig : Bytes) : Val :=
  .dict [(.str "salt".toList, .str (B64.encode salt)), (.str "digest".toList, .str (B64.encode dig))]

def dictGet (k : Val) : List (Val × Val) → Option Val
  | [] => none
  | (k', v) :: rest => if k' == k then some v else dictGet k rest

/-- decode the entries of a typed dict's on-disk form; an entry whose key or value cannot be decoded is a rejection naming that
    entry's (on-disk) key, like a rejection of the decoded entry (`DictField.to_python`, after F51) -/
def mapPairs (fk fv : Val → R Val) : List (Val × Val) → R (List (Val × Val))
  | [] => .ok []
  | (k, v) :: rest =>
    match fk k with
    | .error _ => .error (.entry k)
    | .ok k' =>
      match fv v with
      | .error _ => .error (.entry k)
      | .ok v' =>
        match mapPairs fk fv rest with
        | .error e => .error e
        | .ok rest' => .ok ((k', v') :: rest')

mutual
  /-- `field.to_basic(cfg, value)` -/
  def toBasic (E : CodecEnv) : FieldSpec → Val → R Val
    | .mk kind _ _, v => toBasicKind E kind v
  def toBasicOpt (E : CodecEnv) : Option FieldSpec → Val → R Val
    | none, v => .ok v
    | some f, v => toBasic E f v
  def toBasicKind (E : CodecEnv) : Kind → Val → R Val
    | .bytes enc, v =>
      match v with
      | .none => .ok .none
      | .bytes b => .ok (.str (encodeBytes enc b))
      | _ => .error .type
    | .challenge _, v =>
      match v with
      | .none => .ok .none
      | .digest s d _ => .ok (digestToBasic s d)
      | _ => .error .type
    | .secure method, v =>
      match v with
      | .str s => if s.isEmpty then .ok .none else
          match E.encryptS method s with
          | some r => .ok r
          | none => .error .type
      | v => if v.truthy then .error .type else .ok .none
    | .list item, v =>
      match v with
      | .none => .ok .none
      | .list xs => (mapR (fun x => toBasicOpt E item x) xs).map .list
      | .tuple xs => (mapR (fun x => toBasicOpt E item x) xs).map .list
      | _ => .error .type
    | .dict key value, v =>
      match v with
      | .none => .ok .none
      | .dict kvs =>
        if key.isNone && value.isNone then .ok (.dict kvs)
        else (mapPairs (fun x => toBasicOpt E key x) (fun x => toBasicOpt E value x) kvs).map (fun es => .dict (buildDict es))
      | _ => .error .type
    | _, v => .ok v
end

/-- what iterating a loaded value yields when it is handed to `ListProxy(cfg, field, value)` -/
def iterForList : Val → R (List Val)
  | .none => .ok []
  | .list xs => .ok xs
  | .tuple xs => .ok xs
  | .str s => .ok (s.map (fun c => .str [c]))
  | .dict kvs => .ok (kvs.map (·.1))
  | .bytes b => .ok (b.map (fun x => .int x.toNat))
  | v => if v.truthy then .error .type else .ok []          -- `iterable or []`: falsy scalars become []

/-- entries `DictProxy(cfg, field, value)` sees -/
def iterForDict : Val → R (List (Val × Val))
  | .dict kvs => .ok kvs
  | .list xs =>
    let rec go : List Val → R (List (Val × Val))
      | [] => .ok []
      | .list [k, v] :: rest => do let r ← go rest; .ok ((k, v) :: r)
      | .tuple [k, v] :: rest => do let r ← go rest; .ok ((k, v) :: r)
      | _ => .error .type
    go xs
  | v => if v.truthy then .error .type else .ok []

mutual
  /-- `field.to_python(cfg, value)` -/
  def toPython (E : CodecEnv) : FieldSpec → Val → R Val
    | .mk kind _ _, v => toPythonKind E kind v
  def toPythonOpt (E : CodecEnv) : Option FieldSpec → Val → R Val
    | none, v => .ok v
    | some f, v => toPython E f v
  /-- decode the items of a stored list (only lists and tuples are mapped; anything else is handed to the proxy as it is) -/
  def decodeItems (E : CodecEnv) : Option FieldSpec → Val → Option (R (List Val))
    | none, _ => none
    | some (.mk k r c), v =>
      if k.isAny then none else
      match v with
      | .list xs => some (mapR (fun x => toPython E (.mk k r c) x) xs)
      | .tuple xs => some (mapR (fun x => toPython E (.mk k r c) x) xs)
      | v => some (iterForList v)
  def toPythonKind (E : CodecEnv) : Kind → Val → R Val
    | .bytes enc, v =>
      match v with
      | .none => .ok .none
      | .str s => match decodeBytes enc s with
          | some b => .ok (.bytes b)
          | none => .error .value
      | _ => .error .value
    | .challenge alg, v =>
      match v with
      | .none => .ok .none
      | .dict d =>
        match dictGet (.str "salt".toList) d with
        | some (.str s) =>
          match B64.decode s with
          | none => .error .value
          | some salt =>
            match dictGet (.str "digest".toList) d with
            | some (.str g) =>
              match B64.decode g with
              | none => .error .value
              | some dig => .ok (.digest salt dig alg)
            | some _ => .error .type
            | none => .error .value
        | some _ => .error .type
        | none => .error .value
      | .str p => let salt := E.salt alg; .ok (.digest salt (E.hash alg (salt ++ E.utf8 p)) alg)
      | _ => .error .value
    | .secure _, v =>
      match E.decryptS v with
      | some (some s) => .ok (.str s)
      | some none => .ok .none
      | none => .error .value
    | .list item, v =>
      -- decode the items, then build the proxy (which validates them)
      match decodeItems E item v with
      | none => .ok v
      | some (.error e) => .error e
      | some (.ok ys) =>
        match validateItems E.toEnv item ys with
        | none => .ok (.list ys)
        | some r => r.map .list
    | .dict key value, v =>
      if key.isNone && value.isNone then .ok v else
      match v with
      | .dict kvs =>
        match mapPairs (fun x => toPythonOpt E key x) (fun x => toPythonOpt E value x) kvs with
        | .error e => .error e
        | .ok dec =>
          (mapEntries (fun x => validateOpt E.toEnv key x) (fun x => validateOpt E.toEnv value x) (buildDict dec)).map
            (fun es => .dict (buildDict es))
      | v =>
        match iterForDict v with
        | .error e => .error e
        | .ok es =>
          (mapEntries (fun x => validateOpt E.toEnv key x) (fun x => validateOpt E.toEnv value x) es).map
            (fun es => .dict (buildDict es))
    | _, v => .ok v
end

end Cinco.Field
