import Cinco.Field.Validate
/-
  `to_basic` / `to_python` of every built-in persistent field class (cincoconfig/fields/*.py), in code order.
  Encryption is a parameter of the environment (the Secure model of Cinco/Crypto/Secure.lean with the
  configuration's key bound in).
-/
namespace Cinco.Field
open Cinco Cinco.Str

structure CodecEnv extends Env where
  encryptS : String → Str → Option Val          -- SecureField.to_basic on a non-empty secret (method given); none = failure
  decryptS : Val → Option (Option Str)          -- SecureField.to_python; none = rejected

def encodeBytes : Enc → Bytes → Str
  | .base64, b => B64.encode b
  | .hex, b => B64.hexEncode b

def decodeBytes : Enc → Str → Option Bytes
  | .base64, s => B64.decode s
  | .hex, s => B64.hexDecode s

def digestToBasic (salt dig : Bytes) : Val :=
  .dict [(.str "salt".toList, .str (B64.encode salt)), (.str "digest".toList, .str (B64.encode dig))]

def dictGet (k : Val) : List (Val × Val) → Option Val
  | [] => none
  | (k', v) :: rest => if k' == k then some v else dictGet k rest

def mapPairs (fk fv : Val → R Val) : List (Val × Val) → R (List (Val × Val))
  | [] => .ok []
  | (k, v) :: rest => do
    let k' ← fk k
    let v' ← fv v
    let rest' ← mapPairs fk fv rest
    .ok ((k', v') :: rest')

mutual
  /-- `field.to_basic(cfg, value)` -/
  def toBasic (E : CodecEnv) : FieldSpec → Val → R Val
    | .mk kind _ _, v => toBasicKind E kind v
  def toBasicKind (E : CodecEnv) : Kind → Val → R Val
    | .bytes enc, v =>
      match v with
      | .none => .ok .none
      | .bytes b => .ok (.str (encodeBytes enc b))
      | _ => .error .type
    | .challenge _, v =>
      match v with
      | .none => .ok .none
      | .digest s d _ => .ok (digestToBasic s d)
      | _ => .error .type
    | .secure method, v =>
      match v with
      | .str s => if s.isEmpty then .ok .none else
          match E.encryptS method s with
          | some r => .ok r
          | none => .error .type
      | v => if v.truthy then .error .type else .ok .none
    | .list item, v =>
      match v with
      | .none => .ok .none
      | .list xs => toBasicItems E item xs
      | .tuple xs => toBasicItems E item xs
      | _ => .error .type
    | .dict key value, v =>
      match v with
      | .none => .ok .none
      | .dict kvs =>
        match key, value with
        | none, none => .ok (.dict kvs)
        | k, vf =>
          let fk : Val → R Val := match k with | some f => fun x => toBasic E f x | none => fun x => .ok x
          let fv : Val → R Val := match vf with | some f => fun x => toBasic E f x | none => fun x => .ok x
          (mapPairs fk fv kvs).map (fun es => .dict (buildDict es))
      | _ => .error .type
    | _, v => .ok v
  def toBasicItems (E : CodecEnv) : Option FieldSpec → List Val → R Val
    | none, xs => .ok (.list xs)
    | some f, xs => (mapR (fun x => toBasic E f x) xs).map .list
end

/-- what iterating a loaded value yields when it is handed to `ListProxy(cfg, field, value)` -/
def iterForList : Val → R (List Val)
  | .none => .ok []
  | .list xs => .ok xs
  | .tuple xs => .ok xs
  | .str s => .ok (s.map (fun c => .str [c]))
  | .dict kvs => .ok (kvs.map (·.1))
  | .bytes b => .ok (b.map (fun x => .int x.toNat))
  | v => if v.truthy then .error .type else .ok []          -- `iterable or []`: falsy scalars become []

/-- entries `DictProxy(cfg, field, value)` sees -/
def iterForDict : Val → R (List (Val × Val))
  | .dict kvs => .ok kvs
  | .list xs =>
    let rec go : List Val → R (List (Val × Val))
      | [] => .ok []
      | .list [k, v] :: rest => do let r ← go rest; .ok ((k, v) :: r)
      | .tuple [k, v] :: rest => do let r ← go rest; .ok ((k, v) :: r)
      | _ => .error .type
    go xs
  | v => if v.truthy then .error .type else .ok []

mutual
  /-- `field.to_python(cfg, value)` -/
  def toPython (E : CodecEnv) : FieldSpec → Val → R Val
    | .mk kind _ _, v => toPythonKind E kind v
  def toPythonKind (E : CodecEnv) : Kind → Val → R Val
    | .bytes enc, v =>
      match v with
      | .none => .ok .none
      | .str s => match decodeBytes enc s with
          | some b => .ok (.bytes b)
          | none => .error .value
      | _ => .error .value
    | .challenge alg, v =>
      match v with
      | .none => .ok .none
      | .dict d =>
        match dictGet (.str "salt".toList) d with
        | some (.str s) =>
          match B64.decode s with
          | none => .error .value
          | some salt =>
            match dictGet (.str "digest".toList) d with
            | some (.str g) =>
              match B64.decode g with
              | none => .error .value
              | some dig => .ok (.digest salt dig alg)
            | some _ => .error .type
            | none => .error .value
        | some _ => .error .type
        | none => .error .value
      | .str p => let salt := E.salt alg; .ok (.digest salt (E.hash alg (salt ++ E.utf8 p)) alg)
      | _ => .error .value
    | .secure _, v =>
      match E.decryptS v with
      | some (some s) => .ok (.str s)
      | some none => .ok .none
      | none => .error .value
    | .list item, v =>
      match item with
      | none => .ok v
      | some (.mk .any _ _) => .ok v
      | some f =>
        -- decode the items of a list, then build the proxy (which validates them)
        match v with
        | .list xs => do
          let ys ← mapR (fun x => toPython E f x) xs
          (mapR (fun x => validate E.toEnv f x) ys).map .list
        | .tuple xs => do
          let ys ← mapR (fun x => toPython E f x) xs
          (mapR (fun x => validate E.toEnv f x) ys).map .list
        | v => do
          let xs ← iterForList v
          (mapR (fun x => validate E.toEnv f x) xs).map .list
    | .dict key value, v =>
      match key, value with
      | none, none => .ok v
      | k, vf =>
        let pk : Val → R Val := match k with | some f => fun x => toPython E f x | none => fun x => .ok x
        let pv : Val → R Val := match vf with | some f => fun x => toPython E f x | none => fun x => .ok x
        let fk : Val → R Val := match k with | some f => fun x => validate E.toEnv f x | none => fun x => .ok x
        let fv : Val → R Val := match vf with | some f => fun x => validate E.toEnv f x | none => fun x => .ok x
        match v with
        | .dict kvs => do
          let dec ← mapPairs pk pv kvs
          (mapEntries fk fv (buildDict dec)).map (fun es => .dict (buildDict es))
        | v => do
          let es ← iterForDict v
          (mapEntries fk fv es).map (fun es => .dict (buildDict es))
    | _, v => .ok v
end

end Cinco.Field
