import Cinco.Basic.Num
import Cinco.Basic.Regex
/-
  Declarations of the built-in persistent field types with all their constructor options (what a schema
  author writes), and the environment a validator can observe.
-/
namespace Cinco.Field
open Cinco Cinco.Num

inductive Case where | lower | upper
  deriving DecidableEq, Repr

inductive Strip where
  | off                 -- transform_strip unset / falsy
  | ws                  -- True: str.strip()
  | chars (cs : Str)    -- a non-empty string: str.strip(cs)
  deriving DecidableEq, Repr

/-- the options every StringField subclass shares -/
structure StrOpts where
  minLen : Option Int := none
  maxLen : Option Int := none
  regex : Option Regex.Re := none
  choices : List Str := []            -- empty = no restriction (`if self.choices`)
  case : Option Case := none
  strip : Strip := .off
  deriving Repr

inductive Exists where
  | any | yes | no | dir | file
  deriving DecidableEq, Repr

inductive Enc where | base64 | hex
  deriving DecidableEq, Repr

mutual
  inductive Kind where
    | any
    | string (o : StrOpts)
    | int (min max : Option Num)
    | float (min max : Option Num)
    | bool
    | bytes (enc : Enc)
    | ipv4addr (o : StrOpts)
    | ipv4net (o : StrOpts) (minPrefix maxPrefix : Option Int)
    | hostname (o : StrOpts) (allowIpv4 : Bool)
    | filename (o : StrOpts) (ex : Exists) (startdir : Option Str)
    | url (o : StrOpts)
    | challenge (alg : String)
    | secure (method : String)
    | list (item : Option FieldSpec)
    | dict (key value : Option FieldSpec)      -- `none`/`none` = plain dict; one given = the other is AnyField
  /-- a field declaration: kind + the options of `Field.__init__` that matter for validation
      (`custom` names a catalogue validator implemented identically by harness and model) -/
  inductive FieldSpec where
    | mk (kind : Kind) (required : Bool) (custom : Option String)
end

def FieldSpec.kind : FieldSpec → Kind | .mk k _ _ => k
def FieldSpec.required : FieldSpec → Bool | .mk _ r _ => r
def FieldSpec.custom : FieldSpec → Option String | .mk _ _ c => c

end Cinco.Field
