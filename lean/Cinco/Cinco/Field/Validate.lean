import Cinco.Field.Spec
import Cinco.Field.Net
import Cinco.Field.Base64
import Cinco.Generated.Tables
import Cinco.Generated.Regexes
/-
  `Field.validate` and the `_validate` of every built-in persistent field class, statement by statement in
  code order (cincoconfig/core.py:443-461 and cincoconfig/fields/*.py).  Calls into CPython's standard
  library that the library merely forwards to (`float(text)`, `os.path.*`, `urlparse`) are parameters of
  the environment; the rest (string transforms, `int(text)`, `ipaddress`, `re`) is modelled.
-/
namespace Cinco.Field
open Cinco Cinco.Num Cinco.Str

inductive Err where
  | value                 -- ValueError
  | type                  -- TypeError
  | overflow              -- OverflowError
  | entry (key : Val)     -- ValidationError raised by DictProxy._validate for the entry with this key
  deriving Repr, DecidableEq

inductive FsKind where | absent | file | dir
  deriving DecidableEq, Repr

structure Env where
  parseFloat : Str → Option Flt            -- float(text); none = ValueError
  fsKind : Str → FsKind                    -- os.path.exists / isdir / isfile
  isabs : Str → Bool                       -- os.path.isabs
  resolve : Str → Str → Str                -- abspath(expanduser(join(startdir, value)))
  urlOk : Str → Bool                       -- urlparse(value) succeeds and has a scheme
  salt : String → Bytes                    -- what os.urandom(digest_size) returns next, per algorithm
  hash : String → Bytes → Bytes
  utf8 : Str → Bytes
  custom : String → Val → Except Err Val   -- the validator catalogue

abbrev R := Except Err

def applyCase : Option Case → Str → Str
  | none, s => s
  | some .lower, s => lower s
  | some .upper, s => upper s

def applyStrip : Strip → Str → Str
  | .off, s => s
  | .ws, s => strip s
  | .chars cs, s => stripChars cs s

/-- the string transforms: strip, case, and (when both a character strip and a case transform are set) strip again -/
def transform (o : StrOpts) (s : Str) : Str :=
  let s1 := applyStrip o.strip s
  match o.case with
  | none => s1
  | some c =>
    let s2 := applyCase (some c) s1
    match o.strip with
    | .chars cs => stripChars cs s2
    | _ => s2

/-- the checks of `StringField._validate` on the transformed text -/
def strChecks (o : StrOpts) (required : Bool) (t : Str) : Bool :=
  !(required && t.isEmpty) &&
  (match o.minLen with | some m => !decide ((t.length : Int) < m) | none => true) &&
  (match o.maxLen with | some m => !decide ((t.length : Int) > m) | none => true) &&
  (match o.regex with | some r => Regex.isMatch r t | none => true) &&
  (o.choices.isEmpty || o.choices.contains t)

/-- `StringField._validate` -/
def strRule (o : StrOpts) (required : Bool) : Val → R Str
  | .str s =>
    let t := transform o s
    if strChecks o required t then .ok t else .error .value
  | _ => .error .value

def checkBounds (min max : Option Num) (n : Ext) : Bool :=
  (match min with | some m => !lt n m.ext | none => true) &&
  (match max with | some m => !lt m.ext n | none => true)

/-- `NumberField._validate` with `type_cls = int` -/
def intRule (min max : Option Num) : Val → R Val
  | .bool _ => .error .value
  | .int i => if checkBounds min max (ofInt i) then .ok (.int i) else .error .value
  | .flt f =>
    match fltToInt f with
    | .ok i => if checkBounds min max (ofInt i) then .ok (.int i) else .error .value
    | .overflow => .error .overflow
    | .invalid => .error .value
  | .str s =>
    match pyInt s with
    | some i => if checkBounds min max (ofInt i) then .ok (.int i) else .error .value
    | none => .error .value
  | _ => .error .value

/-- `NumberField._validate` with `type_cls = float` -/
def floatRule (E : Env) (min max : Option Num) : Val → R Val
  | .bool _ => .error .value
  | .int i =>
    if intOverflows i then .error .overflow
    else if checkBounds min max (ofFlt (intToFlt i)) then .ok (.flt (intToFlt i)) else .error .value
  | .flt f => if checkBounds min max (ofFlt f) then .ok (.flt f) else .error .value
  | .str s =>
    match E.parseFloat s with
    | some f => if checkBounds min max (ofFlt f) then .ok (.flt f) else .error .value
    | none => .error .value
  | _ => .error .value

/-- `BoolField._validate` -/
def boolRule : Val → R Val
  | .bool b => .ok (.bool b)
  | .int i => .ok (.bool (i != 0))
  | .flt f => .ok (.bool (fltTruthy f))
  | .str s =>
    let l := String.ofList (lower s)
    if Generated.trueValues.contains l then .ok (.bool true)
    else if Generated.falseValues.contains l then .ok (.bool false)
    else .error .value
  | _ => .error .value

/-- `BytesField._validate` -/
def bytesRule (E : Env) : Val → R Val
  | .str s => .ok (.bytes (E.utf8 s))
  | .bytes b => .ok (.bytes b)
  | _ => .error .value

def addrRule (o : StrOpts) (required : Bool) (v : Val) : R Val := do
  let t ← strRule o required v
  match Net.parseAddr t with
  | some n => .ok (.str (Net.printAddr n))
  | none => .error .value

/-- `net.prefixlen < min_prefix_len` or `net.prefixlen > max_prefix_len` (each only when the bound is set) -/
def prefixBad (minP maxP : Option Int) (p : Nat) : Bool :=
  (match minP with | some m => decide ((p : Int) < m) | none => false) ||
  (match maxP with | some m => decide ((p : Int) > m) | none => false)

def netRule (o : StrOpts) (required : Bool) (minP maxP : Option Int) (v : Val) : R Val := do
  let t ← strRule o required v
  match Net.parseNet t with
  | some (n, p) => if prefixBad minP maxP p then .error .value else .ok (.str (Net.printNet n p))
  | none => .error .value

def hostRule (o : StrOpts) (required : Bool) (allowIpv4 : Bool) (v : Val) : R Val := do
  let t ← strRule o required v
  match Net.parseAddr t with
  | some n => if allowIpv4 then .ok (.str (Net.printAddr n)) else .error .value
  | none =>
    if Regex.isMatch Generated.hostnameRe t || Regex.isMatch Generated.netbiosRe t then .ok (.str t) else .error .value

/-- the existence test of `FilenameField` on the final path -/
def fileBad (E : Env) (ex : Exists) (p : Str) : Bool :=
  match ex with
  | .any => false
  | .yes => E.fsKind p == .absent
  | .no => E.fsKind p != .absent
  | .dir => E.fsKind p != .dir
  | .file => E.fsKind p != .file

/-- the path that is tested and returned: resolved against the start directory when relative -/
def filePath (E : Env) (startdir : Option Str) (t : Str) : Str :=
  match startdir with
  | some sd => if !E.isabs t && !sd.isEmpty then E.resolve sd t else t
  | none => t

def fileRule (E : Env) (o : StrOpts) (required : Bool) (ex : Exists) (startdir : Option Str) (v : Val) : R Val := do
  let t ← strRule o required v
  if t.isEmpty then .ok (.str t) else
  if fileBad E ex (filePath E startdir t) then .error .value else .ok (.str (filePath E startdir t))

def urlRule (E : Env) (o : StrOpts) (required : Bool) (v : Val) : R Val := do
  let t ← strRule o required v
  if E.urlOk t then .ok (.str t) else .error .value

/-- `ChallengeField._validate` -/
def challengeRule (E : Env) (alg : String) : Val → R Val
  | .str s => let salt := E.salt alg; .ok (.digest salt (E.hash alg (salt ++ E.utf8 s)) alg)
  | .bytes b => let salt := E.salt alg; .ok (.digest salt (E.hash alg (salt ++ b)) alg)
  | .digest s d a => .ok (.digest s d a)
  | _ => .error .value

/-- `SecureField._validate` -/
def secureRule (required : Bool) : Val → R Val
  | .str s => if required && s.isEmpty then .error .value else .ok (.str s)
  | _ => .error .value

def mapR (f : Val → R Val) : List Val → R (List Val)
  | [] => .ok []
  | x :: xs => do
    let y ← f x
    let ys ← mapR f xs
    .ok (y :: ys)

/-- `d[k] = v` on an insertion-ordered association list of values -/
def dictSet (k v : Val) : List (Val × Val) → List (Val × Val)
  | [] => [(k, v)]
  | (k', v') :: rest => if k' == k then (k', v) :: rest else (k', v') :: dictSet k v rest

/-- `DictProxy.__init__`: validate every entry (errors are re-raised as ValidationError naming the key), then build the dict -/
def mapEntries (fk fv : Val → R Val) : List (Val × Val) → R (List (Val × Val))
  | [] => .ok []
  | (k, v) :: rest =>
    match fk k with
    | .error _ => .error (.entry k)
    | .ok k' =>
      match fv v with
      | .error _ => .error (.entry k)
      | .ok v' => do
        let rest' ← mapEntries fk fv rest
        .ok ((k', v') :: rest')

def buildDict (entries : List (Val × Val)) : List (Val × Val) :=
  entries.foldl (fun acc (kv : Val × Val) => dictSet kv.1 kv.2 acc) []

def Kind.isAny : Kind → Bool
  | .any => true
  | _ => false

mutual
  /-- `Field.validate`: required/None short-circuit, `_validate`, custom validator -/
  def validate (E : Env) : FieldSpec → Val → R Val
    | .mk kind required custom, v =>
      match v with
      | .none => if required then .error .value else .ok .none
      | v =>
        match validateKind E kind required v with
        | .error e => .error e
        | .ok v' =>
          match custom with
          | some name => E.custom name v'
          | none => .ok v'
  /-- validation by an optional key / value field (absent = `AnyField()`) -/
  def validateOpt (E : Env) : Option FieldSpec → Val → R Val
    | none, v => .ok v
    | some f, v => validate E f v
  /-- `ListProxy(cfg, field, items)`: every item through the item field; untyped and `AnyField` lists are returned as they are -/
  def validateItems (E : Env) : Option FieldSpec → List Val → Option (R (List Val))
    | none, _ => none
    | some (.mk k r c), xs => if k.isAny then none else some (mapR (fun x => validate E (.mk k r c) x) xs)
  /-- the `_validate` of each field class -/
  def validateKind (E : Env) : Kind → Bool → Val → R Val
    | .any, _, v => .ok v
    | .string o, req, v => (strRule o req v).map .str
    | .int mn mx, _, v => intRule mn mx v
    | .float mn mx, _, v => floatRule E mn mx v
    | .bool, _, v => boolRule v
    | .bytes _, _, v => bytesRule E v
    | .ipv4addr o, req, v => addrRule o req v
    | .ipv4net o mn mx, req, v => netRule o req mn mx v
    | .hostname o a, req, v => hostRule o req a v
    | .filename o ex sd, req, v => fileRule E o req ex sd v
    | .url o, req, v => urlRule E o req v
    | .challenge alg, _, v => challengeRule E alg v
    | .secure _, req, v => secureRule req v
    | .list item, req, v =>
      match v with
      | .list xs =>
        if req && xs.isEmpty then .error .value else
        match validateItems E item xs with
        | none => .ok (.list xs)
        | some r => r.map .list
      | .tuple xs =>
        if req && xs.isEmpty then .error .value else
        match validateItems E item xs with
        | none => .ok (.tuple xs)
        | some r => r.map .list
      | _ => .error .value
    | .dict key value, req, v =>
      match v with
      | .dict kvs =>
        if req && kvs.isEmpty then .error .value else
        if key.isNone && value.isNone then .ok (.dict kvs)
        else (mapEntries (fun x => validateOpt E key x) (fun x => validateOpt E value x) kvs).map (fun es => .dict (buildDict es))
      | _ => .error .value
end

end Cinco.Field
