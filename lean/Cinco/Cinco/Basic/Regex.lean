import Cinco.Basic.Str
/-
  A small regular-expression AST with an executable matcher following `re.match` semantics for `str`
  patterns without flags: anchored at the start only, `$` also matches before a final newline, `.` does not
  match a newline.  Only success/failure is modelled (position-set semantics, so greedy/lazy do not matter).
  Patterns are produced from Python's own parse tree (`re._parser.parse`) by the harness / the translator.
  Theorems treat the match predicate as opaque; this file is validated by the correspondence (trusted base).
-/
namespace Cinco.Regex
open Cinco Cinco.Str

inductive ClsItem where
  | ch (c : Char) | range (lo hi : Char)
  | word | notWord | digit | notDigit | space | notSpace
  deriving Repr, DecidableEq

inductive Re where
  | eps
  | lit (c : Char) | notLit (c : Char) | any
  | cls (neg : Bool) (items : List ClsItem)
  | seq (a b : Re) | alt (a b : Re)
  | rep (min : Nat) (max : Option Nat) (r : Re)
  | bol | eol | eos
  deriving Repr

/-- `\w` on the model alphabet -/
def isWord (c : Char) : Bool :=
  let n := c.toNat
  (48 ≤ n && n ≤ 57) || (65 ≤ n && n ≤ 90) || (97 ≤ n && n ≤ 122) || n == 95 ||
  isLatin1Upper n || isLatin1Lower n || n == 0xdf || n == 0xff || n == 0xaa || n == 0xb5 || n == 0xba ||
  n == 0xb2 || n == 0xb3 || n == 0xb9 || n == 0xbc || n == 0xbd || n == 0xbe

def ClsItem.hit (c : Char) : ClsItem → Bool
  | .ch x => c == x
  | .range lo hi => lo.toNat ≤ c.toNat && c.toNat ≤ hi.toNat
  | .word => isWord c | .notWord => !isWord c
  | .digit => c.isDigit | .notDigit => !c.isDigit
  | .space => isSpace c | .notSpace => !isSpace c

def insertNew (acc : List Nat) (xs : List Nat) : List Nat × List Nat :=
  xs.foldl (fun (p : List Nat × List Nat) x => if p.1.contains x then p else (x :: p.1, x :: p.2)) (acc, [])

/-- closure of `f` from `start`, at most `fuel` rounds (each productive round adds a new position) -/
def closure (f : List Nat → List Nat) : Nat → List Nat → List Nat → List Nat
  | 0, acc, _ => acc
  | fuel + 1, acc, frontier =>
    if frontier.isEmpty then acc else
    let (acc', fresh) := insertNew acc (f frontier)
    closure f fuel acc' fresh

def iterate (f : List Nat → List Nat) : Nat → List Nat → List Nat
  | 0, ps => ps
  | n + 1, ps => iterate f n (f ps)

/-- union of `f^0 .. f^k` applied to `ps` -/
def upTo (f : List Nat → List Nat) : Nat → List Nat → List Nat
  | 0, ps => ps
  | k + 1, ps => (insertNew ps (upTo f k (f ps))).1

def consume (p : Char → Bool) (s : Str) (ps : List Nat) : List Nat :=
  ps.filterMap (fun i => match s[i]? with
    | some c => if p c then some (i + 1) else none
    | none => none)

/-- end positions reachable from the start positions `ps` -/
def step : Re → Str → List Nat → List Nat
  | .eps, _, ps => ps
  | .lit c, s, ps => consume (· == c) s ps
  | .notLit c, s, ps => consume (· != c) s ps
  | .any, s, ps => consume (· != '\n') s ps
  | .cls neg items, s, ps => consume (fun c => (items.any (·.hit c)) != neg) s ps
  | .seq a b, s, ps => step b s (step a s ps)
  | .alt a b, s, ps => (insertNew (step a s ps) (step b s ps)).1
  | .rep min max r, s, ps =>
    let base := iterate (fun x => step r s x) min ps
    match max with
    | none => closure (fun x => step r s x) (s.length + 2) base base
    | some mx => upTo (fun x => step r s x) (mx - min) base
  | .bol, _, ps => ps.filter (· == 0)
  | .eol, s, ps => ps.filter (fun i => i == s.length || (i + 1 == s.length && s[i]? == some '\n'))
  | .eos, s, ps => ps.filter (· == s.length)

/-- `re.compile(pattern).match(s) is not None` -/
def isMatch (r : Re) (s : Str) : Bool := !(step r s [0]).isEmpty

end Cinco.Regex
