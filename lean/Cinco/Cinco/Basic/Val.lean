import Cinco.Basic.Tree
/-
  In-memory Python values as the library sees them.  `isinstance` is modelled with Python's subclass
  lattice (`bool ⊂ int`; proxies are lists / dicts; a digest value is a tuple), so the *order* of the type
  tests in the code is visible in the model exactly as in Python.
-/
namespace Cinco

abbrev Bytes := List UInt8

inductive Val where
  | none
  | bool (b : Bool)
  | int (i : Int)
  | flt (f : Flt)
  | str (s : Str)
  | bytes (b : Bytes)
  | list (xs : List Val)                    -- list / ListProxy
  | tuple (xs : List Val)
  | dict (kvs : List (Val × Val))           -- dict / DictProxy, insertion ordered
  | digest (salt dig : Bytes) (alg : String)
  | opaque (kind : String)                  -- anything else; only its Python type name matters
  deriving Repr, Inhabited

mutual
  def Val.beq : Val → Val → Bool
    | .none, .none => true
    | .bool a, .bool b => a == b
    | .int a, .int b => a == b
    | .flt a, .flt b => a == b
    | .str a, .str b => a == b
    | .bytes a, .bytes b => a == b
    | .list a, .list b => Val.beqList a b
    | .tuple a, .tuple b => Val.beqList a b
    | .dict a, .dict b => Val.beqKvs a b
    | .digest s d a, .digest s' d' a' => s == s' && d == d' && a == a'
    | .opaque a, .opaque b => a == b
    | _, _ => false
  def Val.beqList : List Val → List Val → Bool
    | [], [] => true
    | a :: as, b :: bs => Val.beq a b && Val.beqList as bs
    | _, _ => false
  def Val.beqKvs : List (Val × Val) → List (Val × Val) → Bool
    | [], [] => true
    | (k, a) :: as, (k', b) :: bs => Val.beq k k' && Val.beq a b && Val.beqKvs as bs
    | _, _ => false
end

mutual
  theorem Val.beq_iff : ∀ (a b : Val), Val.beq a b = true ↔ a = b
    | .none, b => by cases b <;> simp [Val.beq]
    | .bool x, b => by cases b <;> simp [Val.beq]
    | .int x, b => by cases b <;> simp [Val.beq]
    | .flt x, b => by cases b <;> simp [Val.beq]
    | .str x, b => by cases b <;> simp [Val.beq]
    | .bytes x, b => by cases b <;> simp [Val.beq]
    | .opaque x, b => by cases b <;> simp [Val.beq]
    | .digest s d a, b => by cases b <;> simp [Val.beq, and_assoc]
    | .list x, b => by
        cases b <;> simp [Val.beq]
        exact Val.beqList_iff x _
    | .tuple x, b => by
        cases b <;> simp [Val.beq]
        exact Val.beqList_iff x _
    | .dict x, b => by
        cases b <;> simp [Val.beq]
        exact Val.beqKvs_iff x _
  theorem Val.beqList_iff : ∀ (a b : List Val), Val.beqList a b = true ↔ a = b
    | [], b => by cases b <;> simp [Val.beqList]
    | x :: xs, b => by
        cases b with
        | nil => simp [Val.beqList]
        | cons y ys => simp [Val.beqList, Val.beq_iff x y, Val.beqList_iff xs ys]
  theorem Val.beqKvs_iff : ∀ (a b : List (Val × Val)), Val.beqKvs a b = true ↔ a = b
    | [], b => by cases b <;> simp [Val.beqKvs]
    | (k, x) :: xs, b => by
        cases b with
        | nil => simp [Val.beqKvs]
        | cons y ys =>
          obtain ⟨k', y⟩ := y
          simp [Val.beqKvs, Val.beq_iff k k', Val.beq_iff x y, Val.beqKvs_iff xs ys, and_assoc]
end

instance : DecidableEq Val := fun a b => decidable_of_iff _ (Val.beq_iff a b)

/-- Python truthiness -/
def Val.truthy : Val → Bool
  | .none => false
  | .bool b => b
  | .int i => i != 0
  | .flt (.dy m _) => m != 0
  | .flt .negzero => false
  | .flt _ => true
  | .str s => !s.isEmpty
  | .bytes b => !b.isEmpty
  | .list xs => !xs.isEmpty
  | .tuple xs => !xs.isEmpty
  | .dict kvs => !kvs.isEmpty
  | .digest _ _ _ => true
  | .opaque _ => true

/-- `type(v).__name__` as used in error messages and by the harness -/
def Val.typeName : Val → String
  | .none => "NoneType" | .bool _ => "bool" | .int _ => "int" | .flt _ => "float" | .str _ => "str"
  | .bytes _ => "bytes" | .list _ => "list" | .tuple _ => "tuple" | .dict _ => "dict"
  | .digest _ _ _ => "DigestValue" | .opaque k => k

end Cinco

namespace Cinco
mutual
  /-- plain data as an in-memory value -/
  def Val.ofTree : Tree → Val
    | .null => .none
    | .bool b => .bool b
    | .int i => .int i
    | .flt f => .flt f
    | .str s => .str s
    | .list xs => .list (Val.ofTrees xs)
    | .dict kvs => .dict (Val.ofKvs kvs)
  def Val.ofTrees : List Tree → List Val
    | [] => []
    | x :: xs => Val.ofTree x :: Val.ofTrees xs
  def Val.ofKvs : List (String × Tree) → List (Val × Val)
    | [] => []
    | (k, v) :: rest => (.str k.toList, Val.ofTree v) :: Val.ofKvs rest
end

mutual
  /-- the plain-data tree a value denotes, if it is plain data (strings, numbers, booleans, null, lists, string-keyed maps) -/
  def Val.toTree? : Val → Option Tree
    | .none => some .null
    | .bool b => some (.bool b)
    | .int i => some (.int i)
    | .flt f => some (.flt f)
    | .str s => some (.str s)
    | .list xs => (Val.toTrees? xs).map .list
    | .dict kvs => (Val.toKvs? kvs).map .dict
    | _ => Option.none
  def Val.toTrees? : List Val → Option (List Tree)
    | [] => some []
    | x :: xs => match Val.toTree? x, Val.toTrees? xs with
      | some t, some ts => some (t :: ts)
      | _, _ => Option.none
  def Val.toKvs? : List (Val × Val) → Option (List (String × Tree))
    | [] => some []
    | (.str k, v) :: rest => match Val.toTree? v, Val.toKvs? rest with
      | some t, some ts => some ((String.ofList k, t) :: ts)
      | _, _ => Option.none
    | _ => Option.none
end
end Cinco
