/-
  Plain-data trees: what a ConfigFormat encodes/decodes and what `to_tree` produces.
  Floats are exact dyadic rationals (or inf / nan / -0.0); strings are lists of code points.
-/
namespace Cinco

/-- A binary64 value by exact denotation: `dy m e` is `m * 2^e` (normal form: `m` odd, or `m = 0 ∧ e = 0`). -/
inductive Flt where
  | nan | pinf | ninf | negzero
  | dy (m : Int) (e : Int)
  deriving DecidableEq, Repr, Inhabited

abbrev Str := List Char

inductive Tree where
  | null
  | bool (b : Bool)
  | int (i : Int)
  | flt (f : Flt)
  | str (s : Str)
  | list (xs : List Tree)
  | dict (kvs : List (String × Tree))
  deriving Repr, Inhabited

abbrev Kvs := List (String × Tree)

mutual
  def Tree.beq : Tree → Tree → Bool
    | .null, .null => true
    | .bool a, .bool b => a == b
    | .int a, .int b => a == b
    | .flt a, .flt b => a == b
    | .str a, .str b => a == b
    | .list a, .list b => Tree.beqList a b
    | .dict a, .dict b => Tree.beqKvs a b
    | _, _ => false
  def Tree.beqList : List Tree → List Tree → Bool
    | [], [] => true
    | a :: as, b :: bs => Tree.beq a b && Tree.beqList as bs
    | _, _ => false
  def Tree.beqKvs : List (String × Tree) → List (String × Tree) → Bool
    | [], [] => true
    | (k, a) :: as, (k', b) :: bs => k == k' && Tree.beq a b && Tree.beqKvs as bs
    | _, _ => false
end

mutual
  theorem Tree.beq_iff : ∀ (a b : Tree), Tree.beq a b = true ↔ a = b
    | .null, b => by cases b <;> simp [Tree.beq]
    | .bool x, b => by cases b <;> simp [Tree.beq]
    | .int x, b => by cases b <;> simp [Tree.beq]
    | .flt x, b => by cases b <;> simp [Tree.beq]
    | .str x, b => by cases b <;> simp [Tree.beq]
    | .list x, b => by
        cases b <;> simp [Tree.beq]
        exact Tree.beqList_iff x _
    | .dict x, b => by
        cases b <;> simp [Tree.beq]
        exact Tree.beqKvs_iff x _
  theorem Tree.beqList_iff : ∀ (a b : List Tree), Tree.beqList a b = true ↔ a = b
    | [], b => by cases b <;> simp [Tree.beqList]
    | x :: xs, b => by
        cases b with
        | nil => simp [Tree.beqList]
        | cons y ys => simp [Tree.beqList, Tree.beq_iff x y, Tree.beqList_iff xs ys]
  theorem Tree.beqKvs_iff : ∀ (a b : List (String × Tree)), Tree.beqKvs a b = true ↔ a = b
    | [], b => by cases b <;> simp [Tree.beqKvs]
    | (k, x) :: xs, b => by
        cases b with
        | nil => simp [Tree.beqKvs]
        | cons y ys =>
          obtain ⟨k', y⟩ := y
          simp [Tree.beqKvs, Tree.beq_iff x y, Tree.beqKvs_iff xs ys, and_assoc]
end

instance : DecidableEq Tree := fun a b => decidable_of_iff _ (Tree.beq_iff a b)

namespace Kvs

/-- `d.get(k)` on an insertion-ordered association list. -/
def lookup (k : String) : Kvs → Option Tree
  | [] => none
  | (k', v) :: rest => if k' = k then some v else lookup k rest

/-- `d[k] = v`: replace in place when present, append otherwise (Python dict order). -/
def set (k : String) (v : Tree) : Kvs → Kvs
  | [] => [(k, v)]
  | (k', v') :: rest => if k' = k then (k', v) :: rest else (k', v') :: set k v rest

def keys (d : Kvs) : List String := d.map (·.1)

end Kvs
end Cinco

namespace Cinco
mutual
  /-- the Python dict invariant, at every depth: no key twice in a map -/
  def Tree.wf : Tree → Bool
    | .list xs => Tree.wfList xs
    | .dict kvs => Tree.wfKvs kvs
    | _ => true
  def Tree.wfList : List Tree → Bool
    | [] => true
    | x :: xs => Tree.wf x && Tree.wfList xs
  def Tree.wfKvs : List (String × Tree) → Bool
    | [] => true
    | (k, v) :: rest => !(rest.map (·.1)).contains k && Tree.wf v && Tree.wfKvs rest
end
end Cinco
