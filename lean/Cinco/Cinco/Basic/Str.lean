import Cinco.Basic.Tree
/-
  Hand-written models of the CPython string primitives the library relies on, on a *model alphabet*
  (ASCII, a few C1/Latin-1 characters with single-character case mappings, two Unicode blanks).
  Outside the alphabet the driver answers `unmodelled`.  Validated against CPython by the correspondence
  checks (trusted base, DESIGN.md section 8 item 4).
-/
namespace Cinco.Str

/-- characters `str.strip()` / `str.isspace()` treat as blank -/
def isSpace (c : Char) : Bool :=
  let n := c.toNat
  (9 ≤ n && n ≤ 13) || (28 ≤ n && n ≤ 32) || n == 0x85 || n == 0xa0 || n == 0x1680 ||
  (0x2000 ≤ n && n ≤ 0x200a) || n == 0x2028 || n == 0x2029 || n == 0x202f || n == 0x205f || n == 0x3000

/-- Latin-1 letters that have a single-character upper/lower partner in Latin-1 -/
def isLatin1Upper (n : Nat) : Bool := 0xc0 ≤ n && n ≤ 0xde && n != 0xd7
def isLatin1Lower (n : Nat) : Bool := 0xe0 ≤ n && n ≤ 0xfe && n != 0xf7

/-- the model alphabet -/
def inAlphabet (c : Char) : Bool :=
  let n := c.toNat
  n < 0x80 || n == 0x85 || n == 0xa0 || isLatin1Upper n || isLatin1Lower n || n == 0x2028 || n == 0x3000

def lowerChar (c : Char) : Char :=
  let n := c.toNat
  if 65 ≤ n && n ≤ 90 then Char.ofNat (n + 32)
  else if isLatin1Upper n then Char.ofNat (n + 32) else c

def upperChar (c : Char) : Char :=
  let n := c.toNat
  if 97 ≤ n && n ≤ 122 then Char.ofNat (n - 32)
  else if isLatin1Lower n then Char.ofNat (n - 32) else c

def lower (s : Str) : Str := s.map lowerChar
def upper (s : Str) : Str := s.map upperChar

/-- drop from the right while `p` holds -/
def dropWhileEnd (p : Char → Bool) (s : Str) : Str := (s.reverse.dropWhile p).reverse

/-- `s.strip()` -/
def strip (s : Str) : Str := dropWhileEnd isSpace (s.dropWhile isSpace)
/-- `s.strip(chars)` -/
def stripChars (cs : Str) (s : Str) : Str := dropWhileEnd (fun c => cs.contains c) (s.dropWhile (fun c => cs.contains c))

/-- `str(i)` for an `int` -/
def intRepr (i : Int) : Str := (toString i).toList

/-- the body of an `int()` literal: digits with single `_` separators strictly between digits -/
def digitsOk : Bool → Str → Bool
  | prev, [] => prev
  | prev, c :: rest =>
    if c.isDigit then digitsOk true rest
    else if c == '_' && prev then digitsOk false rest
    else false

def natOfDigits (s : Str) : Option Nat :=
  if digitsOk false s then some (Nat.ofDigitChars 10 (s.filter (· != '_')) 0) else none

/-- `int(text)` for ASCII text: surrounding blanks, optional sign, decimal digits with `_` separators -/
def pyInt (s : Str) : Option Int :=
  match strip s with
  | '-' :: r => (natOfDigits r).map (fun n => -(n : Int))
  | '+' :: r => (natOfDigits r).map (fun n => (n : Int))
  | r => (natOfDigits r).map (fun n => (n : Int))

end Cinco.Str
