import Cinco.Basic.Val
/-
  Exact arithmetic on the numeric tower the library touches: Python `int` (unbounded) and binary64 values by
  exact denotation.  Comparisons between ints and floats are exact in Python and here; NaN compares false.
-/
namespace Cinco.Num
open Cinco

/-- extended rational denotation of a number: `fin m e` = m·2^e -/
inductive Ext where
  | nan | ninf | pinf
  | fin (m e : Int)
  deriving DecidableEq, Repr

def ofFlt : Flt → Ext
  | .nan => .nan | .pinf => .pinf | .ninf => .ninf | .negzero => .fin 0 0 | .dy m e => .fin m e
def ofInt (i : Int) : Ext := .fin i 0

/-- m1·2^e1 < m2·2^e2, exactly -/
def finLt (m1 e1 m2 e2 : Int) : Bool :=
  let e := min e1 e2
  decide (m1 * 2 ^ (e1 - e).toNat < m2 * 2 ^ (e2 - e).toNat)

/-- Python `a < b` on numbers -/
def lt : Ext → Ext → Bool
  | .nan, _ => false
  | _, .nan => false
  | .ninf, .ninf => false
  | .ninf, _ => true
  | _, .ninf => false
  | .pinf, _ => false
  | _, .pinf => true
  | .fin m1 e1, .fin m2 e2 => finLt m1 e1 m2 e2

/-- a numeric bound or value as written in a field declaration -/
inductive Num where
  | int (i : Int)
  | flt (f : Flt)
  deriving DecidableEq, Repr

def Num.ext : Num → Ext
  | .int i => ofInt i
  | .flt f => ofFlt f

def Num.toVal : Num → Val
  | .int i => .int i
  | .flt f => .flt f

/-- normal form of m·2^e: m odd, or 0·2^0 -/
def normAux : Nat → Int → Int → Flt
  | 0, m, e => .dy m e
  | fuel + 1, m, e => if m == 0 then .dy 0 0 else if m % 2 == 0 then normAux fuel (m / 2) (e + 1) else .dy m e
def norm (m e : Int) : Flt := normAux (m.natAbs + 1) m e

/-- `float(i)` raises OverflowError: |i| rounds to 2^1024 or beyond -/
@[irreducible] def intOverflows (i : Int) : Bool := decide (2 ^ 1024 - 2 ^ 970 ≤ i.natAbs)

/-- `float(i)`: exact when |i| has at most 53 significant bits, otherwise rounded to 53 bits, ties to even (CPython's
    `_PyLong_AsDouble`); meaningful where `intOverflows i = false` -/
def intToFlt (i : Int) : Flt :=
  let n := i.natAbs
  let bits := if n = 0 then 0 else Nat.log2 n + 1
  if bits ≤ 53 then norm i 0
  else
    let shift := bits - 53
    let q := n / 2 ^ shift
    let r := n % 2 ^ shift
    let half := 2 ^ (shift - 1)
    let q' := if half < r || (r == half && q % 2 == 1) then q + 1 else q
    norm (if i < 0 then -(q' : Int) else (q' : Int)) (shift : Int)

/-- `int(f)`: truncation toward zero -/
inductive TruncRes where
  | ok (i : Int)
  | overflow      -- ±inf: OverflowError
  | invalid       -- NaN: ValueError
def fltToInt : Flt → TruncRes
  | .nan => .invalid
  | .pinf => .overflow
  | .ninf => .overflow
  | .negzero => .ok 0
  | .dy m e => if e ≥ 0 then .ok (m * 2 ^ e.toNat) else .ok (Int.tdiv m (2 ^ (-e).toNat))

/-- `bool(x)` for a float -/
def fltTruthy : Flt → Bool
  | .dy m _ => m != 0
  | .negzero => false
  | _ => true

end Cinco.Num
