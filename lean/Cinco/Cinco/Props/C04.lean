import Cinco.Proofs.Xml
import Cinco.Format.Yaml
/-
  C04 — each file format decodes what it encodes, types intact, and all formats agree.
  Proved here: the XML element codec (the library's own logic), the XML root-tag check, the YAML root-key
  wrapper, the registry built from the generated FORMATS table.  The text layers (json, PyYAML, bson,
  pickle, ElementTree+minidom+expat) are third-party code: they enter as the hypothesis `Codec.Law`.
-/
namespace Cinco.C04
open Cinco Cinco.Xml Cinco.Str

/-- **Generated obligation.** The Bool token tables extracted from the source today make `"true"`/`"false"`
    decode to the right booleans (re-checked by `decide` against whatever the source says on every run). -/
theorem tables_ok : TablesOk := by unfold TablesOk; decide

/-- **XML element codec is inverse on all trees**: bool / int / float / str / null are kept apart, `""` stays a
    string, `[]`, `{}` and null stay distinct, nesting and key sets are preserved — for every tree satisfying the
    dict invariant and every tag. -/
theorem xml_codec (ft : FloatText) (hft : ft.Lawful) (k : String) (t : Tree) (hwf : t.wf = true) :
    fromElement ft none (toElement ft k t) = t :=
  codec ft hft tables_ok k t hwf

/-- Distinct trees never share an encoding (types are kept apart). -/
theorem xml_injective (ft : FloatText) (hft : ft.Lawful) (k : String) (a b : Tree)
    (ha : a.wf = true) (hb : b.wf = true) (h : toElement ft k a = toElement ft k b) : a = b := by
  rw [← xml_codec ft hft k a ha, ← xml_codec ft hft k b hb, h]

/-- `loads ∘ dumps = id` at the element level, for every root tag. -/
theorem xml_root_indep (ft : FloatText) (hft : ft.Lawful) (r : String) (t : Kvs) (hwf : (Tree.dict t).wf = true) :
    loadsElem ft r (dumpsElem ft r t) = some (.dict t) := by
  have h := xml_codec ft hft r (.dict t) hwf
  simp only [loadsElem, dumpsElem, toElement, Elem.tag, bne_self_eq_false, Bool.false_eq_true, if_false]
  simp only [toElement, fromElement] at h
  simp only [fromElement]
  simpa using h

/-- A document whose root tag is not the configured one is rejected. -/
theorem xml_root_wrong (ft : FloatText) (r r' : String) (t : Kvs) (h : r ≠ r') :
    loadsElem ft r' (dumpsElem ft r t) = none := by
  simp [loadsElem, dumpsElem, toElement, Elem.tag, h]

/-- **YAML root key**: unwrapping what was wrapped gives the tree back, for every root key
    (unset, empty, or any name — also when the tree itself contains that name as a key). -/
theorem yaml_root (rk : Option String) (t : Kvs) : Yaml.unwrap rk (Yaml.wrap rk t) = .dict t := by
  cases rk with
  | none => rfl
  | some k =>
    by_cases h : k.isEmpty
    · simp [Yaml.wrap, Yaml.unwrap, h]
    · simp [Yaml.wrap, Yaml.unwrap, h, Kvs.lookup]

/-- The registry as `ConfigFormat.initialize_registry` builds it from `FORMATS`. -/
def registry : List (String × String) :=
  Generated.formats.foldl (fun r (nc : String × String) => (r.filter (fun e => e.1 != nc.1)) ++ [nc]) []

/-- **Generated obligation.** Every name in today's `FORMATS` resolves to the class registered under it
    (no name is registered twice with different classes) and all five built-in formats are present. -/
theorem registry_resolves :
    (∀ nc ∈ Generated.formats, registry.lookup nc.1 = some nc.2) ∧
    ["json", "pickle", "xml", "yaml", "bson"].all (fun n => (registry.lookup n).isSome) = true := by decide

/-- An abstract text-level codec with its domain. -/
structure Codec where
  enc : Tree → Option (List UInt8)
  dec : List UInt8 → Option Tree
  dom : Tree → Prop

/-- "decoding what was encoded yields an equal tree" on the format's domain -/
def Codec.Law (c : Codec) : Prop := ∀ t, c.dom t → ∃ b, c.enc t = some b ∧ c.dec b = some t

/-- Every lawful format maps the same tree back to the same tree. -/
theorem formats_agree (a b : Codec) (ha : a.Law) (hb : b.Law) (t : Tree) (hda : a.dom t) (hdb : b.dom t) :
    (a.enc t).bind a.dec = (b.enc t).bind b.dec := by
  obtain ⟨x, hx1, hx2⟩ := ha t hda
  obtain ⟨y, hy1, hy2⟩ := hb t hdb
  simp [hx1, hx2, hy1, hy2]

/-- Non-vacuity: a tree with every confusable scalar, empty containers below the root and the keys `item`/`type`. -/
example :
    (Tree.dict [("a", .bool true), ("b", .int 1), ("c", .str ['1']), ("d", .str []), ("e", .null),
                ("item", .list []), ("type", .dict []), ("f", .list [.dict [("x", .flt (.dy 1 0))], .int (-5)])]).wf = true := by
  decide

end Cinco.C04
