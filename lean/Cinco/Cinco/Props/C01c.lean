import Cinco.Props.C05
import Cinco.Generated.ContainerShape
/-
  C01 (finding F75) — what a typed list / dict field holds after its own validator ran.

  `Field.validate` stores what the field's validator returns.  For a typed `ListField` / `DictField` a validator may hand back a
  NEW container (sorted, de-duplicated, `dict(value)`); before the repair that plain container was held as it was, and nothing
  said that its items satisfy the item field.  After the repair (`ListField.validate` / `DictField.validate`) the container fields
  pass the validator's result through their own `_validate` once more.  `validateC` is that chain.
-/
namespace Cinco.C01c
open Cinco Cinco.Field

/-- the two container kinds -/
def isContainer : Kind → Bool
  | .list _ => true
  | .dict _ _ => true
  | _ => false

/-- `ListField.validate` / `DictField.validate` after F75: the usual chain, and — when the field has a validator of its own and
    the result is not `None` — the kind's `_validate` once more on what the validator handed back -/
def validateC (E : Env) : FieldSpec → Val → R Val
  | .mk kind req custom, v =>
    match validate E (.mk kind req custom) v with
    | .error e => .error e
    | .ok .none => .ok .none
    | .ok w => if custom.isSome && isContainer kind then validateKind E kind req w else .ok w

/-- A field without a validator of its own is not affected. -/
theorem validateC_no_validator (E : Env) (k : Kind) (req : Bool) (v : Val) :
    validateC E (.mk k req none) v = validate E (.mk k req none) v := by
  simp only [validateC]
  cases h : validate E (.mk k req none) v with
  | error e => rfl
  | ok w => cases w <;> simp

/-- A field that is no container is not affected. -/
theorem validateC_scalar (E : Env) (k : Kind) (req : Bool) (c : Option String) (v : Val) (hk : isContainer k = false) :
    validateC E (.mk k req c) v = validate E (.mk k req c) v := by
  simp only [validateC]
  cases h : validate E (.mk k req c) v with
  | error e => rfl
  | ok w => cases w <;> simp [hk]

/-- **What a typed container field holds after its validator ran is a fixed point of the field's own `_validate`** — every item
    (key, value) satisfies its field and is in normal form — *whatever* the validator handed back: a sorted copy, a filtered one,
    a list with items the item field would have to convert.  Needs idempotence of the item fields (`IdemOkKind`: everything
    except the recorded F22 / F25 parameterisations). -/
theorem held_container_is_normal (E : Env) (hE : EnvOk E) (k : Kind) (req : Bool) (name : String) (v w : Val)
    (hk : isContainer k = true) (hi : IdemOkKind k = true) (hw : w ≠ .none)
    (h : validateC E (.mk k req (some name)) v = .ok w) : validateKind E k req w = .ok w := by
  simp only [validateC] at h
  cases hv : validate E (.mk k req (some name)) v with
  | error e => simp [hv] at h
  | ok u =>
    cases u with
    | none => simp [hv] at h; exact absurd h.symm hw
    | _ =>
      simp only [hv, Option.isSome_some, hk, Bool.and_self, if_true] at h
      exact Field.validateKind_idem prims E hE k req _ w hi h

/-- A validator that hands back normal forms (what the harness' catalogue validators and every validator that only checks do):
    the additional step changes nothing, so `validate` — the chain every other theorem is about — describes such fields exactly. -/
theorem validateC_eq_of_lawful (E : Env) (k : Kind) (req : Bool) (name : String) (v : Val)
    (hlaw : ∀ w, validate E (.mk k req (some name)) v = .ok w → w ≠ .none → validateKind E k req w = .ok w) :
    validateC E (.mk k req (some name)) v = validate E (.mk k req (some name)) v := by
  simp only [validateC]
  cases hv : validate E (.mk k req (some name)) v with
  | error e => rfl
  | ok u =>
    cases u with
    | none => rfl
    | _ =>
      simp only [Option.isSome_some, Bool.true_and]
      split
      · exact hlaw _ hv (by simp)
      · rfl

/-- **/repo's `ListField.validate` and `DictField.validate` are the chain `validateC` follows** (generated reading of
    cincoconfig/fields/list_field.py and dict_field.py, regenerated on every run): the inherited chain first, then — only when the
    field has a validator and the result is not `None` — the field's own `_validate` on what came back. -/
theorem container_validate_code_order :
    Generated.containerShape.lookup "ListField.validate" =
      some ["value = super().validate(cfg, value)", "if[self.validator and value is not None]", "value = self._validate(cfg, value)", "end",
            "return value"] ∧
    Generated.containerShape.lookup "DictField.validate" =
      some ["value = super().validate(cfg, value)", "if[self.validator and value is not None]", "value = self._validate(cfg, value)", "end",
            "return value"] := by decide

/-- an environment whose only catalogue validator hands back a list with an item the item field must reject -/
def envBad : Env := { C05.env0 with custom := fun _ _ => .ok (.list [.int 1, .str "x".toList]) }

/-- **F75 was real in the model too**: without the additional step the chain accepts, for a list of integers, a validator
    result that holds a string — the value the configuration would hold does not satisfy the field. -/
example : validate envBad (.mk (.list (some (.mk (.int none none) false none))) false (some "dedupe")) (.list [.int 1])
    = .ok (.list [.int 1, .str "x".toList]) := by decide +kernel

/-- … and with it the same input is refused (non-vacuity of `held_container_is_normal`: its hypothesis is not always met). -/
example : validateC envBad (.mk (.list (some (.mk (.int none none) false none))) false (some "dedupe")) (.list [.int 1])
    = .error .value := by decide +kernel

/-- a validator result that needs converting is converted: the held list is the normal form -/
def envConv : Env := { C05.env0 with custom := fun _ _ => .ok (.list [.int 2, .int 1]) }

example : validateC envConv (.mk (.list (some (.mk (.int none none) false none))) false (some "sort")) (.list [.int 1, .int 2])
    = .ok (.list [.int 2, .int 1]) := by decide +kernel

end Cinco.C01c
