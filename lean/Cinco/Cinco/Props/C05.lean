import Cinco.Field.Codec
/-
  C05 — field validation is exact and idempotent; the on-disk encoding is invertible.
-/
namespace Cinco.C05
open Cinco Cinco.Field

/-- `None` is accepted exactly by fields that are not required, and stays `None` (no validator runs on it). -/
theorem validate_none (E : Env) (k : Kind) (req : Bool) (c : Option String) :
    validate E (.mk k req c) .none = if req then .error .value else .ok .none := by
  cases req <;> simp [validate]

end Cinco.C05
