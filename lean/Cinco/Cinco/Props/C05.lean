import Cinco.Proofs.Prims
import Cinco.Proofs.Base64
/-
  C05 — field validation is exact and idempotent; the on-disk encoding is invertible.
  `validate` is the code-order model of `Field.validate` + every built-in `_validate` (Cinco/Field/Validate.lean).
-/
namespace Cinco.C05
open Cinco Cinco.Field

/-- `None` is accepted exactly by fields that are not required, and stays `None` (no validator runs on it). -/
theorem validate_none (E : Env) (k : Kind) (req : Bool) (c : Option String) :
    validate E (.mk k req c) .none = if req then .error .value else .ok .none := by
  cases req <;> simp [validate]

/-- **Idempotence**, for every built-in field class under every parameterisation covered by `IdemOk`
    (everything except custom validators and the two recorded findings F22 / F25), at every nesting depth of typed
    lists and dicts, for every input value of every type: validating an accepted result again returns the same value
    and never rejects it.  `EnvOk` is what it needs from `os.path` (a resolved path is absolute). -/
theorem validate_idem (E : Env) (hE : EnvOk E) (f : FieldSpec) (v v' : Val) (hf : IdemOk f = true)
    (h : validate E f v = .ok v') : validate E f v' = .ok v' :=
  Field.validate_idem prims E hE f v v' hf h

/-- String transforms are idempotent for every combination of strip (off / whitespace / characters) and case
    (none / lower / upper) options — the repaired order strip, case, strip again (finding F9). -/
theorem string_transform_idem (o : StrOpts) (s : Str) : transform o (transform o s) = transform o s :=
  transform_idem o s

instance : DecidableEq (Except Err Val) := fun a b =>
  match a, b with
  | .ok x, .ok y => if h : x = y then isTrue (by rw [h]) else isFalse (by intro e; cases e; exact h rfl)
  | .error x, .error y => if h : x = y then isTrue (by rw [h]) else isFalse (by intro e; cases e; exact h rfl)
  | .ok _, .error _ => isFalse (by intro e; cases e)
  | .error _, .ok _ => isFalse (by intro e; cases e)

/-- a trivial environment for closed examples -/
def env0 : Env :=
  { parseFloat := fun _ => none, fsKind := fun _ => .absent, isabs := fun s => s.head? == some '/', resolve := fun _ t => '/' :: t,
    urlOk := fun _ => false, salt := fun _ => [], hash := fun _ b => b, utf8 := fun _ => [], custom := fun _ v => .ok v }

/-- **Finding F22 is real (the full statement is false without the guard)**: with a StringField option on an
    IPv4NetworkField the canonical form that validation returns is rejected by the same field. -/
theorem idem_false_ipv4net_with_string_options :
    ∃ (f : FieldSpec) (v v' : Val), validate env0 f v = .ok v' ∧ validate env0 f v' = .error .value :=
  ⟨.mk (.ipv4net { maxLen := some 8 } none none) false none, .str "10.0.0.1".toList, .str "10.0.0.1/32".toList, by decide +kernel, by decide +kernel⟩

/-- Non-vacuity of `validate_idem`: a nested declaration inside the guard with a value that is really normalised. -/
example : IdemOk (.mk (.list (some (.mk (.string { strip := .chars ['x'], case := some .lower, minLen := some 2 }) true none))) true none) = true := by decide
example : validate env0 (.mk (.list (some (.mk (.string { strip := .chars ['x'], case := some .lower, minLen := some 2 }) true none))) true none)
    (.tuple [.str "Xabcx".toList]) = .ok (.list [.str "abc".toList]) := by decide +kernel

/-! ### On-disk encoding -/

/-- **Bytes**: decoding the stored text gives the bytes back, for both encodings and every byte string. -/
theorem bytes_codec (E : CodecEnv) (enc : Enc) (req : Bool) (b : Bytes) :
    (toBasic E (.mk (.bytes enc) req none) (.bytes b)).bind (toPython E (.mk (.bytes enc) req none)) = .ok (.bytes b) := by
  cases enc <;> simp [toBasic, toBasicKind, toPython, toPythonKind, encodeBytes, decodeBytes, Except.bind,
    B64.decode_encode, B64.hexDecode_hexEncode]

/-- **Digests**: salt and digest survive the stored form, for a digest of the field's own algorithm (finding F23 is the
    case of a foreign algorithm, which the stored form cannot carry). -/
theorem challenge_codec (E : CodecEnv) (alg : String) (req : Bool) (salt dig : Bytes) :
    (toBasic E (.mk (.challenge alg) req none) (.digest salt dig alg)).bind (toPython E (.mk (.challenge alg) req none)) =
      .ok (.digest salt dig alg) := by
  simp [toBasic, toBasicKind, toPython, toPythonKind, digestToBasic, dictGet, Except.bind, B64.decode_encode]

/-- Identity-coded kinds: strings, numbers, booleans, addresses, paths, URLs are stored as they are. -/
theorem scalar_codec (E : CodecEnv) (k : Kind) (req : Bool) (v : Val)
    (hk : match k with | .string _ | .int _ _ | .float _ _ | .bool | .ipv4addr _ | .ipv4net _ _ _ | .hostname _ _ | .filename _ _ _ | .url _ | .any => True | _ => False) :
    toBasic E (.mk k req none) v = .ok v ∧ toPython E (.mk k req none) v = .ok v := by
  cases k <;> simp at hk <;> simp [toBasic, toBasicKind, toPython, toPythonKind]

end Cinco.C05
