import Cinco.Props.C08
import Cinco.Proofs.AesInverse
/-
  C08 (continuation) — the block-cipher hypothesis discharged for the executable AES-256 of the model.
  `Cinco/Crypto/Aes256.lean` is the FIPS-197 cipher the driver runs against every ciphertext the library produces; here it is
  proved to be a lawful block cipher for every key, so the CBC and SecureField round trips of C08 hold for it outright.
-/
namespace Cinco.C08b
open Cinco Cinco.Crypto

/-- **AES-256 decryption inverts encryption**, for every key (of any length: the key schedule pads / cuts to 32 bytes) and every
    16-byte block: InvSubBytes∘SubBytes by exhaustive check of the S-box table, InvShiftRows∘ShiftRows as a permutation,
    AddRoundKey as XOR involution, InvMixColumns∘MixColumns from the XOR-linearity of `xtime` — no enumeration beyond 256 cases. -/
theorem aes_block_inverse (key block : List UInt8) (hb : block.length = 16) :
    Aes.decryptBlock key (Aes.encryptBlock key block) = block :=
  aes_dec_enc key block hb

theorem aes_block_length (key block : List UInt8) : (Aes.encryptBlock key block).length = 16 :=
  aes_enc_len' key block

/-- the executable AES is a lawful block cipher: the hypothesis `BlockCipher.Lawful` of `C08.cbc_roundtrip`, `aes_layout`,
    `secure_roundtrip` is a theorem for it -/
theorem aes_lawful : aesCipher.Lawful := aesCipher_lawful

/-- **CBC round trip for the real cipher**, no hypothesis on the block function left -/
theorem aes_cbc_roundtrip (k iv p : Bytes) (hiv : iv.length = 16) :
    aesDecrypt aesCipher k (aesEncrypt aesCipher k iv p) = .ok p :=
  C08.cbc_roundtrip aesCipher aesCipher_lawful k iv p hiv

end Cinco.C08b
