import Cinco.Proofs.Include
/-
  C18 — including files is a deep merge in the including scope, included values win.
  Property theorems only; helper lemmas live in Cinco/Proofs/Include.lean.
-/
namespace Cinco.C18
open Cinco Cinco.Include Cinco.Kvs

/-- **Lookup law.** For every key, the merged tree holds: the recursive merge when both sides hold maps,
    otherwise the included (child) value when the child has the key, otherwise the base value. -/
theorem merge_lookup (b ch : Kvs) (hc : (keys ch).Nodup) (k : String) :
    lookup k (combine b ch) =
      match lookup k b, lookup k ch with
      | some (.dict x), some (.dict y) => some (.dict (combine x y))
      | _, some v => some v
      | r, none => r := by
  unfold combine
  rw [lookup_combineInto b k ch b hc]
  cases hch : lookup k ch with
  | none =>
    cases lookup k b with
    | none => rfl
    | some bv => cases bv <;> rfl
  | some v =>
    cases v with
    | dict y =>
      cases hb : lookup k b with
      | none => simp [mergeVal]
      | some bv => cases bv <;> simp [mergeVal, combine]
    | _ => cases hb : lookup k b with
      | none => simp [mergeVal]
      | some bv => cases bv <;> simp [mergeVal]

/-- **Key law.** Keys present on only one side are kept; order = base keys, then new child keys in child order. -/
theorem merge_keys (b ch : Kvs) (hc : (keys ch).Nodup) :
    keys (combine b ch) = keys b ++ (keys ch).filter (fun k => decide (k ∉ keys b)) :=
  keys_combineInto b ch b hc

/-- Merging keeps the dict invariant (no key twice). -/
theorem merge_nodup (b ch : Kvs) (hb : (keys b).Nodup) (hc : (keys ch).Nodup) :
    (keys (combine b ch)).Nodup := by
  rw [merge_keys b ch hc]
  refine List.nodup_append.2 ⟨hb, hc.filter _, ?_⟩
  intro x hx y hy hxy
  subst hxy
  simp only [List.mem_filter, decide_eq_true_eq] at hy
  exact hy.2 hx

/-- Merging nothing changes nothing. -/
theorem merge_empty_child (b : Kvs) : combine b [] = b := rfl

/-- Merging into nothing yields the included tree (for trees that satisfy the dict invariant). -/
theorem merge_empty_base : ∀ (ch : Kvs), (keys ch).Nodup → combine [] ch = ch := by
  intro ch hnd
  have h : ∀ (ch ret : Kvs), (∀ k ∈ keys ch, k ∉ keys ret) → (keys ch).Nodup →
      combineInto [] ret ch = ret ++ ch := by
    intro ch
    induction ch with
    | nil => intro ret _ _; simp [combineInto]
    | cons hd tl ih =>
      intro ret hdis hnd
      obtain ⟨k, v⟩ := hd
      have hk : k ∉ keys ret := hdis k (by simp [keys])
      have hset : ∀ (ret : Kvs), k ∉ keys ret → Kvs.set k v ret = ret ++ [(k, v)] := by
        intro ret
        induction ret with
        | nil => intro _; rfl
        | cons hd' tl' ih' =>
          intro hk
          obtain ⟨k'', v''⟩ := hd'
          simp only [keys, List.map_cons, List.mem_cons, not_or] at hk
          have : ¬ k'' = k := fun e => hk.1 e.symm
          simp only [Kvs.set, this, if_false, List.cons_append]
          congr 1
          exact ih' hk.2
      simp only [keys, List.map_cons, List.nodup_cons] at hnd
      rw [combineInto, lookup_nil, mergeVal_none, hset ret hk, ih]
      · simp
      · intro k' hk' hmem
        simp only [keys, List.map_append, List.map_cons, List.map_nil, List.mem_append,
          List.mem_singleton] at hmem
        rcases hmem with hmem | hmem
        · exact hdis k' (by simp [keys]; right; simpa [keys] using hk') (by simpa [keys] using hmem)
        · subst hmem; exact hnd.1 (by simpa [keys] using hk')
      · exact hnd.2
  simpa [combine] using h ch [] (by simp [keys]) hnd

/-- Included value wins on a map / non-map conflict, in both directions. -/
theorem conflict_child_wins (b ch : Kvs) (hc : (keys ch).Nodup) (k : String) (v : Tree)
    (hv : lookup k ch = some v) (hconf : (∀ y, v ≠ .dict y) ∨ (∀ x, lookup k b ≠ some (.dict x))) :
    lookup k (combine b ch) = some v := by
  rw [merge_lookup b ch hc k, hv]
  rcases hconf with h | h
  · cases hb : lookup k b with
    | none => rfl
    | some bv => cases bv <;> cases v <;> simp_all
  · cases hb : lookup k b with
    | none => rfl
    | some bv => cases bv <;> cases v <;> simp_all

/-! ### Loading with includes (`Config._process_includes`) -/

/-- A schema without include fields anywhere never changes a tree whose nested-schema values are maps
    (so a load without includes is just `load_tree`). -/
theorem no_includes_identity (resolve : Tree → Option Kvs) (k : String) (t : Kvs) :
    process resolve (.mk [] []) t = .ok t ∧
    processSubs resolve [(k, .mk [] [])] t =
      .ok (match lookup k t with
           | some (.dict sub) => if sub.isEmpty then t else Kvs.set k (.dict sub) t
           | _ => t) := by
  constructor
  · simp [process, processIncs, processSubs]
  · cases h : lookup k t with
    | none => simp [processSubs, h]
    | some v =>
      cases v <;> simp [processSubs, h, process, processIncs]
      all_goals (split <;> rfl)

/-- One include at the root: the result is the deep merge of the included tree into the document. -/
theorem include_root (resolve : Tree → Option Kvs) (inc : String) (t ch : Kvs) (fn : Tree)
    (hfn : lookup inc t = some fn) (hnn : fn ≠ .null) (hres : resolve fn = some ch) :
    process resolve (.mk [inc] []) t = .ok (combine t ch) := by
  cases fn <;> simp_all [process, processIncs, processSubs]

/-- An include whose file cannot be resolved makes the load fail. -/
theorem include_missing_fails (resolve : Tree → Option Kvs) (inc : String) (rest : List String)
    (subs : List (String × IncSchema)) (t : Kvs) (fn : Tree)
    (hfn : lookup inc t = some fn) (hnn : fn ≠ .null) (hres : resolve fn = none) :
    process resolve (.mk (inc :: rest) subs) t = .error .unresolved := by
  cases fn <;> simp_all [process, processIncs]

/-- No include named (key absent or null): nothing is merged for that field. -/
theorem include_absent_skipped (resolve : Tree → Option Kvs) (inc : String) (rest : List String) (t : Kvs)
    (h : lookup inc t = none ∨ lookup inc t = some .null) :
    processIncs resolve (inc :: rest) t = processIncs resolve rest t := by
  rcases h with h | h <;> simp [processIncs, h]

/-- A chain in one scope: the second include is looked up in the tree *after* the first merge
    (so an included file may itself name a later include field), and merges happen in schema order. -/
theorem include_chain (resolve : Tree → Option Kvs) (i1 i2 : String) (t c1 c2 : Kvs) (f1 f2 : Tree)
    (h1 : lookup i1 t = some f1) (n1 : f1 ≠ .null) (r1 : resolve f1 = some c1)
    (h2 : lookup i2 (combine t c1) = some f2) (n2 : f2 ≠ .null) (r2 : resolve f2 = some c2) :
    process resolve (.mk [i1, i2] []) t = .ok (combine (combine t c1) c2) := by
  cases f1 <;> cases f2 <;> simp_all [process, processIncs, processSubs]

/-- An include inside a nested schema merges into that nested scope only; every other root key is untouched. -/
theorem include_nested_scope (resolve : Tree → Option Kvs) (s inc : String) (t sub ch : Kvs) (fn : Tree)
    (hs : lookup s t = some (.dict sub)) (hfn : lookup inc sub = some fn) (hnn : fn ≠ .null)
    (hres : resolve fn = some ch) :
    ∃ t', process resolve (.mk [] [(s, .mk [inc] [])]) t = .ok t' ∧
      lookup s t' = some (.dict (combine sub ch)) ∧ ∀ k, k ≠ s → lookup k t' = lookup k t := by
  have hne : sub.isEmpty = false := by
    cases sub with
    | nil => simp [lookup] at hfn
    | cons _ _ => rfl
  refine ⟨Kvs.set s (.dict (combine sub ch)) t, ?_, lookup_set_same _ _ _, fun k hk => lookup_set_other (Ne.symm hk) _ _⟩
  have hp := include_root resolve inc sub ch fn hfn hnn hres
  rw [process]
  simp only [processIncs]
  rw [processSubs]
  simp only [hs, hne, hp]
  simp [processSubs]

/-- Non-vacuity: a base and a child sharing a map key, a conflict key and disjoint keys. -/
example :
    let b : Kvs := [("a", .dict [("x", .int 1), ("y", .int 2)]), ("c", .dict [("q", .null)]), ("only_b", .bool true)]
    let ch : Kvs := [("a", .dict [("y", .int 3), ("z", .int 4)]), ("c", .int 7), ("only_c", .str ['s'])]
    (keys ch).Nodup ∧
    keys (combine b ch) = ["a", "c", "only_b", "only_c"] ∧
    lookup "c" (combine b ch) = some (.int 7) := by
  refine ⟨by decide, by decide, by decide⟩

end Cinco.C18
