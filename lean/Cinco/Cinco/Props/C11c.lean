import Cinco.Props.C11
import Cinco.Props.C11b
/-
  C11 (continuation) — what switches a section off.
-/
namespace Cinco.C11c
open Cinco Cinco.Field Cinco.Config

/-! ### What switches a section off

  `featureEnabled s c` (Config/Ops.lean) is `Schema._is_feature_enabled`: ALL flag fields of the schema, each answering with the
  value the configuration HOLDS (the last two entries of the generated table above: `all(...)` over the flags, `__getval__` of the
  configuration — no environment, no world).  Hence: -/

/-- what one flag field says -/
def flagOn (c : Cfg) (k : String) : Bool := match c.get k with | some (.val v) => v.truthy | _ => false

/-- **a section is exempt exactly when SOME flag of its schema is off** (or unset) — whichever, in whatever position -/
theorem exempt_iff_some_flag_off (s : Schema) (c : Cfg) :
    featureEnabled s c = false ↔ ∃ k fs m, (k, SField.leaf fs m) ∈ s.fields ∧ m.isFlag = true ∧ flagOn c k = false := by
  unfold featureEnabled
  rw [List.all_eq_false]
  constructor
  · rintro ⟨⟨k, f⟩, hmem, hbad⟩
    cases f with
    | leaf fs m =>
      by_cases hm : m.isFlag = true
      · refine ⟨k, fs, m, hmem, hm, ?_⟩
        simp only [hm, if_true] at hbad
        unfold flagOn
        cases hg : c.get k with
        | none => rfl
        | some sl =>
          cases sl with
          | val v => simpa [hg] using hbad
          | node _ => rfl
          | nodes _ => rfl
      · simp [hm] at hbad
    | sub _ => simp at hbad
    | ctype _ _ => simp at hbad
    | cfgList _ _ _ _ => simp at hbad
    | virtual _ _ => simp at hbad
    | method => simp at hbad
  · rintro ⟨k, fs, m, hmem, hm, hoff⟩
    refine ⟨(k, .leaf fs m), hmem, ?_⟩
    simp only [hm, if_true]
    unfold flagOn at hoff
    cases hg : c.get k with
    | none => simp
    | some sl =>
      cases sl with
      | val v => simpa [hg] using hoff
      | node _ => simp
      | nodes _ => simp

/-- **the order of the flags does not matter** (nor where among the other fields they stand) -/
theorem flag_order_irrelevant (fields fields' : List (String × SField)) (dyn : Bool) (vs : List String) (c : Cfg) (hp : fields.Perm fields') :
    featureEnabled (.mk fields dyn vs) c = featureEnabled (.mk fields' dyn vs) c := by
  simp only [featureEnabled, Schema.fields]
  exact hp.all_eq

/-- with every flag on the section is held to its rules: validation is what the fields and validators say -/
theorem all_flags_on (s : Schema) (c : Cfg) (h : ∀ k fs m, (k, SField.leaf fs m) ∈ s.fields → m.isFlag = true → flagOn c k = true) :
    featureEnabled s c = true := by
  cases hf : featureEnabled s c with
  | true => rfl
  | false =>
    obtain ⟨k, fs, m, hmem, hm, hoff⟩ := (exempt_iff_some_flag_off s c).1 hf
    rw [h k fs m hmem hm] at hoff
    cases hoff


end Cinco.C11c
