import Cinco.Proofs.Cfg
/-
  C15 — every rejection is a validation error that names the offending field's full path.
-/
namespace Cinco.C15
open Cinco Cinco.Field Cinco.Config

/-- errors of field validation are always turned into the library's ValidationError -/
theorem fieldErr_is_validation (path k : String) (e : Field.Err) : ∃ p, fieldErr path k e = .validation p := by
  cases e <;> exact ⟨_, rfl⟩

/-- the reference path of a (non-entry) field error is exactly the configuration's path joined with the key -/
theorem fieldErr_path (path k : String) (e : Field.Err) (h : ∀ key, e ≠ .entry key) : fieldErr path k e = .validation (joinPath path k) := by
  cases e <;> first | rfl | exact absurd rfl (h _)

/-- entry errors of typed dicts carry the key in brackets after that path -/
theorem fieldErr_entry_path (path k : String) (key : Val) :
    ∃ suffix, fieldErr path k (.entry key) = .validation (joinPath path k ++ "[" ++ suffix ++ "]") := ⟨_, rfl⟩

/-- **Every rejection of a value for a declared leaf field is a ValidationError** — whatever the type or shape of the value
    (including a configuration object) — and so is every rejected assignment to a virtual or instance-method field. -/
theorem leaf_rejection_is_validation (W : World) (fuel : Nat) (s : Schema) (path : String) (c : Cfg) (k : String) (a : Arg) (n : Nat)
    (f : SField) (hf : s.get k = some f) (hleaf : match f with | .leaf _ _ => True | .virtual _ _ => True | .method => True | _ => False)
    (e : CErr) (herr : (setValue W (fuel + 1) s path c k a n).err = some e) : ∃ p, e = .validation p := by
  unfold setValue at herr
  have hg : getField s c k = .declared f := by simp [getField, hf]
  simp only [hg] at herr
  cases f with
  | leaf fs m =>
    cases a with
    | val v =>
      simp only at herr
      cases hv : validate W.fe.toEnv fs v with
      | ok v' => simp [hv] at herr
      | error fe => simp [hv] at herr; obtain ⟨p, hp⟩ := fieldErr_is_validation path k fe; exact ⟨p, by rw [← herr, hp]⟩
    | cfg sub same =>
      simp only at herr
      cases hv : validate W.fe.toEnv fs (.opaque "Config") with
      | ok v' => simp [hv] at herr
      | error fe => simp [hv] at herr; obtain ⟨p, hp⟩ := fieldErr_is_validation path k fe; exact ⟨p, by rw [← herr, hp]⟩
  | virtual cst hs => cases hs <;> simp at herr; exact ⟨_, herr.symm⟩
  | method => simp at herr; exact ⟨_, herr.symm⟩
  | sub _ => exact absurd hleaf id
  | ctype _ _ => exact absurd hleaf id
  | cfgList _ _ _ _ => exact absurd hleaf id

/-- **…and it names the full path**: the configuration's own reference path joined with the field key (for a rejected
    entry of a typed dict, followed by the key in brackets). -/
theorem leaf_rejection_path (W : World) (fuel : Nat) (s : Schema) (path : String) (c : Cfg) (k : String) (v : Val) (n : Nat)
    (fs : FieldSpec) (m : LeafMeta) (hf : s.get k = some (.leaf fs m)) (e : CErr)
    (herr : (setValue W (fuel + 1) s path c k (.val v) n).err = some e) :
    e = .validation (joinPath path k) ∨ ∃ suffix, e = .validation (joinPath path k ++ "[" ++ suffix ++ "]") := by
  unfold setValue at herr
  have hg : getField s c k = .declared (.leaf fs m) := by simp [getField, hf]
  simp only [hg] at herr
  cases hv : validate W.fe.toEnv fs v with
  | ok v' => simp [hv] at herr
  | error fe =>
    simp [hv] at herr
    cases fe with
    | entry key => right; obtain ⟨sfx, hs⟩ := fieldErr_entry_path path k key; exact ⟨sfx, by rw [← herr, hs]⟩
    | value => left; rw [← herr]; rfl
    | type => left; rw [← herr]; rfl
    | overflow => left; rw [← herr]; rfl

/-- a map, a configuration or anything else assigned to a sub-configuration slot: the slot itself is named when the value
    cannot be coerced or is a configuration of another schema -/
theorem sub_rejection_scalar (W : World) (fuel : Nat) (s' : Schema) (kf : Option String) (path : String) (c : Cfg) (k : String) (v : Val) (n : Nat)
    (hv : ∀ kvs, v ≠ .dict kvs) : (setSub W fuel s' kf path c k (.val v) n).err = some (.validation (joinPath path k)) := by
  unfold setSub
  cases v <;> first | rfl | exact absurd rfl (hv _)

/-- **Dotted paths accumulate**: an assignment through `a.b.c` is an assignment on the configuration reached by `a.b`
    whose own reference path is `a.b`, so a rejection of `c` there is reported as `a.b.c` (one step of the walk). -/
theorem setItem_descends (W : World) (fuel : Nat) (s : Schema) (path : String) (c : Cfg) (k rest : List Char) (a : Arg) (n : Nat)
    (s' : Schema) (kf : Option String) (sub : Cfg) (f : SField) (hk : '.' ∉ k) (hrest : rest ≠ [])
    (hf : s.get (String.ofList k) = some f) (hs : subSchema f = some (s', kf)) (hget : c.get (String.ofList k) = some (.node sub)) :
    (setItem W (fuel + 1) s path c (k ++ '.' :: rest) a n).err =
      (setItem W fuel s' (joinPath path (String.ofList k)) sub rest a n).err := by
  have hp : partitionDot (k ++ '.' :: rest) = (k, some rest) := partitionDot_append k rest hk
  have hre : rest.isEmpty = false := by cases rest <;> simp_all
  have hg : getField s c (String.ofList k) = .declared f := by simp [getField, hf]
  conv => lhs; unfold setItem
  simp only [hp, hre, Bool.false_eq_true, if_false, hg, hs, hget]

end Cinco.C15
