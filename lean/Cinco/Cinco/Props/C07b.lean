import Cinco.Props.C07
import Cinco.Generated.KeyFileShape
/-
  C07 (continuation) — sessions over whole histories.
  C07's theorems are per step (`kf_verbatim`, `kf_created`, `kf_bad_rejected`, `kf_closed`) plus the invariant along every properly
  nested history (`run_inv`).  Joined here: *whatever* happened before — failed opens, contexts left by an exception (the model's
  `exit` is the one `__exit__`, taken on both ways out), other objects for the same path, the file replaced, deleted and re-created
  from outside — an object all of whose contexts have closed holds nothing, and its next session uses the key file as it is *then*:
  verbatim when it holds 32 bytes (`next_session_uses_current_file`), refused when it does not (`next_session_refuses_bad_file`),
  created from the next random bytes when it is missing (`next_session_creates_missing_file`).  A key that was on disk earlier is
  never used again once the file has been replaced (`rotation_respected`): the property "used for that session and all later ones"
  is about the *file*, not about what an object happened to read before.
-/
namespace Cinco.C07b
open Cinco.Crypto Cinco.KeyFile Cinco.C07

/-- the object `i` after a history, with the invariant it carries -/
theorem obj_inv_after (ops : List Op) (s0 : State) (h0 : StateInv s0) (ha : AllowedRun s0 ops) (i : Nat) (o : Obj)
    (hg : (run s0 ops).1.objs[i]? = some o) : Inv o :=
  (run_inv ops s0 h0 ha).1 o (List.mem_of_getElem? hg)

/-- **after any history, a closed object holds no key material** (also after failed opens and contexts left by exceptions) -/
theorem closed_holds_nothing (ops : List Op) (s0 : State) (h0 : StateInv s0) (ha : AllowedRun s0 ops) (i : Nat) (o : Obj)
    (hg : (run s0 ops).1.objs[i]? = some o) (hc : o.refcount = 0) :
    o.key = none ∧ (step (run s0 ops).1 (.use i)).2 = .err .notOpen := by
  have hi := obj_inv_after ops s0 h0 ha i o hg
  have hk := kf_closed o hi hc
  refine ⟨hk.1, ?_⟩
  simp only [step, hg, hk.2]

/-- **the next session uses the file as it is now, verbatim** — whatever keys the object or the file held earlier in the history -/
theorem next_session_uses_current_file (ops : List Op) (s0 : State) (h0 : StateInv s0) (ha : AllowedRun s0 ops) (i : Nat) (o : Obj)
    (hg : (run s0 ops).1.objs[i]? = some o) (hc : o.refcount = 0) (k : Bytes)
    (hf : (run s0 ops).1.world.file = .data k) (hk : k.length = 32) :
    let s := (run s0 ops).1
    (step s (.enter i)).2 = .ok ∧ (step s (.enter i)).1.world = s.world ∧
    (step (step s (.enter i)).1 (.use i)).2 = .key k := by
  intro s
  have hi := obj_inv_after ops s0 h0 ha i o hg
  have he := kf_verbatim o s.world k hi hc hf hk
  have hstep : step s (.enter i) = ({ objs := s.objs.set i { key := some k, refcount := 1 }, world := s.world }, .ok) := by
    simp only [step]
    rw [show s.objs[i]? = some o from hg]
    simp only [he]
  have hlt : i < s.objs.length := by
    have := hg
    rcases Nat.lt_or_ge i s.objs.length with h | h
    · exact h
    · rw [List.getElem?_eq_none h] at this; cases this
  refine ⟨by rw [hstep], by rw [hstep], ?_⟩
  rw [hstep]
  simp only [step, List.getElem?_set_self hlt, useKey]
  have hne : k.isEmpty = false := by
    cases k with
    | nil => simp at hk
    | cons _ _ => rfl
  simp [hne]

/-- **a file of any other size is refused again**, and the object stays closed and empty (so is the attempt after that) -/
theorem next_session_refuses_bad_file (ops : List Op) (s0 : State) (h0 : StateInv s0) (ha : AllowedRun s0 ops) (i : Nat) (o : Obj)
    (hg : (run s0 ops).1.objs[i]? = some o) (hc : o.refcount = 0) (b : Bytes)
    (hf : (run s0 ops).1.world.file = .data b) (hb : b.length ≠ 32) :
    let s := (run s0 ops).1
    (step s (.enter i)).2 = .err .encryption ∧ (step s (.enter i)).1.world = s.world ∧ (step s (.enter i)).1.objs = s.objs := by
  intro s
  have hi := obj_inv_after ops s0 h0 ha i o hg
  have he := (kf_bad_rejected o s.world b hi hc hf hb).1
  have hlt : i < s.objs.length := by
    rcases Nat.lt_or_ge i s.objs.length with h | h
    · exact h
    · have := hg; rw [List.getElem?_eq_none h] at this; cases this
  have hset : s.objs.set i o = s.objs := by
    apply List.ext_getElem?
    intro j
    by_cases hj : j = i
    · subst hj; rw [List.getElem?_set_self hlt]; exact hg.symm
    · rw [List.getElem?_set_ne (Ne.symm hj)]
  simp only [step]
  rw [show s.objs[i]? = some o from hg]
  simp only [he, hset, and_self]

/-- **a missing file is created once** from the next random bytes, which are that session's key and the file's content from then on -/
theorem next_session_creates_missing_file (ops : List Op) (s0 : State) (h0 : StateInv s0) (ha : AllowedRun s0 ops) (i : Nat) (o : Obj)
    (hg : (run s0 ops).1.objs[i]? = some o) (hc : o.refcount = 0) (r : Bytes) (rest : List Bytes)
    (hf : (run s0 ops).1.world.file = .absent) (ht : (run s0 ops).1.world.tape = r :: rest) :
    let s := (run s0 ops).1
    (step s (.enter i)).2 = .ok ∧ (step s (.enter i)).1.world = { file := .data r, tape := rest } ∧ r.length = 32 := by
  intro s
  have hi := obj_inv_after ops s0 h0 ha i o hg
  have he := kf_created o s.world r rest hi hc hf ht
  have hr : r.length = 32 := (run_inv ops s0 h0 ha).2 r (by rw [ht]; exact List.mem_cons_self)
  simp only [step]
  rw [show s.objs[i]? = some o from hg]
  simp only [he, and_self, hr]

/-- the initial state of a process: one fresh object, the world as given -/
def start (w : World) : State := { objs := [Obj.fresh], world := w }

theorem start_inv (w : World) (hw : TapeOk w) : StateInv (start w) :=
  ⟨fun o ho => by simp only [start, List.mem_singleton] at ho; rw [ho]; exact inv_fresh, hw⟩

/-- **rotation respected**: a session under key `k1`, the file replaced by `k2` after the session closed, the same object opened
    again: it uses `k2` (and never `k1` again) -/
theorem rotation_respected (k1 k2 : Bytes) (h1 : k1.length = 32) (h2 : k2.length = 32) (tape : List Bytes) :
    (run (start { file := .data k1, tape := tape }) [.enter 0, .use 0, .exit 0, .extWrite k2, .enter 0, .use 0]).2
      = [.ok, .key k1, .ok, .ok, .ok, .key k2] := by
  have e1 : k1.isEmpty = false := by cases k1 with | nil => simp at h1 | cons _ _ => rfl
  have e2 : k2.isEmpty = false := by cases k2 with | nil => simp at h2 | cons _ _ => rfl
  simp [run, step, start, enter, exit, hasKey, loadKey, useKey, Obj.fresh, h1, h2, e1, e2]

/-- likewise after a *failed* open in between (a truncated file), then a repaired and later a replaced file -/
theorem rotation_after_failed_open (bad k1 k2 : Bytes) (hb : bad.length ≠ 32) (h1 : k1.length = 32) (h2 : k2.length = 32) (tape : List Bytes) :
    (run (start { file := .data bad, tape := tape })
      [.enter 0, .extWrite k1, .enter 0, .use 0, .exit 0, .extWrite k2, .enter 0, .use 0]).2
      = [.err .encryption, .ok, .ok, .key k1, .ok, .ok, .ok, .key k2] := by
  have e1 : k1.isEmpty = false := by cases k1 with | nil => simp at h1 | cons _ _ => rfl
  have e2 : k2.isEmpty = false := by cases k2 with | nil => simp at h2 | cons _ _ => rfl
  simp [run, step, start, enter, exit, hasKey, loadKey, useKey, Obj.fresh, hb, h1, h2, e1, e2]

/-- non-vacuity of the hypotheses of the session theorems: a history with a failed open and an exception-style exit reaches a state
    with a closed object and a 32-byte file -/
example : let s := (run (start { file := .data [1], tape := [] }) [.enter 0, .extWrite (List.replicate 32 7), .enter 0, .exit 0]).1
    s.objs[0]? = some ⟨none, 0⟩ ∧ s.world.file = .data (List.replicate 32 7) := by decide

/-- **the code order the model follows is the code order of /repo** (control skeleton of the `KeyFile` methods, regenerated from
    `cincoconfig/encryption.py` on every run): `__enter__` loads only when no key is held and counts the context *after* a successful
    load; `__exit__` counts down unconditionally — whichever way the block was left — and drops the key at zero; `encrypt` / `decrypt`
    refuse before anything else when no key is held; `__load_key` reads the file, creates it only on `OSError`, validates what it
    read and forgets it again when validation fails; `__generate_key` writes exactly the 32 random bytes it returns; the validation
    is "present and 32 bytes long" -/
theorem keyfile_code_order : Generated.keyFileShape =
    [("__enter__", ["if[not key]", "load", "end", "refcount+=1"]),
     ("__exit__", ["refcount-=1", "if[refcount==0]", "key=None", "end"]),
     ("encrypt", ["if[not key]", "raise:TypeError", "end"]),
     ("decrypt", ["if[not key]", "raise:TypeError", "end"]),
     ("__load_key", ["try", "open:rb", "key=read", "close", "except:OSError", "key=generate", "else", "try", "validate",
                     "except:EncryptionError", "key=None", "raise", "end", "end"]),
     ("__generate_key", ["local key=urandom", "open:wb", "write key", "close", "return key"]),
     ("_validate_key", ["if[?not self.__key or len(self.__key) != 32]", "raise:EncryptionError", "end"])] := by decide

end Cinco.C07b
