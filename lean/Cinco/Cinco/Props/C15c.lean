import Cinco.Generated.ContainerShape
/-
  C15 (finding F74) — the path of a configuration is the path of its parent plus its own key, whatever the parent holds.

  `Config._ref_path` walks up the parent links.  It tested the parent for TRUTH (`if self._parent:`); a config-type subclass may
  define `__len__` / `__bool__` (a pool is as long as its member list), so an empty pool was taken for "no parent" and everything
  below it lost the front of its path.  After the repair the test is `is not None`.  A chain of configurations is modelled
  leaf-first: the configuration itself, its parent, the parent's parent, … up to (not including) the unnamed root.  A path is the
  list of its dotted components, root first.
-/
namespace Cinco.C15c

/-- one configuration on the chain: the key it is mounted under and what `bool(cfg)` gives -/
structure Node where
  key : String
  truthy : Bool
  deriving Repr, DecidableEq

/-- `Config._ref_path` after F74 (`if self._parent is not None`): the parent's components, then the key -/
def pathKeys : List Node → List String
  | [] => []
  | n :: ancestors => pathKeys ancestors ++ [n.key]

/-- `Config._ref_path` before F74 (`if self._parent:`): a parent that tests false ends the walk -/
def pathKeysTruthy : List Node → List String
  | [] => []
  | [n] => [n.key]
  | n :: p :: rest => if p.truthy then pathKeysTruthy (p :: rest) ++ [n.key] else [n.key]

/-- **The path names every ancestor, root first — whatever the ancestors hold** (their truth value plays no part). -/
theorem path_names_every_ancestor : ∀ (chain : List Node), pathKeys chain = (chain.map (·.key)).reverse
  | [] => rfl
  | n :: rest => by simp [pathKeys, path_names_every_ancestor rest]

/-- … in particular two chains that differ only in what the configurations hold have the same path. -/
theorem path_ignores_contents (a b : List Node) (h : a.map (·.key) = b.map (·.key)) : pathKeys a = pathKeys b := by
  rw [path_names_every_ancestor, path_names_every_ancestor, h]

/-- While every ancestor tests true the two readings agree — which is why plain schemas and config types never showed F74. -/
theorem truthy_agrees : ∀ (chain : List Node), (∀ a ∈ chain.tail, a.truthy = true) → pathKeysTruthy chain = pathKeys chain
  | [], _ => rfl
  | [n], _ => by simp [pathKeysTruthy, pathKeys]
  | n :: p :: rest, h => by
    have hp : p.truthy = true := h p (by simp)
    have ih := truthy_agrees (p :: rest) (fun a ha => h a (by simp at ha ⊢; exact Or.inr ha))
    simp only [pathKeysTruthy, hp, if_true, ih, pathKeys]

/-- **A parent that tests false cut the path** (F74 in the model): everything above the configuration was lost. -/
theorem falsy_parent_cut (n p : Node) (rest : List Node) (h : p.truthy = false) : pathKeysTruthy (n :: p :: rest) = [n.key] := by
  simp [pathKeysTruthy, h]

/-- the replayed witness: `lb.pool.opts` below an empty `Pool` (a config type whose `__len__` is the number of members) -/
example : pathKeysTruthy [⟨"opts", true⟩, ⟨"pool", false⟩, ⟨"lb", true⟩] = ["opts"] ∧
    pathKeys [⟨"opts", true⟩, ⟨"pool", false⟩, ⟨"lb", true⟩] = ["lb", "pool", "opts"] := by decide

/-- does the skeleton test the parent link with `is not None`, and nowhere for truth? -/
def testsParentByIdentity (shape : Option (List String)) : Bool :=
  match shape with
  | none => false
  | some ls => ls.contains "if[self._parent is not None]" && !ls.contains "if[self._parent]" && !ls.contains "if[not self._parent]"

/-- **/repo's three walks up the parent links test the link by identity** (generated reading of `Config._ref_path`, `Config._keyfile`
    and `Config._key_filename`, regenerated on every run): `pathKeys` — not `pathKeysTruthy` — is the reading of the code, for the
    error path (C15) and for the key file a secret is sealed with (C03) alike. -/
theorem parent_walks_code :
    testsParentByIdentity (Generated.containerShape.lookup "Config._ref_path") = true ∧
    testsParentByIdentity (Generated.containerShape.lookup "Config._keyfile") = true ∧
    testsParentByIdentity (Generated.containerShape.lookup "Config._key_filename") = true ∧
    ((Generated.containerShape.lookup "Config._ref_path").bind List.head?) = some "if[self._parent is not None]" := by decide +kernel

end Cinco.C15c
