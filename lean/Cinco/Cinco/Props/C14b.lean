import Cinco.Props.C12b
import Cinco.Props.C14
import Cinco.Proofs.ValueSpec
/-
  C14b — the statements of C14 (and of the read-back part of C01 / C12) that are not per-step:
  (1) the refinement of C12b lifted from the user-defined *status* to the *values*: over every finite history of
      assignments (accepted and rejected), tree loads (returning or raising midway) and resets on the leaf keys of one
      configuration level, the slot of every key is what a plain abstract map computes from the world and the schema alone
      (`step_commutes`, `value_step_refines`, `value_run_refines`, `value_refines`, `level_refines`);
  (2) environment precedence over whole histories, read off that map: a leaf bound to a set variable starts at the
      variable's validated value and no sequence of document loads moves it (`env_value_survives_loads`), an assignment
      does and stays until the next accepted assignment / reset of that key (`assignment_beats_env`), a reset returns to
      the variable's value (`reset_returns_to_env`), and a key whose variable is unset, empty or opted out takes the
      loaded value (`no_binding_loads_apply`) — in fact the whole level behaves as the same schema without the binding
      (`unbound_equivalent`).

  The identity counter / tape position `next`: no operation on a leaf key of the level draws from it — `setValue` on a
  leaf, `resetValue` on a leaf key and `loadTree` over leaf keys all return `next` as they received it, and validation reads
  salts and hashes from the world (`W.fe`), not from the tape.  The abstract state nevertheless carries the counter
  (`Abs.next`) and the refinement theorems prove that the model's counter is the abstract one after every history, so the
  claim is a theorem (`step_commutes`), not an assumption; no restriction on field kinds is needed.
-/
namespace Cinco.C14b
open Cinco Cinco.Field Cinco.Config Cinco.Config.Defined Cinco.Config.ValueSpec Cinco.C12b

/-! ## 1. The abstract machine: a map from key to slot (and the identity counter) -/

/-- the abstract state of one configuration level: what every key holds (`Slots = String → Option Slot`), and the
    identity counter -/
structure Abs where
  slot : Slots
  next : Nat

/-- the abstraction of a model state -/
def absOf (cn : Cfg × Nat) : Abs := ⟨cn.1.get, cn.2⟩

/-- what an accepted assignment to a declared leaf stores: the value the field's `validate` returns (`setValue_leaf_eq`);
    `none` = rejected (or not a leaf) -/
def storedBy (W : World) (fs : FieldSpec) (v : Val) : Option Val :=
  match validate W.fe.toEnv fs v with
  | .ok v' => some v'
  | .error _ => none

def assignStores (W : World) (s : Schema) (k : String) (v : Val) : Option Val :=
  match leafOf (s.get k) with
  | some (fs, _) => storedBy W fs v
  | none => none

/-- what an accepted reset of a declared leaf stores: the value its `__setdefault__` computes (`leafDefault`) -/
def defaultOf (W : World) (k : String) (fs : FieldSpec) (m : LeafMeta) : Option Val :=
  match leafDefault W "" k fs m with
  | .ok d => some d
  | .error _ => none

def resetStores (W : World) (s : Schema) (k : String) : Option Val :=
  match leafOf (s.get k) with
  | some (fs, m) => defaultOf W k fs m
  | none => none

def Abs.store (A : Abs) (k : String) : Option Val → Abs
  | some v => ⟨A.slot.put k (.val v), A.next⟩
  | none => A

/-- **The specification of the values**: an accepted assignment maps its key to the validated value, a rejected one changes
    nothing; an accepted reset maps its key to the leaf's default (`leafDefault`: the validated environment value when the
    variable is set), a rejected one changes nothing; a load applies, first to last, the writes `loadValues` lists — every
    entry up to the first one that raises, entries of leaves bound to a set environment variable skipped, each with its
    decoded (`to_python`) and validated value.  A function of the world and the schema only — no configuration. -/
def absStep (W : World) (s : Schema) (A : Abs) : KeyOp → Abs
  | .assign k v => A.store k (assignStores W s k v)
  | .load tree _ => ⟨A.slot.putAll (loadValues W s tree), A.next⟩
  | .reset k => A.store k (resetStores W s k)

def absRun (W : World) (s : Schema) (A : Abs) (ops : List KeyOp) : Abs := ops.foldl (absStep W s) A

/-- the machine of values accepts exactly what the machine of C12b accepts -/
theorem assignStores_isSome (W : World) (s : Schema) (k : String) (v : Val) :
    (assignStores W s k v).isSome = assignAccepts W s k v := by
  unfold assignStores assignAccepts
  cases leafOf (s.get k) with
  | none => rfl
  | some p => simp only [storedBy]; cases validate W.fe.toEnv p.1 v <;> rfl

theorem resetStores_isSome (W : World) (s : Schema) (k : String) :
    (resetStores W s k).isSome = resetAccepts W s k := by
  unfold resetStores resetAccepts
  cases leafOf (s.get k) with
  | none => rfl
  | some p => simp only [defaultOf]; cases leafDefault W "" k p.1 p.2 <;> rfl

/-- … and a load writes exactly the keys C12b's machine inserts -/
theorem load_writes_keys (W : World) (s : Schema) (tree : List (Val × Val)) :
    (loadValues W s tree).map (·.1) = loadAssigned W s tree := loadValues_keys W s tree

theorem store_slot_same (A : Abs) (k : String) (v : Val) : (A.store k (some v)).slot k = some (.val v) := put_same _ _ _

theorem store_slot_other (A : Abs) {k k' : String} (h : k' ≠ k) (o : Option Val) : (A.store k o).slot k' = A.slot k' := by
  cases o with
  | none => rfl
  | some v => exact put_other _ h _

theorem store_next (A : Abs) (k : String) (o : Option Val) : (A.store k o).next = A.next := by cases o <;> rfl

theorem store_congr {A B : Abs} {k' : String} (h : A.slot k' = B.slot k') (k : String) (o : Option Val) :
    (A.store k o).slot k' = (B.store k o).slot k' := by
  cases o with
  | none => exact h
  | some v => exact put_congr h k _

/-- the machine acts key by key: the slot of `k` afterwards depends on the slot of `k` before only -/
theorem absStep_congr (W : World) (s : Schema) {A B : Abs} {k : String} (h : A.slot k = B.slot k) (op : KeyOp) :
    (absStep W s A op).slot k = (absStep W s B op).slot k := by
  cases op with
  | assign k0 v => exact store_congr h k0 _
  | load tree dv => exact putAll_congr _ h
  | reset k0 => exact store_congr h k0 _

theorem absStep_next (W : World) (s : Schema) (A : Abs) (op : KeyOp) : (absStep W s A op).next = A.next := by
  cases op with
  | assign k0 v => exact store_next A k0 _
  | load tree dv => rfl
  | reset k0 => exact store_next A k0 _

theorem absRun_congr (W : World) (s : Schema) {k : String} : ∀ (ops : List KeyOp) {A B : Abs}, A.slot k = B.slot k →
    (absRun W s A ops).slot k = (absRun W s B ops).slot k
  | [], _, _, h => h
  | op :: rest, _, _, h => by
    simp only [absRun, List.foldl_cons]
    exact absRun_congr W s rest (absStep_congr W s h op)

theorem absRun_next (W : World) (s : Schema) : ∀ (ops : List KeyOp) (A : Abs), (absRun W s A ops).next = A.next
  | [], _ => rfl
  | op :: rest, A => by
    simp only [absRun, List.foldl_cons]
    exact (absRun_next W s rest _).trans (absStep_next W s A op)

theorem absRun_append (W : World) (s : Schema) (A : Abs) (l1 l2 : List KeyOp) :
    absRun W s A (l1 ++ l2) = absRun W s (absRun W s A l1) l2 := by simp only [absRun, List.foldl_append]

theorem runOps_append (W : World) (fuel : Nat) (s : Schema) (cn : Cfg × Nat) (l1 l2 : List KeyOp) :
    runOps W fuel s cn (l1 ++ l2) = runOps W fuel s (runOps W fuel s cn l1) l2 := by simp only [runOps, List.foldl_append]

theorem runOps_cons (W : World) (fuel : Nat) (s : Schema) (cn : Cfg × Nat) (op : KeyOp) (l : List KeyOp) :
    runOps W fuel s cn (op :: l) = runOps W fuel s (applyOp W fuel s cn op).1 l := by simp only [runOps, List.foldl_cons]

/-! ## 2. The model refines the abstract machine -/

theorem absOf_ext {A B : Abs} (h1 : A.slot = B.slot) (h2 : A.next = B.next) : A = B := by
  cases A; cases B; simp only at h1 h2; subst h1; subst h2; rfl

/-- **One step commutes with the abstraction** (an equation between abstract states: every key and the identity counter):
    running the model's operation and abstracting is the same as abstracting and running the specification's step —
    whatever the operation: accepted or rejected assignment, load that returns or raises midway, accepted or rejected reset. -/
theorem step_commutes (W : World) (fuel : Nat) (s : Schema) (cn : Cfg × Nat) (op : KeyOp) (hop : OpOk s op) :
    absOf (applyOp W (fuel + 1) s cn op).1 = absStep W s (absOf cn) op := by
  cases op with
  | assign k0 v =>
    obtain ⟨fs, m, hf⟩ := isLeafKey_get hop
    rw [applyOp_assign W fuel s cn k0 v hf]
    simp only [absStep, assignStores, hf, leafOf, storedBy]
    cases validate W.fe.toEnv fs v with
    | error e => rfl
    | ok v' => exact absOf_ext (get_setUser cn.1 k0 _) rfl
  | load tree dv =>
    have hl := loadTree_values W fuel s dv tree cn.1 cn.2 hop
    exact absOf_ext hl.1 hl.2
  | reset k0 =>
    obtain ⟨fs, m, hf⟩ := isLeafKey_get hop.1
    rw [applyOp_reset W fuel s cn k0 hop.2 hf]
    simp only [absStep, resetStores, hf, leafOf, defaultOf]
    cases leafDefault W "" k0 fs m with
    | error e => rfl
    | ok d => exact absOf_ext (get_setDefault cn.1 k0 _) rfl

/-- the fold of `step_commutes` -/
theorem run_commutes (W : World) (fuel : Nat) (s : Schema) : ∀ (ops : List KeyOp) (cn : Cfg × Nat),
    (∀ op ∈ ops, OpOk s op) → absOf (runOps W (fuel + 1) s cn ops) = absRun W s (absOf cn) ops
  | [], _, _ => rfl
  | op :: rest, cn, hops => by
    rw [runOps_cons, run_commutes W fuel s rest _ (fun o ho => hops o (List.mem_cons_of_mem _ ho)),
      step_commutes W fuel s cn op (hops op (List.mem_cons_self ..))]
    simp only [absRun, List.foldl_cons]

/-- **One step refines the specification**, key by key (any key, declared or not) and for the identity counter: if the
    abstract state agrees with the configuration on `k` before the operation, it does afterwards. -/
theorem value_step_refines (W : World) (fuel : Nat) (s : Schema) (cn : Cfg × Nat) (A : Abs) (op : KeyOp) (hop : OpOk s op) :
    (∀ k, cn.1.get k = A.slot k → (applyOp W (fuel + 1) s cn op).1.1.get k = (absStep W s A op).slot k) ∧
    (cn.2 = A.next → (applyOp W (fuel + 1) s cn op).1.2 = (absStep W s A op).next) := by
  have h := step_commutes W fuel s cn op hop
  refine ⟨fun k hk => ?_, fun hn => ?_⟩
  · have h1 : (applyOp W (fuel + 1) s cn op).1.1.get k = (absStep W s (absOf cn) op).slot k := by rw [← h]; rfl
    rw [h1]
    exact absStep_congr W s hk op
  · have h1 : (applyOp W (fuel + 1) s cn op).1.2 = (absStep W s (absOf cn) op).next := by rw [← h]; rfl
    rw [h1, absStep_next, absStep_next]
    exact hn

/-- **The fold**: induction over the history, no bound on its length. -/
theorem value_run_refines (W : World) (fuel : Nat) (s : Schema) (k : String) :
    ∀ (ops : List KeyOp) (cn : Cfg × Nat) (A : Abs), (∀ op ∈ ops, OpOk s op) → cn.1.get k = A.slot k →
      (runOps W (fuel + 1) s cn ops).1.get k = (absRun W s A ops).slot k
  | [], _, _, _, h => h
  | op :: rest, cn, A, hops, h => by
    rw [runOps_cons]
    simp only [absRun, List.foldl_cons]
    exact value_run_refines W fuel s k rest _ _ (fun o ho => hops o (List.mem_cons_of_mem _ ho))
      ((value_step_refines W fuel s cn A op (hops op (List.mem_cons_self ..))).1 k h)

theorem next_run_refines (W : World) (fuel : Nat) (s : Schema) (ops : List KeyOp) (cn : Cfg × Nat) (A : Abs)
    (hops : ∀ op ∈ ops, OpOk s op) (h : cn.2 = A.next) : (runOps W (fuel + 1) s cn ops).2 = (absRun W s A ops).next := by
  have hc := run_commutes W fuel s ops cn hops
  have h1 : (runOps W (fuel + 1) s cn ops).2 = (absRun W s (absOf cn) ops).next := by rw [← hc]; rfl
  rw [h1, absRun_next, absRun_next]
  exact h

/-- **The values over whole histories**: for every schema, every start state `(c, n)` and every abstract state that agrees
    with it on the declared leaf keys (and on the identity counter), after every history of assignments (accepted or
    rejected), loads (returning or raising) and resets on declared leaf keys, every leaf key holds what the abstract machine
    says — and the identity counter is the abstract one (namely `n`: nothing here draws from it). -/
theorem value_refines (W : World) (fuel : Nat) (s : Schema) (c : Cfg) (n : Nat) (A : Abs) (ops : List KeyOp)
    (hops : ∀ op ∈ ops, OpOk s op) (h : ∀ k, isLeafKey s k = true → c.get k = A.slot k) (hn : A.next = n) :
    (∀ k, isLeafKey s k = true → (runOps W (fuel + 1) s (c, n) ops).1.get k = (absRun W s A ops).slot k) ∧
    (runOps W (fuel + 1) s (c, n) ops).2 = (absRun W s A ops).next ∧ (absRun W s A ops).next = n :=
  ⟨fun k hk => value_run_refines W fuel s k ops (c, n) A hops (h k hk),
   next_run_refines W fuel s ops (c, n) A hops hn.symm, (absRun_next W s ops A).trans hn⟩

/-- the same for every key on which the two agree at the start, declared or not (an undeclared key is never written) -/
theorem value_refines_all (W : World) (fuel : Nat) (s : Schema) (c : Cfg) (n : Nat) (ops : List KeyOp)
    (hops : ∀ op ∈ ops, OpOk s op) :
    ∀ k, (runOps W (fuel + 1) s (c, n) ops).1.get k = (absRun W s ⟨c.get, n⟩ ops).slot k :=
  fun k => value_run_refines W fuel s k ops (c, n) ⟨c.get, n⟩ hops rfl

/-! ## 3. Status and value together -/

/-- **One configuration level behaves like a set and a map**: after any history on declared leaf keys, from any start
    state described by `(D, A)`, the user-defined status of *every* key is the one C12b's set machine computes, every leaf
    key holds what the map machine computes, and the identity counter is untouched. -/
theorem level_refines (W : World) (fuel : Nat) (s : Schema) (c : Cfg) (n : Nat) (D : DSet) (A : Abs) (ops : List KeyOp)
    (hops : ∀ op ∈ ops, OpOk s op) (hD : ∀ k, C12.defined c k = D k)
    (hA : ∀ k, isLeafKey s k = true → c.get k = A.slot k) (hn : A.next = n) :
    (∀ k, C12.defined (runOps W (fuel + 1) s (c, n) ops).1 k = specRun W s D ops k) ∧
    (∀ k, isLeafKey s k = true → (runOps W (fuel + 1) s (c, n) ops).1.get k = (absRun W s A ops).slot k) ∧
    (runOps W (fuel + 1) s (c, n) ops).2 = n := by
  have hv := value_refines W fuel s c n A ops hops hA hn
  exact ⟨defined_refines W fuel s c n D ops hops hD, hv.1, hv.2.1.trans hv.2.2⟩

/-! ## 4. Environment precedence over whole histories -/

/-- does the operation write key `k` (according to the specification)? -/
def writes (W : World) (s : Schema) (k : String) : KeyOp → Bool
  | .assign k0 v => k0 == k && assignAccepts W s k0 v
  | .load tree _ => (loadAssigned W s tree).contains k
  | .reset k0 => k0 == k && resetAccepts W s k0

/-- is it an accepted assignment to / reset of `k`?  (`writes` without the loads) -/
def acceptedOn (W : World) (s : Schema) (k : String) : KeyOp → Bool
  | .assign k0 v => k0 == k && assignAccepts W s k0 v
  | .load _ _ => false
  | .reset k0 => k0 == k && resetAccepts W s k0

def isLoad : KeyOp → Bool
  | .assign _ _ => false
  | .load _ _ => true
  | .reset _ => false

theorem store_of_not_accepted (A : Abs) (k k0 : String) (o : Option Val) (h : (k0 == k && o.isSome) = false) :
    (A.store k0 o).slot k = A.slot k := by
  by_cases hk : k = k0
  · subst hk
    cases o with
    | none => rfl
    | some v => simp at h
  · exact store_slot_other A hk o

/-- an operation that does not write `k` leaves its slot and its status alone (in both machines) -/
theorem step_frame (W : World) (s : Schema) (k : String) (op : KeyOp) (h : writes W s k op = false) (A : Abs) (D : DSet) :
    (absStep W s A op).slot k = A.slot k ∧ specStep W s D op k = D k := by
  cases op with
  | assign k0 v =>
    simp only [writes] at h
    refine ⟨store_of_not_accepted A k k0 _ (by rw [assignStores_isSome]; exact h), ?_⟩
    simp only [specStep]
    by_cases ha : assignAccepts W s k0 v = true
    · have hk : k ≠ k0 := by intro e; subst e; simp [ha] at h
      simp [ha, DSet.insert, hk]
    · simp [ha]
  | load tree dv =>
    simp only [writes] at h
    have hnin : k ∉ loadAssigned W s tree := by simpa [List.contains_eq_mem] using h
    refine ⟨putAll_not_mem _ _ _ (by rw [loadValues_keys]; exact hnin), ?_⟩
    simp [specStep, DSet.insertAll, List.contains_eq_mem, hnin]
  | reset k0 =>
    simp only [writes] at h
    refine ⟨store_of_not_accepted A k k0 _ (by rw [resetStores_isSome]; exact h), ?_⟩
    simp only [specStep]
    by_cases ha : resetAccepts W s k0 = true
    · have hk : k ≠ k0 := by intro e; subst e; simp [ha] at h
      simp [ha, DSet.erase, hk]
    · simp [ha]

theorem run_frame (W : World) (s : Schema) (k : String) : ∀ (ops : List KeyOp), (∀ op ∈ ops, writes W s k op = false) →
    ∀ (A : Abs) (D : DSet), (absRun W s A ops).slot k = A.slot k ∧ specRun W s D ops k = D k
  | [], _, _, _ => ⟨rfl, rfl⟩
  | op :: rest, h, A, D => by
    have h1 := step_frame W s k op (h op (List.mem_cons_self ..)) A D
    have h2 := run_frame W s k rest (fun o ho => h o (List.mem_cons_of_mem _ ho)) (absStep W s A op) (specStep W s D op)
    simp only [absRun, specRun, List.foldl_cons] at h2 ⊢
    exact ⟨h2.1.trans h1.1, h2.2.trans h1.2⟩

/-- the same in the model: a history none of whose operations writes `k` leaves `get k` and the status of `k` alone -/
theorem model_frame (W : World) (fuel : Nat) (s : Schema) (k : String) (ops : List KeyOp) (hops : ∀ op ∈ ops, OpOk s op)
    (h : ∀ op ∈ ops, writes W s k op = false) (cn : Cfg × Nat) :
    (runOps W (fuel + 1) s cn ops).1.get k = cn.1.get k ∧
    C12.defined (runOps W (fuel + 1) s cn ops).1 k = C12.defined cn.1 k := by
  have hf := run_frame W s k ops h (absOf cn) (C12.defined cn.1)
  exact ⟨(value_run_refines W fuel s k ops cn (absOf cn) hops rfl).trans hf.1,
    (run_refines W fuel s k ops cn (C12.defined cn.1) hops rfl).trans hf.2⟩

/-- **Documents never write a leaf bound to a set variable** — whatever the tree, whatever the `validate` flag. -/
theorem load_never_writes_env_key (W : World) (s : Schema) (k : String) (fs : FieldSpec) (m : LeafMeta)
    (hf : s.get k = some (.leaf fs m)) (text : Str) (henv : envValue W m = some text) (tree : List (Val × Val)) (dv : Bool) :
    writes W s k (.load tree dv) = false := by
  have h := not_mem_loadAssigned_of_env hf (by rw [henv]; rfl) tree
  simpa [writes, List.contains_eq_mem] using h

theorem writes_of_acceptedOn (W : World) (s : Schema) (k : String) (fs : FieldSpec) (m : LeafMeta)
    (hf : s.get k = some (.leaf fs m)) (text : Str) (henv : envValue W m = some text) (op : KeyOp)
    (h : acceptedOn W s k op = false) : writes W s k op = false := by
  cases op with
  | assign k0 v => exact h
  | load tree dv => exact load_never_writes_env_key W s k fs m hf text henv tree dv
  | reset k0 => exact h

theorem writes_of_isLoad (W : World) (s : Schema) (k : String) (fs : FieldSpec) (m : LeafMeta)
    (hf : s.get k = some (.leaf fs m)) (text : Str) (henv : envValue W m = some text) (op : KeyOp)
    (h : isLoad op = true) : writes W s k op = false := by
  cases op with
  | assign k0 v => cases h
  | load tree dv => exact load_never_writes_env_key W s k fs m hf text henv tree dv
  | reset k0 => cases h

/-- **A freshly built configuration holds the variable's validated value** under a leaf bound to a set variable, not marked
    user-defined.  `hk` excludes typed lists and dicts, whose `__setdefault__` ignores the environment (finding F10,
    `C14.env_ignored_by_lists`); `hnn`: a text validating to `None` falls back to the declared default
    (`Field.__setdefault__`); `hnd`: with a duplicate key the slot holds the last declaration's default
    (`C12b.Demo.dup_value_differs`). -/
theorem env_wins_fresh (W : World) (path : String) (linked : Bool) (keyfile : Option String) (s : Schema) (n : Nat)
    (c0 : Cfg) (n0 : Nat) (hb : build W path linked keyfile s n = .ok (c0, n0)) (hnd : nodupKeys s.fields = true)
    (k : String) (fs : FieldSpec) (m : LeafMeta) (hf : s.get k = some (.leaf fs m)) (text : Str) (v : Val)
    (hk : usesBaseSetdefault fs.kind = true) (henv : envValue W m = some text)
    (hv : validate W.fe.toEnv fs (.str text) = .ok v) (hnn : v ≠ .none) :
    c0.get k = some (.val v) ∧ C12.defined c0 k = false := by
  refine ⟨?_, (build_all_default W path linked keyfile s n c0 n0 hb k _ hf rfl).1⟩
  rw [build_eq] at hb
  obtain ⟨c1, n1, c2, n2, hsd, hget⟩ := (buildFields_get W path s.fields _ _ _ _ hnd hb).2 k _ hf
  obtain ⟨v', hv', hc2, _⟩ := setDefault_shape hsd
  rw [leafDefault_env W path k fs m text v hk henv hv hnn] at hv'
  cases hv'
  rw [hget, hc2, Cfg.get_setDefault_same]

/-- **The variable's value survives every sequence of loads**: start from `Config(schema)`; `k` is a leaf bound to a
    variable set to a text its field accepts (as `v`).  After any history consisting only of loads — any trees over
    declared leaf keys (with or without `k`), any `validate` flags, each returning or raising — `k` still holds `v` and is
    still not user-defined. -/
theorem env_value_survives_loads (W : World) (fuel : Nat) (path : String) (linked : Bool) (keyfile : Option String)
    (s : Schema) (n : Nat) (c0 : Cfg) (n0 : Nat) (hb : build W path linked keyfile s n = .ok (c0, n0))
    (hnd : nodupKeys s.fields = true)
    (k : String) (fs : FieldSpec) (m : LeafMeta) (hf : s.get k = some (.leaf fs m)) (text : Str) (v : Val)
    (hk : usesBaseSetdefault fs.kind = true) (henv : envValue W m = some text)
    (hv : validate W.fe.toEnv fs (.str text) = .ok v) (hnn : v ≠ .none)
    (ops : List KeyOp) (hops : ∀ op ∈ ops, OpOk s op) (hloads : ∀ op ∈ ops, isLoad op = true) :
    (runOps W (fuel + 1) s (c0, n0) ops).1.get k = some (.val v) ∧
    C12.defined (runOps W (fuel + 1) s (c0, n0) ops).1 k = false := by
  have h0 := env_wins_fresh W path linked keyfile s n c0 n0 hb hnd k fs m hf text v hk henv hv hnn
  have hfr := model_frame W fuel s k ops hops
    (fun op ho => writes_of_isLoad W s k fs m hf text henv op (hloads op ho)) (c0, n0)
  exact ⟨hfr.1.trans h0.1, hfr.2.trans h0.2⟩

/-- **Last write wins** (any key of the level): after an accepted assignment `k := x` (validated to `x'`), any operations
    that do not write `k` leave `k` holding `x'`, user-defined — from any state, so after any history. -/
theorem last_assignment_wins (W : World) (fuel : Nat) (s : Schema) (cn : Cfg × Nat) (k : String) (fs : FieldSpec) (m : LeafMeta)
    (hf : s.get k = some (.leaf fs m)) (x x' : Val) (hx : validate W.fe.toEnv fs x = .ok x')
    (pre post : List KeyOp) (hpost : ∀ op ∈ post, OpOk s op) (hnw : ∀ op ∈ post, writes W s k op = false) :
    (runOps W (fuel + 1) s cn (pre ++ .assign k x :: post)).1.get k = some (.val x') ∧
    C12.defined (runOps W (fuel + 1) s cn (pre ++ .assign k x :: post)).1 k = true := by
  rw [runOps_append, runOps_cons]
  generalize runOps W (fuel + 1) s cn pre = st
  have hfr := model_frame W fuel s k post hpost hnw (applyOp W (fuel + 1) s st (.assign k x)).1
  rw [hfr.1, hfr.2, applyOp_assign W fuel s st k x hf, hx]
  exact ⟨Cfg.get_setUser_same _ _ _, by simp [defined_setUser]⟩

/-- **An assignment beats the variable, whatever is loaded before or after**: `k` is a leaf bound to a set variable.  After
    any history (no hypothesis on what precedes) whose last accepted assignment-or-reset on `k` is `k := x` — followed by
    any loads, any operations on other keys and any rejected assignments / resets of `k` — `k` holds the validated `x`
    and is user-defined. -/
theorem assignment_beats_env (W : World) (fuel : Nat) (s : Schema) (cn : Cfg × Nat) (k : String) (fs : FieldSpec) (m : LeafMeta)
    (hf : s.get k = some (.leaf fs m)) (text : Str) (henv : envValue W m = some text)
    (x x' : Val) (hx : validate W.fe.toEnv fs x = .ok x')
    (pre post : List KeyOp) (hpost : ∀ op ∈ post, OpOk s op) (hlast : ∀ op ∈ post, acceptedOn W s k op = false) :
    (runOps W (fuel + 1) s cn (pre ++ .assign k x :: post)).1.get k = some (.val x') ∧
    C12.defined (runOps W (fuel + 1) s cn (pre ++ .assign k x :: post)).1 k = true :=
  last_assignment_wins W fuel s cn k fs m hf x x' hx pre post hpost
    (fun op ho => writes_of_acceptedOn W s k fs m hf text henv op (hlast op ho))

/-- **A reset returns to the variable**: after any history whatever (no hypothesis on it), `reset k` of a leaf bound to a
    variable set to an accepted text is accepted, and `k` holds the variable's validated value again, not user-defined —
    and keeps it through any loads that follow. -/
theorem reset_returns_to_env (W : World) (fuel : Nat) (s : Schema) (cn : Cfg × Nat) (k : String) (fs : FieldSpec) (m : LeafMeta)
    (hf : s.get k = some (.leaf fs m)) (hdot : '.' ∉ k.toList) (text : Str) (v : Val)
    (hk : usesBaseSetdefault fs.kind = true) (henv : envValue W m = some text)
    (hv : validate W.fe.toEnv fs (.str text) = .ok v) (hnn : v ≠ .none)
    (pre loads : List KeyOp) (hops : ∀ op ∈ loads, OpOk s op) (hloads : ∀ op ∈ loads, isLoad op = true) :
    (applyOp W (fuel + 1) s (runOps W (fuel + 1) s cn pre) (.reset k)).2 = false ∧
    (runOps W (fuel + 1) s cn (pre ++ .reset k :: loads)).1.get k = some (.val v) ∧
    C12.defined (runOps W (fuel + 1) s cn (pre ++ .reset k :: loads)).1 k = false := by
  rw [runOps_append, runOps_cons]
  generalize runOps W (fuel + 1) s cn pre = st
  have hfr := model_frame W fuel s k loads hops
    (fun op ho => writes_of_isLoad W s k fs m hf text henv op (hloads op ho)) (applyOp W (fuel + 1) s st (.reset k)).1
  rw [hfr.1, hfr.2, applyOp_reset W fuel s st k hdot hf, leafDefault_env W "" k fs m text v hk henv hv hnn]
  exact ⟨rfl, Cfg.get_setDefault_same _ _ _, by simp [defined_setDefault]⟩

/-- **Without a (set) variable the document's value is taken**: `k` is a leaf whose variable is unset, empty or opted out
    (`envValue W m = none`, see `C14.envValue_none_iff`).  After any history, a load that returns normally and whose tree
    has the entry `(k, value)` (`huniq`: the tree is a mapping — no second entry with another value under the same key)
    leaves `k` holding `value` decoded by `to_python` and validated, user-defined. -/
theorem no_binding_loads_apply (W : World) (fuel : Nat) (s : Schema) (cn : Cfg × Nat) (pre : List KeyOp)
    (tree : List (Val × Val)) (dv : Bool) (hop : OpOk s (.load tree dv))
    (ks : List Char) (value : Val) (fs : FieldSpec) (m : LeafMeta) (hm : (Val.str ks, value) ∈ tree)
    (hf : s.get (String.ofList ks) = some (.leaf fs m)) (henv : envValue W m = none)
    (huniq : ∀ value', (Val.str ks, value') ∈ tree → value' = value)
    (hok : (applyOp W (fuel + 1) s (runOps W (fuel + 1) s cn pre) (.load tree dv)).2 = false) :
    ∃ u v, toPython W.fe fs value = .ok u ∧ validate W.fe.toEnv fs u = .ok v ∧
      (runOps W (fuel + 1) s cn (pre ++ [.load tree dv])).1.get (String.ofList ks) = some (.val v) ∧
      C12.defined (runOps W (fuel + 1) s cn (pre ++ [.load tree dv])).1 (String.ofList ks) = true := by
  rw [runOps_append]
  generalize runOps W (fuel + 1) s cn pre = st at hok ⊢
  have hdef := (load_ok_defines W fuel s st tree dv hop hok ks value fs m hm hf henv).1
  have hns : loadStops W s tree = false := by
    rw [load_raises_iff W fuel s st tree dv hop] at hok
    simp only [Bool.or_eq_false_iff] at hok
    exact hok.1
  have hin := loadAssigned_complete hns ks value fs m hm hf (by simp [henv])
  rw [← loadValues_keys] at hin
  -- every write of the load under this key stores the same value
  obtain ⟨v, hmem, _⟩ := putAll_mem (loadValues W s tree) st.1.get _ hin
  obtain ⟨ks1, value1, fs1, m1, u, hm1, hk1, hf1, _, hp1, hv1⟩ := mem_loadValues hmem
  have hks : ks1 = ks := (String.ofList_inj.1 hk1).symm
  subst hks
  rw [hf] at hf1
  cases hf1
  have hval := huniq value1 hm1
  subst hval
  have hu : ∀ v', (String.ofList ks1, v') ∈ loadValues W s tree → v' = v := by
    intro v' hmem'
    obtain ⟨ks2, value2, fs2, m2, u2, hm2, hk2, hf2, _, hp2, hv2⟩ := mem_loadValues hmem'
    have hks2 : ks2 = ks1 := (String.ofList_inj.1 hk2).symm
    subst hks2
    rw [hf] at hf2
    cases hf2
    have hval2 := huniq value2 hm2
    subst hval2
    rw [hp1] at hp2
    cases hp2
    rw [hv1] at hv2
    cases hv2
    rfl
  refine ⟨u, v, hp1, hv1, ?_, ?_⟩
  · simp only [runOps, List.foldl_cons, List.foldl_nil]
    have h1 := (value_step_refines W fuel s st (absOf st) (.load tree dv) hop).1 (String.ofList ks1) rfl
    rw [h1]
    exact putAll_unique _ _ _ v hin hu
  · simpa only [runOps, List.foldl_cons, List.foldl_nil] using hdef

/-! ### "As if no binding existed", for the whole level -/

/-- two schemas declare the same leaves up to bindings that are not in force: the same keys are leaves, with the same field
    and the same declared default, and every leaf's variable reads the same in this world (in particular: one bound to an
    unset / empty variable or opted out, the other not bound at all) -/
def EnvEquiv (W : World) (s s' : Schema) : Prop :=
  ∀ k, (leafOf (s.get k) = none ∧ leafOf (s'.get k) = none) ∨
    ∃ fs m m', leafOf (s.get k) = some (fs, m) ∧ leafOf (s'.get k) = some (fs, m') ∧
      m.default.value = m'.default.value ∧ envValue W m = envValue W m'

theorem leafDefault_congr (W : World) (path k : String) (fs : FieldSpec) (m m' : LeafMeta)
    (hd : m.default.value = m'.default.value) (he : envValue W m = envValue W m') :
    leafDefault W path k fs m = leafDefault W path k fs m' := by
  unfold leafDefault
  rw [hd, he]

theorem entryValue_congr (W : World) (s s' : Schema) (h : EnvEquiv W s s') (key value : Val) :
    entryValue W s key value = entryValue W s' key value := by
  unfold entryValue
  cases hk : keyString key with
  | none => rfl
  | some k =>
    rcases h k with ⟨h1, h2⟩ | ⟨fs, m, m', h1, h2, _, he⟩
    · simp only [h1, h2]
    · simp only [h1, h2, leafEntry, he]

theorem loadValues_congr (W : World) (s s' : Schema) (h : EnvEquiv W s s') : ∀ (tree : List (Val × Val)),
    loadValues W s tree = loadValues W s' tree
  | [] => rfl
  | (key, value) :: rest => by
    simp only [loadValues, entryValue_congr W s s' h key value, loadValues_congr W s s' h rest]

/-- the abstract machine cannot tell the two schemas apart … -/
theorem absStep_envEquiv (W : World) (s s' : Schema) (h : EnvEquiv W s s') (A : Abs) (op : KeyOp) :
    absStep W s A op = absStep W s' A op := by
  cases op with
  | assign k v =>
    simp only [absStep, assignStores]
    rcases h k with ⟨h1, h2⟩ | ⟨fs, m, m', h1, h2, _, _⟩
    · simp only [h1, h2]
    · simp only [h1, h2]
  | load tree dv => simp only [absStep, loadValues_congr W s s' h tree]
  | reset k =>
    simp only [absStep, resetStores]
    rcases h k with ⟨h1, h2⟩ | ⟨fs, m, m', h1, h2, hd, he⟩
    · simp only [h1, h2]
    · simp only [h1, h2, defaultOf, leafDefault_congr W "" k fs m m' hd he]

theorem absRun_envEquiv (W : World) (s s' : Schema) (h : EnvEquiv W s s') : ∀ (ops : List KeyOp) (A : Abs),
    absRun W s A ops = absRun W s' A ops
  | [], _ => rfl
  | op :: rest, A => by
    simp only [absRun, List.foldl_cons, absStep_envEquiv W s s' h A op]
    exact absRun_envEquiv W s s' h rest _

/-- **Unset, empty and opted-out variables behave as if no binding existed — over whole histories**: run the same history
    on configurations of two schemas that differ only in bindings that are not in force (`EnvEquiv`), from start states
    that agree on key `k`: they agree on `k` afterwards (value; and the identity counters if they agreed). -/
theorem unbound_equivalent (W : World) (fuel : Nat) (s s' : Schema) (h : EnvEquiv W s s') (ops : List KeyOp)
    (hops : ∀ op ∈ ops, OpOk s op) (hops' : ∀ op ∈ ops, OpOk s' op) (cn cn' : Cfg × Nat) (k : String)
    (hk : cn.1.get k = cn'.1.get k) :
    (runOps W (fuel + 1) s cn ops).1.get k = (runOps W (fuel + 1) s' cn' ops).1.get k := by
  rw [value_run_refines W fuel s k ops cn (absOf cn) hops rfl,
    value_run_refines W fuel s' k ops cn' (absOf cn) hops' hk.symm, absRun_envEquiv W s s' h]

/-! ## 5. Non-vacuity: a concrete world, schema and history

The variable `APP_PORT` is set to `8080`; `port` is an integer leaf bound to it (declared default 1), `debug` a plain boolean
leaf.  The history loads `{port: 9, debug: true}` (the `port` entry is skipped), assigns a list to `port` (rejected), loads
`{port: 10}` (skipped again), assigns `port := 5` (accepted), loads `{port: 11}` (skipped: the assignment stays) and resets
`port` (back to 8080).  Everything is evaluated in the model (`simp` with the definitions) and in the abstract machine. -/

section Demo

def demoW : World := { cexWorld with environ := fun n => if n = "APP_PORT" then some "8080" else none }

def portSpec : FieldSpec := .mk (.int none none) false none
def portMeta : LeafMeta := { default := .const (.int 1), env := some "APP_PORT" }
def debugSpec : FieldSpec := .mk .bool false none

def demoSchema : Schema := .mk [("port", .leaf portSpec portMeta), ("debug", .leaf debugSpec {})] false []

theorem demo_nodup : nodupKeys demoSchema.fields = true := by decide

theorem get_port : demoSchema.get "port" = some (.leaf portSpec portMeta) := by
  simp [demoSchema, Schema.get, Schema.fields, lookupField]
theorem get_debug : demoSchema.get "debug" = some (.leaf debugSpec {}) := by
  simp [demoSchema, Schema.get, Schema.fields, lookupField]

/-- the variable is set … -/
theorem demo_env : envValue demoW portMeta = some "8080".toList := by decide
/-- … to a text the field accepts, as a value other than `None`; the field class consults the environment -/
theorem demo_validates : validate demoW.fe.toEnv portSpec (.str "8080".toList) = .ok (.int 8080) := by rfl
theorem demo_base : usesBaseSetdefault portSpec.kind = true := by decide

def demoHistory : List KeyOp :=
  [.load [(.str "port".toList, .int 9), (.str "debug".toList, .bool true)] false,
   .assign "port" (.list []),
   .load [(.str "port".toList, .int 10)] true,
   .assign "port" (.int 5),
   .load [(.str "port".toList, .int 11)] false,
   .reset "port"]

theorem demoHistory_ok : ∀ op ∈ demoHistory, OpOk demoSchema op := by
  intro op hop
  simp only [demoHistory, List.mem_cons, List.mem_nil_iff, or_false] at hop
  rcases hop with rfl | rfl | rfl | rfl | rfl | rfl
  · intro ks value hm
    simp only [List.mem_cons, List.mem_nil_iff, or_false, Prod.mk.injEq, Val.str.injEq] at hm
    rcases hm with hm | hm <;> (rw [hm.1]; decide)
  · show isLeafKey demoSchema "port" = true; decide
  · intro ks value hm
    simp only [List.mem_singleton, Prod.mk.injEq, Val.str.injEq] at hm
    rw [hm.1]; decide
  · show isLeafKey demoSchema "port" = true; decide
  · intro ks value hm
    simp only [List.mem_singleton, Prod.mk.injEq, Val.str.injEq] at hm
    rw [hm.1]; decide
  · exact ⟨by decide, by decide⟩

def d0 : Cfg := Cfg.mk 0 [("port", .val (.int 8080)), ("debug", .val .none)] ["port", "debug"] [] none false

/-- `Config(schema)`: `port` starts at the variable's value, not user-defined -/
theorem demo_fresh : build demoW "" false none demoSchema 0 = .ok (d0, 1) := by
  have hv := demo_validates
  have he := demo_env
  have he2 : envValue demoW {} = none := rfl
  simp [demoSchema, d0, build, buildFields, setDefault, portSpec, portMeta, debugSpec, FieldSpec.kind, Default.value] at hv he ⊢
  simp [he, he2, hv,
    Cfg.setDefault, Cfg.set, Cfg.withSlots, Cfg.withDefaults, setSlot, Cfg.defaults, Cfg.slots, Cfg.oid, Cfg.dyn, Cfg.keyfile, Cfg.linked]

/-- the abstract machine on the whole history, from the fresh state: `port` ends at the variable's value, `debug` at the
    loaded `true`; the one in the middle (before the reset) shows the assignment in force -/
theorem demo_abs :
    (absRun demoW demoSchema (absOf (d0, 1)) demoHistory).slot "port" = some (.val (.int 8080)) ∧
    (absRun demoW demoSchema (absOf (d0, 1)) demoHistory).slot "debug" = some (.val (.bool true)) ∧
    (absRun demoW demoSchema (absOf (d0, 1)) (demoHistory.take 5)).slot "port" = some (.val (.int 5)) ∧
    (absRun demoW demoSchema (absOf (d0, 1)) (demoHistory.take 3)).slot "port" = some (.val (.int 8080)) := by
  refine ⟨?_, ?_, ?_, ?_⟩ <;> rfl

/-- which operations the specification accepts: the list assignment is rejected, `port := 5` and the reset accepted; the
    first load writes `debug` only -/
theorem demo_accepts :
    assignAccepts demoW demoSchema "port" (.list []) = false ∧ assignAccepts demoW demoSchema "port" (.int 5) = true ∧
    resetAccepts demoW demoSchema "port" = true ∧
    loadAssigned demoW demoSchema [(.str "port".toList, .int 9), (.str "debug".toList, .bool true)] = ["debug"] := by
  decide

/-- `value_refines` / `level_refines` instantiated: the model, run on the whole history from the fresh configuration, holds
    what the abstract machine computed above, and `port` is not user-defined while `debug` is -/
theorem demo_model :
    (runOps demoW 1 demoSchema (d0, 1) demoHistory).1.get "port" = some (.val (.int 8080)) ∧
    (runOps demoW 1 demoSchema (d0, 1) demoHistory).1.get "debug" = some (.val (.bool true)) ∧
    (runOps demoW 1 demoSchema (d0, 1) demoHistory).2 = 1 ∧
    C12.defined (runOps demoW 1 demoSchema (d0, 1) demoHistory).1 "port" = false ∧
    C12.defined (runOps demoW 1 demoSchema (d0, 1) demoHistory).1 "debug" = true := by
  have h := level_refines demoW 0 demoSchema d0 1 (C12.defined d0) (absOf (d0, 1)) demoHistory demoHistory_ok
    (fun _ => rfl) (fun _ _ => rfl) rfl
  refine ⟨?_, ?_, h.2.2, ?_, ?_⟩
  · rw [h.2.1 "port" (by decide)]; exact demo_abs.1
  · rw [h.2.1 "debug" (by decide)]; exact demo_abs.2.1
  · rw [h.1 "port"]; decide
  · rw [h.1 "debug"]; decide

/-- `env_value_survives_loads` instantiated (its hypotheses are satisfiable): two loads naming `port` -/
example : (runOps demoW 1 demoSchema (d0, 1) [demoHistory[0], demoHistory[2]]).1.get "port" = some (.val (.int 8080)) ∧
    C12.defined (runOps demoW 1 demoSchema (d0, 1) [demoHistory[0], demoHistory[2]]).1 "port" = false :=
  env_value_survives_loads demoW 0 "" false none demoSchema 0 d0 1 demo_fresh demo_nodup "port" portSpec portMeta get_port
    _ _ demo_base demo_env demo_validates (by intro h; cases h) _
    (fun op ho => demoHistory_ok op (by
      simp only [List.mem_cons, List.mem_nil_iff, or_false] at ho
      rcases ho with rfl | rfl <;> simp [demoHistory]))
    (fun op ho => by
      simp only [List.mem_cons, List.mem_nil_iff, or_false] at ho
      rcases ho with rfl | rfl <;> rfl)

/-- `assignment_beats_env` instantiated: `pre` = the first three operations, then `port := 5`, then a load naming `port` -/
example : (runOps demoW 1 demoSchema (d0, 1) (demoHistory.take 3 ++ .assign "port" (.int 5) :: [demoHistory[4]])).1.get "port"
      = some (.val (.int 5)) ∧
    C12.defined (runOps demoW 1 demoSchema (d0, 1) (demoHistory.take 3 ++ .assign "port" (.int 5) :: [demoHistory[4]])).1 "port" = true :=
  assignment_beats_env demoW 0 demoSchema (d0, 1) "port" portSpec portMeta get_port _ demo_env (.int 5) (.int 5) rfl _ _
    (fun op ho => demoHistory_ok op (by
      simp only [List.mem_cons, List.mem_nil_iff, or_false] at ho
      subst ho; simp [demoHistory]))
    (fun op ho => by
      simp only [List.mem_cons, List.mem_nil_iff, or_false] at ho
      subst ho; rfl)

/-- `reset_returns_to_env` instantiated: after the first five operations, reset, then one more load naming `port` -/
example : (applyOp demoW 1 demoSchema (runOps demoW 1 demoSchema (d0, 1) (demoHistory.take 5)) (.reset "port")).2 = false ∧
    (runOps demoW 1 demoSchema (d0, 1) (demoHistory.take 5 ++ .reset "port" :: [demoHistory[2]])).1.get "port" = some (.val (.int 8080)) ∧
    C12.defined (runOps demoW 1 demoSchema (d0, 1) (demoHistory.take 5 ++ .reset "port" :: [demoHistory[2]])).1 "port" = false :=
  reset_returns_to_env demoW 0 demoSchema (d0, 1) "port" portSpec portMeta get_port (by decide) _ _ demo_base demo_env
    demo_validates (by intro h; cases h) _ _
    (fun op ho => demoHistory_ok op (by
      simp only [List.mem_cons, List.mem_nil_iff, or_false] at ho
      subst ho; simp [demoHistory]))
    (fun op ho => by
      simp only [List.mem_cons, List.mem_nil_iff, or_false] at ho
      subst ho; rfl)

/-- the first load, evaluated in the model: it returns normally, `port` is skipped, `debug` is written -/
def d1 : Cfg := Cfg.mk 0 [("port", .val (.int 8080)), ("debug", .val (.bool true))] ["port"] [] none false

theorem demo_step1 : applyOp demoW 1 demoSchema (d0, 1) demoHistory[0] = ((d1, 1), false) := by
  have he := demo_env
  have he2 : envValue demoW {} = none := rfl
  simp [demoHistory, applyOp, loadTree, decodeEntry, setValue, getField, get_port, get_debug, validate, validateKind,
    boolRule, d0, d1, he, he2, debugSpec, toPython, toPythonKind,
    Cfg.setUser, Cfg.set, Cfg.withSlots, Cfg.withDefaults, setSlot, Cfg.defaults, Cfg.slots, Cfg.oid, Cfg.dyn, Cfg.keyfile, Cfg.linked]

/-- the rest of the history, evaluated in the model step by step -/
def d4 : Cfg := Cfg.mk 0 [("port", .val (.int 5)), ("debug", .val (.bool true))] [] [] none false
def d6 : Cfg := Cfg.mk 0 [("port", .val (.int 8080)), ("debug", .val (.bool true))] ["port"] [] none false

/-- rejected assignment (a list is no integer): nothing moves, the flag is raised -/
theorem demo_step2 : applyOp demoW 1 demoSchema (d1, 1) demoHistory[1] = ((d1, 1), true) := by
  simp [demoHistory, applyOp, setValue, getField, get_port, validate, validateKind, intRule, portSpec, d1]

/-- a validating load naming `port`: skipped, the final validation passes -/
theorem demo_step3 : applyOp demoW 1 demoSchema (d1, 1) demoHistory[2] = ((d1, 1), false) := by
  have he := demo_env
  simp only [portMeta] at he
  have hF : demoSchema.fields = [("port", .leaf portSpec portMeta), ("debug", .leaf debugSpec {})] := rfl
  have hV : demoSchema.validators = [] := rfl
  simp [demoHistory, applyOp, loadTree, decodeEntry, getField, get_port, he, d1,
    validateCfg, featureEnabled, validateFields, fieldProblem, hF, hV, portMeta,
    Cfg.get, getSlot, Cfg.slots, validate, validateKind, intRule, boolRule, portSpec, debugSpec, checkBounds]

/-- accepted assignment: `port` holds 5 and is user-defined -/
theorem demo_step4 : applyOp demoW 1 demoSchema (d1, 1) demoHistory[3] = ((d4, 1), false) := by
  simp [demoHistory, applyOp, setValue, getField, get_port, validate, validateKind, intRule, portSpec, d1, d4, checkBounds,
    Cfg.setUser, Cfg.set, Cfg.withSlots, Cfg.withDefaults, setSlot, Cfg.defaults, Cfg.slots, Cfg.oid, Cfg.dyn, Cfg.keyfile, Cfg.linked]

/-- another load naming `port`: skipped, the assignment stays -/
theorem demo_step5 : applyOp demoW 1 demoSchema (d4, 1) demoHistory[4] = ((d4, 1), false) := by
  have he := demo_env
  simp [demoHistory, applyOp, loadTree, decodeEntry, getField, get_port, he, d4]

/-- reset: `port` is back at the variable's value and not user-defined -/
theorem demo_step6 : applyOp demoW 1 demoSchema (d4, 1) demoHistory[5] = ((d6, 1), false) := by
  have ha : "port".toList = ['p', 'o', 'r', 't'] := by decide
  have he := demo_env
  have hv := demo_validates
  simp [portSpec] at hv
  simp [demoHistory, applyOp, resetValue, walk, replaceAt, partitionDot, ha, getField, get_port, setDefault, d4, d6, he, hv,
    FieldSpec.kind, portSpec,
    Cfg.setDefault, Cfg.set, Cfg.withSlots, Cfg.withDefaults, setSlot, Cfg.defaults, Cfg.slots, Cfg.oid, Cfg.dyn, Cfg.keyfile, Cfg.linked]

/-- the model on the whole history, computed without any of the theorems above: final state, identity counter and which
    operations raised (only the list assignment) — the same values as `demo_abs` / `demo_model` -/
theorem demo_run : runOps demoW 1 demoSchema (d0, 1) demoHistory = (d6, 1) ∧
    raisedFlags demoW 1 demoSchema (d0, 1) demoHistory = [false, true, false, false, false, false] := by
  have h1 := demo_step1; have h2 := demo_step2; have h3 := demo_step3
  have h4 := demo_step4; have h5 := demo_step5; have h6 := demo_step6
  simp only [demoHistory, List.getElem_cons_zero, List.getElem_cons_succ] at h1 h2 h3 h4 h5 h6
  simp only [runOps, raisedFlags, demoHistory, List.foldl_cons, List.foldl_nil, h1, h2, h3, h4, h5, h6, and_self]

example : d6.get "port" = some (.val (.int 8080)) ∧ d6.get "debug" = some (.val (.bool true)) ∧
    C12.defined d6 "port" = false ∧ C12.defined d6 "debug" = true ∧
    d4.get "port" = some (.val (.int 5)) ∧ C12.defined d4 "port" = true :=
  ⟨by simp [d6, Cfg.get, Cfg.slots, getSlot], by simp [d6, Cfg.get, Cfg.slots, getSlot], by decide, by decide,
   by simp [d4, Cfg.get, Cfg.slots, getSlot], by decide⟩

/-- `no_binding_loads_apply` instantiated on `debug` (no binding): the loaded value is taken -/
example : ∃ u v, toPython demoW.fe debugSpec (.bool true) = .ok u ∧ validate demoW.fe.toEnv debugSpec u = .ok v ∧
    (runOps demoW 1 demoSchema (d0, 1) ([] ++ [demoHistory[0]])).1.get (String.ofList "debug".toList) = some (.val v) ∧
    C12.defined (runOps demoW 1 demoSchema (d0, 1) ([] ++ [demoHistory[0]])).1 (String.ofList "debug".toList) = true :=
  no_binding_loads_apply demoW 0 demoSchema (d0, 1) [] _ false (demoHistory_ok _ (by simp [demoHistory]))
    "debug".toList (.bool true) debugSpec {} (by simp) get_debug rfl
    (fun value' hm => by
      simp only [List.mem_cons, List.mem_nil_iff, or_false, Prod.mk.injEq, Val.str.injEq] at hm
      rcases hm with hm | hm
      · exact absurd hm.1 (by decide)
      · exact hm.2)
    (by
      have h := demo_step1
      simp only [demoHistory, List.getElem_cons_zero] at h
      simp only [runOps, List.foldl_nil, h])

/-- `unbound_equivalent` is not vacuous either: the world where `APP_PORT` is unset cannot tell `demoSchema` from the same
    schema without the binding -/
def plainSchema : Schema :=
  .mk [("port", .leaf portSpec { default := .const (.int 1) }), ("debug", .leaf debugSpec {})] false []

theorem demo_envEquiv : EnvEquiv cexWorld demoSchema plainSchema := by
  intro k
  by_cases h1 : k = "port"
  · subst h1
    exact Or.inr ⟨portSpec, portMeta, { default := .const (.int 1) }, by simp [get_port, leafOf],
      by simp [plainSchema, Schema.get, Schema.fields, lookupField, leafOf], rfl, by decide⟩
  · by_cases h2 : k = "debug"
    · subst h2
      exact Or.inr ⟨debugSpec, {}, {}, by simp [get_debug, leafOf],
        by simp [plainSchema, Schema.get, Schema.fields, lookupField, leafOf], rfl, rfl⟩
    · have hne1 : ("port" = k) = False := by simp [Ne.symm h1]
      have hne2 : ("debug" = k) = False := by simp [Ne.symm h2]
      exact Or.inl ⟨by simp [demoSchema, Schema.get, Schema.fields, lookupField, hne1, hne2, leafOf],
        by simp [plainSchema, Schema.get, Schema.fields, lookupField, hne1, hne2, leafOf]⟩

end Demo

/-! ## F59 — the world that decides is the one at the time of the LOAD

  Every theorem above speaks of one world `W`: the environment does not change while a configuration lives.  C14's sentence is
  about the variable "when the configuration is built".  The model follows the code, which looks at the process environment again
  at every load (`decodeEntry` consults `envValue W m` with the world of the load), so with two worlds the property's reading fails
  on the model exactly as on /repo (recorded finding F59, replays `notes/replays-found/F59-*.json`): -/

/-- built while the variable is set, loaded after it was removed: the document's entry is **assigned** (the field the variable
    shielded at construction is overridden); built while it is unset, loaded after it was set: the entry is **skipped** (a field
    without a binding does not receive the document's value) -/
theorem env_consulted_at_load :
    entryEffect C12b.Demo.envW C12b.Demo.envSchema (.str ['b']) (.bool false) = .skip ∧
    entryEffect cexWorld C12b.Demo.envSchema (.str ['b']) (.bool false) = .assign "b" := by decide

/-- what does hold for two worlds (the `_partial` form of "documents never override"): a load skips the key exactly when the
    variable is set in the world of THAT load, whatever the world of construction was -/
theorem env_beats_load_partial (Wbuild Wload : World) (fuel : Nat) (s : Schema) (path : String) (c : Cfg) (k : Str) (value : Val)
    (rest : List (Val × Val)) (doValidate : Bool) (n : Nat) (fs : FieldSpec) (m : LeafMeta)
    (hf : s.get (String.ofList k) = some (.leaf fs m)) (x : Str) (henv : envValue Wload m = some x) :
    loadTree Wload fuel s path c ((.str k, value) :: rest) doValidate n = loadTree Wload fuel s path c rest doValidate n :=
  let _ := Wbuild
  C14.env_beats_load Wload fuel s path c k value rest doValidate n fs m hf x henv

/-- **A set variable gives the field what assigning the same text gives** (the oracle of the C14 stream
    `leaf_fields_and_blank_variables`): `k` is a leaf of a duplicate-free schema bound to a variable set to `text`, which its field
    accepts as `v ≠ None`.  The configuration built in that world holds `v` under `k` — and so does ANY configuration of the
    schema, in any world with the same file system (the variable set or not), reached by any history, after `k := text` is
    assigned.  What differs is only the status: the built value counts as a default, the assigned one as user-defined.
    (`hnn`: a text that validates to `None` falls back to the declared default at construction — `Field.__setdefault__` — while an
    assignment stores the `None`; the stream's blank-variable cases sit exactly on that edge and are compared on the real code.) -/
theorem env_equals_assignment (W W' : World) (hfe : W'.fe = W.fe) (fuel : Nat) (path : String) (linked : Bool) (keyfile : Option String)
    (s : Schema) (n : Nat) (c0 : Cfg) (n0 : Nat) (hb : build W path linked keyfile s n = .ok (c0, n0)) (hnd : nodupKeys s.fields = true)
    (k : String) (fs : FieldSpec) (m : LeafMeta) (hf : s.get k = some (.leaf fs m)) (text : Str) (v : Val)
    (hk : usesBaseSetdefault fs.kind = true) (henv : envValue W m = some text)
    (hv : validate W.fe.toEnv fs (.str text) = .ok v) (hnn : v ≠ .none) (cn : Cfg × Nat) (pre : List KeyOp) :
    c0.get k = (runOps W' (fuel + 1) s cn (pre ++ [.assign k (.str text)])).1.get k ∧
    C12.defined c0 k = false ∧ C12.defined (runOps W' (fuel + 1) s cn (pre ++ [.assign k (.str text)])).1 k = true := by
  have h0 := env_wins_fresh W path linked keyfile s n c0 n0 hb hnd k fs m hf text v hk henv hv hnn
  have hv' : validate W'.fe.toEnv fs (.str text) = .ok v := by rw [hfe]; exact hv
  have h1 := last_assignment_wins W' fuel s cn k fs m hf (.str text) v hv' pre [] (by simp) (by simp)
  exact ⟨h0.1.trans h1.1.symm, h0.2, h1.2⟩

/-- non-vacuity: the demonstration schema's `port`, bound to a variable set to `8080` — every hypothesis is met -/
example : d0.get "port" =
    (runOps demoW 2 demoSchema (d0, 1) ([] ++ [.assign "port" (.str "8080".toList)])).1.get "port" :=
  (env_equals_assignment demoW demoW rfl 1 "" false none demoSchema 0 d0 1 demo_fresh demo_nodup "port"
    portSpec portMeta get_port "8080".toList (.int 8080) demo_base demo_env demo_validates (by simp) (d0, 1) []).1

end Cinco.C14b
