import Cinco.Proofs.Cfg
import Cinco.Props.C06
/-
  C12 — defaults, user-defined status and reset behave as a consistent state machine.
-/
namespace Cinco.C12
open Cinco Cinco.Field Cinco.Config

/-- fields whose `__setdefault__` stores a value in the configuration -/
def stores : SField → Bool
  | .virtual _ _ => false
  | .method => false
  | _ => true

/-- `is_value_defined` on the owning configuration -/
def defined (c : Cfg) (k : String) : Bool := !c.defaults.contains k

/-- **`__setdefault__` marks its own key as default and touches no other key** (every field kind that stores a value). -/
theorem setDefault_marks (W : World) (path k : String) (f : SField) (c c' : Cfg) (n n' : Nat)
    (hstore : stores f = true)
    (h : setDefault W path k f c n = .ok (c', n')) :
    defined c' k = false ∧ (∀ k', k' ≠ k → c'.get k' = c.get k') ∧ (∀ k', k' ≠ k → defined c' k' = defined c k') := by
  have key : ∀ (sl : Slot), defined (c.setDefault k sl) k = false ∧ (∀ k', k' ≠ k → (c.setDefault k sl).get k' = c.get k') ∧
      (∀ k', k' ≠ k → defined (c.setDefault k sl) k' = defined c k') := by
    intro sl
    refine ⟨?_, fun k' hk' => Cfg.get_setDefault_other c hk' sl, ?_⟩
    · have := Cfg.defaults_setDefault_mem c k sl
      simp [defined, this]
    · intro k' hk'
      cases c with
      | mk o s d dy kf li =>
        simp only [defined, Cfg.setDefault, Cfg.withDefaults, Cfg.defaults, Cfg.set, Cfg.withSlots]
        by_cases hm : k ∈ d
        · simp [hm]
        · simp [hm, hk']
  unfold setDefault at h
  cases f with
  | virtual _ _ => simp [stores] at hstore
  | method => simp [stores] at hstore
  | sub s =>
    simp only at h
    cases hb : build W (joinPath path k) true none s n with
    | error e => simp [hb] at h
    | ok r => obtain ⟨sub, n1⟩ := r; simp [hb] at h; obtain ⟨h1, _⟩ := h; subst h1; exact key _
  | ctype s kf =>
    simp only at h
    cases hb : build W (joinPath path k) true kf s n with
    | error e => simp [hb] at h
    | ok r => obtain ⟨sub, n1⟩ := r; simp [hb] at h; obtain ⟨h1, _⟩ := h; subst h1; exact key _
  | cfgList s it req m =>
    simp only at h
    split at h <;> first | (simp at h; obtain ⟨h1, _⟩ := h; subst h1; exact key _) | (simp at h)
  | leaf fs m =>
    simp only at h
    (repeat' split at h) <;> first | (simp at h; obtain ⟨h1, _⟩ := h; subst h1; exact key _) | (simp at h)

/-- **A plain field without an environment binding starts at its declared default.** -/
theorem setDefault_plain_value (W : World) (path k : String) (fs : FieldSpec) (m : LeafMeta) (c c' : Cfg) (n n' : Nat)
    (hk : match fs.kind with | .list _ => False | .dict _ _ => False | .challenge _ => False | _ => True)
    (henv : m.env = none) (h : setDefault W path k (.leaf fs m) c n = .ok (c', n')) :
    c'.get k = some (.val m.default.value) := by
  unfold setDefault at h
  have he : envValue W m = none := by simp [envValue, henv]
  cases hkind : fs.kind <;> simp [hkind] at hk <;> simp [hkind, he] at h <;> (obtain ⟨h1, _⟩ := h; subst h1; exact Cfg.get_setDefault_same _ _ _)

/-- **A field becomes user-defined exactly when a value is successfully assigned**: an accepted assignment to `k` defines `k`
    and changes the status of no other key. -/
theorem defined_set (W : World) (fuel : Nat) (s : Schema) (path : String) (c : Cfg) (k : String) (v : Val) (n : Nat)
    (fs : FieldSpec) (m : LeafMeta) (hf : s.get k = some (.leaf fs m))
    (hok : (setValue W (fuel + 1) s path c k (.val v) n).err = none) :
    defined (setValue W (fuel + 1) s path c k (.val v) n).cfg k = true ∧
    ∀ k', k' ≠ k → defined (setValue W (fuel + 1) s path c k (.val v) n).cfg k' = defined c k' := by
  unfold setValue at hok ⊢
  have hg : getField s c k = .declared (.leaf fs m) := by simp [getField, hf]
  simp only [hg] at hok ⊢
  cases hv : validate W.fe.toEnv fs v with
  | error e => simp [hv] at hok
  | ok v' =>
    simp only [defined, Cfg.defaults_setUser]
    constructor
    · simp [List.contains_eq_mem]
    · intro k' hk'
      simp [List.contains_eq_mem, hk']

/-- **A rejected assignment never changes the status of any key** (corollary of C06). -/
theorem defined_reject (W : World) (fuel : Nat) (s : Schema) (path : String) (c : Cfg) (k : String) (a : Arg) (n : Nat)
    (h : (setValue W fuel s path c k a n).err ≠ none) (k' : String) :
    defined (setValue W fuel s path c k a n).cfg k' = defined c k' := by
  rw [C06.setValue_rejected_unchanged W fuel s path c k a n h]

/-- **Reset restores the default and the not-user-defined status and touches no other key** (a key of the configuration itself). -/
theorem reset_restores (W : World) (fuel : Nat) (s : Schema) (c : Cfg) (k : String) (n : Nat) (f : SField)
    (hk : '.' ∉ k.toList) (hf : s.get k = some f) (hstore : stores f = true)
    (hok : (resetValue W (fuel + 1) s c k.toList n).err = none) :
    ∃ c1 n1, setDefault W "" k f c n = .ok (c1, n1) ∧ (resetValue W (fuel + 1) s c k.toList n).cfg = c1 ∧
      defined c1 k = false ∧ (∀ k', k' ≠ k → c1.get k' = c.get k') ∧ (∀ k', k' ≠ k → defined c1 k' = defined c k') := by
  have hpart : partitionDot k.toList = (k.toList, none) := partitionDot_no_dot _ hk
  unfold resetValue at hok ⊢
  have hw : walk (fuel + 1) s "" c k.toList = some (s, "", c, k) := by
    unfold walk; simp [hpart]
  simp only [hw] at hok ⊢
  have hg : getField s c k = .declared f := by simp [getField, hf]
  simp only [hg] at hok ⊢
  cases hsd : setDefault W "" k f c n with
  | error e => simp [hsd] at hok
  | ok r =>
    obtain ⟨c1, n1⟩ := r
    have hrep : replaceAt (fuel + 1) c k.toList (fun _ => c1) = c1 := by unfold replaceAt; simp [hpart]
    refine ⟨c1, n1, rfl, by simp [hrep], ?_⟩
    exact setDefault_marks W "" k f c c1 n n1 hstore hsd

end Cinco.C12
