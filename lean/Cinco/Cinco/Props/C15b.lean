import Cinco.Config.Links
/-
  C15 (continuation) — the item index an error names, over whole histories of list operations.
  The path of a rejection inside an item of a configuration list carries the item's index, which the item obtains through its
  back-reference to a list object (`_container`).  Four of the repaired defects (F28, F45, F46, F50) were stale back-references.
  Model `Config/Links.lean`: list objects by identity, the held one, the links; operations as the code performs them.  Proved here:
  along EVERY history of appends, insertions, deletions, derivations (`l.copy()`, `l[:]`, `l + [...]`), assignments of derived
  lists and loads, every item of the held list points at the held list (`run_inv`), hence the index an error names is the index
  the item has (`reported_is_actual`, `index_right_after_any_history`) — with the relinking assignment of the current code; the
  code before F50 (`relink = false`) names a stale index on a four-step history (`stale_index_without_relinking`).
-/
namespace Cinco.C15b
open Cinco.Links

theorem upd_same {α} (f : Nat → α) (k : Nat) (v : α) : upd f k v k = v := by simp [upd]
theorem upd_other {α} (f : Nat → α) (k x : Nat) (v : α) (h : x ≠ k) : upd f k v x = f x := by simp [upd, h]

theorem inv_init : Inv init := by intro x hx; simp [init] at hx
theorem wf_init : WF init := ⟨by simp [init], by intro l x hx; simp [init] at hx, by intro l _; rfl⟩

theorem mem_insertAt {xs : List Nat} {i x y : Nat} (h : y ∈ insertAt xs i x) : y = x ∨ y ∈ xs := by
  simp only [insertAt, List.mem_append, List.mem_cons] at h
  rcases h with h | h | h
  · exact Or.inr (List.mem_of_mem_take h)
  · exact Or.inl h
  · exact Or.inr (List.mem_of_mem_drop h)

/-- identities stay fresh along every step, in both modes -/
theorem step_wf (relink : Bool) (s : St) (op : Op) (h : WF s) : WF (step relink s op) := by
  obtain ⟨hh, hx, he⟩ := h
  cases op with
  | appendNew =>
    refine ⟨by simp only [step]; omega, ?_, ?_⟩
    · intro l x hm
      simp only [step] at hm ⊢
      by_cases hl : l = s.held
      · subst hl
        rw [upd_same] at hm
        rcases List.mem_append.1 hm with h1 | h1
        · have := hx _ _ h1; omega
        · simp at h1; omega
      · rw [upd_other _ _ _ _ hl] at hm
        have := hx _ _ hm; omega
    · intro l hl
      simp only [step] at hl ⊢
      have : l ≠ s.held := by omega
      rw [upd_other _ _ _ _ this]
      exact he l (by omega)
  | insertNew i =>
    refine ⟨by simp only [step]; omega, ?_, ?_⟩
    · intro l x hm
      simp only [step] at hm ⊢
      by_cases hl : l = s.held
      · subst hl
        rw [upd_same] at hm
        rcases mem_insertAt hm with h1 | h1
        · omega
        · have := hx _ _ h1; omega
      · rw [upd_other _ _ _ _ hl] at hm
        have := hx _ _ hm; omega
    · intro l hl
      simp only [step] at hl ⊢
      have : l ≠ s.held := by omega
      rw [upd_other _ _ _ _ this]
      exact he l (by omega)
  | delete i =>
    refine ⟨hh, ?_, ?_⟩
    · intro l x hm
      simp only [step] at hm ⊢
      by_cases hl : l = s.held
      · subst hl
        rw [upd_same] at hm
        exact hx _ _ (List.mem_of_mem_eraseIdx hm)
      · rw [upd_other _ _ _ _ hl] at hm
        exact hx _ _ hm
    · intro l hl
      simp only [step] at hl ⊢
      have : l ≠ s.held := by omega
      rw [upd_other _ _ _ _ this]
      exact he l hl
  | derive l0 =>
    simp only [step]
    split
    · refine ⟨by simp only; omega, ?_, ?_⟩
      · intro l x hm
        simp only at hm ⊢
        by_cases hl : l = s.next
        · subst hl
          rw [upd_same] at hm
          have := hx _ _ hm; omega
        · rw [upd_other _ _ _ _ hl] at hm
          have := hx _ _ hm; omega
      · intro l hl
        simp only at hl ⊢
        have : l ≠ s.next := by omega
        rw [upd_other _ _ _ _ this]
        exact he l (by omega)
    · exact ⟨hh, hx, he⟩
  | derivePlus l0 =>
    simp only [step]
    split
    · refine ⟨by simp only; omega, ?_, ?_⟩
      · intro l x hm
        simp only at hm ⊢
        by_cases hl : l = s.next
        · subst hl
          rw [upd_same] at hm
          rcases List.mem_append.1 hm with h1 | h1
          · have := hx _ _ h1; omega
          · simp at h1; omega
        · rw [upd_other _ _ _ _ hl] at hm
          have := hx _ _ hm; omega
      · intro l hl
        simp only at hl ⊢
        have : l ≠ s.next := by omega
        rw [upd_other _ _ _ _ this]
        exact he l (by omega)
    · exact ⟨hh, hx, he⟩
  | assign l0 =>
    simp only [step]
    split
    · rename_i hl0
      exact ⟨hl0, hx, he⟩
    · exact ⟨hh, hx, he⟩
  | load k =>
    refine ⟨by simp only [step]; omega, ?_, ?_⟩
    · intro l x hm
      simp only [step] at hm ⊢
      by_cases hl : l = s.next
      · subst hl
        rw [upd_same] at hm
        simp only [List.mem_map, List.mem_range] at hm
        obtain ⟨a, ha, rfl⟩ := hm
        omega
      · rw [upd_other _ _ _ _ hl] at hm
        have := hx _ _ hm; omega
    · intro l hl
      simp only [step] at hl ⊢
      have : l ≠ s.next := by omega
      rw [upd_other _ _ _ _ this]
      exact he l (by omega)

/-- **one step keeps every item of the held list pointing at the held list** (the current code: assignment relinks) -/
theorem step_inv (s : St) (op : Op) (hw : WF s) (hi : Inv s) : Inv (step true s op) := by
  obtain ⟨hh, hx, he⟩ := hw
  cases op with
  | appendNew =>
    intro x hm
    simp only [step] at hm ⊢
    rw [upd_same] at hm
    by_cases hxn : x = s.next
    · subst hxn; rw [upd_same]
    · rw [upd_other _ _ _ _ hxn]
      rcases List.mem_append.1 hm with h1 | h1
      · exact hi x h1
      · simp at h1; exact absurd h1 hxn
  | insertNew i =>
    intro x hm
    simp only [step] at hm ⊢
    rw [upd_same] at hm
    by_cases hxn : x = s.next
    · subst hxn; rw [upd_same]
    · rw [upd_other _ _ _ _ hxn]
      rcases mem_insertAt hm with h1 | h1
      · exact absurd h1 hxn
      · exact hi x h1
  | delete i =>
    intro x hm
    simp only [step] at hm ⊢
    rw [upd_same] at hm
    exact hi x (List.mem_of_mem_eraseIdx hm)
  | derive l0 =>
    simp only [step]
    split
    · intro x hm
      simp only at hm ⊢
      have : s.held ≠ s.next := by omega
      rw [upd_other _ _ _ _ this] at hm
      exact hi x hm
    · exact hi
  | derivePlus l0 =>
    simp only [step]
    split
    · intro x hm
      simp only at hm ⊢
      have : s.held ≠ s.next := by omega
      rw [upd_other _ _ _ _ this] at hm
      have hlt := hx _ _ hm
      have : x ≠ s.next + 1 := by omega
      rw [upd_other _ _ _ _ this]
      exact hi x hm
    · exact hi
  | assign l0 =>
    simp only [step]
    split
    · intro x hm
      simp only at hm ⊢
      simp [hm]
    · exact hi
  | load k =>
    intro x hm
    simp only [step] at hm ⊢
    rw [upd_same] at hm
    simp only [List.mem_map, List.mem_range] at hm
    obtain ⟨a, ha, rfl⟩ := hm
    have : s.next < a + s.next + 1 ∧ a + s.next + 1 ≤ s.next + k := by omega
    simp [this]

/-- **every reachable state**: along any history of list operations, from a fresh configuration -/
theorem run_inv (ops : List Op) : ∀ (s : St), WF s → Inv s → WF (run true s ops) ∧ Inv (run true s ops) := by
  induction ops with
  | nil => intro s hw hi; exact ⟨hw, hi⟩
  | cons op ops ih =>
    intro s hw hi
    simp only [run, List.foldl_cons]
    exact ih (step true s op) (step_wf true s op hw) (step_inv s op hw hi)

/-- when every item of the held list points at it, the index an error names is the index the item has -/
theorem reported_is_actual (s : St) (hi : Inv s) (x : Nat) (hx : x ∈ s.contents s.held) : reported s x = some (actual s x) := by
  simp [reported, actual, hi x hx]

/-- **after any history the index named is the index held** -/
theorem index_right_after_any_history (ops : List Op) (x : Nat) (hx : x ∈ (run true init ops).contents (run true init ops).held) :
    reported (run true init ops) x = some (actual (run true init ops) x) :=
  reported_is_actual _ (run_inv ops init wf_init inv_init).2 x hx

/-- the code before F50 (an accepted own proxy is stored as it is): load three items, `items = items + [{...}]`, delete the first —
    the item now at index 0 still names index 1 -/
theorem stale_index_without_relinking :
    let s := run false init [.load 3, .derivePlus 1, .assign 5, .delete 0]
    s.contents s.held = [3, 4, 6] ∧ reported s 3 = some 1 ∧ actual s 3 = 0 := by decide

/-- the same history with the relinking assignment of the current code -/
example : let s := run true init [.load 3, .derivePlus 1, .assign 5, .delete 0]
    s.contents s.held = [3, 4, 6] ∧ reported s 3 = some 0 ∧ reported s 6 = some 2 := by decide

/-! ### F63 — the position named for an item that is REJECTED

  The theorems above are about items the list holds.  An item that is being validated is linked to the list before it is stored
  (`cfg._container = self` in `ListProxy._validate`), and `_get_item_position` answers `len(list)` for a configuration the list does
  not hold.  That is the position the item would get by `append`, `extend`, `+=` and in a load — and no position at all for a
  replacement or an insertion in front of the end (recorded finding F63). -/

/-- what an error raised inside an item that is not (yet) in the held list names as its index -/
def reportedForNew (s : St) : Nat := (s.contents s.held).length

/-- an appended item is reported under the position it gets -/
theorem appended_position_right (s : St) (hw : WF s) :
    (step true s .appendNew).contents (step true s .appendNew).held = s.contents s.held ++ [s.next] ∧
    ((s.contents s.held ++ [s.next]).idxOf s.next = reportedForNew s) := by
  refine ⟨by simp [step, upd], ?_⟩
  have hnot : s.next ∉ s.contents s.held := fun h => Nat.lt_irrefl _ (hw.2.1 _ _ h)
  simp [reportedForNew, List.idxOf_append, hnot]

/-- **F63 in the model**: a rejected replacement of (or insertion before) an existing position `i` is reported under a position
    that does not exist — never under `i` -/
theorem rejected_replacement_names_no_position (s : St) (i : Nat) (hi : i < (s.contents s.held).length) :
    reportedForNew s ≠ i ∧ ¬ reportedForNew s < (s.contents s.held).length := by
  unfold reportedForNew
  omega

/-- three items held, the first one replaced by a map that is rejected: the error names position 3 -/
example : let s := run true init [.load 3]
    reportedForNew s = 3 ∧ (s.contents s.held).length = 3 := by decide

end Cinco.C15b
