import Cinco.Proofs.Paths
/-
  C16 — all ways of naming a field agree; command-line overrides touch only what's given.
  (Proofs in Cinco/Proofs/Paths.lean.)
-/
namespace Cinco.C16
open Cinco Cinco.Field Cinco.Config

/-- **Enumeration = lookup**: for a root schema whose keys are pairwise distinct at every level, a path is reported by field
    enumeration with field `f` exactly when looking that path up on the schema yields `f`. -/
theorem enum_iff_lookup (s : Schema) (hnd : s.keysNodup = true) (ks : List String) (f : SField) :
    (ks, f) ∈ allPaths [] s ↔ lookupPath s ks = some f := Config.enum_iff_lookup s hnd ks f

/-- **Dotted strings agree with key components** on the schema: the library's dotted-path walk over the printed path finds
    what component-wise lookup finds (identifier keys: non-empty, no dot). -/
theorem schema_dotted_lookup (fuel : Nat) (s : Schema) (ks : List String) (hg : goodKeys ks) (hne : ks ≠ []) (hl : ks.length ≤ fuel) :
    schemaLookup fuel s (renderPath ks).toList = lookupPath s ks := schemaLookup_renderPath fuel s ks hg hne hl

/-- **…and on a configuration**: dotted-path access equals chained attribute access, and membership is "that access finds something". -/
theorem config_dotted_lookup (fuel : Nat) (c : Cfg) (ks : List String) (hg : goodKeys ks) (hne : ks ≠ []) (hl : ks.length ≤ fuel) :
    cfgLookup fuel c (dottedChars ks) = chain c ks ∧ cfgContains fuel c (dottedChars ks) = (chain c ks).isSome :=
  ⟨cfgLookup_dotted fuel c ks hg hne hl, cfgContains_dotted fuel c ks hg hne hl⟩

/-- **The generated parser**: one option per scalar field, an on and an off switch per boolean, each with the field's path as
    destination, in enumeration order. -/
theorem parser_dests (s : Schema) :
    (genParser s).map (·.dest) = (allFields s).flatMap (fun (p, f) => match f with
      | .leaf fs _ => (match optKindOf fs.kind with
          | some .store => [p] | some .flag => [p, p] | none => [])
      | _ => []) := Config.parser_dests s

/-- **An empty command line overrides nothing** (finding F14 was exactly the failure of this on the real parser). -/
theorem override_empty_cmdline (W : World) (fuel : Nat) (s : Schema) (c : Cfg) (opts : List OptSpec) (ignore : List String) (n : Nat) :
    cmdlineOverride W fuel s c (parseArgs opts []) ignore n = { cfg := c, next := n } :=
  Config.override_empty_cmdline W fuel s c opts ignore n

/-- **Overrides touch only what the user supplied and did not ask to ignore**: every top-level key that is not the first
    component of a supplied, non-ignored option keeps its slot — values at all depths below it included. -/
theorem override_frame (W : World) (fuel : Nat) (s : Schema) (c : Cfg) (ns : List (String × Option Val)) (ignore : List String) (n : Nat)
    (k' : String) (h : touches ns ignore k' = false) : (cmdlineOverride W fuel s c ns ignore n).cfg.get k' = c.get k' :=
  Config.override_frame W fuel s c ns ignore n k' h

/-- the documented example of `get_all_fields`: `x`, `y`, `y.z`, `z` in schema order -/
example : (allFields (.mk [("x", .leaf (.mk (.int none none) false none) {}), ("y", .sub (.mk [("z", .leaf (.mk (.string {}) false none) {})] false [])),
    ("z", .leaf (.mk (.string {}) false none) {})] false [])).map (·.1) = ["x", "y", "y.z", "z"] := by decide

end Cinco.C16
