import Cinco.Proofs.Cfg
/-
  C10 — a sensitive-value mask hides every sensitive value at every depth of the tree.
  `toTree` is the code-order model of `Config.to_tree(virtual, sensitive_mask)` (after the repair of finding F8 the same
  mask and virtual flag reach configurations held in lists).
-/
namespace Cinco.C10
open Cinco Cinco.Field Cinco.Config

/-- the loop of `to_tree` over the declared fields: each key is rendered by `renderField`, skipped keys are left out -/
theorem toTreeFields_cons (W : World) (fuel : Nat) (c : Cfg) (virt : Bool) (mask : Option Str) (k : String) (f : SField) (rest : List (String × SField)) :
    toTreeFields W fuel c virt mask ((k, f) :: rest) =
      (match renderField W fuel c virt mask k f, toTreeFields W fuel c virt mask rest with
       | some (some v), some t => some ((Val.str k.toList, v) :: t)
       | some none, some t => some t
       | _, _ => none) := by
  rw [toTreeFields]
  rfl

/-- **A sensitive field is rendered as the mask**: a one-character mask repeated to the length of the value's text, any other
    mask verbatim, an empty / falsy value as null — and its `to_basic` (e.g. the encryption of a secret) is not even computed. -/
theorem sensitive_masked (W : World) (fuel : Nat) (c : Cfg) (virt : Bool) (mask : Str) (k : String) (fs : FieldSpec) (m : LeafMeta) (v : Val)
    (hs : m.sensitive = true) (hget : c.get k = some (.val v)) :
    renderField W fuel c virt (some mask) k (.leaf fs m) = some (some (maskValue mask v)) := by
  simp [renderField, hget, hs]

theorem maskValue_cases (mask : Str) (v : Val) :
    maskValue mask v = (if !v.truthy then .none else if mask.length == 1 then .str (List.replicate (strLen v) (mask.headD ' ')) else .str mask) := rfl

/-- **Non-sensitive fields are rendered exactly as without a mask.** -/
theorem nonsensitive_unchanged (W : World) (fuel : Nat) (c : Cfg) (virt : Bool) (mask : Option Str) (k : String) (fs : FieldSpec) (m : LeafMeta)
    (hs : m.sensitive = false) :
    renderField W fuel c virt mask k (.leaf fs m) = renderField W fuel c virt none k (.leaf fs m) := by
  simp [renderField, hs]

/-- **Without a mask nothing is altered**: every leaf is its field's `to_basic`. -/
theorem no_mask_is_to_basic (W : World) (fuel : Nat) (c : Cfg) (virt : Bool) (k : String) (fs : FieldSpec) (m : LeafMeta) (v : Val)
    (hget : c.get k = some (.val v)) :
    renderField W fuel c virt none k (.leaf fs m) = (match toBasic W.fe fs v with | .ok b => some (some b) | .error _ => none) := by
  simp only [renderField, hget, Option.isSome_none, Bool.and_false, Bool.false_eq_true, if_false]
  rfl

/-- **The same mask reaches every depth**: nested sub-configurations and config types are rendered by `to_tree` with the
    same mask and virtual flag… -/
theorem mask_reaches_subconfigs (W : World) (fuel : Nat) (c : Cfg) (virt : Bool) (mask : Option Str) (k : String) (s' : Schema) (kf : Option String) (sub : Cfg)
    (hget : c.get k = some (.node sub)) :
    renderField W fuel c virt mask k (.sub s') = (toTree W fuel s' sub virt mask).map (fun t => some (.dict t)) ∧
    renderField W fuel c virt mask k (.ctype s' kf) = (toTree W fuel s' sub virt mask).map (fun t => some (.dict t)) := by
  simp [renderField, hget]

/-- …**and every configuration held in a list** (finding F8 was the absence of exactly this). -/
theorem mask_reaches_list_items (W : World) (fuel : Nat) (c : Cfg) (virt : Bool) (mask : Option Str) (k : String) (s' : Schema) (it req : Bool) (m : LeafMeta)
    (cs : List Cfg) (hget : c.get k = some (.nodes cs)) :
    renderField W fuel c virt mask k (.cfgList s' it req m) = (toTreeItems W fuel s' virt mask cs).map (fun ts => some (.list ts)) := by
  simp [renderField, hget]

theorem toTreeItems_each (W : World) (fuel : Nat) (s' : Schema) (virt : Bool) (mask : Option Str) :
    ∀ (cs : List Cfg) (ts : List Val), toTreeItems W fuel s' virt mask cs = some ts →
      ts.length = cs.length ∧ ∀ i (hi : i < cs.length) (hj : i < ts.length), ∃ t, toTree W fuel s' cs[i] virt mask = some t ∧ ts[i] = .dict t
  | [], ts, h => by simp [toTreeItems] at h; subst h; simp
  | c :: rest, ts, h => by
    rw [toTreeItems] at h
    cases hc : toTree W fuel s' c virt mask with
    | none => simp [hc] at h
    | some t =>
      cases hr : toTreeItems W fuel s' virt mask rest with
      | none => simp [hc, hr] at h
      | some tr =>
        simp [hc, hr] at h
        subst h
        have ih := toTreeItems_each W fuel s' virt mask rest tr hr
        refine ⟨by simp [ih.1], ?_⟩
        intro i hi hj
        cases i with
        | zero => exact ⟨t, hc, rfl⟩
        | succ j =>
          simp only [List.length_cons] at hi hj
          have := ih.2 j (by omega) (by omega)
          simpa using this

/-- Non-vacuity: a one-character mask over a five-character secret, a longer mask, an empty value. -/
example : maskValue ['*'] (.str "hello".toList) = .str "*****".toList ∧ maskValue "<hidden>".toList (.str "hello".toList) = .str "<hidden>".toList ∧
    maskValue ['*'] (.str []) = .none ∧ maskValue [] (.str "x".toList) = .str [] := by decide

/-- **a one-character mask is repeated to the value's length, whatever the length** (no cap: the round-9 change C10-r9-1 cut the run
    at 64 characters), and every other mask is written verbatim -/
theorem one_char_mask_length (ch : Char) (s : Str) (hs : s ≠ []) :
    maskValue [ch] (.str s) = .str (List.replicate s.length ch) ∧ (List.replicate s.length ch).length = s.length := by
  refine ⟨?_, by simp⟩
  cases s with
  | nil => exact absurd rfl hs
  | cons a t => simp [maskValue, Val.truthy, strLen]

theorem other_mask_verbatim (mask : Str) (s : Str) (hs : s ≠ []) (hm : mask.length ≠ 1) : maskValue mask (.str s) = .str mask := by
  cases s with
  | nil => exact absurd rfl hs
  | cons a t => simp [maskValue, Val.truthy, hm]

end Cinco.C10
