import Cinco.Proxy.CopyDepth
/-
  C17 (continuation) — a copy of a typed list of lists is ONE level deep, as `list.copy()` is.
  Model `Proxy/CopyDepth.lean`.  Proved for every state and every object: the copy holds the same references
  (`copy_same_refs`), so right after the copy both show the same (`copy_same_view`); whatever is then appended to an inner list
  through either of them shows through BOTH (`inner_edit_shows_through_both`), while an edit of one outer list leaves the other
  outer list as it is (`outer_edit_is_private`).  `deep_copy_differs` is the witness that tells the one-level copy from a deep one on a
  three-step history; the `copydepth` stream drives the same histories on real typed lists and compares every view with the model.
-/
namespace Cinco.C17c
open Cinco.CopyDepth

theorem get_alloc_old (h : H) (c : Cell) (a : Nat) (ha : a < h.cells.length) : (h.alloc c).2.get a = h.get a := by
  simp [H.alloc, H.get, List.getElem?_append_left ha]

theorem get_alloc_new (h : H) (c : Cell) : (h.alloc c).2.get h.cells.length = some c := by
  simp [H.alloc, H.get]

theorem get_write_same (h : H) (a : Nat) (c : Cell) (ha : a < h.cells.length) : (h.write a c).get a = some c := by
  simp [H.write, H.get, ha]

theorem get_write_other (h : H) (a b : Nat) (c : Cell) (hne : b ≠ a) : (h.write a c).get b = h.get b := by
  simp [H.write, H.get, List.getElem?_set_ne (Ne.symm hne)]

theorem lt_of_get (h : H) (a : Nat) (c : Cell) (hg : h.get a = some c) : a < h.cells.length := by
  unfold H.get at hg
  exact (List.getElem?_eq_some_iff.1 hg).1

/-- **the copy holds the same references**: the new outer object is `h.cells.length`, and its references are the original's -/
theorem copy_same_refs (h : H) (a : Nat) (refs : List Nat) (ha : h.get a = some (.outer refs)) :
    refsOf (step h (.copy a)) h.cells.length = refs ∧ refsOf (step h (.copy a)) a = refs := by
  have hlt := lt_of_get h a _ ha
  constructor
  · simp [step, ha, refsOf, get_alloc_new]
  · simp [step, ha, refsOf, get_alloc_old h _ a hlt]

/-- an inner object reads the same after a copy was taken -/
theorem itemsOf_copy (h : H) (a b : Nat) (refs : List Nat) (ha : h.get a = some (.outer refs)) (hb : b < h.cells.length) :
    itemsOf (step h (.copy a)) b = itemsOf h b := by
  simp [step, ha, itemsOf, get_alloc_old h _ b hb]

/-- **right after the copy both show the same** (every reference of the original is an allocated object) -/
theorem copy_same_view (h : H) (a : Nat) (refs : List Nat) (ha : h.get a = some (.outer refs)) (hwf : ∀ b ∈ refs, b < h.cells.length) :
    view (step h (.copy a)) h.cells.length = view h a ∧ view (step h (.copy a)) a = view h a := by
  have hlt := lt_of_get h a _ ha
  have hmap : refs.map (itemsOf (step h (.copy a))) = refs.map (itemsOf h) := by
    apply List.map_congr_left
    intro b hb
    exact itemsOf_copy h a b refs ha (hwf b hb)
  constructor
  · have : (step h (.copy a)).get h.cells.length = some (.outer refs) := by simp [step, ha, get_alloc_new]
    simp only [view, this, ha]
    exact hmap
  · have : (step h (.copy a)).get a = some (.outer refs) := by simp [step, ha, get_alloc_old h _ a hlt]
    simp only [view, this, ha]
    exact hmap

/-- **an edit of an inner list shows through every outer list that references it** — the original and each of its copies alike:
    two outer objects with the same references have the same view after a number was appended to any inner object -/
theorem inner_edit_shows_through_both (h : H) (a c b n : Nat) (refs : List Nat)
    (ha : h.get a = some (.outer refs)) (hc : h.get c = some (.outer refs)) :
    view (step h (.appendAtom b n)) a = view (step h (.appendAtom b n)) c := by
  cases hb : h.get b with
  | none => simp [step, hb, view, ha, hc]
  | some cell =>
    cases cell with
    | outer r => simp [step, hb, view, ha, hc]
    | inner items =>
      have hne_a : a ≠ b := by intro e; subst e; rw [ha] at hb; cases hb
      have hne_c : c ≠ b := by intro e; subst e; rw [hc] at hb; cases hb
      simp only [step, hb, view, get_write_other h b a _ hne_a, get_write_other h b c _ hne_c, ha, hc]

/-- and the appended number is really there: the inner object `b` referenced at position `i` now ends in `n` -/
theorem inner_edit_visible (h : H) (a b n : Nat) (refs items : List Nat)
    (ha : h.get a = some (.outer refs)) (hb : h.get b = some (.inner items)) (hmem : b ∈ refs) :
    (items ++ [n]) ∈ view (step h (.appendAtom b n)) a := by
  have hne : a ≠ b := by intro e; subst e; rw [ha] at hb; cases hb
  have hlt := lt_of_get h b _ hb
  simp only [step, hb, view, get_write_other h b a _ hne, ha, List.mem_map]
  exact ⟨b, hmem, by simp [itemsOf, get_write_same h b _ hlt]⟩

/-- **an edit of one outer list is private to it**: appending a new inner list to `a`, or dropping its last entry, leaves the
    references of every other outer object as they are -/
theorem outer_edit_is_private (h : H) (a c : Nat) (hne : c ≠ a) (hc : c < h.cells.length) :
    refsOf (step h (.appendNew a)) c = refsOf h c ∧ refsOf (step h (.dropLast a)) c = refsOf h c := by
  constructor
  · cases ha : h.get a with
    | none => simp [step, ha]
    | some cell =>
      cases cell with
      | inner items => simp [step, ha]
      | outer refs =>
        simp only [step, ha, refsOf]
        rw [get_write_other _ a c _ hne, get_alloc_old h _ c hc]
  · cases ha : h.get a with
    | none => simp [step, ha]
    | some cell =>
      cases cell with
      | inner items => simp [step, ha]
      | outer refs =>
        simp only [step, ha, refsOf]
        rw [get_write_other _ a c _ hne]

/-- the history `l.append([]); x = l.copy(); l[0].append(7)`: through the one-level copy the 7 shows, through a deep copy it does not -/
theorem deep_copy_differs :
    let h := run init [.appendNew 0]
    view (step (step h (.copy 0)) (.appendAtom 1 7)) 2 = [[7]] ∧
    view (step (deepCopy h 0) (.appendAtom 1 7)) 3 = [[]] := by decide

/-- premises satisfiable: a state with an outer list referencing two inner lists, all allocated -/
example : let h := run init [.appendNew 0, .appendNew 0, .appendAtom 1 5]
    h.get 0 = some (.outer [1, 2]) ∧ (∀ b ∈ [1, 2], b < h.cells.length) ∧ view h 0 = [[5], []] := by decide

end Cinco.C17c
