import Cinco.TreeIO.Effects
import Cinco.Generated.Effects
/-
  C19 — a failed save never damages the file on disk; a successful one writes exactly the serialised bytes.
  The theorems are about the effect sequences *generated from today's source* of Config.save / Config.dumps.
-/
namespace Cinco.C19
open Cinco.Effects Cinco.Generated

theorem step_harmless_dest (c : Bytes) (s : St) (e : Eff) (h : harmless e = true) : (step c s e).dest = s.dest := by
  cases e <;> simp [harmless] at h <;> simp [step]
  all_goals (repeat' split) <;> rfl

/-- **General ordering lemma**: a fault at or before the first effect that can touch the destination leaves it untouched,
    for every program. -/
theorem fault_before_unsafe (c : Bytes) (f : Nat) :
    ∀ (prog : List Eff) (i : Nat) (s : St), i ≤ f → f - i ≤ firstUnsafe prog → (exec c (some f) i s prog).dest = s.dest
  | [], _, _, _, _ => rfl
  | e :: rest, i, s, hi, hf => by
    unfold exec
    by_cases hfi : f = i
    · simp [hfi]
    · have hne : ¬ (some f = some i) := by simpa using hfi
      rw [if_neg hne]
      have hlt : i < f := by omega
      by_cases hh : harmless e = true
      · have hfu : firstUnsafe (e :: rest) = firstUnsafe rest + 1 := by simp [firstUnsafe, List.takeWhile, hh]
        rw [fault_before_unsafe c f rest (i + 1) _ (by omega) (by omega), step_harmless_dest c s e hh]
      · have hfu : firstUnsafe (e :: rest) = 0 := by
          have : harmless e = false := by simpa using hh
          simp [firstUnsafe, List.takeWhile, this]
        omega

/-- **Generated obligation**: in today's `Config.save`, serialisation (`self.dumps`) happens, and happens strictly before
    the first effect that can touch the destination file; nothing in `save` is untranslatable. -/
theorem save_order :
    saveProg.any (isCall "self.dumps") = true ∧
    (List.range saveProg.length).all (fun i => !(saveProg.getD i .read |> isCall "self.dumps") || i < firstUnsafe saveProg) = true ∧
    saveProg.all (fun e => match e with | .unknown _ => false | _ => true) = true := by decide

/-- **A failed save never touches the destination**: whatever fails at or before the point where `save` opens the file
    (every serialisation failure is such a point, by `save_order`), the destination is byte-for-byte untouched. -/
theorem save_fail_untouched (c : Bytes) (f : Nat) (hf : f ≤ firstUnsafe saveProg) :
    (exec c (some f) 0 {} saveProg).dest = .untouched :=
  fault_before_unsafe c f saveProg 0 {} (Nat.zero_le _) (by omega)

/-- **A successful save writes exactly the bytes serialisation produced** and closes the file. -/
theorem save_ok_bytes (c : Bytes) :
    exec c none 0 {} saveProg = { dest := .written c, opened := false, contentVar := some "content", raised := false } := by
  simp [saveProg, exec, step]

/-- **Generated obligation**: `Config.dumps` (the whole serialisation: format lookup, `to_tree`, the formatter) performs no
    file effect on its own — every failure listed by the property is a fault inside `call self.dumps`. -/
theorem dumps_fault_points : dumpsProg.all harmless = true := by decide

/-- Non-vacuity / discrimination: the reordered program "open, then serialise" is *not* safe — a serialisation fault truncates. -/
example : (exec [1] (some 2) 0 {} [.call "filename" "os.path.expanduser", .openW "filename", .call "content" "self.dumps",
      .write "content", .close]).dest = .truncated := by decide

end Cinco.C19
