import Cinco.Proofs.Stub
import Cinco.Generated.StubEffects
/-
  C20 — generated type stubs declare every field and method.
  Theorems are about the declaration tree `generate` and the text `Stub.lines`; that the text is accepted
  by Python's grammar is decided per sample by CPython's own parser in the correspondence check
  (harness/props/c20.py), which also compares the parsed tree with the model's.
-/
namespace Cinco.C20
open Cinco Cinco.Stub

def isMeth : SF → Bool
  | .meth _ => true
  | _ => false
def isAttr : SF → Bool
  | .attr _ => true
  | _ => false
def tyOf : SF → Option Ty
  | .attr t => some t
  | .virt t => some t
  | .meth _ => none

/-- **Every field that is not a method is an annotated attribute**, in schema order (virtual ones included). -/
theorem attrs_complete (cls : String) (fs : Fields) :
    (generate cls fs).attrs.map Prod.fst = (fs.filter (fun f => !isMeth f.2)).map Prod.fst := by
  show (attrsOf fs).map Prod.fst = _
  induction fs with
  | nil => rfl
  | cons f r ih =>
    obtain ⟨k, sf⟩ := f
    cases sf <;> simp [attrsOf, isMeth, ih]

/-- each declared attribute carries the type string of its field -/
theorem attr_type (cls : String) (fs : Fields) (k : String) (sf : SF) (t : Ty)
    (hm : (k, sf) ∈ fs) (ht : tyOf sf = some t) : (k, typestr t) ∈ (generate cls fs).attrs := by
  show (k, typestr t) ∈ attrsOf fs
  induction fs with
  | nil => cases hm
  | cons f r ih =>
    obtain ⟨k', sf'⟩ := f
    rcases List.mem_cons.1 hm with h | h
    · cases h
      cases sf <;> simp_all [attrsOf, tyOf]
    · cases sf' <;> simp [attrsOf, ih h]

/-- **The constructor takes exactly the persistent fields**, in schema order. -/
theorem init_exact (cls : String) (fs : Fields) :
    (generate cls fs).init.map Prod.fst = (fs.filter (fun f => isAttr f.2)).map Prod.fst := by
  show (initOf fs).map Prod.fst = _
  induction fs with
  | nil => rfl
  | cons f r ih =>
    obtain ⟨k, sf⟩ := f
    cases sf <;> simp [initOf, isAttr, ih]

/-- a name is a constructor parameter iff it is a persistent field (field names are unique in a schema) -/
theorem init_iff (cls : String) (fs : Fields) (k : String) :
    k ∈ (generate cls fs).init.map Prod.fst ↔ ∃ t, (k, SF.attr t) ∈ fs := by
  rw [init_exact]
  simp only [List.mem_map, List.mem_filter]
  constructor
  · rintro ⟨⟨k', sf⟩, ⟨hm, ha⟩, rfl⟩
    cases sf <;> simp [isAttr] at ha
    exact ⟨_, hm⟩
  · rintro ⟨t, hm⟩
    exact ⟨(k, .attr t), ⟨hm, rfl⟩, rfl⟩

/-- constructor parameters are a sub-list of the attributes with the same annotations -/
theorem init_sublist (cls : String) (fs : Fields) :
    List.Sublist (generate cls fs).init (generate cls fs).attrs := by
  show List.Sublist (initOf fs) (attrsOf fs)
  induction fs with
  | nil => exact .slnil
  | cons f r ih =>
    obtain ⟨k, sf⟩ := f
    cases sf with
    | attr t => exact .cons₂ _ ih
    | virt t => exact .cons _ ih
    | meth m => exact ih

/-- **One method per instance-method field**, in schema order. -/
theorem methods_exact (cls : String) (fs : Fields) :
    (generate cls fs).methods.map MethodDecl.name = (fs.filter (fun f => isMeth f.2)).map Prod.fst := by
  show (methodsOf fs).map MethodDecl.name = _
  induction fs with
  | nil => rfl
  | cons f r ih =>
    obtain ⟨k, sf⟩ := f
    cases sf <;> simp [methodsOf, isMeth, ih]

theorem method_decl (cls : String) (fs : Fields) (k : String) (m : Method) (hm : (k, SF.meth m) ∈ fs) :
    (⟨k, items m, retStr m⟩ : MethodDecl) ∈ (generate cls fs).methods := by
  show _ ∈ methodsOf fs
  induction fs with
  | nil => cases hm
  | cons f r ih =>
    obtain ⟨k', sf'⟩ := f
    rcases List.mem_cons.1 hm with h | h
    · cases h; simp [methodsOf]
    · cases sf' <;> simp [methodsOf, ih h]

/-! ### Parameter names and kinds -/

/-- **The method's parameter list declares the same names and kinds as the bound function**, with the
    configuration parameter called `self` — for every signature shape (positional-only, positional,
    `*args`, keyword-only, `**kwargs`, annotated or not). -/
theorem method_kinds (m : Method) (hne : m.posonly ++ m.pos ≠ []) :
    readKinds (items m) = renameFirst (declared m) := by
  unfold items readKinds baseItems declared
  cases hpo : m.posonly with
  | nil =>
    cases hp : m.pos with
    | nil => simp [hpo, hp] at hne
    | cons p ps =>
      simp only [List.nil_append, List.map_cons, List.cons_append, setFirstSelf, List.length_nil,
        insertSlash, if_true, hasSlash, List.map_nil, renameFirst, List.append_assoc]
      rw [hasSlash_map_argItem, hasSlash_tail]
      simp only [readFrom, Bool.false_eq_true, if_false]
      rw [readFrom_map_argItem, readFrom_tail]
      simp only [List.append_assoc, List.cons_append, List.cons.injEq, true_and]
      cases m.varargs <;> cases m.varkw <;> rfl
  | cons p ps =>
    have hlen : (p :: ps).length = ps.length + 1 := rfl
    simp only [List.cons_append, List.map_cons, setFirstSelf, hlen, insertSlash, Nat.add_eq_zero_iff,
      Nat.succ_ne_zero, and_false, if_false, List.take_succ_cons, List.drop_succ_cons, renameFirst,
      List.map_append, List.append_assoc]
    have htake : List.take ps.length (ps.map argItem ++ (m.pos.map argItem ++ (starPart m ++ kwPart m))) =
        ps.map argItem := by
      exact List.take_left' (by simp)
    have hdrop : List.drop ps.length (ps.map argItem ++ (m.pos.map argItem ++ (starPart m ++ kwPart m))) =
        m.pos.map argItem ++ (starPart m ++ kwPart m) := by
      exact List.drop_left' (by simp)
    rw [htake, hdrop]
    have hs : hasSlash (Item.plain "self" none :: (ps.map argItem ++
        Item.slash :: (m.pos.map argItem ++ (starPart m ++ kwPart m)))) = true := by
      simp only [hasSlash]
      rw [hasSlash_map_argItem]
      rfl
    rw [hs]
    simp only [readFrom, if_true]
    rw [readFrom_map_argItem]
    simp only [readFrom, if_true]
    rw [readFrom_map_argItem, readFrom_tail]
    simp only [List.append_assoc, List.cons_append, List.cons.injEq, true_and, List.append_cancel_left_eq]
    cases m.varargs <;> cases m.varkw <;> rfl

/-! ### Shape of the text -/

/-- **One class.**  The first line is the class header; every other line is empty or indented, so it
    belongs to that class body. -/
theorem one_class (cls : String) (fs : Fields) :
    ∃ body, (generate cls fs).lines = ("class " ++ cls ++ "(cincoconfig.core.ConfigType):") :: body ∧
      ∀ l ∈ body, l = "" ∨ ∃ r, l = indent r := by
  refine ⟨(attrsOf fs).map (fun p => indent (annot p)) ++ [""] ++
      [indent ("def __init__(" ++ ", ".intercalate ("self" :: (initOf fs).map annot) ++ "): ...")] ++
      (if (methodsOf fs).isEmpty then [] else [""]) ++ (methodsOf fs).map MethodDecl.line, ?_, ?_⟩
  · simp [Stub.lines, generate]
  intro l hl
  simp only [List.mem_append, List.mem_map, List.mem_singleton] at hl
  rcases hl with (((⟨p, _, rfl⟩ | h) | h) | h) | h
  · exact .inr ⟨_, rfl⟩
  · exact .inl h
  · subst h; exact .inr ⟨_, rfl⟩
  · split at h
    · cases h
    · exact .inl (List.mem_singleton.1 h)
  · obtain ⟨d, _, rfl⟩ := h
    exact .inr ⟨_, rfl⟩

/-- the number of lines: header, one per attribute, blank, constructor, and (if any) blank plus one per method -/
theorem line_count (cls : String) (fs : Fields) :
    (generate cls fs).lines.length =
      3 + (attrsOf fs).length + (if (methodsOf fs).isEmpty then 0 else 1) + (methodsOf fs).length := by
  simp only [Stub.lines, generate, List.length_append, List.length_map, List.length_cons, List.length_nil]
  by_cases h : (methodsOf fs).isEmpty = true <;> simp [h] <;> omega

/-! ### No side effect -/

/-- **Generating a stub has no observable side effect**: the effects the translator finds in the current
    `stubs.py` (writes to standard output, writes to the schema or configuration) are exactly the model's — none. -/
theorem no_side_effect (cls : String) (fs : Fields) :
    (generateStub cls fs).2 = [] ∧ Generated.stubEffects = (generateStub cls fs).2 := by
  refine ⟨rfl, ?_⟩
  show Generated.stubEffects = []
  decide

/-- the model's text is the rendering of the declaration tree the theorems above speak about -/
theorem text_is_rendering (cls : String) (fs : Fields) :
    (generateStub cls fs).1 = (generate cls fs).lines := rfl

/-! ### Non-vacuity -/

def exM : Method :=
  { posonly := [⟨"cfg", none⟩, ⟨"a", some (.builtin "int")⟩], pos := [⟨"b", none⟩], varargs := some "rest",
    kwonly := [⟨"k", some (.generic "typing.List" [.builtin "str"])⟩], varkw := some "kw",
    ret := some (some .noneT) }

example : exM.posonly ++ exM.pos ≠ [] ∧
    readKinds (items exM) =
      [("self", .posOnly), ("a", .posOnly), ("b", .pos), ("rest", .varArgs), ("k", .kwOnly), ("kw", .varKw)] ∧
    methodLine "go" exM =
      "def go(self, a: int, /, b: typing.Any, *rest, k: typing.List[str], **kw) -> None: ..." := by
  refine ⟨by decide, by decide, by decide⟩

example :
    (generate "T" [("x", .attr (.builtin "int")), ("v", .virt (.text "")), ("go", .meth exM),
      ("sub", .attr (.named "cincoconfig.core" "Schema"))]).lines =
    ["class T(cincoconfig.core.ConfigType):", "    x: int", "    v: typing.Any",
     "    sub: cincoconfig.core.Schema", "",
     "    def __init__(self, x: int, sub: cincoconfig.core.Schema): ...", "",
     "    def go(self, a: int, /, b: typing.Any, *rest, k: typing.List[str], **kw) -> None: ..."] := by
  decide

end Cinco.C20
