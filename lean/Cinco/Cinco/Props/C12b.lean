import Cinco.Props.C12
import Cinco.Proofs.Defined
import Cinco.Generated.SupportShape
/-
  C12b — the two statements of C12 that are not per-step:
  (1) a freshly built configuration *as a whole*: every declared storing field is present, holds what its own
      `__setdefault__` computes (the declared default for plain leaves) and is reported as not user-defined, at every depth
      (`build_all_default`, `AllDefault`, `build_all_default_deep`);
  (2) whole histories: over every finite sequence of assignments (accepted and rejected), tree loads and resets on the
      leaf keys of one configuration, the user-defined status of every key is what an abstract set machine computes
      (`step_refines`, `run_refines`, `defined_refines`), with the corollaries `rejected_ops_invisible`,
      `reset_after_anything`, `fresh_then_history`.
-/
namespace Cinco.C12b
open Cinco Cinco.Field Cinco.Config Cinco.Config.Defined

theorem stores_eq (f : SField) : C12.stores f = storesD f := by cases f <;> rfl

theorem defined_setUser (c : Cfg) (k k' : String) (sl : Slot) :
    C12.defined (c.setUser k sl) k' = (k' == k || C12.defined c k') := by
  simp only [C12.defined, defaults_contains_setUser]
  by_cases hk : k' = k
  · simp [hk]
  · have h1 : (k' == k) = false := by simpa using hk
    simp [bne, h1]

theorem defined_setDefault (c : Cfg) (k k' : String) (sl : Slot) :
    C12.defined (c.setDefault k sl) k' = (k' != k && C12.defined c k') := by
  simp only [C12.defined, defaults_contains_setDefault]
  by_cases hk : k' = k
  · simp [hk]
  · have h1 : (k' == k) = false := by simpa using hk
    simp [bne, h1]

/-! ## 1. A freshly built configuration -/

/-- **`Config(schema)`: which keys are reported as not user-defined** — exactly the keys of the storing fields
    (no hypothesis on the schema: duplicate keys included). -/
theorem build_defined_exact (W : World) (path : String) (linked : Bool) (keyfile : Option String) (s : Schema) (n : Nat)
    (c : Cfg) (n' : Nat) (h : build W path linked keyfile s n = .ok (c, n')) (k : String) :
    C12.defined c k = !storesKey k s.fields := by
  rw [build_eq] at h
  have := buildFields_marks W path s.fields _ _ _ _ h k
  simp only [C12.defined]
  rw [this]
  simp [Cfg.defaults]

/-- **A freshly built configuration exposes every field and reports it as not user-defined; a plain leaf without an
    environment binding holds its declared default.**

    The first two conclusions hold for every schema.  The value needs the keys of this level to be distinct
    (`nodupKeys s.fields`, decidable; `Schema.get` reads the *first* declaration of a key while `build` runs every
    `__setdefault__` in order, so with a duplicate key the slot holds the *last* default — see `dup_value_differs` below).
    Side conditions of the value as in `C12.setDefault_plain_value`. -/
theorem build_all_default (W : World) (path : String) (linked : Bool) (keyfile : Option String) (s : Schema) (n : Nat)
    (c : Cfg) (n' : Nat) (h : build W path linked keyfile s n = .ok (c, n'))
    (k : String) (f : SField) (hf : s.get k = some f) (hstore : C12.stores f = true) :
    C12.defined c k = false ∧ (c.get k).isSome = true ∧
    (nodupKeys s.fields = true → ∀ fs m, f = .leaf fs m →
      (match fs.kind with | .list _ => False | .dict _ _ => False | .challenge _ => False | _ => True) →
      m.env = none → c.get k = some (.val m.default.value)) := by
  rw [stores_eq] at hstore
  have hsk : storesKey k s.fields = true := storesKey_of_lookup hf hstore
  refine ⟨by rw [build_defined_exact W path linked keyfile s n c n' h, hsk]; rfl, ?_, ?_⟩
  · rw [build_eq] at h
    exact ((buildFields_isSome W path s.fields _ _ _ _ h k).2 hsk)
  · intro hnd fs m hfe hk henv
    subst hfe
    rw [build_eq] at h
    obtain ⟨c1, n1, c2, n2, hsd, hget⟩ := (buildFields_get W path s.fields _ _ _ _ hnd h).2 k _ hf
    rw [hget]
    exact C12.setDefault_plain_value W path k fs m c1 c2 n1 n2 hk henv hsd

/-- what a fresh configuration holds for one declared field: the value its `__setdefault__` computes for a leaf
    (`leafDefault`: the declared default unless the environment or the field class says otherwise), a fresh
    sub-configuration satisfying `P` for a nested schema / configuration type, an empty list (or unset) for a list of
    configurations — such lists start empty, so there is nothing below them to describe -/
def SlotDefault (W : World) (path k : String) (P : String → Schema → Cfg → Prop) : SField → Option Slot → Prop
  | .leaf fs m, sl => ∃ v, leafDefault W path k fs m = .ok v ∧ sl = some (.val v)
  | .sub s', sl => ∃ sub, sl = some (.node sub) ∧ P (joinPath path k) s' sub
  | .ctype s' _, sl => ∃ sub, sl = some (.node sub) ∧ P (joinPath path k) s' sub
  | .cfgList _ _ _ m, sl => (m.default.value = .list [] ∧ sl = some (.nodes [])) ∨ (m.default.value = .none ∧ sl = some (.val .none))
  | .virtual _ _, _ => True
  | .method, _ => True

/-- the configuration at `path`, and every sub-configuration below it to depth `d`, is in its freshly built state: every
    storing key is marked not user-defined and holds its default slot (the recursion follows `build`: `.sub` / `.ctype`) -/
def AllDefault (W : World) : Nat → String → Schema → Cfg → Prop
  | 0, _, _, _ => True
  | d + 1, path, s, c => ∀ k f, s.get k = some f → C12.stores f = true →
      C12.defined c k = false ∧ SlotDefault W path k (AllDefault W d) f (c.get k)

theorem keysNodup_fields {s : Schema} (h : s.keysNodup = true) : nodupKeys s.fields = true := by
  cases s with
  | mk fields dyn vs =>
    simp only [Schema.keysNodup, Schema.every, Bool.and_eq_true] at h
    exact h.1

theorem keysNodup_sub {s : Schema} {k : String} {f : SField} (h : s.keysNodup = true) (hf : s.get k = some f) :
    f.every nodupKeys = true := by
  cases s with
  | mk fields dyn vs =>
    simp only [Schema.keysNodup, Schema.every, Bool.and_eq_true] at h
    exact everyFields_lookup h.2 hf

/-- **Freshly built, at every depth**: for a schema whose keys are distinct at every level (`Schema.keysNodup`, the
    decidable hypothesis of `inv_build`; satisfiable: `demoSchema_nodup` below), `Config(schema)` is `AllDefault` to every
    depth `d`.  Lists of configurations start empty (or unset), so that case has no sub-configuration to recurse into. -/
theorem build_all_default_deep (W : World) : ∀ (d : Nat) (path : String) (linked : Bool) (keyfile : Option String)
    (s : Schema) (n : Nat) (c : Cfg) (n' : Nat),
    s.keysNodup = true → build W path linked keyfile s n = .ok (c, n') → AllDefault W d path s c
  | 0, _, _, _, _, _, _, _, _, _ => trivial
  | d + 1, path, linked, keyfile, s, n, c, n', hnd, h => by
    intro k f hf hstore
    refine ⟨(build_all_default W path linked keyfile s n c n' h k f hf hstore).1, ?_⟩
    have h' := h
    rw [build_eq] at h'
    obtain ⟨c1, n1, c2, n2, hsd, hget⟩ := (buildFields_get W path s.fields _ _ _ _ (keysNodup_fields hnd) h').2 k _ hf
    have hsh := setDefault_shape hsd
    have hsub := keysNodup_sub hnd hf
    rw [hget]
    cases f with
    | leaf fs m =>
      obtain ⟨v, hv, hc2, _⟩ := hsh
      exact ⟨v, hv, by rw [hc2, Cfg.get_setDefault_same]⟩
    | sub s' =>
      obtain ⟨sub, hb, hc2⟩ := hsh
      exact ⟨sub, by rw [hc2, Cfg.get_setDefault_same], build_all_default_deep W d _ _ _ s' n1 sub n2 hsub hb⟩
    | ctype s' kf =>
      obtain ⟨sub, hb, hc2⟩ := hsh
      exact ⟨sub, by rw [hc2, Cfg.get_setDefault_same], build_all_default_deep W d _ _ _ s' n1 sub n2 hsub hb⟩
    | cfgList s' it req m =>
      obtain ⟨_, ⟨hd, hc2⟩ | ⟨hd, hc2⟩⟩ := hsh
      · exact Or.inl ⟨hd, by rw [hc2, Cfg.get_setDefault_same]⟩
      · exact Or.inr ⟨hd, by rw [hc2, Cfg.get_setDefault_same]⟩
    | virtual cst hs => trivial
    | method => trivial

/-- reading `AllDefault` at a plain leaf: the declared default (an unset or empty environment variable is enough) -/
theorem allDefault_plain_value {W : World} {d : Nat} {path : String} {s : Schema} {c : Cfg} (h : AllDefault W (d + 1) path s c)
    {k : String} {fs : FieldSpec} {m : LeafMeta} (hf : s.get k = some (.leaf fs m))
    (hk : match fs.kind with | .list _ => False | .dict _ _ => False | .challenge _ => False | _ => True)
    (henv : envValue W m = none) : C12.defined c k = false ∧ c.get k = some (.val m.default.value) := by
  obtain ⟨h1, v, hv, hg⟩ := h k _ hf rfl
  rw [leafDefault_plain W path k fs m hk henv] at hv
  cases hv
  exact ⟨h1, hg⟩

/-! ## 2. Whole histories on the leaf keys of one configuration -/

/-- the operations of the property on the keys of one configuration (the root): assignment of a plain value, a tree load,
    a reset.  Argument types as the model takes them: `setValue … k (.val v)`, `loadTree … tree validate`,
    `resetValue … k.toList`. -/
inductive KeyOp where
  | assign (k : String) (v : Val)
  | load (tree : List (Val × Val)) (validate : Bool)
  | reset (k : String)

def KeyOp.isAssign : KeyOp → Bool
  | .assign _ _ => true
  | .load _ _ => false
  | .reset _ => false

/-- one operation at the root (path `""`): the state at return or at the raise, and whether it raised -/
def applyOp (W : World) (fuel : Nat) (s : Schema) (cn : Cfg × Nat) : KeyOp → (Cfg × Nat) × Bool
  | .assign k v => let o := setValue W fuel s "" cn.1 k (.val v) cn.2; ((o.cfg, o.next), o.err.isSome)
  | .load tree dv => let o := loadTree W fuel s "" cn.1 tree dv cn.2; ((o.cfg, o.next), o.err.isSome)
  | .reset k => let o := resetValue W fuel s cn.1 k.toList cn.2; ((o.cfg, o.next), o.err.isSome)

/-- a history: every operation runs on the state the previous one left, raised or not -/
def runOps (W : World) (fuel : Nat) (s : Schema) (cn : Cfg × Nat) (ops : List KeyOp) : Cfg × Nat :=
  ops.foldl (fun cn op => (applyOp W fuel s cn op).1) cn

/-- which operations of the history raised -/
def raisedFlags (W : World) (fuel : Nat) (s : Schema) : Cfg × Nat → List KeyOp → List Bool
  | _, [] => []
  | cn, op :: rest => (applyOp W fuel s cn op).2 :: raisedFlags W fuel s (applyOp W fuel s cn op).1 rest

/-! ### The abstract machine: a set of user-defined keys -/

/-- the set of user-defined keys -/
abbrev DSet := String → Bool
def DSet.insert (D : DSet) (k : String) : DSet := fun k' => k' == k || D k'
def DSet.erase (D : DSet) (k : String) : DSet := fun k' => k' != k && D k'
def DSet.insertAll (D : DSet) (ks : List String) : DSet := fun k' => ks.contains k' || D k'

/-- the declaration, if it is a leaf field -/
def leafOf : Option SField → Option (FieldSpec × LeafMeta)
  | some (.leaf fs m) => some (fs, m)
  | some (.sub _) => none
  | some (.ctype _ _) => none
  | some (.cfgList _ _ _ _) => none
  | some (.virtual _ _) => none
  | some .method => none
  | none => none

def isLeafKey (s : Schema) (k : String) : Bool := (leafOf (s.get k)).isSome

theorem leafOf_some {o : Option SField} {fs : FieldSpec} {m : LeafMeta} (h : leafOf o = some (fs, m)) : o = some (.leaf fs m) := by
  cases o with
  | none => cases h
  | some f => cases f <;> cases h <;> rfl

theorem isLeafKey_get {s : Schema} {k : String} (h : isLeafKey s k = true) : ∃ fs m, s.get k = some (.leaf fs m) := by
  unfold isLeafKey at h
  cases hl : leafOf (s.get k) with
  | none => simp [hl] at h
  | some p => exact ⟨p.1, p.2, leafOf_some hl⟩

/-- an assignment to a declared leaf is accepted exactly when the field's validation returns -/
def assignAccepts (W : World) (s : Schema) (k : String) (v : Val) : Bool :=
  match leafOf (s.get k) with
  | some (fs, _) => okB (validate W.fe.toEnv fs v)
  | none => false

/-- a reset of a declared leaf is accepted exactly when its `__setdefault__` returns (a set environment variable or a
    container default is validated there and may be rejected) -/
def resetAccepts (W : World) (s : Schema) (k : String) : Bool :=
  match leafOf (s.get k) with
  | some (fs, m) => okB (leafDefault W "" k fs m)
  | none => false

/-- what `load_tree` does with one entry whose key is a declared leaf: skip it (the leaf is bound to a set environment
    variable), assign it (decoded by `to_python`, accepted by `validate`), or raise -/
inductive EntryEffect where
  | skip
  | assign (k : String)
  | stop
  deriving DecidableEq

def entryEffect (W : World) (s : Schema) (key value : Val) : EntryEffect :=
  match key with
  | .str ks =>
    (match leafOf (s.get (String.ofList ks)) with
     | some (fs, m) =>
       if (envValue W m).isSome then .skip
       else (match toPython W.fe fs value with
         | .ok v => if okB (validate W.fe.toEnv fs v) then .assign (String.ofList ks) else .stop
         | .error _ => .stop)
     | none => .stop)
  | _ => .stop

/-- the keys a load assigns, in order: everything up to the first entry that raises -/
def loadAssigned (W : World) (s : Schema) : List (Val × Val) → List String
  | [] => []
  | (key, value) :: rest =>
    match entryEffect W s key value with
    | .skip => loadAssigned W s rest
    | .assign k => k :: loadAssigned W s rest
    | .stop => []

/-- does some entry raise? -/
def loadStops (W : World) (s : Schema) : List (Val × Val) → Bool
  | [] => false
  | (key, value) :: rest =>
    match entryEffect W s key value with
    | .skip => loadStops W s rest
    | .assign _ => loadStops W s rest
    | .stop => true

/-- **The specification**: an accepted assignment inserts its key, a rejected one changes nothing; an accepted reset erases
    its key, a rejected one changes nothing; a load inserts the keys it assigns (up to the first entry that raises; keys
    bound to a set environment variable are skipped).  A function of the world and the schema only — no configuration. -/
def specStep (W : World) (s : Schema) (D : DSet) : KeyOp → DSet
  | .assign k v => if assignAccepts W s k v then D.insert k else D
  | .load tree _ => D.insertAll (loadAssigned W s tree)
  | .reset k => if resetAccepts W s k then D.erase k else D

def specRun (W : World) (s : Schema) (D : DSet) (ops : List KeyOp) : DSet := ops.foldl (specStep W s) D

/-- the keys in play are declared leaves of the schema (and a reset key is a key of this configuration, not a dotted path) -/
def OpOk (s : Schema) : KeyOp → Prop
  | .assign k _ => isLeafKey s k = true
  | .load tree _ => ∀ ks value, (Val.str ks, value) ∈ tree → isLeafKey s (String.ofList ks) = true
  | .reset k => isLeafKey s k = true ∧ '.' ∉ k.toList

/-! ### The three operations against the specification -/

theorem entryEffect_nonstr (W : World) (s : Schema) (key value : Val) (h : ∀ ks, key ≠ .str ks) :
    entryEffect W s key value = .stop := by
  unfold entryEffect
  cases key <;> first | rfl | exact absurd rfl (h _)

theorem entryEffect_leaf (W : World) (s : Schema) (ks : List Char) (value : Val) {fs : FieldSpec} {m : LeafMeta}
    (hf : s.get (String.ofList ks) = some (.leaf fs m)) :
    entryEffect W s (.str ks) value =
      (if (envValue W m).isSome then .skip
       else (match toPython W.fe fs value with
         | .ok v => if okB (validate W.fe.toEnv fs v) then .assign (String.ofList ks) else .stop
         | .error _ => .stop)) := by
  simp only [entryEffect, hf, leafOf]

/-- what a run of `loadTree` over declared leaf keys (result `o`) did -/
structure LoadSpec (W : World) (fuel : Nat) (s : Schema) (c : Cfg) (tree : List (Val × Val)) (dv : Bool) (n : Nat) (o : Out) : Prop where
  defined : ∀ k, C12.defined o.cfg k = ((loadAssigned W s tree).contains k || C12.defined c k)
  frame : ∀ k, k ∉ loadAssigned W s tree → o.cfg.get k = c.get k
  holds : ∀ k, k ∈ loadAssigned W s tree → ∃ v, o.cfg.get k = some (.val v)
  next : o.next = n
  raised : loadStops W s tree = true → o.err.isSome = true
  complete : loadStops W s tree = false → o.err = if dv then validateCfg W (fuel + 2) s "" o.cfg else none

theorem LoadSpec.stopped {W : World} {fuel : Nat} {s : Schema} {c : Cfg} {tree : List (Val × Val)} {dv : Bool} {n : Nat} (e : CErr)
    (ha : loadAssigned W s tree = []) (hs : loadStops W s tree = true) :
    LoadSpec W fuel s c tree dv n { cfg := c, err := some e, next := n } :=
  ⟨fun k => by rw [ha]; simp, fun k _ => rfl, fun k hk => by rw [ha] at hk; simp at hk, rfl, fun _ => rfl,
   fun h => by rw [hs] at h; cases h⟩

theorem loadTree_spec (W : World) (fuel : Nat) (s : Schema) (dv : Bool) :
    ∀ (tree : List (Val × Val)) (c : Cfg) (n : Nat), OpOk s (.load tree dv) →
      LoadSpec W fuel s c tree dv n (loadTree W (fuel + 1) s "" c tree dv n)
  | [], c, n, _ => by
    have hnil : loadTree W (fuel + 1) s "" c [] dv n =
        (if dv then { cfg := c, err := validateCfg W (fuel + 2) s "" c, next := n } else { cfg := c, next := n }) := by
      unfold loadTree; rfl
    rw [hnil]
    constructor
    · intro k; cases dv <;> simp [loadAssigned]
    · intro k _; cases dv <;> rfl
    · intro k hk; simp [loadAssigned] at hk
    · cases dv <;> rfl
    · intro h; simp [loadStops] at h
    · intro _; cases dv <;> rfl
  | (key, value) :: rest, c, n, hok => by
    have hrest : OpOk s (.load rest dv) := fun ks v hm => hok ks v (List.mem_cons_of_mem _ hm)
    by_cases hstr : ∃ ks, key = .str ks
    · obtain ⟨ks, rfl⟩ := hstr
      obtain ⟨fs, m, hf⟩ := isLeafKey_get (hok ks value (List.mem_cons_self ..))
      have heff := entryEffect_leaf W s ks value hf
      have heq := loadTree_cons_leaf W fuel s "" c ks value rest dv n hf
      by_cases henv : (envValue W m).isSome = true
      · -- skipped
        simp only [henv, if_true] at heff heq
        have ih := loadTree_spec W fuel s dv rest c n hrest
        have ha : loadAssigned W s ((.str ks, value) :: rest) = loadAssigned W s rest := by simp only [loadAssigned, heff]
        have hs : loadStops W s ((.str ks, value) :: rest) = loadStops W s rest := by simp only [loadStops, heff]
        rw [heq]
        exact ⟨by rw [ha]; exact ih.defined, by rw [ha]; exact ih.frame, by rw [ha]; exact ih.holds, ih.next,
          by rw [hs]; exact ih.raised, by rw [hs]; exact ih.complete⟩
      · simp only [henv, Bool.false_eq_true, if_false] at heff heq
        cases hp : toPython W.fe fs value with
        | error e =>
          simp only [hp] at heff heq
          have ha : loadAssigned W s ((.str ks, value) :: rest) = [] := by simp only [loadAssigned, heff]
          have hs : loadStops W s ((.str ks, value) :: rest) = true := by simp only [loadStops, heff]
          rw [heq]
          exact LoadSpec.stopped _ ha hs
        | ok v =>
          simp only [hp] at heff heq
          cases hv : validate W.fe.toEnv fs v with
          | error e =>
            simp only [hv, okB, Bool.false_eq_true, if_false] at heff heq
            have ha : loadAssigned W s ((.str ks, value) :: rest) = [] := by simp only [loadAssigned, heff]
            have hs : loadStops W s ((.str ks, value) :: rest) = true := by simp only [loadStops, heff]
            rw [heq]
            exact LoadSpec.stopped _ ha hs
          | ok v' =>
            simp only [hv, okB, if_true] at heff heq
            have ih := loadTree_spec W fuel s dv rest (c.setUser (String.ofList ks) (.val v')) n hrest
            have ha : loadAssigned W s ((.str ks, value) :: rest) = String.ofList ks :: loadAssigned W s rest := by
              simp only [loadAssigned, heff]
            have hs : loadStops W s ((.str ks, value) :: rest) = loadStops W s rest := by simp only [loadStops, heff]
            rw [heq]
            refine ⟨fun k => ?_, fun k hk => ?_, fun k hk => ?_, ih.next, by rw [hs]; exact ih.raised, by rw [hs]; exact ih.complete⟩
            · rw [ha, ih.defined k, defined_setUser]
              by_cases hkk : k = String.ofList ks
              · subst hkk; simp
              · have h1 : (k == String.ofList ks) = false := by simpa using hkk
                simp [hkk, h1]
            · rw [ha] at hk
              simp only [List.mem_cons, not_or] at hk
              rw [ih.frame k hk.2, Cfg.get_setUser_other _ hk.1]
            · by_cases hin : k ∈ loadAssigned W s rest
              · exact ih.holds k hin
              · rw [ha] at hk
                simp only [List.mem_cons] at hk
                rcases hk with hk | hk
                · subst hk
                  exact ⟨v', by rw [ih.frame _ hin, Cfg.get_setUser_same]⟩
                · exact absurd hk hin
    · have hne : ∀ ks, key ≠ .str ks := fun ks e => hstr ⟨ks, e⟩
      have heff := entryEffect_nonstr W s key value hne
      have ha : loadAssigned W s ((key, value) :: rest) = [] := by simp only [loadAssigned, heff]
      have hs : loadStops W s ((key, value) :: rest) = true := by simp only [loadStops, heff]
      rw [loadTree_cons_nonstr W (fuel + 1) s "" c key value rest dv n hne]
      exact LoadSpec.stopped _ ha hs

/-- an assignment to a declared leaf: state, identity counter and raise flag in closed form -/
theorem applyOp_assign (W : World) (fuel : Nat) (s : Schema) (cn : Cfg × Nat) (k : String) (v : Val)
    {fs : FieldSpec} {m : LeafMeta} (hf : s.get k = some (.leaf fs m)) :
    applyOp W (fuel + 1) s cn (.assign k v) =
      (match validate W.fe.toEnv fs v with
       | .ok v' => ((cn.1.setUser k (.val v'), cn.2), false)
       | .error _ => (cn, true)) := by
  simp only [applyOp, setValue_leaf_eq W fuel s "" cn.1 k v cn.2 hf]
  cases validate W.fe.toEnv fs v <;> rfl

theorem applyOp_reset (W : World) (fuel : Nat) (s : Schema) (cn : Cfg × Nat) (k : String)
    {fs : FieldSpec} {m : LeafMeta} (hk : '.' ∉ k.toList) (hf : s.get k = some (.leaf fs m)) :
    applyOp W (fuel + 1) s cn (.reset k) =
      (match leafDefault W "" k fs m with
       | .ok v => ((cn.1.setDefault k (.val v), cn.2), false)
       | .error _ => (cn, true)) := by
  simp only [applyOp, resetValue_leaf_eq W fuel s cn.1 k cn.2 hk hf]
  cases leafDefault W "" k fs m <;> rfl

/-- **The raise flag of an assignment / a reset is the one the specification predicts.** -/
theorem assign_raises_iff (W : World) (fuel : Nat) (s : Schema) (cn : Cfg × Nat) (k : String) (v : Val)
    (hop : OpOk s (.assign k v)) : (applyOp W (fuel + 1) s cn (.assign k v)).2 = !assignAccepts W s k v := by
  obtain ⟨fs, m, hf⟩ := isLeafKey_get hop
  rw [applyOp_assign W fuel s cn k v hf]
  simp only [assignAccepts, hf, leafOf]
  cases validate W.fe.toEnv fs v <;> rfl

theorem reset_raises_iff (W : World) (fuel : Nat) (s : Schema) (cn : Cfg × Nat) (k : String)
    (hop : OpOk s (.reset k)) : (applyOp W (fuel + 1) s cn (.reset k)).2 = !resetAccepts W s k := by
  obtain ⟨fs, m, hf⟩ := isLeafKey_get hop.1
  rw [applyOp_reset W fuel s cn k hop.2 hf]
  simp only [resetAccepts, hf, leafOf]
  cases leafDefault W "" k fs m <;> rfl

/-- a load raises exactly when an entry raises or (all entries done, `validate = true`) the final validation does -/
theorem load_raises_iff (W : World) (fuel : Nat) (s : Schema) (cn : Cfg × Nat) (tree : List (Val × Val)) (dv : Bool)
    (hop : OpOk s (.load tree dv)) :
    (applyOp W (fuel + 1) s cn (.load tree dv)).2 =
      (loadStops W s tree || (dv && (validateCfg W (fuel + 2) s "" (applyOp W (fuel + 1) s cn (.load tree dv)).1.1).isSome)) := by
  have h := loadTree_spec W fuel s dv tree cn.1 cn.2 hop
  simp only [applyOp]
  cases hs : loadStops W s tree with
  | true => simp [h.raised hs]
  | false => rw [h.complete hs]; cases dv <;> simp

/-- **One step refines the specification**, key by key: whatever the operation (accepted or rejected assignment, load that
    returns or raises midway, accepted or rejected reset), the user-defined status of `k` afterwards is the specification's. -/
theorem step_refines (W : World) (fuel : Nat) (s : Schema) (cn : Cfg × Nat) (D : DSet) (op : KeyOp) (hop : OpOk s op)
    (k : String) (h : C12.defined cn.1 k = D k) :
    C12.defined (applyOp W (fuel + 1) s cn op).1.1 k = specStep W s D op k := by
  cases op with
  | assign k0 v =>
    obtain ⟨fs, m, hf⟩ := isLeafKey_get hop
    rw [applyOp_assign W fuel s cn k0 v hf]
    simp only [specStep, assignAccepts, hf, leafOf]
    cases validate W.fe.toEnv fs v with
    | error e => simpa [okB] using h
    | ok v' => simp [okB, defined_setUser, DSet.insert, h]
  | load tree dv =>
    have hl := loadTree_spec W fuel s dv tree cn.1 cn.2 hop
    simp only [applyOp, specStep, DSet.insertAll]
    rw [hl.defined k, h]
  | reset k0 =>
    obtain ⟨fs, m, hf⟩ := isLeafKey_get hop.1
    rw [applyOp_reset W fuel s cn k0 hop.2 hf]
    simp only [specStep, resetAccepts, hf, leafOf]
    cases leafDefault W "" k0 fs m with
    | error e => simpa [okB] using h
    | ok v' => simp [okB, defined_setDefault, DSet.erase, h]

/-- **The fold**: induction over the history, no bound on its length. -/
theorem run_refines (W : World) (fuel : Nat) (s : Schema) (k : String) :
    ∀ (ops : List KeyOp) (cn : Cfg × Nat) (D : DSet), (∀ op ∈ ops, OpOk s op) → C12.defined cn.1 k = D k →
      C12.defined (runOps W (fuel + 1) s cn ops).1 k = specRun W s D ops k
  | [], _, _, _, h => h
  | op :: rest, cn, D, hops, h => by
    simp only [runOps, specRun, List.foldl_cons]
    exact run_refines W fuel s k rest _ _ (fun o ho => hops o (List.mem_cons_of_mem _ ho))
      (step_refines W fuel s cn D op (hops op (List.mem_cons_self ..)) k h)

/-- **The user-defined status over whole histories**: for every schema, every start state whose status is given by `D`,
    and every history of assignments (accepted or rejected), loads (returning or raising) and resets on declared leaf keys,
    the status of *every* key afterwards is what the set machine computes. -/
theorem defined_refines (W : World) (fuel : Nat) (s : Schema) (c : Cfg) (n : Nat) (D : DSet) (ops : List KeyOp)
    (hops : ∀ op ∈ ops, OpOk s op) (h : ∀ k, C12.defined c k = D k) :
    ∀ k, C12.defined (runOps W (fuel + 1) s (c, n) ops).1 k = specRun W s D ops k :=
  fun k => run_refines W fuel s k ops (c, n) D hops (h k)

/-! ### Loads, per key -/

theorem mem_loadAssigned {W : World} {s : Schema} : ∀ {tree : List (Val × Val)} {k : String},
    k ∈ loadAssigned W s tree → ∃ ks value, (Val.str ks, value) ∈ tree ∧ k = String.ofList ks
  | [], k, h => by simp [loadAssigned] at h
  | (key, value) :: rest, k, h => by
    simp only [loadAssigned] at h
    cases he : entryEffect W s key value with
    | skip =>
      simp only [he] at h
      obtain ⟨ks, v, hm, hk⟩ := mem_loadAssigned h
      exact ⟨ks, v, List.mem_cons_of_mem _ hm, hk⟩
    | stop => simp [he] at h
    | assign k0 =>
      simp only [he, List.mem_cons] at h
      rcases h with h | h
      · subst h
        cases key with
        | str ks =>
          refine ⟨ks, value, List.mem_cons_self .., ?_⟩
          unfold entryEffect at he
          simp only at he
          (repeat' split at he) <;> first | (cases he; done) | (simp only [EntryEffect.assign.injEq] at he; exact he.symm)
        | _ => simp [entryEffect] at he
      · obtain ⟨ks, v, hm, hk⟩ := mem_loadAssigned h
        exact ⟨ks, v, List.mem_cons_of_mem _ hm, hk⟩

theorem loadAssigned_complete {W : World} {s : Schema} : ∀ {tree : List (Val × Val)},
    loadStops W s tree = false → ∀ ks value fs m, (Val.str ks, value) ∈ tree →
      s.get (String.ofList ks) = some (.leaf fs m) → (envValue W m).isSome = false → String.ofList ks ∈ loadAssigned W s tree
  | [], _, ks, value, fs, m, hm, _, _ => by simp at hm
  | (key, v0) :: rest, hs, ks, value, fs, m, hm, hf, henv => by
    simp only [loadStops] at hs
    simp only [loadAssigned]
    rcases List.mem_cons.1 hm with he | hm'
    · have hkey : key = .str ks := (Prod.mk.inj he).1.symm
      have hval : value = v0 := (Prod.mk.inj he).2
      subst hkey; subst hval
      have heff := entryEffect_leaf W s ks value hf
      simp only [henv, Bool.false_eq_true, if_false] at heff
      cases hp : toPython W.fe fs value with
      | error e => simp [heff, hp] at hs
      | ok v =>
        simp only [hp] at heff
        cases hv : okB (validate W.fe.toEnv fs v) with
        | false => simp [heff, hv] at hs
        | true => simp [heff, hv]
    · cases he : entryEffect W s key v0 with
      | stop => simp [he] at hs
      | skip => simp only [he] at hs ⊢; exact loadAssigned_complete hs ks value fs m hm' hf henv
      | assign k0 => simp only [he] at hs ⊢; exact List.mem_cons_of_mem _ (loadAssigned_complete hs ks value fs m hm' hf henv)

/-- **A load that returns normally** makes every declared leaf key present in the tree user-defined, unless the leaf is
    bound to a set environment variable (such entries are skipped by `load_tree`), and the key then holds a value. -/
theorem load_ok_defines (W : World) (fuel : Nat) (s : Schema) (cn : Cfg × Nat) (tree : List (Val × Val)) (dv : Bool)
    (hop : OpOk s (.load tree dv)) (hok : (applyOp W (fuel + 1) s cn (.load tree dv)).2 = false)
    (ks : List Char) (value : Val) (fs : FieldSpec) (m : LeafMeta) (hm : (Val.str ks, value) ∈ tree)
    (hf : s.get (String.ofList ks) = some (.leaf fs m)) (henv : envValue W m = none) :
    C12.defined (applyOp W (fuel + 1) s cn (.load tree dv)).1.1 (String.ofList ks) = true ∧
    ∃ v, (applyOp W (fuel + 1) s cn (.load tree dv)).1.1.get (String.ofList ks) = some (.val v) := by
  have hl := loadTree_spec W fuel s dv tree cn.1 cn.2 hop
  have hns : loadStops W s tree = false := by
    rw [load_raises_iff W fuel s cn tree dv hop] at hok
    simp only [Bool.or_eq_false_iff] at hok
    exact hok.1
  have hin := loadAssigned_complete hns ks value fs m hm hf (by simp [henv])
  simp only [applyOp]
  refine ⟨?_, hl.holds _ hin⟩
  rw [hl.defined]
  simp [List.contains_eq_mem, hin]

/-- **A load, returning or raising, changes neither the status nor the value of a key that is not in the tree.** -/
theorem load_frame (W : World) (fuel : Nat) (s : Schema) (cn : Cfg × Nat) (tree : List (Val × Val)) (dv : Bool)
    (hop : OpOk s (.load tree dv)) (k : String) (hk : ∀ ks value, (Val.str ks, value) ∈ tree → String.ofList ks ≠ k) :
    C12.defined (applyOp W (fuel + 1) s cn (.load tree dv)).1.1 k = C12.defined cn.1 k ∧
    (applyOp W (fuel + 1) s cn (.load tree dv)).1.1.get k = cn.1.get k := by
  have hl := loadTree_spec W fuel s dv tree cn.1 cn.2 hop
  have hnin : k ∉ loadAssigned W s tree := by
    intro hin
    obtain ⟨ks, v, hm, hke⟩ := mem_loadAssigned hin
    exact hk ks v hm hke.symm
  simp only [applyOp]
  refine ⟨?_, hl.frame k hnin⟩
  rw [hl.defined]
  simp [List.contains_eq_mem, hnin]

/-- **A load that raises midway**: the state at the raise is the state after the complete prefix that precedes the first
    failing entry — `loadAssigned` (hence, by `step_refines`, the status of every key) is that of the prefix. -/
theorem load_raise_prefix (W : World) (s : Schema) : ∀ (tree : List (Val × Val)), loadStops W s tree = true →
    ∃ pre key value post, tree = pre ++ (key, value) :: post ∧ loadStops W s pre = false ∧
      entryEffect W s key value = .stop ∧ loadAssigned W s tree = loadAssigned W s pre
  | [], h => by simp [loadStops] at h
  | (key, value) :: rest, h => by
    simp only [loadStops] at h
    cases he : entryEffect W s key value with
    | stop => exact ⟨[], key, value, rest, rfl, rfl, he, by simp [loadAssigned, he]⟩
    | skip =>
      simp only [he] at h
      obtain ⟨pre, k1, v1, post, ht, hp, hst, ha⟩ := load_raise_prefix W s rest h
      exact ⟨(key, value) :: pre, k1, v1, post, by rw [ht]; rfl, by simp [loadStops, he, hp], hst, by simp [loadAssigned, he, ha]⟩
    | assign k0 =>
      simp only [he] at h
      obtain ⟨pre, k1, v1, post, ht, hp, hst, ha⟩ := load_raise_prefix W s rest h
      exact ⟨(key, value) :: pre, k1, v1, post, by rw [ht]; rfl, by simp [loadStops, he, hp], hst, by simp [loadAssigned, he, ha]⟩

/-! ### Corollaries -/

/-- drop every assignment the model rejected (rejection as observed on the state the assignment ran on) -/
def dropRejected (W : World) (fuel : Nat) (s : Schema) : Cfg × Nat → List KeyOp → List KeyOp
  | _, [] => []
  | cn, op :: rest =>
    if op.isAssign && (applyOp W fuel s cn op).2 then dropRejected W fuel s (applyOp W fuel s cn op).1 rest
    else op :: dropRejected W fuel s (applyOp W fuel s cn op).1 rest

/-- **Rejected assignments are invisible**: dropping every rejected assignment from a history (loads and resets, rejected or
    not, stay) leaves the final configuration *identical* — hence the user-defined status of every key, every value, the
    default marks of nested configurations and the identity counter.  Only the assigned keys need to be declared leaves. -/
theorem rejected_ops_invisible (W : World) (fuel : Nat) (s : Schema) :
    ∀ (ops : List KeyOp) (cn : Cfg × Nat), (∀ k v, KeyOp.assign k v ∈ ops → isLeafKey s k = true) →
      runOps W (fuel + 1) s cn (dropRejected W (fuel + 1) s cn ops) = runOps W (fuel + 1) s cn ops
  | [], _, _ => rfl
  | op :: rest, cn, hops => by
    have ih := rejected_ops_invisible W fuel s rest (applyOp W (fuel + 1) s cn op).1
      (fun k v hm => hops k v (List.mem_cons_of_mem _ hm))
    simp only [dropRejected]
    by_cases hrej : (op.isAssign && (applyOp W (fuel + 1) s cn op).2) = true
    · simp only [hrej, if_true]
      have hsame : (applyOp W (fuel + 1) s cn op).1 = cn := by
        cases op with
        | load tree dv => simp [KeyOp.isAssign] at hrej
        | reset k => simp [KeyOp.isAssign] at hrej
        | assign k v =>
          obtain ⟨fs, m, hf⟩ := isLeafKey_get (hops k v (List.mem_cons_self ..))
          simp only [KeyOp.isAssign, Bool.true_and] at hrej
          rw [applyOp_assign W fuel s cn k v hf] at hrej ⊢
          cases hv : validate W.fe.toEnv fs v with
          | ok v' => simp [hv] at hrej
          | error e => rfl
      rw [hsame] at ih
      simp only [runOps, List.foldl_cons, hsame] at ih ⊢
      exact ih
    · simp only [hrej, Bool.false_eq_true, if_false]
      simp only [runOps, List.foldl_cons] at ih ⊢
      exact ih

/-- the same, read off key by key -/
theorem rejected_ops_invisible_keys (W : World) (fuel : Nat) (s : Schema) (ops : List KeyOp) (cn : Cfg × Nat)
    (hops : ∀ k v, KeyOp.assign k v ∈ ops → isLeafKey s k = true) (k : String) :
    C12.defined (runOps W (fuel + 1) s cn (dropRejected W (fuel + 1) s cn ops)).1 k = C12.defined (runOps W (fuel + 1) s cn ops).1 k ∧
    (runOps W (fuel + 1) s cn (dropRejected W (fuel + 1) s cn ops)).1.get k = (runOps W (fuel + 1) s cn ops).1.get k := by
  rw [rejected_ops_invisible W fuel s ops cn hops]
  exact ⟨rfl, rfl⟩

/-- does the specification keep the operation (everything but an assignment it rejects)? -/
def specKeeps (W : World) (s : Schema) : KeyOp → Bool
  | .assign k v => assignAccepts W s k v
  | .load _ _ => true
  | .reset _ => true

/-- on declared leaf keys the rejected assignments are those the specification rejects: a property of the operation, not of
    the state it runs on -/
theorem dropRejected_eq_filter (W : World) (fuel : Nat) (s : Schema) :
    ∀ (ops : List KeyOp) (cn : Cfg × Nat), (∀ k v, KeyOp.assign k v ∈ ops → isLeafKey s k = true) →
      dropRejected W (fuel + 1) s cn ops =
        ops.filter (specKeeps W s)
  | [], _, _ => rfl
  | op :: rest, cn, hops => by
    have ih := dropRejected_eq_filter W fuel s rest (applyOp W (fuel + 1) s cn op).1
      (fun k v hm => hops k v (List.mem_cons_of_mem _ hm))
    simp only [dropRejected, List.filter_cons]
    cases op with
    | load tree dv => simp [KeyOp.isAssign, specKeeps, ih]
    | reset k => simp [KeyOp.isAssign, specKeeps, ih]
    | assign k v =>
      have hr := assign_raises_iff W fuel s cn k v (hops k v (List.mem_cons_self ..))
      simp only [KeyOp.isAssign, Bool.true_and, hr, ih, specKeeps]
      by_cases ha : assignAccepts W s k v = true <;> simp [ha]

/-- **Reset after anything**: after any history whatever (no hypothesis on it), an accepted reset of a key of the
    configuration makes it not user-defined, leaves the status and the value of every other key alone, and — for a plain
    leaf without environment binding — makes it hold the declared default again. -/
theorem reset_after_anything (W : World) (fuel : Nat) (s : Schema) (cn : Cfg × Nat) (ops : List KeyOp) (k : String) (f : SField)
    (hk : '.' ∉ k.toList) (hf : s.get k = some f) (hstore : C12.stores f = true)
    (hok : (applyOp W (fuel + 1) s (runOps W (fuel + 1) s cn ops) (.reset k)).2 = false) :
    C12.defined (applyOp W (fuel + 1) s (runOps W (fuel + 1) s cn ops) (.reset k)).1.1 k = false ∧
    (∀ k', k' ≠ k →
      C12.defined (applyOp W (fuel + 1) s (runOps W (fuel + 1) s cn ops) (.reset k)).1.1 k' = C12.defined (runOps W (fuel + 1) s cn ops).1 k' ∧
      (applyOp W (fuel + 1) s (runOps W (fuel + 1) s cn ops) (.reset k)).1.1.get k' = (runOps W (fuel + 1) s cn ops).1.get k') ∧
    (∀ fs m, f = .leaf fs m →
      (match fs.kind with | .list _ => False | .dict _ _ => False | .challenge _ => False | _ => True) → m.env = none →
      (applyOp W (fuel + 1) s (runOps W (fuel + 1) s cn ops) (.reset k)).1.1.get k = some (.val m.default.value)) := by
  generalize runOps W (fuel + 1) s cn ops = st at hok ⊢
  have hok' : (resetValue W (fuel + 1) s st.1 k.toList st.2).err = none := by
    simp only [applyOp] at hok
    cases he : (resetValue W (fuel + 1) s st.1 k.toList st.2).err with
    | none => rfl
    | some e => simp [he] at hok
  obtain ⟨c1, n1, hsd, hcfg, hd, hget, hdef⟩ := C12.reset_restores W fuel s st.1 k st.2 f hk hf hstore hok'
  simp only [applyOp, hcfg]
  refine ⟨hd, fun k' hk' => ⟨hdef k' hk', hget k' hk'⟩, ?_⟩
  intro fs m hfe hkind henv
  subst hfe
  exact C12.setDefault_plain_value W "" k fs m st.1 c1 st.2 n1 hkind henv hsd

/-- **Fresh, then any history**: starting from `Config(schema)` nothing declared is user-defined (`build_all_default`), so
    after any history on declared leaf keys the status of every declared storing key is the specification's run from the
    empty set … -/
theorem fresh_then_history (W : World) (fuel : Nat) (s : Schema) (n : Nat) (c0 : Cfg) (n0 : Nat)
    (hb : build W "" false none s n = .ok (c0, n0)) (ops : List KeyOp) (hops : ∀ op ∈ ops, OpOk s op)
    (k : String) (f : SField) (hf : s.get k = some f) (hstore : C12.stores f = true) :
    C12.defined (runOps W (fuel + 1) s (c0, n0) ops).1 k = specRun W s (fun _ => false) ops k :=
  run_refines W fuel s k ops (c0, n0) (fun _ => false) hops
    (build_all_default W "" false none s n c0 n0 hb k f hf hstore).1

/-- … and of *every* key (declared or not) the run from the complement of the storing keys: `is_value_defined` reports a
    key the configuration never stored as defined. -/
theorem fresh_then_history_all (W : World) (fuel : Nat) (s : Schema) (n : Nat) (c0 : Cfg) (n0 : Nat)
    (hb : build W "" false none s n = .ok (c0, n0)) (ops : List KeyOp) (hops : ∀ op ∈ ops, OpOk s op) (k : String) :
    C12.defined (runOps W (fuel + 1) s (c0, n0) ops).1 k = specRun W s (fun k => !storesKey k s.fields) ops k :=
  run_refines W fuel s k ops (c0, n0) _ hops (build_defined_exact W "" false none s n c0 n0 hb k)

/-! ## 3. Non-vacuity: a concrete schema and a concrete history

Two boolean leaves, `a` with the constant default `False`, `b` without default; the history assigns `a` (accepted), assigns a
list to `b` (rejected), loads `{b: true}` and resets `a`.  Everything is evaluated in the model (`simp` with the
definitions; `setValue` / `loadTree` are defined by well-founded recursion, so `decide` does not apply to them) and in the
specification (`decide`). -/

namespace Demo

def W : World := cexWorld
def schema : Schema :=
  .mk [("a", .leaf (.mk .bool false none) { default := .const (.bool false) }),
       ("b", .leaf (.mk .bool false none) {})] false []

/-- the hypothesis of `build_all_default_deep` (and of the value clause of `build_all_default`) is satisfiable -/
theorem schema_nodup : schema.keysNodup = true ∧ nodupKeys schema.fields = true := by decide

def history : List KeyOp :=
  [.assign "a" (.bool true), .assign "b" (.list []), .load [(.str ['b'], .bool true)] false, .reset "a"]

def c0 : Cfg := Cfg.mk 0 [("a", .val (.bool false)), ("b", .val .none)] ["a", "b"] [] none false
def c1 : Cfg := Cfg.mk 0 [("a", .val (.bool true)), ("b", .val .none)] ["b"] [] none false
def c3 : Cfg := Cfg.mk 0 [("a", .val (.bool true)), ("b", .val (.bool true))] [] [] none false
def c4 : Cfg := Cfg.mk 0 [("a", .val (.bool false)), ("b", .val (.bool true))] ["a"] [] none false

theorem get_a : schema.get "a" = some (.leaf (.mk .bool false none) { default := .const (.bool false) }) := by
  simp [schema, Schema.get, Schema.fields, lookupField]
theorem get_b : schema.get "b" = some (.leaf (.mk .bool false none) {}) := by
  simp [schema, Schema.get, Schema.fields, lookupField]

/-- `Config(schema)`: both keys present, `a` at its declared default, both marked not user-defined -/
theorem fresh : build W "" false none schema 0 = .ok (c0, 1) := by
  simp [schema, c0, build, buildFields, setDefault, envValue, FieldSpec.kind, Default.value,
    Cfg.setDefault, Cfg.set, Cfg.withSlots, Cfg.withDefaults, setSlot, Cfg.defaults, Cfg.slots, Cfg.oid, Cfg.dyn, Cfg.keyfile, Cfg.linked]

/-- accepted assignment: `a` leaves the default marks -/
theorem step1 : applyOp W 1 schema (c0, 1) (.assign "a" (.bool true)) = ((c1, 1), false) := by
  simp [applyOp, setValue, getField, get_a, validate, validateKind, boolRule, c0, c1,
    Cfg.setUser, Cfg.set, Cfg.withSlots, Cfg.withDefaults, setSlot, Cfg.defaults, Cfg.slots, Cfg.oid, Cfg.dyn, Cfg.keyfile, Cfg.linked]
/-- rejected assignment (a list is no boolean): nothing moves, the flag is raised -/
theorem step2 : applyOp W 1 schema (c1, 1) (.assign "b" (.list [])) = ((c1, 1), true) := by
  simp [applyOp, setValue, getField, get_b, validate, validateKind, boolRule, c1]
/-- load: `b` is assigned and leaves the default marks -/
theorem step3 : applyOp W 1 schema (c1, 1) (.load [(.str ['b'], .bool true)] false) = ((c3, 1), false) := by
  have hb : String.ofList ['b'] = "b" := by decide
  simp [applyOp, loadTree, decodeEntry, hb, setValue, getField, get_b, validate, validateKind, boolRule, c1, c3, envValue,
    toPython, toPythonKind,
    Cfg.setUser, Cfg.set, Cfg.withSlots, Cfg.withDefaults, setSlot, Cfg.defaults, Cfg.slots, Cfg.oid, Cfg.dyn, Cfg.keyfile, Cfg.linked]
/-- reset: `a` is back at `False` and marked not user-defined; `b` is untouched -/
theorem step4 : applyOp W 1 schema (c3, 1) (.reset "a") = ((c4, 1), false) := by
  have ha : "a".toList = ['a'] := by decide
  simp [applyOp, resetValue, walk, replaceAt, partitionDot, ha, getField, get_a, setDefault, c3, c4, envValue, FieldSpec.kind,
    Default.value,
    Cfg.setDefault, Cfg.set, Cfg.withSlots, Cfg.withDefaults, setSlot, Cfg.defaults, Cfg.slots, Cfg.oid, Cfg.dyn, Cfg.keyfile, Cfg.linked]

/-- the model on the whole history -/
theorem run_history : runOps W 1 schema (c0, 1) history = (c4, 1) ∧
    raisedFlags W 1 schema (c0, 1) history = [false, true, false, false] := by
  simp [runOps, raisedFlags, history, step1, step2, step3, step4]

example : C12.defined c4 "a" = false ∧ C12.defined c4 "b" = true ∧
    c4.get "a" = some (.val (.bool false)) ∧ c4.get "b" = some (.val (.bool true)) :=
  ⟨by decide, by decide, by simp [c4, Cfg.get, Cfg.slots, getSlot], by simp [c4, Cfg.get, Cfg.slots, getSlot]⟩

/-- the specification on the whole history, from the empty set -/
example : specRun W schema (fun _ => false) history "a" = false ∧ specRun W schema (fun _ => false) history "b" = true := by decide

/-- the hypotheses of `defined_refines` / `fresh_then_history` hold of the history -/
theorem history_ok : ∀ op ∈ history, OpOk schema op := by
  intro op hop
  simp only [history, List.mem_cons, List.mem_nil_iff, or_false] at hop
  rcases hop with rfl | rfl | rfl | rfl
  · show isLeafKey schema "a" = true; decide
  · show isLeafKey schema "b" = true; decide
  · intro ks value hm
    simp only [List.mem_singleton, Prod.mk.injEq, Val.str.injEq] at hm
    rw [hm.1]; decide
  · exact ⟨by decide, by decide⟩

/-- `fresh_then_history` instantiated: model and specification agree on the demo (both sides are computed above) -/
example : C12.defined (runOps W 1 schema (c0, 1) history).1 "b" = specRun W schema (fun _ => false) history "b" :=
  fresh_then_history W 0 schema 0 c0 1 fresh history history_ok "b" _ get_b rfl

/-- `build_all_default_deep` instantiated -/
example : AllDefault W 3 "" schema c0 := build_all_default_deep W 3 "" false none schema 0 c0 1 schema_nodup.1 fresh

/-- the specification drops exactly the rejected assignment, and the final state is the same without it -/
example : history.filter (specKeeps W schema) = [history[0], history[2], history[3]] := by
  simp only [history, List.filter, specKeeps]
  have h1 : assignAccepts W schema "a" (.bool true) = true := by decide
  have h2 : assignAccepts W schema "b" (.list []) = false := by decide
  simp [h1, h2]

/-- a leaf bound to a set environment variable is skipped by a load -/
def envW : World := { cexWorld with environ := fun n => if n = "B_ENV" then some "1" else none }
def envSchema : Schema := .mk [("b", .leaf (.mk .bool false none) { env := some "B_ENV" })] false []
example : entryEffect envW envSchema (.str ['b']) (.bool false) = .skip ∧
    loadAssigned envW envSchema [(.str ['b'], .bool false)] = [] ∧ loadStops envW envSchema [(.str ['b'], .bool false)] = false := by
  decide

/-- the value clause of `build_all_default` needs distinct keys: with `a` declared twice (`dupSchema` of Proofs/Inv.lean)
    the slot holds the second default, `Schema.get` reads the first declaration -/
theorem dup_value_differs (W : World) :
    ∃ c n', build W "" false none dupSchema 0 = .ok (c, n') ∧
      dupSchema.get "a" = some (.leaf (.mk .bool false none) { default := .const (.bool true) }) ∧
      c.get "a" = some (.val (.int 7)) := by
  refine ⟨_, _, by simp [dupSchema, build, buildFields, setDefault, envValue, FieldSpec.kind, Default.value]; exact ⟨rfl, rfl⟩,
    by simp [dupSchema, Schema.get, Schema.fields, lookupField], ?_⟩
  rw [Cfg.get_setDefault_same]

end Demo

/-- **/repo's `reset_value` and `is_value_defined` are what `resetValue` / `isDefined` of Config/Ops.lean follow** (generated reading of
    cincoconfig/support.py, regenerated on every run): walk the dotted path to the owning configuration, find the field, refuse a
    name that is no field with `AttributeError`, and hand the reset to the field's own `__setdefault__` — the one place that knows
    the environment, the declared default, a callable default, a copy of a mutable one and the default-status bookkeeping; the
    status is membership of the owner's default-key set and nothing else -/
theorem reset_code_order :
    Generated.supportShape.lookup "reset_value" =
      some ["path, _, key = key.rpartition('.')", "if[path]", "config = config[path]", "end", "field = config._get_field(key)",
            "if[not field]", "raise:AttributeError", "end", "field.__setdefault__(config)"] ∧
    Generated.supportShape.lookup "is_value_defined" =
      some ["path, _, key = key.rpartition('.')", "if[path]", "config = config[path]", "end",
            "return key not in config._default_value_keys"] := by decide

end Cinco.C12b
