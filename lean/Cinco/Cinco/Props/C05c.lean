import Cinco.Props.C05b
import Cinco.Proofs.Complete
/-
  C05 (continuation) — validation is *complete* on normal forms, hence EXACT.

  C05b: whatever a field accepts satisfies what the field declares (`Sat E f v`, written from the declaration).
  Here the converse: a value that satisfies the declaration — so it is of the field's stored type and already in normal
  form — is accepted, and returned as it is (Cinco/Proofs/Complete.lean).  Together: the set of results of validation
  is exactly the set of values satisfying the declaration, these are exactly the fixed points of validation, and a
  rejected value does not satisfy the declaration as it stands.

  `CompleteOk f` (decidable, Cinco/Proofs/Complete.lean) is a syntactic, sufficient condition (not a necessary one: e.g. a
  network field whose pattern happens to match every canonical text is excluded with all patterns).  It excludes
    (1) custom validators: on the field, on the key / value fields of dicts, on the item field of typed lists
        (`Sat` is `True` there; the catalogue function is arbitrary) — `custom_validator_needed`, `…_any`, `…_item`, `…_value`;
    (2) `IPv4NetworkField` with string options that a canonical text `a.b.c.d/len` can fail although another text of the
        same network passes them (`StrOpts.canonSafe`: pattern, `min_len > 9`, `max_len < 18`, choices not closed under
        canonicalisation, a character strip that strips digits): finding F22 — `ipv4net_*_needed`;
    (3) `FilenameField` with a non-empty start directory TOGETHER WITH string options: the options are checked on the text
        as given, the resolved path that is held can violate them (finding F25, `filename_startdir_options_needed`).
        Without string options a start directory is covered (`filename_startdir_accepted`): under a start directory `Sat`
        asks the held path to be empty or absolute (`filename_startdir_held_absolute`), and an absolute path is not resolved
        again; a relative path does not satisfy the declaration there (`filename_startdir_relative_not_sat`).
  NOT excluded (verified against the model): `ChallengeField` — `Sat` holds of digest values only, and a digest value is
  accepted as it is (a plaintext does not satisfy `Sat`; its result depends on the salt the environment returns next:
  `challenge_plaintext_not_sat`, `challenge_plaintext_result`); `SecureField` — validation keeps the text (encryption
  happens when saving); a custom validator on the `AnyField` item of a list (such items are never validated).
  `EnvOk` is needed for the soundness half only.
-/
namespace Cinco.C05c
open Cinco Cinco.Field Cinco.Num Cinco.Str

/-! ## 1–3. Completeness, exactness, rejection -/

/-- **A value that satisfies what the field declares is accepted, and returned as it is** — every kind, every option in
    `CompleteOk`, nested typed lists and dicts at every depth.  (No assumption on the environment is needed.) -/
theorem satisfying_value_is_accepted (E : Env) (f : FieldSpec) (v : Val) (hf : CompleteOk f = true) (h : Sat E f v) :
    validate E f v = .ok v :=
  validate_complete E f v hf h

/-- **Validation accepts exactly the values that meet the declared constraints**: the set of results of validation (over
    all inputs of all types) is the set of values satisfying the declaration.
    `→` is soundness (C05b, any declaration), `←` is completeness (the value itself is an input that produces it). -/
theorem accepts_exactly (E : Env) (hE : EnvOk E) (f : FieldSpec) (v : Val) (hf : CompleteOk f = true) :
    (∃ v0, validate E f v0 = .ok v) ↔ Sat E f v :=
  ⟨fun ⟨v0, h⟩ => validate_sound E hE f v0 v h, fun h => ⟨v, validate_complete E f v hf h⟩⟩

/-- the values satisfying the declaration are exactly the fixed points of validation -/
theorem fixed_points_exactly (E : Env) (hE : EnvOk E) (f : FieldSpec) (v : Val) (hf : CompleteOk f = true) :
    validate E f v = .ok v ↔ Sat E f v :=
  ⟨fun h => validate_sound E hE f v v h, fun h => validate_complete E f v hf h⟩

/-- **Whatever is rejected does not meet the declaration as it stands** (whatever the error). -/
theorem rejected_means_no_normal_form (E : Env) (f : FieldSpec) (v : Val) (e : Err) (hf : CompleteOk f = true)
    (h : validate E f v = .error e) : ¬ Sat E f v := by
  intro hs
  rw [validate_complete E f v hf hs] at h
  cases h

/-- an input that validation *changes* did not meet the declaration as it stood (it was not in normal form) -/
theorem changed_means_no_normal_form (E : Env) (f : FieldSpec) (v v' : Val) (hf : CompleteOk f = true)
    (h : validate E f v = .ok v') (hne : v' ≠ v) : ¬ Sat E f v := by
  intro hs
  rw [validate_complete E f v hf hs] at h
  cases h
  exact hne rfl

/-- Idempotence again, from soundness and completeness alone.  `CompleteOk` covers every declaration in the guard `IdemOk`
    of `C05.validate_idem` (`idemOk_within_completeOk`) and more: an `IPv4NetworkField` with a case transform, whitespace
    strip, harmless length bounds, closed choices; a custom validator on the `AnyField` item of a list. -/
theorem validate_idem_of_complete (E : Env) (hE : EnvOk E) (f : FieldSpec) (v v' : Val) (hf : CompleteOk f = true)
    (h : validate E f v = .ok v') : validate E f v' = .ok v' :=
  validate_complete E f v' hf (validate_sound E hE f v v' h)

theorem idemOk_within_completeOk (f : FieldSpec) (h : IdemOk f = true) : CompleteOk f = true :=
  completeOk_of_idemOk f h

/-! ## 4. Corollaries spelled out -/

/-- **An int within its integer bounds is accepted** (and stays what it is). -/
theorem int_within_bounds_accepted (E : Env) (req : Bool) (mn mx i : Int) (h1 : mn ≤ i) (h2 : i ≤ mx) :
    validate E (.mk (.int (some (.int mn)) (some (.int mx))) req none) (.int i) = .ok (.int i) :=
  satisfying_value_is_accepted E _ _ rfl
    (Or.inr ⟨by simp, i, rfl, (notBelow_int_int i mn).2 h1, (notAbove_int_int i mx).2 h2⟩)

/-- … and an int is accepted ONLY within its bounds: acceptance of an int is exactly `min ≤ i ≤ max` -/
theorem int_accepted_iff (E : Env) (req : Bool) (mn mx i : Int) :
    validate E (.mk (.int (some (.int mn)) (some (.int mx))) req none) (.int i) = .ok (.int i) ↔ mn ≤ i ∧ i ≤ mx := by
  constructor
  · intro h
    rcases validate_inv_nc h with ⟨hv, _⟩ | ⟨_, hk⟩
    · cases hv
    · simp only [validateKind] at hk
      obtain ⟨j, hj, h1, h2⟩ := intRule_sat hk
      cases hj
      exact ⟨(notBelow_int_int _ mn).1 h1, (notAbove_int_int _ mx).1 h2⟩
  · intro ⟨h1, h2⟩
    exact int_within_bounds_accepted E req mn mx i h1 h2

/-- only a lower bound / only an upper bound / no bound -/
theorem int_at_least_min_accepted (E : Env) (req : Bool) (mn i : Int) (h : mn ≤ i) :
    validate E (.mk (.int (some (.int mn)) none) req none) (.int i) = .ok (.int i) :=
  satisfying_value_is_accepted E _ _ rfl (Or.inr ⟨by simp, i, rfl, (notBelow_int_int i mn).2 h, trivial⟩)

theorem int_at_most_max_accepted (E : Env) (req : Bool) (mx i : Int) (h : i ≤ mx) :
    validate E (.mk (.int none (some (.int mx))) req none) (.int i) = .ok (.int i) :=
  satisfying_value_is_accepted E _ _ rfl (Or.inr ⟨by simp, i, rfl, trivial, (notAbove_int_int i mx).2 h⟩)

/-- the boundary values themselves are accepted -/
theorem int_min_boundary_accepted (E : Env) (req : Bool) (mn mx : Int) (h : mn ≤ mx) :
    validate E (.mk (.int (some (.int mn)) (some (.int mx))) req none) (.int mn) = .ok (.int mn) :=
  int_within_bounds_accepted E req mn mx mn (Int.le_refl _) h

theorem int_max_boundary_accepted (E : Env) (req : Bool) (mn mx : Int) (h : mn ≤ mx) :
    validate E (.mk (.int (some (.int mn)) (some (.int mx))) req none) (.int mx) = .ok (.int mx) :=
  int_within_bounds_accepted E req mn mx mx h (Int.le_refl _)

/-- **A bound of zero is a bound like any other**: `IntField(min=0)` accepts 0 … -/
theorem int_zero_bound_accepts_zero (E : Env) (req : Bool) :
    validate E (.mk (.int (some (.int 0)) none) req none) (.int 0) = .ok (.int 0) :=
  int_at_least_min_accepted E req 0 0 (Int.le_refl _)

/-- … and rejects everything below it (the bound is not ignored for being falsy); likewise `max=0` -/
theorem int_zero_bound_rejects_negative (E : Env) (req : Bool) (i : Int) (h : i < 0) :
    validate E (.mk (.int (some (.int 0)) none) req none) (.int i) = .error .value := by
  have hb : checkBounds (some (.int 0)) none (ofInt i) = false := by
    cases hc : checkBounds (some (.int 0)) none (ofInt i) with
    | false => rfl
    | true =>
      have := ((checkBounds_iff _ _ _).1 hc).1
      have := (notBelow_int_int i 0).1 this
      omega
  rw [validate_of_ne_none E _ req none (.int i) (by simp)]
  simp [validateKind, intRule, hb]

theorem int_zero_max_accepts_zero (E : Env) (req : Bool) :
    validate E (.mk (.int none (some (.int 0))) req none) (.int 0) = .ok (.int 0) :=
  int_at_most_max_accepted E req 0 0 (Int.le_refl _)

/-- **A text within its length bounds, already case- and strip-normal, among the choices and matching the pattern is
    accepted unchanged** (each hypothesis only for the options that are set; `required` asks for a non-empty text). -/
theorem string_normal_form_accepted (E : Env) (o : StrOpts) (req : Bool) (s : Str)
    (hreq : req = true → s ≠ [])
    (hmin : ∀ m, o.minLen = some m → m ≤ (s.length : Int))
    (hmax : ∀ m, o.maxLen = some m → (s.length : Int) ≤ m)
    (hre : ∀ r, o.regex = some r → Regex.isMatch r s = true)
    (hch : o.choices ≠ [] → s ∈ o.choices)
    (hcase : match o.case with | none => True | some .lower => lower s = s | some .upper => upper s = s)
    (hstrip : match o.strip with | .off => True | .ws => strip s = s | .chars cs => stripChars cs s = s) :
    validate E (.mk (.string o) req none) (.str s) = .ok (.str s) := by
  have hc : CaseNormal o.case s := by
    obtain ⟨_, _, _, _, cs, _⟩ := o
    cases cs with
    | none => trivial
    | some c => cases c <;> exact hcase
  have hs : StripNormal o.strip s := by
    obtain ⟨_, _, _, _, _, st⟩ := o
    cases st <;> exact hstrip
  exact satisfying_value_is_accepted E _ _ rfl (Or.inr ⟨by simp, s, rfl, ⟨hreq, hmin, hmax, hre, hch, hc, hs⟩⟩)

/-- **`None` is accepted iff the field is not required** — both directions, for every kind (and whatever custom validator:
    no validator runs on `None`). -/
theorem none_accepted_iff_not_required (E : Env) (k : Kind) (req : Bool) (c : Option String) :
    validate E (.mk k req c) .none = .ok .none ↔ req = false := by
  cases req <;> simp [validate]

theorem none_rejected_iff_required (E : Env) (k : Kind) (req : Bool) (c : Option String) :
    validate E (.mk k req c) .none = .error .value ↔ req = true := by
  cases req <;> simp [validate]

/-- acceptance of `None` and satisfaction by `None` coincide -/
theorem none_accepted_iff_sat (E : Env) (k : Kind) (req : Bool) :
    validate E (.mk k req none) .none = .ok .none ↔ Sat E (.mk k req none) .none := by
  rw [none_accepted_iff_not_required, sat_none_iff]

/-! ### The kinds whose stored value is not the input -/

/-- `ChallengeField`: an already-stored digest is accepted as it is (this is all `Sat` contains, so the kind is covered) -/
theorem challenge_digest_accepted (E : Env) (alg : String) (req : Bool) (salt dig : Bytes) (a : String) :
    validate E (.mk (.challenge alg) req none) (.digest salt dig a) = .ok (.digest salt dig a) :=
  satisfying_value_is_accepted E _ _ rfl (Or.inr ⟨by simp, salt, dig, a, rfl⟩)

/-- a plaintext never satisfies a `ChallengeField` (it is not of the stored type): completeness is silent about it … -/
theorem challenge_plaintext_not_sat (E : Env) (alg : String) (req : Bool) (s : Str) :
    ¬ Sat E (.mk (.challenge alg) req none) (.str s) := by
  rintro (⟨h, _⟩ | ⟨_, _, _, _, h⟩) <;> cases h

/-- … and what validation returns for it is determined by the input only together with the salt the environment returns next -/
theorem challenge_plaintext_result (E : Env) (alg : String) (req : Bool) (s : Str) :
    validate E (.mk (.challenge alg) req none) (.str s) =
      .ok (.digest (E.salt alg) (E.hash alg (E.salt alg ++ E.utf8 s)) alg) := by
  rw [validate_of_ne_none E _ req none (.str s) (by simp)]
  simp [validateKind, challengeRule]

/-- `SecureField`: validation keeps the text as it is (non-empty when required); the cipher is applied when saving -/
theorem secure_text_accepted (E : Env) (method : String) (req : Bool) (s : Str) (h : req = true → s ≠ []) :
    validate E (.mk (.secure method) req none) (.str s) = .ok (.str s) :=
  satisfying_value_is_accepted E _ _ rfl (Or.inr ⟨by simp, s, rfl, h⟩)

/-- **`FilenameField(startdir=…)` without string options is covered**: a path satisfying the declaration (with a non-empty
    start directory: empty or absolute, and meeting the existence constraint) is accepted as it is, whatever the start
    directory. -/
theorem filename_startdir_accepted (E : Env) (o : StrOpts) (ho : o.plain = true) (ex : Exists) (sd : Option Str)
    (req : Bool) (v : Val) (h : Sat E (.mk (.filename o ex sd) req none) v) :
    validate E (.mk (.filename o ex sd) req none) v = .ok v :=
  satisfying_value_is_accepted E _ _ (by simp [CompleteOk, CompleteOkKind, ho]) h

/-- the clause of `Sat` that makes this true: under a non-empty start directory a held path is empty or absolute
    (`os.path.isabs`) — a relative text is never held there, validation resolves it -/
theorem filename_startdir_held_absolute (E : Env) (o : StrOpts) (ex : Exists) (d : Str) (hd : d ≠ []) (req : Bool) (s : Str)
    (h : Sat E (.mk (.filename o ex (some d)) req none) (.str s)) : s = [] ∨ E.isabs s = true := by
  rcases h with ⟨h, _⟩ | ⟨_, h⟩
  · cases h
  · simp only [SatKind] at h
    obtain ⟨s', hs', _, _, habs, _⟩ := h
    cases hs'
    exact habs d rfl hd

/-! ## 5. Every exclusion is needed; every covered kind is inhabited -/

namespace Demo
open Cinco.C05 Cinco.Field.SoundExamples

/-- `env0` with a URL parser that accepts everything -/
def envU : Env := { env0 with urlOk := fun _ => true }
/-- `env0` with a validator catalogue that rejects everything -/
def envR : Env := { env0 with custom := fun _ _ => .error .value }

/-- `env0` with `resolve d t = "/" + d + "/" + t` -/
def envD : Env := { env0 with resolve := fun d t => '/' :: (d ++ '/' :: t) }

theorem envOk_envU : EnvOk envU := ⟨fun sd t => by simp [envU, env0], by simp [envU, env0]⟩
theorem envOk_envD : EnvOk envD := ⟨fun sd t => by simp [envD, env0], by simp [envD, env0]⟩

/-! ### (a) the exclusions are needed: a value satisfying the declaration that is not accepted unchanged -/

/-- shape of every counter-example: the declaration is outside `CompleteOk`, the value satisfies it, validation does not return it -/
def Refutes (E : Env) (f : FieldSpec) (v : Val) : Prop := CompleteOk f = false ∧ Sat E f v ∧ validate E f v ≠ .ok v

/-- custom validator on the field: `Sat` is `True`, yet `IntField(validator=…)` rejects the text `x` before the validator runs -/
theorem custom_validator_needed : Refutes env0 (.mk (.int none none) false (some "c")) (.str "x".toList) :=
  ⟨by decide, trivial, by decide +kernel⟩

/-- … and on an `AnyField` it is the validator itself that may reject (or change) anything -/
theorem custom_validator_needed_any : Refutes envR (.mk .any false (some "c")) (.int 1) :=
  ⟨by decide, trivial, by decide +kernel⟩

/-- custom validator on the item field of a typed list -/
theorem custom_validator_needed_item :
    Refutes env0 (.mk (.list (some (.mk (.int none none) false (some "c")))) false none) (.list [.str "x".toList]) := by
  refine ⟨by decide, Or.inr ⟨by simp, ?_⟩, by decide +kernel⟩
  simp only [SatKind, untypedItem, Kind.isAny, Bool.false_eq_true, if_false]
  exact ⟨_, rfl, by simp, fun x _ => by simp only [SatOpt, Sat]⟩

/-- custom validator on the value field of a dict (the key field is `AnyField`) -/
theorem custom_validator_needed_value :
    Refutes envR (.mk (.dict none (some (.mk .any false (some "c")))) false none) (.dict [(.int 1, .int 2)]) := by
  refine ⟨by decide, Or.inr ⟨by simp, ?_⟩, by decide +kernel⟩
  simp only [SatKind]
  exact ⟨_, rfl, by simp, fun kv _ => by simp only [SatOpt, Sat, and_self], fun _ => by simp [keysD]⟩

/-- a custom validator on the `AnyField` item of a list is NOT excluded: the items are not validated at all -/
example : CompleteOk (.mk (.list (some (.mk .any true (some "c")))) true none) = true := by decide

/-- the canonical text held by an `IPv4NetworkField` (a result of validation, so it satisfies the declaration) -/
theorem net_result_sat {o : StrOpts} {v0 v : Val} (h : validate env0 (.mk (.ipv4net o none none) false none) v0 = .ok v) :
    Sat env0 (.mk (.ipv4net o none none) false none) v :=
  validate_sound env0 envOk_env0 _ v0 v h

/-- F22 with `max_len = 8`: `10.0.0.1` is held as `10.0.0.1/32` (11 characters), which the field rejects -/
theorem ipv4net_maxLen_needed : Refutes env0 (.mk (.ipv4net { maxLen := some 8 } none none) false none) (.str "10.0.0.1/32".toList) :=
  ⟨by decide, net_result_sat (v0 := .str "10.0.0.1".toList) (by decide +kernel), by decide +kernel⟩

/-- `min_len = 12`: `10.0.0.0/255.0.0.0` is held as `10.0.0.0/8` -/
theorem ipv4net_minLen_needed : Refutes env0 (.mk (.ipv4net { minLen := some 12 } none none) false none) (.str "10.0.0.0/8".toList) :=
  ⟨by decide, net_result_sat (v0 := .str "10.0.0.0/255.0.0.0".toList) (by decide +kernel), by decide +kernel⟩

/-- a pattern (`[^/]*\Z`: no slash): the canonical text always has one -/
theorem ipv4net_regex_needed :
    Refutes env0 (.mk (.ipv4net { regex := some (.seq (.rep 0 none (.notLit '/')) .eos) } none none) false none)
      (.str "10.0.0.1/32".toList) :=
  ⟨by decide, net_result_sat (v0 := .str "10.0.0.1".toList) (by decide +kernel), by decide +kernel⟩

/-- choices that are not closed under canonicalisation -/
theorem ipv4net_choices_needed :
    Refutes env0 (.mk (.ipv4net { choices := ["10.0.0.1".toList] } none none) false none) (.str "10.0.0.1/32".toList) :=
  ⟨by decide +kernel, net_result_sat (v0 := .str "10.0.0.1".toList) (by decide +kernel), by decide +kernel⟩

/-- a character strip that strips a digit: the held `10.0.0.1/32` is stripped to `10.0.0.1/3`, which is no network -/
theorem ipv4net_stripChars_needed :
    Refutes env0 (.mk (.ipv4net { strip := .chars "2".toList } none none) false none) (.str "10.0.0.1/32".toList) :=
  ⟨by decide, net_result_sat (v0 := .str "10.0.0.1".toList) (by decide +kernel), by decide +kernel⟩

/-- `FilenameField(startdir='d')`, no options at all: covered (see (b)); what a start directory excludes is a RELATIVE held
    path — validation changes it, so it does not satisfy the declaration -/
def fileInD : FieldSpec := .mk (.filename {} .any (some "d".toList)) false none

theorem filename_startdir_relative_not_sat : ¬ Sat envD fileInD (.str "a".toList) :=
  changed_means_no_normal_form envD fileInD _ (.str "/d/a".toList) (by decide) (by decide +kernel) (by decide)

/-- the declaration of F25: `FilenameField(startdir='d', max_len=1)` -/
def fileInDMax1 : FieldSpec := .mk (.filename { maxLen := some 1 } .any (some "d".toList)) false none

/-- F25: with a string option (`max_len = 1`) even the absolute path `/a` that the field itself returned for `a` is rejected -/
theorem filename_startdir_options_needed : Refutes env0 fileInDMax1 (.str "/a".toList) :=
  ⟨by decide, validate_sound env0 envOk_env0 _ (.str "a".toList) _ (by decide +kernel), by decide +kernel⟩

/-- a typed list / dict inherits the exclusion of its item / key / value field -/
theorem item_exclusion_needed :
    Refutes env0 (.mk (.list (some (.mk (.ipv4net { maxLen := some 8 } none none) false none))) false none)
      (.list [.str "10.0.0.1/32".toList]) :=
  ⟨by decide, validate_sound env0 envOk_env0 _ (.tuple [.str "10.0.0.1".toList]) _ (by decide +kernel), by decide +kernel⟩

theorem value_exclusion_needed :
    Refutes env0 (.mk (.dict none (some fileInDMax1)) false none) (.dict [(.int 1, .str "/a".toList)]) :=
  ⟨by decide, validate_sound env0 envOk_env0 _ (.dict [(.int 1, .str "a".toList)]) _ (by decide +kernel), by decide +kernel⟩

/-! ### (b) the hypotheses are satisfiable, kind by kind: the declaration is in `CompleteOk`, the value satisfies it (shown
    from an *un-normalised* input through soundness, or by hand), and — by the theorem — it is accepted unchanged -/

/-- one covered instance: from any input `v0` that validates to `v` -/
theorem covered (E : Env) (hE : EnvOk E) (f : FieldSpec) (v0 v : Val) (hf : CompleteOk f = true)
    (h0 : validate E f v0 = .ok v) : CompleteOk f = true ∧ Sat E f v ∧ validate E f v = .ok v :=
  ⟨hf, validate_sound E hE f v0 v h0, satisfying_value_is_accepted E f v hf (validate_sound E hE f v0 v h0)⟩

/-- any: `AnyField(required=True)` -/
example : CompleteOk (.mk .any true none) = true ∧ Sat env0 (.mk .any true none) (.opaque "object") ∧
    validate env0 (.mk .any true none) (.opaque "object") = .ok (.opaque "object") :=
  covered env0 envOk_env0 _ (.opaque "object") _ (by decide) (by decide +kernel)

/-- string, `Sat` by hand: `StringField(transform_strip=True, transform_case='lower', max_len=5, required=True)` -/
example : Sat env0 strField (.str "hello".toList) :=
  Or.inr ⟨by simp, _, rfl, strChecks_sat (by decide +kernel)
    (show lower "hello".toList = "hello".toList by decide +kernel) (show strip "hello".toList = "hello".toList by decide +kernel)⟩
example : CompleteOk strField = true ∧ Sat env0 strField (.str "hello".toList) ∧
    validate env0 strField (.str "hello".toList) = .ok (.str "hello".toList) :=
  covered env0 envOk_env0 _ (.str "  HeLLo \n".toList) _ (by decide) (by decide +kernel)

/-- string with character strip, case, pattern and choices -/
def strAll : FieldSpec :=
  .mk (.string { strip := .chars "x".toList, case := some .upper, minLen := some 2, maxLen := some 3,
                 regex := some (.seq (.rep 1 none (.cls false [.range 'A' 'Z'])) .eos),
                 choices := ["ABC".toList, "DE".toList] }) true none
example : CompleteOk strAll = true ∧ Sat env0 strAll (.str "ABC".toList) ∧
    validate env0 strAll (.str "ABC".toList) = .ok (.str "ABC".toList) :=
  covered env0 envOk_env0 _ (.str "xxabcx".toList) _ (by decide) (by decide +kernel)

/-- int, `Sat` by hand: `IntField(min=0)` at its bound 0 -/
example : Sat env0 intMin0 (.int 0) :=
  Or.inr ⟨by simp, 0, rfl, (notBelow_int_int 0 0).2 (Int.le_refl _), trivial⟩
example : CompleteOk intMin0 = true ∧ Sat env0 intMin0 (.int 0) ∧ validate env0 intMin0 (.int 0) = .ok (.int 0) :=
  covered env0 envOk_env0 _ (.flt (.dy 1 (-1))) _ (by decide) (by decide +kernel)

/-- float with an int and a float bound -/
example :
    let f : FieldSpec := .mk (.float (some (.int 0)) (some (.flt (.dy 7 0)))) true none
    CompleteOk f = true ∧ Sat env0 f (.flt (.dy 3 0)) ∧ validate env0 f (.flt (.dy 3 0)) = .ok (.flt (.dy 3 0)) :=
  covered env0 envOk_env0 _ (.int 3) _ (by decide) (by decide +kernel)

/-- bool -/
example : CompleteOk (.mk .bool true none) = true ∧ Sat env0 (.mk .bool true none) (.bool true) ∧
    validate env0 (.mk .bool true none) (.bool true) = .ok (.bool true) :=
  covered env0 envOk_env0 _ (.str "yes".toList) _ (by decide) (by decide +kernel)

/-- bytes -/
example : CompleteOk (.mk (.bytes .hex) true none) = true ∧ Sat env0 (.mk (.bytes .hex) true none) (.bytes [1, 2]) ∧
    validate env0 (.mk (.bytes .hex) true none) (.bytes [1, 2]) = .ok (.bytes [1, 2]) :=
  covered env0 envOk_env0 _ (.bytes [1, 2]) _ (by decide) (by decide +kernel)

/-- ipv4 address with the whitespace strip -/
example :
    let f : FieldSpec := .mk (.ipv4addr { strip := .ws }) true none
    CompleteOk f = true ∧ Sat env0 f (.str "10.0.0.1".toList) ∧ validate env0 f (.str "10.0.0.1".toList) = .ok (.str "10.0.0.1".toList) :=
  covered env0 envOk_env0 _ (.str " 10.0.0.1 ".toList) _ (by decide) (by decide +kernel)

/-- ipv4 network WITH string options inside `canonSafe` (case, whitespace strip, harmless length bounds, closed choices)
    and prefix bounds: outside the guard of `validate_idem`, covered here -/
def netOpts : FieldSpec :=
  .mk (.ipv4net { case := some .upper, strip := .ws, minLen := some 9, maxLen := some 18,
                  choices := ["10.0.0.0/255.0.0.0".toList, "10.0.0.0/8".toList] } (some 8) (some 8)) true none
example : CompleteOk netOpts = true ∧ IdemOk netOpts = false ∧ Sat env0 netOpts (.str "10.0.0.0/8".toList) ∧
    validate env0 netOpts (.str "10.0.0.0/8".toList) = .ok (.str "10.0.0.0/8".toList) :=
  have h := covered env0 envOk_env0 _ (.str "10.0.0.0/255.0.0.0".toList) (.str "10.0.0.0/8".toList) (by decide +kernel) (by decide +kernel)
  ⟨h.1, by decide, h.2⟩

/-- ipv4 network with a character strip that strips no digit; `max_prefix_len = 0` -/
example :
    let f : FieldSpec := .mk (.ipv4net { strip := .chars "/. x".toList } none (some 0)) true none
    CompleteOk f = true ∧ Sat env0 f (.str "0.0.0.0/0".toList) ∧ validate env0 f (.str "0.0.0.0/0".toList) = .ok (.str "0.0.0.0/0".toList) :=
  covered env0 envOk_env0 _ (.str "x0.0.0.0/0.0.0.0 ".toList) _ (by decide) (by decide +kernel)

/-- hostname: a name, and (allowed) an address -/
example :
    let f : FieldSpec := .mk (.hostname { case := some .lower } true) true none
    CompleteOk f = true ∧ Sat env0 f (.str "example.com".toList) ∧ validate env0 f (.str "example.com".toList) = .ok (.str "example.com".toList) :=
  covered env0 envOk_env0 _ (.str "Example.COM".toList) _ (by decide) (by decide +kernel)
example :
    let f : FieldSpec := .mk (.hostname {} true) true none
    CompleteOk f = true ∧ Sat env0 f (.str "10.0.0.1".toList) ∧ validate env0 f (.str "10.0.0.1".toList) = .ok (.str "10.0.0.1".toList) :=
  covered env0 envOk_env0 _ (.str "10.0.0.1".toList) _ (by decide) (by decide +kernel)

/-- filename without start directory / with the empty one, `exists=False` (nothing exists in `env0`) -/
example :
    let f : FieldSpec := .mk (.filename { strip := .ws } .no none) true none
    CompleteOk f = true ∧ Sat env0 f (.str "a/b".toList) ∧ validate env0 f (.str "a/b".toList) = .ok (.str "a/b".toList) :=
  covered env0 envOk_env0 _ (.str " a/b ".toList) _ (by decide) (by decide +kernel)
example :
    let f : FieldSpec := .mk (.filename { strip := .ws } .no (some [])) true none
    CompleteOk f = true ∧ Sat env0 f (.str "a/b".toList) ∧ validate env0 f (.str "a/b".toList) = .ok (.str "a/b".toList) :=
  covered env0 envOk_env0 _ (.str " a/b ".toList) _ (by decide) (by decide +kernel)

/-- filename WITH a start directory, no string options: `FilenameField(startdir='d')` holds `/d/a` (from the input `a`) -/
example : CompleteOk fileInD = true ∧ Sat envD fileInD (.str "/d/a".toList) ∧
    validate envD fileInD (.str "/d/a".toList) = .ok (.str "/d/a".toList) :=
  covered envD envOk_envD _ (.str "a".toList) _ (by decide) (by decide +kernel)
/-- … with `exists=False` and `required=True`, from an input that is already absolute -/
example :
    let f : FieldSpec := .mk (.filename {} .no (some "d".toList)) true none
    CompleteOk f = true ∧ Sat envD f (.str "/x".toList) ∧ validate envD f (.str "/x".toList) = .ok (.str "/x".toList) :=
  covered envD envOk_envD _ (.str "/x".toList) _ (by decide) (by decide +kernel)
/-- … and `accepts_exactly` there: `/d/a` is a result, the relative `a` is not -/
example : ¬ ∃ v0, validate envD fileInD v0 = .ok (.str "a".toList) := fun h =>
  filename_startdir_relative_not_sat ((accepts_exactly envD envOk_envD fileInD _ (by decide)).1 h)

/-- url (in an environment whose URL parser accepts) -/
example :
    let f : FieldSpec := .mk (.url { case := some .lower }) true none
    CompleteOk f = true ∧ Sat envU f (.str "http://x".toList) ∧ validate envU f (.str "http://x".toList) = .ok (.str "http://x".toList) :=
  covered envU envOk_envU _ (.str "HTTP://x".toList) _ (by decide) (by decide +kernel)

/-- challenge: the digest produced from a plaintext -/
example :
    let f : FieldSpec := .mk (.challenge "sha256") true none
    CompleteOk f = true ∧ Sat env0 f (.digest [] [] "sha256") ∧ validate env0 f (.digest [] [] "sha256") = .ok (.digest [] [] "sha256") :=
  covered env0 envOk_env0 _ (.str "pw".toList) _ (by decide) (by decide +kernel)

/-- secure -/
example :
    let f : FieldSpec := .mk (.secure "aes") true none
    CompleteOk f = true ∧ Sat env0 f (.str "pw".toList) ∧ validate env0 f (.str "pw".toList) = .ok (.str "pw".toList) :=
  covered env0 envOk_env0 _ (.str "pw".toList) _ (by decide) (by decide +kernel)

/-- untyped list: a tuple stays a tuple -/
example :
    let f : FieldSpec := .mk (.list none) true none
    CompleteOk f = true ∧ Sat env0 f (.tuple [.none, .int 1]) ∧ validate env0 f (.tuple [.none, .int 1]) = .ok (.tuple [.none, .int 1]) :=
  covered env0 envOk_env0 _ (.tuple [.none, .int 1]) _ (by decide) (by decide +kernel)

/-- typed list: `ListField(PortField(required=True), required=True)` -/
example : CompleteOk ports = true ∧ Sat env0 ports (.list [.int 80, .int 443, .int 8080]) ∧
    validate env0 ports (.list [.int 80, .int 443, .int 8080]) = .ok (.list [.int 80, .int 443, .int 8080]) :=
  covered env0 envOk_env0 _ (.tuple [.str " 80".toList, .int 443, .flt (.dy 1010 3)]) _ (by decide) (by decide +kernel)

/-- nested: a dict from lower-case names to optional lists of non-negative ints -/
example :
    let f : FieldSpec := .mk (.dict (some (.mk (.string { case := some .lower }) true none))
      (some (.mk (.list (some (.mk (.int (some (.int 0)) none) true none))) false none))) true none
    let v : Val := .dict [(.str "a".toList, .list [.int 0, .int 5]), (.str "b".toList, .none)]
    CompleteOk f = true ∧ Sat env0 f v ∧ validate env0 f v = .ok v :=
  covered env0 envOk_env0 _ (.dict [(.str "A".toList, .tuple [.str "0".toList, .int 5]), (.str "b".toList, .list [.int 1]),
    (.str "B".toList, .none)]) _ (by decide) (by decide +kernel)

/-! ### (c) the other two theorems at work -/

/-- a rejected value does not satisfy the declaration: 65536 is not a port -/
example : ¬ Sat env0 ports (.list [.int 80, .int 65536]) :=
  rejected_means_no_normal_form env0 ports _ .value (by decide) (by decide +kernel)

/-- an input that is changed was not in normal form -/
example : ¬ Sat env0 strField (.str " hello".toList) :=
  changed_means_no_normal_form env0 strField _ (.str "hello".toList) (by decide) (by decide +kernel) (by decide)

/-- `accepts_exactly`, right to left: the value is produced by some input (itself) -/
example : ∃ v0, validate env0 ports v0 = .ok (.list [.int 1]) :=
  (accepts_exactly env0 envOk_env0 ports _ (by decide)).2
    (validate_sound env0 envOk_env0 ports (.tuple [.str "1".toList]) _ (by decide +kernel))

end Demo

end Cinco.C05c
