import Cinco.Proofs.Cipher
import Cinco.Proofs.Base64
import Cinco.Crypto.Secure
/-
  C08 — ciphers invert exactly; AES is standard (CBC/PKCS7) with a fresh IV; bad input is rejected.
  The block function is a parameter with the law `dec k (enc k b) = b` on 16-byte blocks (a hypothesis about
  `cryptography`'s AES, not an axiom).  The executable FIPS-197 AES in Cinco/Crypto/Aes256.lean is used by the
  driver as the independent "standard implementation" in the correspondence check.
-/
namespace Cinco.C08
open Cinco Cinco.Crypto Cinco.Secure

/-- **XOR spec**: byte `i` of the result is byte `i` of the data XOR byte `i mod |key|` of the key. -/
theorem xor_spec (key p : Bytes) (hk : key ≠ []) (i : Nat) (hi : i < p.length) :
    ∃ kb, key[i % key.length]? = some kb ∧ (xorKey key p)[i]? = some (p[i] ^^^ kb) := by
  have hpos : 0 < key.length := List.length_pos_iff.2 hk
  have hlt : i % key.length < key.length := Nat.mod_lt _ hpos
  refine ⟨key[i % key.length], by simp [hlt], ?_⟩
  rw [xorKey_getElem?]
  simp [hi, hlt]

/-- **XOR is its own inverse** (any key, any data, any length relation between them). -/
theorem xor_involutive (key p : Bytes) : xorKey key (xorKey key p) = p := xorKey_involutive key p

theorem xor_length (key p : Bytes) : (xorKey key p).length = p.length := xorKey_length key p

/-- **PKCS7**: padding is 1..16 bytes to a positive multiple of 16 and unpadding inverts it, for every length. -/
theorem pkcs7_unpad (p : Bytes) :
    unpad (pad p) = some p ∧ (pad p).length % 16 = 0 ∧ 0 < padLen p.length ∧ padLen p.length ≤ 16 :=
  ⟨unpad_pad p, (pad_length p).1, (padLen_pos _).1, (padLen_pos _).2⟩

/-- **AES/CBC round trip** for every key, IV and plaintext of any length, for any lawful block cipher. -/
theorem cbc_roundtrip (C : BlockCipher) (hC : C.Lawful) (k iv p : Bytes) (hiv : iv.length = 16) :
    aesDecrypt C k (aesEncrypt C k iv p) = .ok p := by
  have hpl := pad_length p
  have hb16 := blocks_len (pad p) hpl.1
  have hc16 := cbcEnc_len C hC k (blocks (pad p)) iv hiv hb16
  have hflat : (cbcEnc C k iv (blocks (pad p))).flatten.length = 16 * (blocks (pad p)).length := by
    rw [flatten_length_of_len16 _ hc16, cbcEnc_length]
  have hbl : 16 * (blocks (pad p)).length = (pad p).length := by
    rw [← flatten_length_of_len16 _ hb16, flatten_blocks]
  unfold aesDecrypt aesEncrypt
  have htake : (iv ++ (cbcEnc C k iv (blocks (pad p))).flatten).take 16 = iv := by
    rw [← hiv]; simp
  have hdrop : (iv ++ (cbcEnc C k iv (blocks (pad p))).flatten).drop 16 = (cbcEnc C k iv (blocks (pad p))).flatten := by
    rw [← hiv]; simp
  have hlen : ¬ (iv ++ (cbcEnc C k iv (blocks (pad p))).flatten).length < 32 := by
    rw [List.length_append, hflat, hbl]; omega
  rw [if_neg hlen]
  simp only [htake, hdrop]
  have hal : ¬ (cbcEnc C k iv (blocks (pad p))).flatten.length % 16 ≠ 0 := by
    rw [hflat]; omega
  rw [if_neg hal, blocks_flatten _ hc16, cbcDec_cbcEnc C hC k _ iv hiv hb16, flatten_blocks, unpad_pad]

/-- **Layout**: the value is the IV followed by whole blocks; its length depends only on the plaintext length. -/
theorem aes_layout (C : BlockCipher) (hC : C.Lawful) (k iv p : Bytes) (hiv : iv.length = 16) :
    (aesEncrypt C k iv p).take 16 = iv ∧ (aesEncrypt C k iv p).length = 16 + 16 * (p.length / 16 + 1) := by
  have hpl := pad_length p
  have hb16 := blocks_len (pad p) hpl.1
  have hc16 := cbcEnc_len C hC k (blocks (pad p)) iv hiv hb16
  have hflat : (cbcEnc C k iv (blocks (pad p))).flatten.length = 16 * (blocks (pad p)).length := by
    rw [flatten_length_of_len16 _ hc16, cbcEnc_length]
  have hbl : 16 * (blocks (pad p)).length = (pad p).length := by
    rw [← flatten_length_of_len16 _ hb16, flatten_blocks]
  constructor
  · unfold aesEncrypt; rw [← hiv]; simp
  · unfold aesEncrypt
    rw [List.length_append, hflat, hbl, hiv]
    simp only [pad, List.length_append, List.length_replicate, padLen]
    omega

/-- **Fresh IV ⇒ fresh ciphertext**: two encryptions (of anything) under different IVs differ. -/
theorem fresh_iv (C : BlockCipher) (k iv₁ iv₂ p q : Bytes) (h1 : iv₁.length = 16) (h2 : iv₂.length = 16)
    (hne : iv₁ ≠ iv₂) : aesEncrypt C k iv₁ p ≠ aesEncrypt C k iv₂ q := by
  intro h
  apply hne
  have := congrArg (List.take 16) h
  unfold aesEncrypt at this
  rw [← h1] at this
  simp only [List.take_left'] at this
  rw [this, h1, ← h2]
  simp

/-- **Malformed AES values are rejected**: anything shorter than IV + one block, or not block-aligned, never decrypts. -/
theorem aes_malformed_rejected (C : BlockCipher) (k ct p : Bytes) (h : aesDecrypt C k ct = .ok p) :
    32 ≤ ct.length ∧ ct.length % 16 = 0 := by
  unfold aesDecrypt at h
  by_cases h1 : ct.length < 32
  · simp [h1] at h
  · rw [if_neg h1] at h
    by_cases h2 : (ct.drop 16).length % 16 ≠ 0
    · rw [if_pos h2] at h; cases h
    · simp only [List.length_drop] at h2
      constructor <;> omega

/-- **The recorded method is always concrete**: `best` is resolved before anything is stored. -/
theorem method_concrete (E : Env) (key iv : Bytes) (method : String) (text : Bytes) (m : Method) (ct : Bytes)
    (h : encrypt E key iv method text = some (m, ct)) :
    (m.name = "aes" ∨ m.name = "xor") ∧ (method = "best" → (m = .aes ↔ E.aesAvailable = true)) := by
  constructor
  · cases m <;> simp [Method.name]
  · intro hb
    subst hb
    unfold encrypt resolveMethod at h
    cases ha : E.aesAvailable <;> simp [ha] at h <;> simp [h.1.symm]

/-- **Field-level round trip**: what `to_basic` stores, `to_python` turns back into the plaintext — for every
    non-empty secret, key, IV and method (aes / xor / best). -/
theorem secure_roundtrip (E : Env) (hC : E.cipher.Lawful) (hU : E.utf8.Lawful) (key iv : Bytes) (hiv : iv.length = 16)
    (method : String) (s : Str) (hs : s ≠ []) (stored : Tree)
    (h : toBasic E key iv method (some s) = some stored) : toPython E key stored = some (some s) := by
  cases s with
  | nil => exact absurd rfl hs
  | cons c cs =>
    simp only [toBasic] at h
    cases he : encrypt E key iv method (E.utf8.enc (c :: cs)) with
    | none => simp [he] at h
    | some mc =>
      obtain ⟨m, ct⟩ := mc
      simp only [he, Option.some.injEq] at h
      subst h
      unfold encrypt at he
      cases hr : resolveMethod E.aesAvailable method with
      | none => simp [hr] at he
      | some m' =>
        cases m' with
        | aes =>
          simp only [hr, Option.some.injEq, Prod.mk.injEq] at he
          obtain ⟨hm, hct⟩ := he
          subst hm; subst hct
          have hra : resolveMethod E.aesAvailable "aes" = some .aes := by
            unfold resolveMethod at hr ⊢
            cases ha : E.aesAvailable <;> simp_all
          simp [toPython, Kvs.lookup, Method.name, B64.decodeStrict_encode, decrypt, hra,
            cbc_roundtrip E.cipher hC key iv _ hiv, hU (c :: cs)]
        | xor =>
          simp only [hr, Option.some.injEq, Prod.mk.injEq] at he
          obtain ⟨hm, hct⟩ := he
          subst hm; subst hct
          have hrx : resolveMethod E.aesAvailable "xor" = some .xor := by
            unfold resolveMethod; simp
          simp [toPython, Kvs.lookup, Method.name, B64.decodeStrict_encode, decrypt, hrx, xorKey_involutive, hU (c :: cs)]

/-- **What is stored for a secret**: never the plaintext node — exactly a two-key map holding a concrete method name and
    base64 text; an empty or unset secret is stored as null. -/
theorem secure_stored_shape (E : Env) (key iv : Bytes) (method : String) (v : Option Str) (stored : Tree)
    (h : toBasic E key iv method v = some stored) :
    stored = .null ∨ ∃ m ct, stored = .dict [("method", .str m.name.toList), ("ciphertext", .str (B64.encode ct))] ∧
      encrypt E key iv method (E.utf8.enc (v.getD [])) = some (m, ct) := by
  cases v with
  | none => left; simpa [toBasic] using h.symm
  | some s =>
    cases s with
    | nil => left; simpa [toBasic] using h.symm
    | cons c cs =>
      right
      simp only [toBasic] at h
      cases he : encrypt E key iv method (E.utf8.enc (c :: cs)) with
      | none => simp [he] at h
      | some mc => exact ⟨mc.1, mc.2, by simpa [he] using h.symm, by simp [he]⟩

/-- **Stored secrets of the wrong shape or encoding are rejected** (complete decision table): the only stored values
    that produce a value are null, a bare string, or a map with a known string method and strict base64 text
    (`b64decode(validate=True)`: alphabet characters and final padding only) that decrypts. -/
theorem stored_malformed_rejected (E : Env) (key : Bytes) (stored : Tree) (r : Option Str)
    (h : toPython E key stored = some r) :
    stored = .null ∨ (∃ s, stored = .str s) ∨
    ∃ d m c ct p, stored = .dict d ∧ Kvs.lookup "method" d = some (.str m) ∧ m ≠ [] ∧
      Kvs.lookup "ciphertext" d = some (.str c) ∧ B64.decodeStrict c = some ct ∧
      decrypt E key (String.ofList m) ct = some p ∧ E.utf8.dec p = r := by
  cases stored with
  | null => exact Or.inl rfl
  | str s => exact Or.inr (Or.inl ⟨s, rfl⟩)
  | dict d =>
    right; right
    simp only [toPython] at h
    cases hm : Kvs.lookup "method" d with
    | none => simp [hm] at h
    | some mv =>
      cases mv with
      | str m =>
        simp only [hm] at h
        by_cases hem : m.isEmpty
        · simp [hem] at h
        · simp only [hem, Bool.false_eq_true, if_false] at h
          cases hc : Kvs.lookup "ciphertext" d with
          | none => simp [hc] at h
          | some cv =>
            cases cv with
            | str c =>
              simp only [hc] at h
              cases hb : B64.decodeStrict c with
              | none => simp [hb] at h
              | some ct =>
                simp only [hb] at h
                cases hd : decrypt E key (String.ofList m) ct with
                | none => simp [hd] at h
                | some p =>
                  simp only [hd] at h
                  refine ⟨d, m, c, ct, p, rfl, hm, ?_, hc, hb, hd, ?_⟩
                  · intro e; subst e; simp at hem
                  · cases hu : E.utf8.dec p <;> simp [hu] at h ⊢ <;> exact h
            | _ => simp [hc] at h
      | _ => simp [hm] at h
  | _ => simp [toPython] at h

/-- **Foreign characters in the stored text are rejected**: a stored map whose ciphertext text contains a character outside
    `A–Z a–z 0–9 + / =` never produces a value — whatever the method, the key and the rest of the text (the non-strict
    decoder would skip such characters, so `"!!!!"` would read as the empty ciphertext and `good + "!!??"` as `good`). -/
theorem stored_foreign_characters_rejected (E : Env) (key : Bytes) (d : Kvs) (c : Str)
    (hc : Kvs.lookup "ciphertext" d = some (.str c))
    (hf : ∃ x ∈ c, B64.inAlphabet x = false ∧ x ≠ '=') :
    toPython E key (.dict d) = none := by
  have hb : B64.decodeStrict c = none := B64.decodeStrict_rejects_foreign c hf
  simp only [toPython]
  cases hm : Kvs.lookup "method" d with
  | none => rfl
  | some mv =>
    cases mv with
    | str m =>
      simp only [hc, hb]
      split <;> rfl
    | _ => rfl

/-- `"!!!!"` (non-strictly: the empty ciphertext) and a valid text with `"!!??"` appended (non-strictly: the same
    ciphertext) are rejected under every key, for both methods; the valid text itself is not, and the non-strict decoder
    (still used by the bytes and digest fields) reads all three. -/
example (E : Env) (key : Bytes) :
    toPython E key (.dict [("method", .str "xor".toList), ("ciphertext", .str "!!!!".toList)]) = none ∧
    toPython E key (.dict [("method", .str "aes".toList), ("ciphertext", .str "!!!!".toList)]) = none ∧
    toPython E key (.dict [("method", .str "xor".toList), ("ciphertext", .str "QUJD!!??".toList)]) = none ∧
    toPython E key (.dict [("method", .str "aes".toList), ("ciphertext", .str "QUJD!!??".toList)]) = none :=
  ⟨stored_foreign_characters_rejected E key _ _ rfl ⟨'!', by decide, by decide, by decide⟩,
   stored_foreign_characters_rejected E key _ _ rfl ⟨'!', by decide, by decide, by decide⟩,
   stored_foreign_characters_rejected E key _ _ rfl ⟨'?', by decide, by decide, by decide⟩,
   stored_foreign_characters_rejected E key _ _ rfl ⟨'?', by decide, by decide, by decide⟩⟩
example : B64.decode "!!!!".toList = some [] ∧ B64.decode "QUJD!!??".toList = some [65, 66, 67] ∧
    B64.decodeStrict "QUJD".toList = some [65, 66, 67] ∧
    B64.decodeStrict "!!!!".toList = none ∧ B64.decodeStrict "QUJD!!??".toList = none := by decide
/-- with the XOR method and the empty key (XOR with nothing is the identity) the valid text loads, the two others do not -/
example (E : Env) (hU : E.utf8.dec [65, 66, 67] = some ['A', 'B', 'C']) :
    toPython E [] (.dict [("method", .str ['x', 'o', 'r']), ("ciphertext", .str ['Q', 'U', 'J', 'D'])]) =
      some (some ['A', 'B', 'C']) := by
  have hd : B64.decodeStrict ['Q', 'U', 'J', 'D'] = some [65, 66, 67] := by decide
  simp [toPython, Kvs.lookup, hd, decrypt, resolveMethod, xorKey, hU]

/-- Non-vacuity: the identity "cipher" is lawful, so the hypotheses of `cbc_roundtrip` are satisfiable,
    and a 17-byte plaintext takes two blocks. -/
example : (⟨fun _ b => b, fun _ b => b⟩ : BlockCipher).Lawful := ⟨fun _ _ _ => rfl, fun _ _ h => h⟩
example : (aesEncrypt ⟨fun _ b => b, fun _ b => b⟩ [] (List.replicate 16 0) (List.replicate 17 7)).length = 48 := by decide

end Cinco.C08
