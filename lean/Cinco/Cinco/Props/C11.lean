import Cinco.Proofs.Cfg
/-
  C11 — a load that returns means required fields are set and every validator passed.
-/
namespace Cinco.C11
open Cinco Cinco.Field Cinco.Config

theorem validateFields_eq_find (W : World) (fuel : Nat) (path : String) (c : Cfg) :
    ∀ (fs : List (String × SField)), validateFields W fuel path c fs = (fs.filterMap (fun (k, f) => fieldProblem W fuel path c k f)).head?
  | [] => by simp [validateFields]
  | (k, f) :: rest => by
    have ih := validateFields_eq_find W fuel path c rest
    rw [validateFields]
    cases hp : fieldProblem W fuel path c k f with
    | some e => simp [hp]
    | none => simp [hp, ih]

/-- raising-mode validation, characterised: it returns normally iff the feature is off, or no field has a problem and
    every schema validator holds -/
theorem validateCfg_none_iff (W : World) (fuel : Nat) (s : Schema) (path : String) (c : Cfg) :
    validateCfg W (fuel + 1) s path c = none ↔
      (featureEnabled s c = false ∨
       ((∀ kf ∈ s.fields, fieldProblem W fuel path c kf.1 kf.2 = none) ∧ (∀ v ∈ s.validators, schemaValidator v c = true))) := by
  rw [validateCfg]
  by_cases hen : featureEnabled s c = true
  · have hnf : ¬ featureEnabled s c = false := by simp [hen]
    simp only [hen, Bool.not_true, Bool.false_eq_true, if_false]
    rw [validateFields_eq_find]
    have hflat : (s.fields.filterMap (fun (k, f) => fieldProblem W fuel path c k f)).head? = none ↔
        ∀ kf ∈ s.fields, fieldProblem W fuel path c kf.1 kf.2 = none := by
      rw [List.head?_eq_none_iff, List.filterMap_eq_nil_iff]
    cases hh : (s.fields.filterMap (fun (k, f) => fieldProblem W fuel path c k f)).head? with
    | some e =>
      simp only
      constructor
      · intro h; cases h
      · rintro (h | ⟨hall, _⟩)
        · simp at h
        · rw [hflat.2 hall] at hh; cases hh
    | none =>
      have hall := hflat.1 hh
      simp only
      by_cases hv : s.validators.all (fun v => schemaValidator v c) = true
      · simp only [hv, if_true, true_iff]
        exact Or.inr ⟨hall, by simpa using hv⟩
      · simp only [hv, Bool.false_eq_true, if_false]
        constructor
        · intro h; cases h
        · rintro (h | ⟨_, hvs⟩)
          · simp at h
          · exact absurd (by simpa using hvs) hv
  · have hf : featureEnabled s c = false := by simpa using hen
    simp [hf]

/-- **A validation that returns means every validator passed and no field is in violation**, in every enabled
    (sub)configuration: the configuration's own fields, its schema validators, and (recursively, by the same statement one
    level down) every nested configuration. -/
theorem validate_ok_means (W : World) (fuel : Nat) (s : Schema) (path : String) (c : Cfg)
    (hok : validateCfg W (fuel + 1) s path c = none) (hen : featureEnabled s c = true) :
    (∀ k fs m v, (k, SField.leaf fs m) ∈ s.fields → c.get k = some (.val v) → ∃ v', validate W.fe.toEnv fs v = .ok v') ∧
    (∀ k s' sub, ((k, SField.sub s') ∈ s.fields ∨ ∃ kf, (k, SField.ctype s' kf) ∈ s.fields) → c.get k = some (.node sub) →
        validateCfg W fuel s' (joinPath path k) sub = none) ∧
    (∀ v ∈ s.validators, schemaValidator v c = true) := by
  rcases (validateCfg_none_iff W fuel s path c).1 hok with h | ⟨hall, hvs⟩
  · rw [hen] at h; cases h
  · refine ⟨?_, ?_, hvs⟩
    · intro k fs m v hmem hget
      have := hall (k, .leaf fs m) hmem
      simp only [fieldProblem, hget] at this
      cases hv : validate W.fe.toEnv fs v with
      | ok v' => exact ⟨v', rfl⟩
      | error e => simp [hv] at this
    · intro k s' sub hmem hget
      rcases hmem with hmem | ⟨kf, hmem⟩
      · have := hall (k, .sub s') hmem
        simpa [fieldProblem, hget] using this
      · have := hall (k, .ctype s' kf) hmem
        simpa [fieldProblem, hget] using this

/-- **Required means set**: a required field that passes validation holds a value (not `None`); for strings, lists and
    dicts the validators themselves refuse the empty value when required. -/
theorem required_not_none (E : Env) (k : Kind) (c : Option String) (v v' : Val) (h : validate E (.mk k true c) v = .ok v') : v ≠ .none := by
  intro e; subst e; simp [validate] at h

theorem required_string_nonempty (o : StrOpts) (v : Val) (t : Str) (h : strRule o true v = .ok t) : t ≠ [] := by
  cases v <;> simp only [strRule] at h <;> try (cases h; done)
  split at h
  · rename_i hc
    cases h
    intro e
    simp [strChecks, e] at hc
  · cases h

/-- **A load with validation that returns has run the whole validation** on the resulting configuration. -/
theorem load_ok_validated (W : World) : ∀ (entries : List (Val × Val)) (fuel : Nat) (s : Schema) (path : String) (c : Cfg) (n : Nat),
    (loadTree W fuel s path c entries true n).err = none →
    validateCfg W (fuel + 1) s path (loadTree W fuel s path c entries true n).cfg = none
  | [], fuel, s, path, c, n, h => by
    unfold loadTree at h ⊢
    simpa using h
  | (key, value) :: rest, fuel, s, path, c, n, h => by
    unfold loadTree at h ⊢
    cases key <;> first | (simp at h; done) | skip
    rename_i ks
    simp only at h ⊢
    generalize hdec : decodeEntry W s path c (String.ofList ks) value = dec at h ⊢
    cases dec with
    | none => exact load_ok_validated W rest fuel s path c n h
    | some r =>
      cases r with
      | error e => simp at h
      | ok a =>
        simp only at h ⊢
        cases he : (setValue W fuel s path c (String.ofList ks) a n).err with
        | some e => simp [he] at h
        | none =>
          simp only [he] at h ⊢
          exact load_ok_validated W rest fuel s path _ _ h

/-- **Collecting mode finds something exactly when raising mode raises.** -/
theorem collect_iff_raise (W : World) (fuel : Nat) (s : Schema) (path : String) (c : Cfg) :
    (validateCollect W fuel s path c).isEmpty = false ↔ (validateCfg W (fuel + 1) s path c).isSome = true := by
  have hiff := validateCfg_none_iff W fuel s path c
  unfold validateCollect
  by_cases hen : featureEnabled s c = true
  · simp only [hen, Bool.not_true, Bool.false_eq_true, if_false]
    constructor
    · intro hne
      cases hv : validateCfg W (fuel + 1) s path c with
      | some e => rfl
      | none =>
        rcases hiff.1 hv with h | ⟨hall, hvs⟩
        · rw [hen] at h; cases h
        · have h1 : s.fields.filterMap (fun (k, f) => fieldProblem W fuel path c k f) = [] :=
            List.filterMap_eq_nil_iff.2 (fun kf hkf => hall kf hkf)
          have h2 : s.validators.filterMap (fun v => if schemaValidator v c then none else some (CErr.validation path)) = [] :=
            List.filterMap_eq_nil_iff.2 (fun v hv => by simp [hvs v hv])
          simp [h1, h2] at hne
    · intro hsome
      cases hl : (s.fields.filterMap (fun (k, f) => fieldProblem W fuel path c k f) ++
          s.validators.filterMap (fun v => if schemaValidator v c then none else some (CErr.validation path))) with
      | cons a t => rfl
      | nil =>
        have h1 := List.append_eq_nil_iff.1 hl
        have hall : ∀ kf ∈ s.fields, fieldProblem W fuel path c kf.1 kf.2 = none := List.filterMap_eq_nil_iff.1 h1.1
        have hvs : ∀ v ∈ s.validators, schemaValidator v c = true := by
          intro v hv
          have := List.filterMap_eq_nil_iff.1 h1.2 v hv
          by_cases hs : schemaValidator v c = true
          · exact hs
          · simp [hs] at this
        have := hiff.2 (Or.inr ⟨hall, hvs⟩)
        rw [this] at hsome; cases hsome
  · have hf : featureEnabled s c = false := by simpa using hen
    have := hiff.2 (Or.inl hf)
    simp [hf, this]

/-- **The feature flag exempts exactly its own configuration**: with the flag off nothing of this configuration is checked
    (and nothing is collected); whether a *parent* is checked never depends on this flag (`featureEnabled` of the parent reads
    only the parent's own flag fields). -/
theorem flag_off_exempt (W : World) (fuel : Nat) (s : Schema) (path : String) (c : Cfg) (h : featureEnabled s c = false) :
    validateCfg W (fuel + 1) s path c = none ∧ validateCollect W fuel s path c = [] := by
  constructor
  · exact (validateCfg_none_iff W fuel s path c).2 (Or.inl h)
  · simp [validateCollect, h]

end Cinco.C11
