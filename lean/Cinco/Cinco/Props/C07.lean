import Cinco.Crypto.KeyFile
/-
  C07 — key files: used verbatim, created once, rejected if malformed, never retained.
-/
namespace Cinco.C07
open Cinco.Crypto Cinco.KeyFile

/-- the per-object invariant: key material is present exactly while a context is open, and it is always 32 bytes -/
def Inv (o : Obj) : Prop :=
  (o.refcount = 0 → o.key = none) ∧ (0 < o.refcount → ∃ k, o.key = some k ∧ k.length = 32)

/-- `os.urandom(32)` returns 32 bytes -/
def TapeOk (w : World) : Prop := ∀ r ∈ w.tape, r.length = 32

/-- properly nested use: a context is only closed if it is open -/
def Allowed (s : State) : Op → Prop
  | .exit i => ∃ o, s.objs[i]? = some o ∧ 0 < o.refcount
  | _ => True

def AllowedRun : State → List Op → Prop
  | _, [] => True
  | s, op :: ops => Allowed s op ∧ AllowedRun (step s op).1 ops

theorem inv_fresh : Inv Obj.fresh := ⟨fun _ => rfl, fun h => absurd h (by simp [Obj.fresh])⟩

theorem hasKey_of_inv {o : Obj} (h : Inv o) : hasKey o = decide (0 < o.refcount) := by
  unfold hasKey
  by_cases hr : 0 < o.refcount
  · obtain ⟨k, hk, hl⟩ := h.2 hr
    have : k ≠ [] := by intro e; subst e; simp at hl
    cases k with
    | nil => exact absurd rfl this
    | cons _ _ => simp [hk, hr]
  · have : o.refcount = 0 := by omega
    simp [h.1 this, this]

/-- **Used verbatim, never modified**: a closed object entering on a 32-byte file takes exactly those bytes; the world is unchanged. -/
theorem kf_verbatim (o : Obj) (w : World) (k : Bytes) (hi : Inv o) (hc : o.refcount = 0)
    (hf : w.file = .data k) (hk : k.length = 32) :
    enter o w = ({ key := some k, refcount := 1 }, w, none) := by
  have hh : hasKey o = false := by rw [hasKey_of_inv hi]; simp [hc]
  simp [enter, hh, loadKey, hf, hk, hc]

/-- **Created once**: a missing file is created with the next 32 tape bytes, which are the session key;
    afterwards the file holds them, so every later session (any object) reads them back verbatim (`kf_verbatim`). -/
theorem kf_created (o : Obj) (w : World) (r : Bytes) (rest : List Bytes) (hi : Inv o) (hc : o.refcount = 0)
    (hf : w.file = .absent) (ht : w.tape = r :: rest) :
    enter o w = ({ key := some r, refcount := 1 }, { file := .data r, tape := rest }, none) := by
  have hh : hasKey o = false := by rw [hasKey_of_inv hi]; simp [hc]
  simp [enter, hh, loadKey, hf, ht, hc]

/-- **Rejected if malformed, on every attempt**: a file of any other size makes entering fail with an encryption error
    and leaves the object exactly as closed as before (so the next attempt meets the same situation), the file untouched. -/
theorem kf_bad_rejected (o : Obj) (w : World) (b : Bytes) (hi : Inv o) (hc : o.refcount = 0)
    (hf : w.file = .data b) (hb : b.length ≠ 32) :
    enter o w = (o, w, some .encryption) ∧ useKey o = .error .notOpen := by
  have hh : hasKey o = false := by rw [hasKey_of_inv hi]; simp [hc]
  have hk : o.key = none := hi.1 hc
  constructor
  · simp [enter, hh, loadKey, hf, hb]
    cases o; simp_all
  · simp [useKey, hk]

/-- **Nested contexts share one key**: entering an open object never touches the file system or the tape,
    whatever happened to the file meanwhile. -/
theorem kf_nested_share (o : Obj) (w : World) (hi : Inv o) (ho : 0 < o.refcount) :
    enter o w = ({ o with refcount := o.refcount + 1 }, w, none) := by
  have hh : hasKey o = true := by rw [hasKey_of_inv hi]; simp [ho]
  simp [enter, hh]

/-- **Never retained**: a closed object holds no key material and refuses to encrypt or decrypt. -/
theorem kf_closed (o : Obj) (hi : Inv o) (hc : o.refcount = 0) : o.key = none ∧ useKey o = .error .notOpen := by
  have hk : o.key = none := hi.1 hc
  exact ⟨hk, by simp [useKey, hk]⟩

theorem enter_inv (o : Obj) (w : World) (hi : Inv o) (ht : TapeOk w) :
    Inv (enter o w).1 ∧ TapeOk (enter o w).2.1 := by
  by_cases ho : 0 < o.refcount
  · rw [kf_nested_share o w hi ho]
    refine ⟨⟨fun h => by simp at h, fun _ => ?_⟩, ht⟩
    simpa using hi.2 ho
  · have hc : o.refcount = 0 := by omega
    have hh : hasKey o = false := by rw [hasKey_of_inv hi]; simp [hc]
    have hk : o.key = none := hi.1 hc
    unfold enter
    simp only [hh, Bool.false_eq_true, if_false]
    unfold loadKey
    cases hf : w.file with
    | data b =>
      by_cases hb : b.length = 32
      · simp only [hb, if_true]
        exact ⟨⟨fun h => by simp at h, fun _ => ⟨b, rfl, hb⟩⟩, ht⟩
      · simp only [hb, if_false]
        exact ⟨⟨fun _ => rfl, fun h => by simp [hc] at h⟩, ht⟩
    | absent =>
      cases htp : w.tape with
      | nil =>
        simp only
        exact ⟨⟨fun _ => rfl, fun h => by simp [hc] at h⟩, ht⟩
      | cons r rest =>
        simp only
        refine ⟨⟨fun h => by simp at h, fun _ => ⟨r, rfl, ht r (by simp [htp])⟩⟩, ?_⟩
        intro x hx
        exact ht x (by simp [htp]; exact Or.inr hx)
    | unwritable =>
      cases htp : w.tape with
      | nil =>
        simp only
        exact ⟨⟨fun _ => rfl, fun h => by simp [hc] at h⟩, ht⟩
      | cons r rest =>
        simp only
        refine ⟨⟨fun _ => rfl, fun h => by simp [hc] at h⟩, ?_⟩
        intro x hx
        exact ht x (by simp [htp]; exact Or.inr hx)

theorem exit_inv (o : Obj) (hi : Inv o) (ho : 0 < o.refcount) : Inv (exit o).1 := by
  unfold exit
  match hr : o.refcount with
  | 0 => omega
  | 1 => exact ⟨fun _ => rfl, fun h => by simp at h⟩
  | n + 2 =>
    refine ⟨fun h => by simp at h, fun _ => ?_⟩
    simpa using hi.2 ho

def StateInv (s : State) : Prop := (∀ o ∈ s.objs, Inv o) ∧ TapeOk s.world

/-- **One step preserves the invariant** (every operation kind, including external changes of the file). -/
theorem step_inv (s : State) (op : Op) (hs : StateInv s) (ha : Allowed s op) : StateInv (step s op).1 := by
  obtain ⟨ho, ht⟩ := hs
  cases op with
  | enter i =>
    simp only [step]
    cases hg : s.objs[i]? with
    | none => exact ⟨ho, ht⟩
    | some o =>
      have hio : Inv o := ho o (List.mem_of_getElem? hg)
      have := enter_inv o s.world hio ht
      refine ⟨?_, this.2⟩
      intro x hx
      rcases List.mem_or_eq_of_mem_set hx with h | h
      · exact ho x h
      · rw [h]; exact this.1
  | exit i =>
    simp only [step]
    obtain ⟨o, hg, hpos⟩ := ha
    simp only [hg]
    refine ⟨?_, ht⟩
    intro x hx
    rcases List.mem_or_eq_of_mem_set hx with h | h
    · exact ho x h
    · rw [h]; exact exit_inv o (ho o (List.mem_of_getElem? hg)) hpos
  | use i =>
    simp only [step]
    cases s.objs[i]? <;> exact ⟨ho, ht⟩
  | newObj =>
    refine ⟨?_, ht⟩
    intro x hx
    simp only [step, List.mem_append, List.mem_singleton] at hx
    rcases hx with h | h
    · exact ho x h
    · rw [h]; exact inv_fresh
  | extWrite b => exact ⟨ho, ht⟩
  | extDelete => exact ⟨ho, ht⟩
  | extUnwritable => exact ⟨ho, ht⟩

/-- **Every reachable state satisfies the invariant**, along any properly nested history with external file changes. -/
theorem run_inv : ∀ (ops : List Op) (s : State), StateInv s → AllowedRun s ops → StateInv (run s ops).1
  | [], _, hs, _ => hs
  | op :: ops, s, hs, ha => by
    simp only [run]
    exact run_inv ops (step s op).1 (step_inv s op hs ha.1) ha.2

/-- **No encryption or decryption ever runs with anything but a 32-byte key**: every key observed through
    `encrypt`/`decrypt` along any such history has length 32 (so the content of a malformed file is never used). -/
theorem run_keys_32 : ∀ (ops : List Op) (s : State), StateInv s → AllowedRun s ops →
    ∀ k, Out.key k ∈ (run s ops).2 → k.length = 32
  | [], _, _, _ => by simp [run]
  | op :: ops, s, hs, ha => by
    intro k hk
    simp only [run, List.mem_cons] at hk
    rcases hk with hk | hk
    · cases op with
      | use i =>
        simp only [step] at hk
        cases hg : s.objs[i]? with
        | none => simp [hg] at hk
        | some o =>
          simp only [hg] at hk
          have hio : Inv o := hs.1 o (List.mem_of_getElem? hg)
          unfold useKey at hk
          cases hkey : o.key with
          | none => simp [hkey] at hk
          | some k' =>
            simp only [hkey] at hk
            by_cases he : k'.isEmpty
            · simp [he] at hk
            · simp only [he, Bool.false_eq_true, if_false, Out.key.injEq] at hk
              subst hk
              by_cases hr : 0 < o.refcount
              · obtain ⟨k2, h2, hl⟩ := hio.2 hr
                rw [hkey] at h2; cases h2; exact hl
              · have := hio.1 (by omega); rw [hkey] at this; cases this
      | enter i =>
        simp only [step] at hk
        cases hg : s.objs[i]? with
        | none => simp [hg] at hk
        | some o => simp only [hg] at hk; split at hk <;> cases hk
      | exit i =>
        simp only [step] at hk
        cases hg : s.objs[i]? with
        | none => simp [hg] at hk
        | some o => simp only [hg] at hk; split at hk <;> cases hk
      | newObj => cases hk
      | extWrite b => cases hk
      | extDelete => cases hk
      | extUnwritable => cases hk
    · exact run_keys_32 ops (step s op).1 (step_inv s op hs ha.1) ha.2 k hk

/-- Non-vacuity: two fresh objects over an absent file and a two-entry tape satisfy the invariant, and a
    history with a nested context, an external corruption and a rejected re-open is allowed. -/
example : StateInv ⟨[Obj.fresh, Obj.fresh], ⟨.absent, [List.replicate 32 1, List.replicate 32 2]⟩⟩ :=
  ⟨by intro o ho; have : o = Obj.fresh := by simpa using ho
      rw [this]; exact inv_fresh,
   by intro r hr; simp at hr; rcases hr with h | h <;> simp [h]⟩
example : (run ⟨[Obj.fresh, Obj.fresh], ⟨.absent, [List.replicate 32 1]⟩⟩
      [.enter 0, .enter 0, .use 0, .exit 0, .exit 0, .use 0, .extWrite [1, 2, 3], .enter 1, .use 1]).2 =
    [.ok, .ok, .key (List.replicate 32 1), .ok, .ok, .err .notOpen, .ok, .err .encryption, .err .notOpen] := by decide

end Cinco.C07
