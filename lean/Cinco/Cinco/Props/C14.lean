import Cinco.Config.Env
import Cinco.Proofs.Cfg
/-
  C14 — environment variables beat files, assignment beats both, names are predictable.
-/
namespace Cinco.C14
open Cinco Cinco.Field Cinco.Config

/-! ### Names -/

/-- the closed form of an inherited prefix: start from `base`, append `_KEY` for every schema key on the way down -/
def prefixOf (base : String) (keys : List String) : String :=
  keys.foldl (fun p k => (if p.isEmpty then "" else p ++ "_") ++ upperStr k) base

/-- **Nested schemas inherit**: below a schema whose prefix is the string `p`, a chain of schemas that leave `env` unset has
    the prefix `p_KEY1_KEY2…` (upper-cased, underscore-joined; no leading underscore when `p` is empty, i.e. `env=True`). -/
theorem prefix_inherited (p : String) : ∀ (chain : List (String × EnvSetting)), (∀ ks ∈ chain, ks.2 = .unset) →
    chain.foldl (fun q (ks : String × EnvSetting) => childPrefix q ks.2 ks.1) (.str p) = .str (prefixOf p (chain.map (·.1)))
  | [], _ => rfl
  | (k, st) :: rest, h => by
    have hst : st = .unset := h (k, st) (by simp)
    subst hst
    simp only [List.foldl_cons, List.map_cons, prefixOf]
    have := prefix_inherited ((if p.isEmpty then "" else p ++ "_") ++ upperStr k) rest (fun ks hks => h ks (by simp [hks]))
    simpa [childPrefix, initPrefix, prefixOf] using this

/-- **A field with `env` unset under a string prefix, or with `env=True`, is bound to `PREFIX_KEY`** (just `KEY` without a prefix). -/
theorem field_name_derived (p : String) (k : String) :
    fieldVar (.str p) .unset k = some ((if p.isEmpty then "" else p ++ "_") ++ upperStr k) ∧
    fieldVar (.str p) .auto k = some ((if p.isEmpty then "" else p ++ "_") ++ upperStr k) ∧
    fieldVar .none .auto k = some (upperStr k) ∧ fieldVar .off .auto k = some (upperStr k) := ⟨rfl, rfl, rfl, rfl⟩

/-- an explicit name is used verbatim; `env=False` opts the field out, whatever the schemas say -/
theorem field_named_or_disabled (pf : Prefix) (s k : String) :
    fieldVar pf (.named s) k = some s ∧ fieldVar pf .disabled k = none := by
  cases pf <;> exact ⟨rfl, rfl⟩

/-- **Opt-out and absence propagate**: without a string prefix above (none declared, or `env=False`), schemas that leave `env`
    unset get no prefix and their fields with `env` unset are bound to nothing; a nested `env="NAME"` / `env=True` restarts. -/
theorem no_prefix_no_binding (pf : Prefix) (hp : ∀ p, pf ≠ .str p) (k : String) :
    fieldVar pf .unset k = none ∧ (∀ key, childPrefix pf .unset key = .none) ∧
    (∀ key s, childPrefix pf (.named s) key = .str s) ∧ (∀ key, childPrefix pf .auto key = .str "") ∧
    (∀ key, childPrefix pf .disabled key = .off) := by
  cases pf with
  | str p => exact absurd rfl (hp p)
  | none => exact ⟨rfl, fun _ => rfl, fun _ _ => rfl, fun _ => rfl, fun _ => rfl⟩
  | off => exact ⟨rfl, fun _ => rfl, fun _ _ => rfl, fun _ => rfl, fun _ => rfl⟩

/-- the documented example: `Schema(env=True)`, `db.host` → `DB_HOST`; `auth = Schema(env="SECRET")`, `auth.username` → `SECRET_USERNAME` -/
example : envName .auto [("db", .unset)] .unset "host" = some "DB_HOST" ∧
    envName .auto [("auth", .named "SECRET")] .unset "username" = some "SECRET_USERNAME" ∧
    envName .auto [] (.named "APP_MODE") "mode" = some "APP_MODE" ∧ envName .auto [] .disabled "port" = none ∧
    envName .unset [("db", .unset)] .unset "host" = none ∧ envName .auto [("a", .disabled), ("b", .unset)] .unset "x" = none := by decide

/-! ### Precedence -/

/-- **The variable wins at construction**: a non-empty variable bound to a field that takes its default through
    `Field.__setdefault__` is validated and becomes the field's value (not marked user-defined). -/
theorem env_wins_build (W : World) (path k : String) (fs : FieldSpec) (m : LeafMeta) (c : Cfg) (n : Nat) (s : Str) (v : Val)
    (hk : usesBaseSetdefault fs.kind = true) (hc : ∀ alg, fs.kind ≠ .challenge alg)
    (henv : envValue W m = some s) (hv : validate W.fe.toEnv fs (.str s) = .ok v) (hnn : v ≠ .none) :
    setDefault W path k (.leaf fs m) c n = .ok (c.setDefault k (.val v), n) := by
  unfold setDefault
  cases hkind : fs.kind <;> simp [hkind, usesBaseSetdefault] at hk hc ⊢ <;> simp [henv, hv] <;> (cases v <;> first | (exact absurd rfl hnn) | rfl)

/-- **An invalid variable makes construction fail with a ValidationError naming the field.** -/
theorem env_invalid (W : World) (path k : String) (fs : FieldSpec) (m : LeafMeta) (c : Cfg) (n : Nat) (s : Str) (e : Field.Err)
    (hk : usesBaseSetdefault fs.kind = true) (hc : ∀ alg, fs.kind ≠ .challenge alg)
    (henv : envValue W m = some s) (hv : validate W.fe.toEnv fs (.str s) = .error e) :
    setDefault W path k (.leaf fs m) c n = .error (fieldErr path k e) := by
  unfold setDefault
  cases hkind : fs.kind <;> simp [hkind, usesBaseSetdefault] at hk hc ⊢ <;> simp [henv, hv]

/-- **Documents loaded afterwards never override it**: while the variable is set, `load_tree` skips the key. -/
theorem env_beats_load (W : World) (fuel : Nat) (s : Schema) (path : String) (c : Cfg) (k : Str) (value : Val) (rest : List (Val × Val))
    (doValidate : Bool) (n : Nat) (fs : FieldSpec) (m : LeafMeta) (hf : s.get (String.ofList k) = some (.leaf fs m)) (x : Str)
    (henv : envValue W m = some x) :
    loadTree W fuel s path c ((.str k, value) :: rest) doValidate n = loadTree W fuel s path c rest doValidate n := by
  conv => lhs; unfold loadTree
  have hg : getField s c (String.ofList k) = .declared (.leaf fs m) := by simp [getField, hf]
  simp [decodeEntry, hg, henv]

/-- **Unset or empty variables, and fields without a binding, behave as if no binding existed**: construction and loads do
    not depend on the binding. -/
theorem env_absent_noop (W : World) (m : LeafMeta) (h : envValue W m = none) :
    envValue W { m with env := none } = none ∧ envValue W m = envValue W { m with env := none } := by
  have h0 : envValue W { m with env := none } = none := by simp [envValue]
  exact ⟨h0, by rw [h, h0]⟩

/-- the variable counts as absent exactly when the field is unbound, the variable is unset, or it is the empty string -/
theorem envValue_none_iff (W : World) (m : LeafMeta) :
    envValue W m = none ↔ (m.env = none ∨ m.env = some "" ∨ ∃ nm, m.env = some nm ∧ (W.environ nm = none ∨ W.environ nm = some "")) := by
  unfold envValue
  cases hm : m.env with
  | none => simp
  | some nm =>
    by_cases he : nm.isEmpty = true
    · have : nm = "" := by simpa using he
      simp [he, this]
    · cases hw : W.environ nm with
      | none => simp [he, hw]
      | some sv =>
        by_cases hs : sv.isEmpty = true
        · have : sv = "" := by simpa using hs
          simp [he, hw, hs, this]
        · have hne : nm ≠ "" := by intro e; subst e; simp at he
          have hsne : sv ≠ "" := by intro e; subst e; simp at hs
          simp [he, hw, hs, hne, hsne]

/-- **Finding F10 is real**: a typed list field bound to a set variable ignores it at construction (the default is stored),
    yet loads skip the key (`env_beats_load` holds for every leaf kind) — so the field can never receive the file's value either. -/
theorem env_ignored_by_lists (W : World) (path k : String) (item : Option FieldSpec) (req : Bool) (m : LeafMeta) (c : Cfg) (n : Nat)
    (hd : m.default.value = .none) :
    setDefault W path k (.leaf (.mk (.list item) req none) m) c n = .ok (c.setDefault k (.val .none), n) := by
  unfold setDefault
  simp [FieldSpec.kind, hd]

end Cinco.C14
