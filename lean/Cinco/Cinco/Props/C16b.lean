import Cinco.Props.C16
import Cinco.Generated.Parser
import Cinco.Generated.SupportShape
/-
  C16 (continuation) — the generated parser hands the command line's text to the field and adds nothing of its own.
  The model's parser (`genParser` / `parseArgs`, Config/Paths.lean) has exactly three kinds of option: one that stores the text it is
  given, a switch that stores `True`, a switch that stores `False`; absent options are `None`.  That is what argparse does for an
  `add_argument` call which passes nothing but `action`, `dest`, `help`, `metavar` and `default=None`: any further keyword — `type=`,
  `choices=`, `nargs=`, `const=`, `required=`, a default other than `None` — would make argparse convert, refuse or supply values
  before the field's own validation sees them ("each through normal validation" would then be false: a spelling the field
  normalises into a declared choice would be refused by the parser).  `parser_adds_nothing` is that reading of /repo's
  `generate_argparse_parser`, regenerated on every run; the other theorems say what the three kinds of option do in the model.
-/
namespace Cinco.C16b
open Cinco Cinco.Config

/-- the keywords under which argparse stores the text / the switch constant as it is -/
def neutralKeywords : List String := ["action", "dest", "help", "metavar", "default"]

def neutralCall (c : String × List String × Bool) : Bool :=
  (c.1 == "store" || c.1 == "store_true" || c.1 == "store_false") && c.2.1.all neutralKeywords.contains && c.2.2 &&
  (c.1 == "store" || c.2.1.contains "default")          -- a switch must say `default=None`, or argparse supplies False / True itself (F14)

/-- **/repo's parser passes nothing to argparse that converts, restricts or supplies values** (generated table) -/
theorem parser_adds_nothing : Generated.parserCalls.all neutralCall = true ∧
    (Generated.parserCalls.map (·.1)) = ["store", "store_true", "store_false"] := by decide

/-- a supplied value option is handed over as the text the user wrote: the namespace holds exactly that value for its destination -/
theorem supplied_text_reaches_namespace (opts : List OptSpec) (d : String) (v : Val) (hd : d ∈ opts.map (·.dest)) :
    (d, some v) ∈ parseArgs opts [(d, some v)] := by
  simp only [parseArgs, List.reverse_cons, List.reverse_nil, List.nil_append, List.mem_map]
  refine ⟨d, List.mem_eraseDups.2 hd, ?_⟩
  simp

/-- an option the user did not supply is `None` in the namespace, whatever the parser's options are -/
theorem unsupplied_is_none (opts : List OptSpec) (given : List (String × Option Val)) (d : String) (h : ∀ g ∈ given, g.1 ≠ d) :
    ∀ e ∈ parseArgs opts given, e.1 = d → e.2 = none := by
  intro e he hed
  simp only [parseArgs, List.mem_map] at he
  obtain ⟨d', _, rfl⟩ := he
  simp only at hed
  subst hed
  have : given.reverse.find? (fun g => g.1 == d') = none := by
    rw [List.find?_eq_none]
    intro g hg
    have := h g (List.mem_reverse.1 hg)
    simpa using this
  simp [this]

/-- **/repo's `cmdline_args_override` and `get_all_fields` are what `cmdlineOverride` / `allPaths` of Config/Paths.lean follow**
    (generated reading of cincoconfig/support.py, regenerated on every run): every namespace entry that is not ignored and not `None`
    goes through the configuration's own `__setitem__` with the value as it is, in namespace order, nothing else is touched; the
    enumeration lists each field under prefix + key in schema order and expands a nested schema right after its own entry -/
theorem override_code_order :
    Generated.supportShape.lookup "cmdline_args_override" =
      some ["if[isinstance(ignore, str)]", "ignore = [ignore]", "else", "ignore = ignore or []", "end", "loop[vars(args).items()]",
            "if[key not in ignore and value is not None]", "config.__setitem__(key, value)", "end", "end"] ∧
    Generated.supportShape.lookup "get_all_fields" =
      some ["if[isinstance(schema, Config)]", "schema = schema._schema", "end", "ret = []",
            "prefix = schema._key + '.' if schema._key else ''", "loop[schema._fields.items()]",
            "ret.append((prefix + key, schema, field))", "if[isinstance(field, Schema)]",
            "ret.extend([(prefix + subkey, schema, subfield) for subkey, schema, subfield in get_all_fields(field)])", "end", "end",
            "return ret"] := by decide

end Cinco.C16b
