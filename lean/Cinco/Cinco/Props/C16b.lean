import Cinco.Props.C16
import Cinco.Generated.Parser
/-
  C16 (continuation) — the generated parser hands the command line's text to the field and adds nothing of its own.
  The model's parser (`genParser` / `parseArgs`, Config/Paths.lean) has exactly three kinds of option: one that stores the text it is
  given, a switch that stores `True`, a switch that stores `False`; absent options are `None`.  That is what argparse does for an
  `add_argument` call which passes nothing but `action`, `dest`, `help`, `metavar` and `default=None`: any further keyword — `type=`,
  `choices=`, `nargs=`, `const=`, `required=`, a default other than `None` — would make argparse convert, refuse or supply values
  before the field's own validation sees them ("each through normal validation" would then be false: a spelling the field
  normalises into a declared choice would be refused by the parser).  `parser_adds_nothing` is that reading of /repo's
  `generate_argparse_parser`, regenerated on every run; the other theorems say what the three kinds of option do in the model.
-/
namespace Cinco.C16b
open Cinco Cinco.Config

/-- the keywords under which argparse stores the text / the switch constant as it is -/
def neutralKeywords : List String := ["action", "dest", "help", "metavar", "default"]

def neutralCall (c : String × List String × Bool) : Bool :=
  (c.1 == "store" || c.1 == "store_true" || c.1 == "store_false") && c.2.1.all neutralKeywords.contains && c.2.2 &&
  (c.1 == "store" || c.2.1.contains "default")          -- a switch must say `default=None`, or argparse supplies False / True itself (F14)

/-- **/repo's parser passes nothing to argparse that converts, restricts or supplies values** (generated table) -/
theorem parser_adds_nothing : Generated.parserCalls.all neutralCall = true ∧
    (Generated.parserCalls.map (·.1)) = ["store", "store_true", "store_false"] := by decide

/-- a supplied value option is handed over as the text the user wrote: the namespace holds exactly that value for its destination -/
theorem supplied_text_reaches_namespace (opts : List OptSpec) (d : String) (v : Val) (hd : d ∈ opts.map (·.dest)) :
    (d, some v) ∈ parseArgs opts [(d, some v)] := by
  simp only [parseArgs, List.reverse_cons, List.reverse_nil, List.nil_append, List.mem_map]
  refine ⟨d, List.mem_eraseDups.2 hd, ?_⟩
  simp

/-- an option the user did not supply is `None` in the namespace, whatever the parser's options are -/
theorem unsupplied_is_none (opts : List OptSpec) (given : List (String × Option Val)) (d : String) (h : ∀ g ∈ given, g.1 ≠ d) :
    ∀ e ∈ parseArgs opts given, e.1 = d → e.2 = none := by
  intro e he hed
  simp only [parseArgs, List.mem_map] at he
  obtain ⟨d', _, rfl⟩ := he
  simp only at hed
  subst hed
  have : given.reverse.find? (fun g => g.1 == d') = none := by
    rw [List.find?_eq_none]
    intro g hg
    have := h g (List.mem_reverse.1 hg)
    simpa using this
  simp [this]

end Cinco.C16b
