import Cinco.Proofs.Keys
import Cinco.Props.C02
import Cinco.Props.C08
/-
  C03 — secrets are stored only encrypted, under the key file of the nearest ancestor that names one.
  `toTreeK WK` is `Config.to_tree()` with the world (hence the encryption key) chosen per configuration by the bubbling rule of
  `Config._keyfile`; `WK k` is the world whose secrets are encrypted under key file `k`.
-/
namespace Cinco.C03
open Cinco Cinco.Field Cinco.Config

/-! ### what is written for a secret -/

/-- **A secret is written as its encryption under the holder's key file**: for a secure leaf holding a non-empty string in a
    configuration whose key file is `key`, the tree holds exactly what `encrypt` returns under `key` (and `to_tree` raises if
    encryption fails) — never the held string itself. -/
theorem secret_rendered_encrypted (WK : String → World) (fuel : Nat) (key : String) (c : Cfg) (k : String)
    (method : String) (req : Bool) (cu : Option String) (m : LeafMeta) (s : Str) (hs : s ≠ [])
    (hv : c.get k = some (.val (.str s))) :
    renderFieldK WK fuel key c k (.leaf (.mk (.secure method) req cu) m) =
      ((WK key).fe.encryptS method s).map some := by
  rw [renderFieldK]
  simp only [hv, toBasic, toBasicKind]
  have : s.isEmpty = false := by cases s <;> simp_all
  simp only [this, Bool.false_eq_true, if_false]
  cases (WK key).fe.encryptS method s <;> rfl

/-- what `encrypt` returns (C08): a two-entry map with a concrete method name and base64 ciphertext, for every key, IV, method
    and non-empty secret; the plaintext node is not part of it -/
theorem stored_form (E : Secure.Env) (key iv : Bytes) (method : String) (s : Str) (hs : s ≠ []) (stored : Tree)
    (h : Secure.toBasic E key iv method (some s) = some stored) :
    ∃ (m : Secure.Method) (ct : Bytes), stored = .dict [("method", .str m.name.toList), ("ciphertext", .str (B64.encode ct))] ∧
      (m.name = "aes" ∨ m.name = "xor") := by
  rcases C08.secure_stored_shape E key iv method (some s) stored h with h0 | ⟨m, ct, h1, h2⟩
  · cases s with
    | nil => exact absurd rfl hs
    | cons a r =>
      simp only [Secure.toBasic] at h
      cases he : Secure.encrypt E key iv method (E.utf8.enc (a :: r)) with
      | none => simp [he] at h
      | some mc => simp [he] at h; subst h; cases h0
  · exact ⟨m, ct, h1, (C08.method_concrete E key iv method _ m ct h2).1⟩

/-- …and it decrypts to the secret with the same key (C08), for every key, IV and method -/
theorem stored_decrypts (E : Secure.Env) (hC : E.cipher.Lawful) (hU : E.utf8.Lawful) (key iv : Bytes) (hiv : iv.length = 16)
    (method : String) (s : Str) (hs : s ≠ []) (stored : Tree)
    (h : Secure.toBasic E key iv method (some s) = some stored) : Secure.toPython E key stored = some (some s) :=
  C08.secure_roundtrip E hC hU key iv hiv method s hs stored h

/-! ### which key file -/

/-- **Nearest named ancestor.**  Along any chain of configurations from the root down, the key file in use at the end is the
    last one named on the chain… -/
theorem nearest_named (dflt : String) (before after : List (Option String)) (k : String)
    (hafter : ∀ x ∈ after, x = none) : keyAlong dflt (before ++ some k :: after) = k :=
  keyAlong_nearest dflt before after k hafter

/-- …and the default one only if none names one. -/
theorem default_only_if_unnamed (dflt : String) (chain : List (Option String)) (h : ∀ x ∈ chain, x = none) :
    keyAlong dflt chain = dflt :=
  keyAlong_all_none dflt chain h

/-- the recursion of `toTreeK` hands each configuration the key file of its parent: at the end of a path of sub-configuration
    names the key file is `keyAlong` of the own names on that path -/
theorem key_on_path (dflt : String) (c sub : Cfg) (k : String) (rest : List String) (ch : List (Option String))
    (hg : c.get k = some (.node sub)) (hs : ownChain sub rest = some ch) :
    ownChain c (k :: rest) = some (c.keyfile :: ch) ∧
    keyAlong dflt (c.keyfile :: ch) = keyAlong (effKey dflt c) ch := by
  constructor
  · simp [ownChain, hg, hs]
  · unfold effKey; cases c.keyfile <;> rfl

/-- **No other key file is used**: the serialised tree depends on the worlds `WK` only at the key files of the configurations
    of the tree (each the nearest named one, or the default) — changing, creating or deleting any other key file cannot
    change what is written. -/
theorem only_tree_keys_matter (WK WK' : String → World) (fuel : Nat) (dflt : String) (s : Schema) (c : Cfg)
    (h : ∀ x ∈ nodeKeys fuel dflt s c, WK x = WK' x) : toTreeK WK fuel dflt s c = toTreeK WK' fuel dflt s c :=
  toTreeK_congr WK WK' fuel dflt s c h

/-- each of those key files is the default or one that a configuration of the tree names -/
theorem tree_keys_are_named_or_default (fuel : Nat) (dflt : String) (s : Schema) (c : Cfg) :
    ∀ x ∈ nodeKeys fuel dflt s c, x = dflt ∨ x ∈ namedKeys fuel s c :=
  nodeKeys_subset fuel dflt s c

/-- **The default key file is not used when the root names one.** -/
theorem default_unused (WK WK' : String → World) (fuel : Nat) (dflt : String) (s : Schema) (c : Cfg) (k : String)
    (hk : c.keyfile = some k) (hd : dflt ∉ namedKeys fuel s c) (h : ∀ x, x ≠ dflt → WK x = WK' x) :
    toTreeK WK fuel dflt s c = toTreeK WK' fuel dflt s c := by
  apply toTreeK_congr
  intro x hx
  have := nodeKeys_named_root fuel dflt s c k hk x hx
  exact h x (fun e => hd (e ▸ this))

/-- when one key file serves the whole tree (only the root names one, or nobody does), the keyed serialisation is the plain
    `to_tree` in the world of that key file — which ties C03 to the models verified in C02 and C10 -/
theorem uniform_tree (WK : String → World) (fuel : Nat) (dflt : String) (s : Schema) (c : Cfg) (k0 : String)
    (h : ∀ x ∈ nodeKeys fuel dflt s c, x = k0) :
    toTreeK WK fuel dflt s c = toTree (WK k0) fuel s c false none := by
  rw [← toTreeK_const (WK k0) fuel dflt s c]
  exact toTreeK_congr WK (fun _ => WK k0) fuel dflt s c (fun x hx => by rw [h x hx])

theorem uniform_when_unnamed (WK : String → World) (fuel : Nat) (dflt : String) (s : Schema) (c : Cfg)
    (h : namedKeys fuel s c = []) : toTreeK WK fuel dflt s c = toTree (WK dflt) fuel s c false none :=
  uniform_tree WK fuel dflt s c dflt (nodeKeys_unnamed fuel dflt s c h)

/-! ### loading with the same key file -/

/-- **Reload under the same key file** (whole tree served by one key file `k0`): what was written decrypts and reloads to the
    same values in every (sub)configuration, by the round-trip theorem of C02 in the world of `k0`; its per-leaf codec premise
    is, for secrets, `stored_decrypts`. -/
theorem reload_same_key_partial (WK : String → World) (fuel : Nat) (dflt : String) (s : Schema) (c : Cfg) (k0 : String)
    (huni : ∀ x ∈ nodeKeys fuel dflt s c, x = k0)
    (t : List (Val × Val)) (c0 : Cfg) (n0 n1 : Nat)
    (hnd : s.keysNodup = true) (hsr : SchemaLoadable (WK k0) fuel s) (hsh : Shaped fuel s c)
    (hco : CodecOkAll (WK k0) fuel s c) (hst : StableAll (WK k0) fuel s c) (hvd : ValidDeep (WK k0) fuel s c)
    (hv : ∃ p, validateCfg (WK k0) (fuel + 1) s p c = none)
    (ht : toTreeK WK fuel dflt s c = some t) (hb : build (WK k0) "" false none s n0 = .ok (c0, n1)) :
    (loadTree (WK k0) fuel s "" c0 t true n1).err = none ∧
    SameValues (WK k0) fuel s c (loadTree (WK k0) fuel s "" c0 t true n1).cfg := by
  rw [uniform_tree WK fuel dflt s c k0 huni] at ht
  exact C02.tree_roundtrip (WK k0) fuel s c t c0 n0 n1 hnd hsr hsh hco hst hvd hv ht hb

/-! ### the recorded gap (finding F19): a key file assigned to a sub-configuration does not survive a load

`load_tree` replaces a sub-configuration by a newly built one, so a key file that was assigned to the old object is gone and the
new one inherits its parent's: the saved ciphertext (written under the sub-configuration's key file) is then decrypted with the
wrong key.  This is why `reload_same_key_partial` asks for one key file per tree.  Witness, on the model: -/

def f19Schema : Schema := .mk [("sub", .sub (.mk [("x", .leaf rtBool {})] false []))] false []
def f19Cfg : Cfg :=
  .mk 0 [("sub", .node (.mk 1 [("x", .val (.bool true))] [] [] (some "K2") true))] [] [] (some "K1") false

theorem f19_sub_key_lost :
    (match f19Cfg.get "sub" with | some (.node sub) => sub.keyfile | _ => none) = some "K2" ∧
    (match (loadTree rtWorld 2 f19Schema "" f19Cfg
        [(.str "sub".toList, .dict [(.str "x".toList, .bool false)])] true 5).cfg.get "sub" with
      | some (.node sub) => sub.keyfile
      | _ => some "?") = none := by
  constructor
  · rfl
  · simp [loadTree, decodeEntry, getField, setValue, setSub, build, buildFields, setDefault, f19Schema, f19Cfg, rtBool, rtWorld,
      Schema.get, Schema.fields, lookupField, Cfg.get, Cfg.slots, getSlot, envValue, FieldSpec.kind, Default.value,
      validateCfg, featureEnabled, validateFields, fieldProblem, Schema.validators, validate, validateKind, boolRule,
      toPython, toPythonKind, joinPath, Cfg.setUser, Cfg.set, Cfg.setDefault, Cfg.withSlots, Cfg.withDefaults, setSlot,
      Cfg.keyfile, Cfg.oid, Cfg.defaults, Cfg.dyn, Cfg.linked]

/-! ### non-vacuity -/

/-- a tree in which the root names `K1`, one sub-configuration names `K2` and another names nothing: the three configurations
    use `K1`, `K2`, `K1`; the default is not among them -/
example :
    let leaf : Schema := .mk [("x", .leaf rtBool {})] false []
    let s : Schema := .mk [("a", .sub leaf), ("b", .sub leaf)] false []
    let c : Cfg := .mk 0 [("a", .node (.mk 1 [("x", .val (.bool true))] [] [] (some "K2") true)),
                          ("b", .node (.mk 2 [("x", .val (.bool true))] [] [] none true))] [] [] (some "K1") false
    nodeKeys 3 "~/.cincokey" s c = ["K1", "K2", "K1"] ∧ namedKeys 3 s c = ["K1", "K2"] := by
  simp [nodeKeys, fieldKeys, itemKeys, namedKeys, fieldNamed, itemNamed, effKey, Schema.fields, Cfg.get, Cfg.slots, getSlot,
    Cfg.keyfile]

end Cinco.C03
