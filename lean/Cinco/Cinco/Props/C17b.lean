import Cinco.Proofs.DictInv
/-
  C17 (continuation) — the typed dict holds only validation results, along whole histories (the dict counterpart of `list_inv`).
-/
namespace Cinco.C17b
open Cinco Cinco.Field Cinco.Proxy Cinco.Proxy.DictInv

/-- **After any operation — accepted or rejected, a half-finished `update(**kw)` included — every key and every value of a typed
    dict is a validation result of its field.**  The one premise: what is handed over *as a proxy of this very field* holds
    validated entries (the fast path copies it unvalidated, as the real proxy does). -/
theorem dict_holds_validation_results (E : Env) (kf vf : Option FieldSpec) (d : List (Val × Val)) (op : DOp)
    (hd : DictOk E kf vf d) (ho : DOpOk E kf vf op) : DictOk E kf vf (dstep E kf vf d op).1 :=
  dict_inv E kf vf d op hd ho

theorem dict_history_holds_validation_results (E : Env) (kf vf : Option FieldSpec) (ops : List DOp) (d : List (Val × Val))
    (hd : DictOk E kf vf d) (ho : ∀ op ∈ ops, DOpOk E kf vf op) :
    DictOk E kf vf (ops.foldl (fun s op => (dstep E kf vf s op).1) d) :=
  dict_run_inv E kf vf ops d hd ho

/-- the premise is needed: an unvalidated "own proxy" breaks the invariant -/
theorem own_proxy_premise_needed : ¬ DictOk C17.env0 none (some (.mk .bool false none))
    (dstep C17.env0 none (some (.mk .bool false none)) [] (.update [(.int 1, .int 5)] true [])).1 :=
  dict_inv_needs_opOk

/-- keys stay duplicate-free under every operation, with no premise at all -/
theorem dict_keys_stay_distinct (E : Env) (kf vf : Option FieldSpec) (d : List (Val × Val)) (op : DOp)
    (hd : (dkeys d).Nodup) : (dkeys (dstep E kf vf d op).1).Nodup :=
  dict_keys_nodup E kf vf d op hd

/-- **A rejected single-entry operation leaves the typed dict exactly as it was — entry for entry, in order** (C06 for typed dicts:
    item assignment, `setdefault`, `|=`; the ordered association list is the state, so "an entry moved to the end" or "an entry
    holding None disappeared" — what the round-9 change C06-r9-2 did — is a different state) -/
theorem dict_single_rejected_unchanged (E : Env) (kf vf : Option FieldSpec) (d : List (Val × Val)) (op : DOp) (e : Val)
    (hop : match op with | .set _ _ => True | .setdefault _ _ => True | .ior _ => True | _ => False)
    (h : (dstep E kf vf d op).2 = .rejected e) : (dstep E kf vf d op).1 = d := by
  cases op with
  | set k v =>
    simp only [dstep] at h ⊢
    split <;> simp_all
  | setdefault k v =>
    simp only [dstep] at h ⊢
    repeat' split
    all_goals simp_all
  | ior pairs =>
    simp only [dstep] at h ⊢
    repeat' split
    all_goals simp_all
  | update _ _ _ => cases hop
  | pop _ _ => cases hop
  | popitem => cases hop
  | del _ => cases hop
  | clear => cases hop

end Cinco.C17b
