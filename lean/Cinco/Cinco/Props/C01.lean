import Cinco.Proofs.Cfg
import Cinco.Config.Inv
import Cinco.Generated.Overrides
import Cinco.Props.C06
import Cinco.Proofs.Inv
import Cinco.Proofs.Prims
/-
  C01 — every value a configuration holds satisfies its field's declared constraints.
  (The invariant over whole histories is in Cinco/Proofs/Inv.lean; this file holds the property statements.)
-/
namespace Cinco.C01
open Cinco Cinco.Field Cinco.Config

/-- **Read-back**: after an accepted assignment to a declared field, reading it yields the field's normal form of the
    assigned value (what `validate` returned) — never the raw argument. -/
theorem set_get (W : World) (fuel : Nat) (s : Schema) (path : String) (c : Cfg) (k : String) (v : Val) (n : Nat)
    (fs : FieldSpec) (m : LeafMeta) (hf : s.get k = some (.leaf fs m))
    (hok : (setValue W (fuel + 1) s path c k (.val v) n).err = none) :
    ∃ v', validate W.fe.toEnv fs v = .ok v' ∧ (setValue W (fuel + 1) s path c k (.val v) n).cfg.get k = some (.val v') := by
  unfold setValue at hok ⊢
  have hg : getField s c k = .declared (.leaf fs m) := by simp [getField, hf]
  simp only [hg] at hok ⊢
  cases hv : validate W.fe.toEnv fs v with
  | error e => simp [hv] at hok
  | ok v' => exact ⟨v', rfl, by simp [Cfg.get_setUser_same]⟩

/-- **Frame**: an assignment (accepted or rejected, of anything) to key `k` changes no other key of that configuration. -/
theorem set_frame (W : World) (fuel : Nat) (s : Schema) (path : String) (c : Cfg) (k k' : String) (a : Arg) (n : Nat)
    (hne : k' ≠ k) : (setValue W fuel s path c k a n).cfg.get k' = c.get k' := by
  by_cases herr : (setValue W fuel s path c k a n).err ≠ none
  · rw [C06_unchanged W fuel s path c k a n herr]
  · have hok : (setValue W fuel s path c k a n).err = none := by simpa using herr
    cases fuel with
    | zero => simp [setValue] at hok
    | succ fuel =>
      unfold setValue at hok ⊢
      cases hg : getField s c k with
      | missing =>
        simp only [hg] at hok ⊢
        by_cases hd : s.dynamic = true
        · simp only [hd, Bool.not_true, Bool.false_eq_true, if_false] at hok ⊢
          cases a <;> simp only [] <;> rw [Cfg.get_setUser_other _ hne, Cfg.get_withDyn]
        · simp [hd] at hok
      | dynamic =>
        simp only [hg] at hok ⊢
        cases a <;> simp [Cfg.get_setUser_other _ hne]
      | declared f =>
        simp only [hg] at hok ⊢
        cases f with
        | leaf fs m =>
          cases a with
          | val v =>
            simp only at hok ⊢
            cases hv : validate W.fe.toEnv fs v <;> simp [hv] at hok ⊢
            exact Cfg.get_setUser_other _ hne _
          | cfg sub same =>
            simp only at hok ⊢
            cases hv : validate W.fe.toEnv fs (.opaque "Config") <;> simp [hv] at hok ⊢
            exact Cfg.get_setUser_other _ hne _
        | virtual cst hs => cases hs <;> simp at hok ⊢
        | method => simp at hok
        | sub s' =>
          unfold setSub at hok ⊢
          cases a with
          | cfg sub same => cases same <;> simp at hok ⊢; exact Cfg.get_setUser_other _ hne _
          | val v =>
            cases v <;> simp at hok
            rename_i kvs
            simp only at hok ⊢
            cases hb : build W (joinPath path k) true none s' n with
            | error e => simp [hb] at hok
            | ok r =>
              obtain ⟨fresh, n1⟩ := r
              simp only [hb] at hok ⊢
              cases he : (loadTree W fuel s' (joinPath path k) fresh kvs true n1).err with
              | some e => simp [he] at hok
              | none => simp [he]; exact Cfg.get_setUser_other _ hne _
        | ctype s' kf =>
          unfold setSub at hok ⊢
          cases a with
          | cfg sub same => cases same <;> simp at hok ⊢; exact Cfg.get_setUser_other _ hne _
          | val v =>
            cases v <;> simp at hok
            rename_i kvs
            simp only at hok ⊢
            cases hb : build W (joinPath path k) true kf s' n with
            | error e => simp [hb] at hok
            | ok r =>
              obtain ⟨fresh, n1⟩ := r
              simp only [hb] at hok ⊢
              cases he : (loadTree W fuel s' (joinPath path k) fresh kvs true n1).err with
              | some e => simp [he] at hok
              | none => simp [he]; exact Cfg.get_setUser_other _ hne _
        | cfgList s' it req m =>
          cases a with
          | cfg sub same => simp at hok
          | val v =>
            cases v <;> first | (simp at hok; done) | skip
            · simp only at hok ⊢
              cases req <;> simp at hok ⊢
              exact Cfg.get_setUser_other _ hne _
            · rename_i items
              simp only at hok ⊢
              cases hl : loadItems W fuel s' path k 0 items [] n with
              | mk r n' =>
                cases r with
                | error e => simp [hl] at hok
                | ok cs =>
                  simp only [hl] at hok ⊢
                  by_cases hr : (req && cs.isEmpty) = true
                  · simp [hr] at hok
                  · simp [hr]; exact Cfg.get_setUser_other _ hne _
where
  C06_unchanged (W : World) (fuel : Nat) (s : Schema) (path : String) (c : Cfg) (k : String) (a : Arg) (n : Nat)
      (h : (setValue W fuel s path c k a n).err ≠ none) : (setValue W fuel s path c k a n).cfg = c := by
    exact Cinco.C06.setValue_rejected_unchanged W fuel s path c k a n h

/-- the inserting entry points of CPython's `list`: the only methods through which a new element can enter a list -/
def listInserting : List String := ["__init__", "append", "extend", "insert", "__setitem__", "__iadd__"]
/-- the inserting entry points of CPython's `dict` -/
def dictInserting : List String := ["__init__", "__setitem__", "update", "setdefault", "__ior__"]

/-- **Generated obligation**: today's `ListProxy` and `DictProxy` override *every* inserting entry point of the built-in they
    subclass (a typed container has no unvalidated way in).  The method sets are read from the source on every run. -/
theorem proxies_cover_inserting_entry_points :
    listInserting.all (fun m => Generated.listProxyMethods.contains m) = true ∧
    dictInserting.all (fun m => Generated.dictProxyMethods.contains m) = true := by decide

/-! ### The invariant over whole histories -/

/-- the public mutating operations on a configuration, as the harness drives them -/
inductive Op where
  | setItem (dotted : List Char) (v : Val)                 -- assignment by dotted path / chained attributes (values and maps)
  | loadTree (entries : List (Val × Val)) (validate : Bool)
  | reset (dotted : List Char)

def step (W : World) (fuel : Nat) (s : Schema) (cn : Cfg × Nat) : Op → Cfg × Nat
  | .setItem dotted v => let o := setItem W fuel s "" cn.1 dotted (.val v) cn.2; (o.cfg, o.next)
  | .loadTree es val => let o := loadTree W fuel s "" cn.1 es val cn.2; (o.cfg, o.next)
  | .reset dotted => let o := resetValue W fuel s cn.1 dotted cn.2; (o.cfg, o.next)

def run (W : World) (fuel : Nat) (s : Schema) (cn : Cfg × Nat) (ops : List Op) : Cfg × Nat := ops.foldl (step W fuel s) cn

/-- **One operation preserves the invariant**, whether it is accepted or rejected (the state after a rejection is included). -/
theorem inv_step (W : World) (d fuel : Nat) (s : Schema) (cn : Cfg × Nat) (op : Op)
    (hdv : DefaultsValid W (d + 1) s) (hnd : s.keysNodup = true) (hpl : s.containerDefaultsPlain = true)
    (hi : Inv W (d + 1) s cn.1) : Inv W (d + 1) s (step W fuel s cn op).1 := by
  cases op with
  | setItem dotted v => exact inv_setItem W (d + 1) fuel s "" cn.1 dotted v cn.2 hdv hnd hpl hi
  | loadTree es val => exact inv_loadTree W d fuel s "" cn.1 es val cn.2 hdv hnd hpl hi
  | reset dotted => exact inv_resetValue W (d + 1) fuel s cn.1 dotted cn.2 hdv hnd hpl hi

/-- **Every reachable state satisfies the invariant**: given a schema whose declared defaults are valid (and whose keys are
    distinct, container defaults without custom validators), after construction and after every finite sequence of assignments,
    tree loads and resets, every value held at any depth — list items included — is unset or a result of its own field's
    validation. (Induction over the history.) -/
theorem inv_run (W : World) (d fuel : Nat) (s : Schema) (n : Nat) (c0 : Cfg) (n0 : Nat)
    (hdv : DefaultsValid W (d + 1) s) (hnd : s.keysNodup = true) (hpl : s.containerDefaultsPlain = true)
    (hb : build W "" false none s n = .ok (c0, n0)) :
    ∀ ops, Inv W (d + 1) s (run W fuel s (c0, n0) ops).1 := by
  have h0 : Inv W (d + 1) s c0 := inv_build W (d + 1) "" false none s n c0 n0 hdv hnd hpl hb
  intro ops
  suffices h : ∀ (ops : List Op) (cn : Cfg × Nat), Inv W (d + 1) s cn.1 → Inv W (d + 1) s (run W fuel s cn ops).1 from h ops (c0, n0) h0
  intro ops
  induction ops with
  | nil => intro cn h; exact h
  | cons op rest ih =>
    intro cn h
    simp only [run, List.foldl_cons]
    exact ih _ (inv_step W d fuel s cn op hdv hnd hpl h)

/-- **Held values satisfy their constraints**: for every declaration covered by `IdemOk` (C05), a held value is unset or is
    accepted unchanged by its own field — i.e. passes every check the validator makes (type, bounds, lengths, pattern, choices,
    address / host / URL syntax, item and key/value constraints). -/
theorem held_satisfies (W : World) (hE : EnvOk W.fe.toEnv) (f : FieldSpec) (v : Val) (hf : IdemOk f = true) (h : Held W f v) :
    v = .none ∨ validate W.fe.toEnv f v = .ok v := by
  rcases h with h | ⟨u, hu⟩
  · exact Or.inl h
  · exact Or.inr (Field.validate_idem prims W.fe.toEnv hE f u v hf hu)

end Cinco.C01
