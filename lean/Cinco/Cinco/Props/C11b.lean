import Cinco.Props.C11
import Cinco.Field.Chain
import Cinco.Generated.Registration
import Cinco.Generated.LoadValidateShape
/-
  C11 (continuation) — *every* validator registered on a field was run and passed.
  The field-level statement of C11 (`validate_ok_means`, `load_ok_validated`) speaks of "the field's validator"; with several
  registrations that validator is their composition in registration order.  Here: a composition that returns means each
  registered validator was run, on the value its predecessor returned, and passed (`chain_ok_iff_ran`, `ran_each_passed`); the
  first rejection is the composition's rejection (`chain_error_iff`); order and threading are as registered (`chain_append`,
  `chain_singleton`); and the `replace` reading — what the code did before F41 — violates the property on a concrete
  registration (`replace_skips_a_validator`).  `source_chains_registrations` ties the reading to /repo's `support.validator`
  (regenerated on every run).
-/
namespace Cinco.C11b
open Cinco Cinco.Field

variable (custom : String → Val → Except Err Val)

theorem chain_nil (v : Val) : chain custom [] v = .ok v := rfl

theorem chain_singleton (n : String) (v : Val) : chain custom [n] v = custom n v := by
  simp only [chain]; cases custom n v <;> rfl

/-- registering `ms` after `ns` runs `ns` first and hands its result to `ms` -/
theorem chain_append (ns ms : List String) (v : Val) :
    chain custom (ns ++ ms) v = (chain custom ns v).bind (chain custom ms) := by
  induction ns generalizing v with
  | nil => rfl
  | cons n ns ih =>
    simp only [List.cons_append, chain]
    cases custom n v with
    | error e => rfl
    | ok v' => exact ih v'

/-- **a composition that returns = every registered validator was run, in order, on its predecessor's result, and passed** -/
theorem chain_ok_iff_ran (ns : List String) (v v' : Val) : chain custom ns v = .ok v' ↔ Ran custom ns v v' := by
  induction ns generalizing v with
  | nil =>
    simp only [chain, Except.ok.injEq]
    constructor
    · intro h; subst h; exact .nil v
    · intro h; cases h; rfl
  | cons n ns ih =>
    simp only [chain]
    constructor
    · intro h
      cases hc : custom n v with
      | error e => simp [hc] at h
      | ok u => simp only [hc] at h; exact .cons hc ((ih u).1 h)
    · intro h
      cases h with
      | cons hc hr => simp only [hc]; exact (ih _).2 hr

/-- in a run that returned, each registered validator accepted the value it was given -/
theorem ran_each_passed {ns : List String} {v v' : Val} (h : Ran custom ns v v') : ∀ n ∈ ns, ∃ u u', custom n u = .ok u' := by
  induction h with
  | nil v => intro n hn; cases hn
  | cons hc _ ih =>
    intro m hm
    cases hm with
    | head => exact ⟨_, _, hc⟩
    | tail _ hm' => exact ih m hm'

/-- no validator is skipped: a load that returns ran as many validators as were registered (corollary for the caller) -/
theorem chain_ok_each_passed (ns : List String) (v v' : Val) (h : chain custom ns v = .ok v') : ∀ n ∈ ns, ∃ u u', custom n u = .ok u' :=
  ran_each_passed custom ((chain_ok_iff_ran custom ns v v').1 h)

/-- the composition rejects exactly when some validator rejects the value handed to it by those registered before it -/
theorem chain_error_iff (ns : List String) (v : Val) (e : Err) :
    chain custom ns v = .error e ↔ ∃ pre n post u, ns = pre ++ n :: post ∧ chain custom pre v = .ok u ∧ custom n u = .error e := by
  induction ns generalizing v with
  | nil =>
    simp only [chain]
    constructor
    · intro h; cases h
    · rintro ⟨pre, n, post, u, h, _⟩; cases pre <;> cases h
  | cons m ms ih =>
    simp only [chain]
    cases hc : custom m v with
    | error e' =>
      constructor
      · intro h; cases h; exact ⟨[], m, ms, v, rfl, rfl, hc⟩
      · rintro ⟨pre, n, post, u, h1, h2, h3⟩
        cases pre with
        | nil =>
          simp only [List.nil_append, List.cons.injEq] at h1
          obtain ⟨rfl, rfl⟩ := h1
          simp only [chain, Except.ok.injEq] at h2
          subst h2
          rw [hc] at h3; exact h3
        | cons p ps =>
          simp only [List.cons_append, List.cons.injEq] at h1
          obtain ⟨rfl, _⟩ := h1
          simp [chain, hc] at h2
    | ok w =>
      simp only [ih w]
      constructor
      · rintro ⟨pre, n, post, u, h1, h2, h3⟩
        exact ⟨m :: pre, n, post, u, by simp [h1], by simp [chain, hc, h2], h3⟩
      · rintro ⟨pre, n, post, u, h1, h2, h3⟩
        cases pre with
        | nil =>
          simp only [List.nil_append, List.cons.injEq] at h1
          obtain ⟨rfl, rfl⟩ := h1
          simp only [chain, Except.ok.injEq] at h2
          subst h2
          rw [hc] at h3; cases h3
        | cons p ps =>
          simp only [List.cons_append, List.cons.injEq] at h1
          obtain ⟨rfl, rfl⟩ := h1
          simp only [chain, hc] at h2
          exact ⟨ps, n, post, u, rfl, h2, h3⟩

/-- a small catalogue for the witnesses below -/
def demo (n : String) (v : Val) : Except Err Val :=
  if n == "reject" then .error .value else .ok v

/-- the reading of the code before F41 (`field.validator = func`): the later registration replaces the earlier one, and a value the
    first validator rejects passes — "every validator registered was run and passed" is false of that reading -/
theorem replace_skips_a_validator :
    chain demo (registered .replace ["reject", "pass"]) (.int 1) = .ok (.int 1) ∧ demo "reject" (.int 1) = .error .value ∧
    chain demo (registered .chain ["reject", "pass"]) (.int 1) = .error .value := ⟨rfl, rfl, rfl⟩

/-- non-vacuity: a registration of two validators that both pass runs both -/
example : Ran demo ["pass", "again"] (.int 1) (.int 1) := (chain_ok_iff_ran demo _ _ _).1 rfl

/-- /repo's `support.validator` composes a new registration with the validator already on the field (read off the source on every run) -/
theorem source_chains_registrations : Generated.validatorRegistration = "chain" := by decide

/-- **the code order the model of the load / validation path follows is the code order of /repo** (control skeletons of
    `Config.load_tree`, `Config.validate`, `Schema._validate`, `Schema._validate_field`, `Field.validate`, regenerated from
    `cincoconfig/core.py` on every run): a tree entry of a field bound to a non-empty variable is skipped, every other entry is decoded
    (errors wrapped) and stored, then the whole configuration is validated; the walk returns at once when the feature flag is off,
    skips virtual / method fields, validates every other field (include fields too: F61) and nested configuration, then runs every schema validator,
    converting ANY exception into the library's error and — in collecting mode — into a list entry; a field's validation stops at
    `None` (raising when required) and otherwise runs `_validate` and then the registered validator -/
theorem load_validate_code_order : Generated.loadValidateShape =
    [("Config.load_tree", ["loop[tree.items()]", "_get_field", "if[isinstance(field, Field)]", "if[isinstance(field.env, str) and field.env and os.environ.get(field.env)]", "continue", "end", "try", "to_python", "except:ValidationError", "raise", "except:Exception", "raise:ValidationError", "end", "end", "_set_value", "end", "if[validate]", "validate", "end"]),
     ("Config.validate", ["_validate"]),
     ("Schema._validate", ["if[not self._is_feature_enabled(config)]", "return", "end", "let[ignore_types=(VirtualFieldMixin, InstanceMethodFieldMixin)]", "loop[self._fields.values()]", "if[isinstance(field, ignore_types)]", "continue", "end", "try", "_validate_field", "except:ValidationError", "if[not collect_errors]", "raise", "end", "append", "except:Exception", "if[not collect_errors]", "raise:exc", "end", "append", "end", "end", "loop[self._validators]", "try", "validator", "except:ValidationError", "if[not collect_errors]", "raise", "end", "append", "except:Exception", "if[not collect_errors]", "raise:exc", "end", "append", "end", "end"]),
     ("Schema._validate_field", ["__getval__", "if[isinstance(field, Field)]", "validate", "else", "if[isinstance(val, Config)]", "validate", "end", "end"]),
     ("Field.validate", ["if[self.required and value is None]", "raise:ValueError", "end", "if[value is None]", "return", "end", "_validate", "if[self.validator]", "validator", "end"]),
     ("Schema._is_feature_enabled", ["return all((field.is_feature_enabled(cfg) for field in self._feature_flag_fields))"]),
     ("FeatureFlagField.is_feature_enabled", ["return self.__getval__(cfg)"])] := by decide

end Cinco.C11b
