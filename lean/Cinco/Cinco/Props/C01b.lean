import Cinco.Proofs.Sound
/-
  C01 (continuation) — the invariant restated against the *declared* constraints (`Sat`, Cinco/Proofs/Sound.lean) instead of
  "accepted again by its own validator": soundness of validation (C05b) composed with the invariant over histories (C01).
-/
namespace Cinco.C01b
open Cinco Cinco.Field Cinco.Config

/-- **C01, every reachable state**: after construction and after every finite sequence of assignments, tree loads and resets
    (accepted or rejected), every leaf value held at any depth is unset or satisfies the constraints its field declares. -/
theorem reachable_states_satisfy_declarations (W : World) (hE : EnvOk W.fe.toEnv) (d fuel : Nat) (s : Schema) (n : Nat)
    (c0 : Cfg) (n0 : Nat) (hdv : DefaultsValid W (d + 1) s) (hnd : s.keysNodup = true) (hpl : s.containerDefaultsPlain = true)
    (hb : build W "" false none s n = .ok (c0, n0)) (ops : List C01.Op) :
    AllLeaves (fun fs v => v = .none ∨ Sat W.fe.toEnv fs v) (d + 1) s (C01.run W fuel s (c0, n0) ops).1 :=
  reachable_sat W hE d fuel s n c0 n0 hdv hnd hpl hb ops

end Cinco.C01b
