import Cinco.Props.C19
import Cinco.Props.C02
/-
  C19b — "A file written by a successful save loads back into an equal configuration."

  `Props/C19.lean` proves what `Config.save` does to the destination (the generated effect sequence `saveProg`);
  `Props/C02.lean` proves that a document produced by `dumps` reloads into a configuration holding the same values
  (`doc_roundtrip`).  This file joins the two through the one thing they share, the bytes in the destination file, and adds the
  generated obligations about `Config.load` that the join needs: `load` reads the file it is given and hands exactly what it read
  to `loads`, and nothing in `load` / `loads` can write.
-/
namespace Cinco.C19b
open Cinco Cinco.Config Cinco.Effects Cinco.Generated

/-- what a later reader finds in the destination -/
def fileBytes : Dest → Option Bytes
  | .written b => some b
  | _ => none

/-- **Generated obligation**: today's `Config.load` opens its file for reading, reads it, and only then calls `self.loads`;
    neither `load` nor `loads` contains an effect that can touch a file's content, and nothing in them is untranslatable. -/
theorem load_order :
    loadProg.any (fun e => match e with | .openR _ => true | _ => false) = true ∧
    loadProg.any (fun e => e == .read) = true ∧
    loadProg.any (isCall "self.loads") = true ∧
    (List.range loadProg.length).all (fun i => !(loadProg.getD i .close == .read) ||
      (List.range loadProg.length).all (fun j => !(loadProg.getD j .close |> isCall "self.loads") || i < j)) = true ∧
    loadProg.all harmless = true ∧ loadsProg.all harmless = true := by decide

/-- a load (which cannot fail in a way that writes: every effect is harmless) never changes the file it reads -/
theorem load_never_writes (c : Bytes) (fault : Option Nat) (s : St) : (exec c fault 0 s loadProg).dest = s.dest := by
  have key : ∀ (prog : List Eff) (i : Nat) (s : St), prog.all harmless = true → (exec c fault i s prog).dest = s.dest := by
    intro prog
    induction prog with
    | nil => intro i s _; rfl
    | cons e rest ih =>
      intro i s h
      simp only [List.all_cons, Bool.and_eq_true] at h
      unfold exec
      split
      · rfl
      · rw [ih (i + 1) _ h.2, C19.step_harmless_dest c s e h.1]
  exact key loadProg 0 s load_order.2.2.2.2.1

/-- **A file written by a successful save loads back into an equal configuration.**  For a configuration satisfying the premises
    of the round-trip theorem and a format that gives its tree back: serialisation succeeds with some bytes `doc`; a save that
    meets no fault leaves exactly `doc` in the destination (`save_ok_bytes`, over the generated `saveProg`); and loading the
    bytes found there into a freshly built configuration succeeds and yields the same values. -/
theorem saved_file_loads_back (W : World) (fuel : Nat) (s : Schema) (c : Cfg) (c0 : Cfg) (n0 n1 : Nat) (F : DocFormat)
    (hnd : s.keysNodup = true) (hsr : SchemaLoadable W fuel s) (hsh : Shaped fuel s c) (hco : CodecOkAll W fuel s c)
    (hst : StableAll W fuel s c) (hvd : ValidDeep W fuel s c) (hv : ∃ p, validateCfg W (fuel + 1) s p c = none)
    (t : List (Val × Val)) (ht : toTree W fuel s c false none = some t) (hF : F.LawOn t)
    (hb : build W "" false none s n0 = .ok (c0, n1)) :
    ∃ doc out, dumpsCfg W fuel s c F = some doc ∧
      fileBytes (exec doc none 0 {} saveProg).dest = some doc ∧
      (∀ fault, (exec doc fault 0 (exec doc none 0 {} saveProg) loadProg).dest = .written doc) ∧
      loadsCfg W fuel s c0 F doc n1 = some out ∧ out.err = none ∧ SameValues W fuel s c out.cfg := by
  obtain ⟨doc, out, hd, hl, he, hs⟩ := C02.doc_roundtrip W fuel s c c0 n0 n1 F hnd hsr hsh hco hst hvd hv t ht hF hb
  refine ⟨doc, out, hd, ?_, ?_, hl, he, hs⟩
  · rw [C19.save_ok_bytes]; rfl
  · intro fault
    rw [load_never_writes, C19.save_ok_bytes]

/-- and a save that fails (at or before the point where the file is opened) leaves a previously saved file loadable as before:
    the destination is untouched, so what a reader finds is what it would have found without the call -/
theorem failed_save_keeps_previous (c : Bytes) (f : Nat) (hf : f ≤ firstUnsafe saveProg) :
    (exec c (some f) 0 {} saveProg).dest = .untouched := C19.save_fail_untouched c f hf

end Cinco.C19b
