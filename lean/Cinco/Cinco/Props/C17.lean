import Cinco.Proxy.ListProxy
import Cinco.Proxy.DictProxy
import Cinco.Proofs.FieldLemmas
import Cinco.Generated.ContainerShape
/-
  C17 — typed list/dict values behave like built-in list/dict of validated items.
-/
namespace Cinco.C17
open Cinco Cinco.Field Cinco.PyList Cinco.Proxy

theorem extendLazy_ok (E : Env) (f : FieldSpec) : ∀ (ys acc vs : List Val), mapR (validate E f) ys = .ok vs →
    extendLazy E f acc ys = (acc ++ vs, none)
  | [], acc, vs, h => by simp [mapR] at h; subst h; simp [extendLazy]
  | y :: rest, acc, vs, h => by
    simp only [mapR] at h
    cases hy : validate E f y with
    | error e => simp [hy, bind, Except.bind] at h
    | ok v =>
      cases hr : mapR (validate E f) rest with
      | error e => simp [hy, hr, bind, Except.bind] at h
      | ok vr =>
        simp [hy, hr, bind, Except.bind] at h
        subst h
        simp [extendLazy, hy, extendLazy_ok E f rest (acc ++ [v]) vr hr]

/-- **A typed list refines the built-in list**: with acceptable arguments, every operation has exactly the effect and the
    result of the same operation on a plain list that is handed the normalised items — contents, order, length, return value. -/
theorem list_refines (E : Env) (f : FieldSpec) (xs : List Val) (op op' : LOp) (h : normOp E f op = some op') :
    lstep E f xs op = bstep xs op' := by
  cases op with
  | append v =>
    simp only [normOp] at h
    cases hv : validate E f v with
    | error e => simp [hv, Except.toOption] at h
    | ok v' => simp [hv, Except.toOption] at h; subst h; simp [lstep, bstep, hv]
  | insert i v =>
    simp only [normOp] at h
    cases hv : validate E f v with
    | error e => simp [hv, Except.toOption] at h
    | ok v' => simp [hv, Except.toOption] at h; subst h; simp [lstep, bstep, hv]
  | extend it =>
    cases it with
    | sameProxy ys => simp only [normOp, Option.some.injEq] at h; subst h; simp [lstep, bstep, itemsOf]
    | plain ys =>
      simp only [normOp] at h
      cases hm : mapR (validate E f) ys with
      | error e => simp [hm, Except.toOption] at h
      | ok vs => simp [hm, Except.toOption] at h; subst h; simp [lstep, bstep, itemsOf, extendLazy_ok E f ys xs vs hm]
  | iadd it =>
    cases it with
    | sameProxy ys => simp only [normOp, Option.some.injEq] at h; subst h; simp [lstep, bstep, itemsOf]
    | plain ys =>
      simp only [normOp] at h
      cases hm : mapR (validate E f) ys with
      | error e => simp [hm, Except.toOption] at h
      | ok vs => simp [hm, Except.toOption] at h; subst h; simp [lstep, bstep, itemsOf, extendLazy_ok E f ys xs vs hm]
  | setIdx i v =>
    simp only [normOp] at h
    cases hv : validate E f v with
    | error e => simp [hv, Except.toOption] at h
    | ok v' =>
      simp [hv, Except.toOption] at h; subst h
      cases hr : resolveIdx xs.length i <;> simp [lstep, bstep, hv, hr]
  | setSlice a b st it =>
    simp only [normOp] at h
    cases hm : mapR (validate E f) (itemsOf it) with
    | error e => simp [hm, Except.toOption] at h
    | ok vs =>
      simp [hm, Except.toOption] at h; subst h
      simp only [lstep, hm]
      simp [bstep, itemsOf]
  | pop i => simp only [normOp, Option.some.injEq] at h; subst h; rfl
  | remove v => simp only [normOp, Option.some.injEq] at h; subst h; rfl
  | delIdx i => simp only [normOp, Option.some.injEq] at h; subst h; rfl
  | reverse => simp only [normOp, Option.some.injEq] at h; subst h; rfl
  | clear => simp only [normOp, Option.some.injEq] at h; subst h; rfl
  | imul k => simp only [normOp, Option.some.injEq] at h; subst h; rfl

/-- an item is a result of the item field's validation -/
def ItemOk (E : Env) (f : FieldSpec) (v : Val) : Prop := ∃ u, validate E f u = .ok v
def AllOk (E : Env) (f : FieldSpec) (xs : List Val) : Prop := ∀ v ∈ xs, ItemOk E f v

/-- arguments borrowed from another proxy of the same field are themselves validated items -/
def OpOk (E : Env) (f : FieldSpec) : LOp → Prop
  | .extend (.sameProxy ys) => AllOk E f ys
  | .iadd (.sameProxy ys) => AllOk E f ys
  | _ => True

theorem mapR_all_ok (E : Env) (f : FieldSpec) : ∀ (ys vs : List Val), mapR (validate E f) ys = .ok vs → AllOk E f vs
  | [], vs, h => by simp [mapR] at h; subst h; intro v hv; simp at hv
  | y :: rest, vs, h => by
    simp only [mapR] at h
    cases hy : validate E f y with
    | error e => simp [hy, bind, Except.bind] at h
    | ok v =>
      cases hr : mapR (validate E f) rest with
      | error e => simp [hy, hr, bind, Except.bind] at h
      | ok vr =>
        simp [hy, hr, bind, Except.bind] at h
        subst h
        intro x hx
        simp at hx
        rcases hx with hx | hx
        · exact ⟨y, hx ▸ hy⟩
        · exact mapR_all_ok E f rest vr hr x hx

theorem extendLazy_all_ok (E : Env) (f : FieldSpec) : ∀ (ys acc : List Val), AllOk E f acc → AllOk E f (extendLazy E f acc ys).1
  | [], acc, h => by simpa [extendLazy] using h
  | y :: rest, acc, h => by
    simp only [extendLazy]
    cases hy : validate E f y with
    | error e => simpa using h
    | ok v =>
      simp only
      apply extendLazy_all_ok E f rest
      intro x hx
      simp at hx
      rcases hx with hx | hx
      · exact h x hx
      · exact ⟨y, hx ▸ hy⟩

theorem allOk_of_subset {E : Env} {f : FieldSpec} {xs ys : List Val} (h : AllOk E f xs) (hs : ∀ v ∈ ys, v ∈ xs) : AllOk E f ys :=
  fun v hv => h v (hs v hv)

theorem setAt_all_ok {E : Env} {f : FieldSpec} {xs : List Val} (h : AllOk E f xs) (p : Nat) {v : Val} (hv : ItemOk E f v) : AllOk E f (setAt xs p v) := by
  intro x hx
  simp only [setAt, List.mem_append, List.mem_cons] at hx
  rcases hx with hx | hx | hx
  · exact h x (List.mem_of_mem_take hx)
  · exact hx ▸ hv
  · exact h x (List.mem_of_mem_drop hx)

/-- **The invariant holds after every operation, acceptable or not** (including a half-finished `extend`): a typed list only
    ever holds results of its item field's validation. -/
theorem list_inv (E : Env) (f : FieldSpec) (xs : List Val) (op : LOp) (hx : AllOk E f xs) (ho : OpOk E f op) : AllOk E f (lstep E f xs op).1 := by
  cases op with
  | append v =>
    simp only [lstep]
    cases hv : validate E f v with
    | error e => simpa using hx
    | ok v' =>
      intro x hm; simp at hm
      rcases hm with hm | hm
      · exact hx x hm
      · exact ⟨v, hm ▸ hv⟩
  | insert i v =>
    simp only [lstep]
    cases hv : validate E f v with
    | error e => simpa using hx
    | ok v' =>
      intro x hm
      simp only [insertAt, List.mem_append, List.mem_cons] at hm
      rcases hm with hm | hm | hm
      · exact hx x (List.mem_of_mem_take hm)
      · exact ⟨v, hm ▸ hv⟩
      · exact hx x (List.mem_of_mem_drop hm)
  | extend it =>
    cases it with
    | sameProxy ys =>
      intro x hm; simp [lstep] at hm
      rcases hm with hm | hm
      · exact hx x hm
      · exact ho x hm
    | plain ys =>
      have := extendLazy_all_ok E f ys xs hx
      simp only [lstep]
      cases he : extendLazy E f xs ys with
      | mk zs e => cases e <;> simpa [he] using this
  | iadd it =>
    cases it with
    | sameProxy ys =>
      intro x hm; simp [lstep] at hm
      rcases hm with hm | hm
      · exact hx x hm
      · exact ho x hm
    | plain ys =>
      have := extendLazy_all_ok E f ys xs hx
      simp only [lstep]
      cases he : extendLazy E f xs ys with
      | mk zs e => cases e <;> simpa [he] using this
  | setIdx i v =>
    simp only [lstep]
    cases hr : resolveIdx xs.length i with
    | none => simpa using hx
    | some p =>
      cases hv : validate E f v with
      | error e => simpa using hx
      | ok v' => exact setAt_all_ok hx p ⟨v, hv⟩
  | setSlice a b st it =>
    simp only [lstep]
    cases hm : mapR (validate E f) (itemsOf it) with
    | error e => simpa using hx
    | ok vs =>
      have hvs := mapR_all_ok E f _ vs hm
      have hplain : AllOk E f (setSlice xs a b vs) := by
        intro x hmem
        simp only [setSlice, List.mem_append] at hmem
        rcases hmem with (hmem | hmem) | hmem
        · exact hx x (List.mem_of_mem_take hmem)
        · exact hvs x hmem
        · exact hx x (List.mem_of_mem_drop hmem)
      cases st with
      | none => simpa using hplain
      | some s =>
        by_cases hs : s ≤ 1
        · simpa [hs] using hplain
        · simp only [hs, if_false]
          cases he : setExtSlice xs a b s vs with
          | error e => simpa using hx
          | ok ys =>
            simp only
            -- every write of the fold stores a validated item
            unfold setExtSlice at he
            by_cases hc : (extIndices xs a b s).length ≠ vs.length
            · rw [if_pos hc] at he; cases he
            · rw [if_neg hc] at he
              cases he
              have : ∀ (ps : List (Nat × Val)) (acc : List Val), AllOk E f acc → (∀ p ∈ ps, ItemOk E f p.2) →
                  AllOk E f (ps.foldl (fun acc (p : Nat × Val) => setAt acc p.1 p.2) acc) := by
                intro ps
                induction ps with
                | nil => intro acc h _; simpa using h
                | cons p rest ih =>
                  intro acc h hp
                  simp only [List.foldl_cons]
                  exact ih _ (setAt_all_ok h p.1 (hp p (by simp))) (fun q hq => hp q (by simp [hq]))
              apply this _ _ hx
              intro p hp
              exact hvs p.2 (List.of_mem_zip hp).2
  | pop i =>
    simp only [lstep]
    cases hr : resolveIdx xs.length (i.getD (-1)) with
    | none => simpa using hx
    | some p =>
      intro x hm
      simp only [removeAt, List.mem_append] at hm
      rcases hm with hm | hm
      · exact hx x (List.mem_of_mem_take hm)
      · exact hx x (List.mem_of_mem_drop hm)
  | remove v =>
    simp only [lstep]
    cases hr : indexOf xs v with
    | none => simpa using hx
    | some p =>
      intro x hm
      simp only [removeAt, List.mem_append] at hm
      rcases hm with hm | hm
      · exact hx x (List.mem_of_mem_take hm)
      · exact hx x (List.mem_of_mem_drop hm)
  | delIdx i =>
    simp only [lstep]
    cases hr : resolveIdx xs.length i with
    | none => simpa using hx
    | some p =>
      intro x hm
      simp only [removeAt, List.mem_append] at hm
      rcases hm with hm | hm
      · exact hx x (List.mem_of_mem_take hm)
      · exact hx x (List.mem_of_mem_drop hm)
  | reverse => intro x hm; exact hx x (by simpa [lstep] using hm)
  | clear => intro x hm; simp [lstep] at hm
  | imul k =>
    intro x hm
    simp only [lstep, List.mem_flatten, List.mem_replicate] at hm
    obtain ⟨l, ⟨_, hl⟩, hxl⟩ := hm
    exact hx x (hl ▸ hxl)

/-- **…along whole histories** (induction over the operation sequence). -/
theorem list_run_inv (E : Env) (f : FieldSpec) : ∀ (ops : List LOp) (xs : List Val), AllOk E f xs → (∀ op ∈ ops, OpOk E f op) →
    AllOk E f (ops.foldl (fun s op => (lstep E f s op).1) xs)
  | [], xs, h, _ => h
  | op :: rest, xs, h, ho => by
    simp only [List.foldl_cons]
    exact list_run_inv E f rest _ (list_inv E f xs op h (ho op (by simp))) (fun o hm => ho o (by simp [hm]))

/-- **A rejected single-element insertion or replacement leaves the list exactly as it was** (C06 for typed lists):
    `append` and `insert` validate before they delegate to `list`; index assignment checks first that the index names an item
    (F76), then validates, then delegates. -/
theorem list_single_rejected_unchanged (E : Env) (f : FieldSpec) (xs : List Val) (op : LOp) (e : Field.Err)
    (hop : match op with | .append _ => True | .insert _ _ => True | .setIdx _ _ => True | _ => False)
    (h : (lstep E f xs op).2 = .rejected e) : (lstep E f xs op).1 = xs := by
  cases op <;> simp at hop
  · rename_i v; simp only [lstep] at h ⊢; cases hv : validate E f v <;> simp [hv] at h ⊢
  · rename_i i v; simp only [lstep] at h ⊢; cases hv : validate E f v <;> simp [hv] at h ⊢
  · rename_i i v
    simp only [lstep] at h ⊢
    cases hr : resolveIdx xs.length i with
    | none => simp
    | some p =>
      simp only [hr] at h ⊢
      cases hv : validate E f v <;> simp [hv] at h ⊢

/-- **An index assignment whose index names no item is refused before the new item is looked at** (finding F76): the outcome is
    the built-in's `IndexError` and the list is unchanged *whatever* the offered item is — acceptable, unacceptable, or an object
    whose validation would have had effects of its own (a configuration object is linked to the list by being validated). -/
theorem list_setidx_no_slot (E : Env) (f : FieldSpec) (xs : List Val) (i : Int) (v : Val)
    (h : resolveIdx xs.length i = none) : lstep E f xs (.setIdx i v) = (xs, .err .index) := by
  simp [lstep, h]

/-- … and it is the same outcome for any two offered items: the item plays no part. -/
theorem list_setidx_no_slot_item_irrelevant (E : Env) (f : FieldSpec) (xs : List Val) (i : Int) (v w : Val)
    (h : resolveIdx xs.length i = none) : lstep E f xs (.setIdx i v) = lstep E f xs (.setIdx i w) := by
  rw [list_setidx_no_slot E f xs i v h, list_setidx_no_slot E f xs i w h]

/-- **The indices that name an item are exactly `-len … len-1`**: one past the end and one before the start name none (the two
    edges an "off by one" in the early index test would get wrong — seeded change C06-r12-1). -/
theorem resolveIdx_some_iff (len : Nat) (i : Int) : (resolveIdx len i).isSome = true ↔ (-(len : Int) ≤ i ∧ i < len) := by
  unfold resolveIdx
  simp only
  split <;> split <;> simp <;> omega

theorem resolveIdx_at_len (len : Nat) : resolveIdx len len = none ∧ resolveIdx len (-(len : Int) - 1) = none := by
  constructor
  · cases h : resolveIdx len len with
    | none => rfl
    | some p => have := (resolveIdx_some_iff len len).mp (by simp [h]); omega
  · cases h : resolveIdx len (-(len : Int) - 1) with
    | none => rfl
    | some p => have := (resolveIdx_some_iff len (-(len : Int) - 1)).mp (by simp [h]); omega

/-- non-vacuity: index 5 names no item of a list of two -/
example : resolveIdx ([Val.int 1, Val.int 2] : List Val).length 5 = none := by decide

/-- **Items that come from this field's own validated list are taken over as they are** (the fast path behind `copy()`,
    `copy.copy` — F72 —, `+` and `+=` with a list of the same field): the result is the plain concatenation and does not depend on
    the item field at all — no item passes a validator again, so an item field whose normalisation is not idempotent (an
    application's unit conversion) or whose acceptance looks at the outside world (a file that must exist) cannot change or refuse
    what is already held.  `copy()` is the case `xs = []`. -/
theorem own_items_taken_as_they_are (E : Env) (f g : FieldSpec) (xs ys : List Val) :
    lstep E f xs (.extend (.sameProxy ys)) = (xs ++ ys, .none) ∧ lstep E f xs (.iadd (.sameProxy ys)) = (xs ++ ys, .none) ∧
    lstep E f xs (.extend (.sameProxy ys)) = lstep E g xs (.extend (.sameProxy ys)) := by
  simp [lstep]

/-- **/repo's `ListProxy.__setitem__` is `lstep`'s index assignment, and a shallow copy by the `copy` module is `copy()`**
    (generated reading of the two proxy classes, regenerated on every run): a slice assignment validates every item and then
    delegates; an index assignment looks the index up (`super().__getitem__(index)`: the built-in's `IndexError` / `TypeError`),
    then validates, then delegates (F76); `__copy__` of both proxies hands the work to `copy()`, which builds a proxy from a
    compatible proxy — the fast path that takes the held items over as they are (F72). -/
theorem setitem_and_copy_code_order :
    Generated.containerShape.lookup "ListProxy.__setitem__" =
      some ["if[isinstance(index, slice)]", "super().__setitem__(index, [self._validate(i) for i in item])", "else",
            "super().__getitem__(index)", "super().__setitem__(index, self._validate(item))", "end"] ∧
    Generated.containerShape.lookup "ListProxy.__copy__" = some ["return self.copy()"] ∧
    Generated.containerShape.lookup "DictProxy.__copy__" = some ["return self.copy()"] ∧
    Generated.containerShape.lookup "ListProxy.copy" = some ["return ListProxy(self.cfg, self.list_field, self)"] ∧
    Generated.containerShape.lookup "DictProxy.copy" = some ["return DictProxy(self.cfg, self.dict_field, self)"] := by decide

/-! ### Typed dicts -/

theorem setSeq_ok (E : Env) (kf vf : Option FieldSpec) : ∀ (kw ks d : List (Val × Val)), validateEntries E kf vf kw = .ok ks →
    setSeq E kf vf d kw = (setAll d ks, .none)
  | [], ks, d, h => by simp [validateEntries] at h; subst h; simp [setSeq, setAll]
  | (k, v) :: rest, ks, d, h => by
    simp only [validateEntries] at h
    cases he : validateEntry E kf vf k v with
    | error e => simp [he] at h
    | ok kv =>
      cases hr : validateEntries E kf vf rest with
      | error e => simp [he, hr] at h
      | ok r =>
        simp [he, hr] at h
        subst h
        obtain ⟨k', v'⟩ := kv
        simp [setSeq, he, setSeq_ok E kf vf rest r _ hr, setAll]

/-- **A typed dict refines the built-in dict**: with acceptable arguments every operation (item assignment, `update` in all
    call forms, `setdefault`, `|=`, `pop`, `popitem`, deletion, `clear`) has the effect and the result of the same operation on
    a plain dict handed the normalised keys and values. -/
theorem dict_refines (E : Env) (kf vf : Option FieldSpec) (d : List (Val × Val)) (op op' : DOp) (h : normDOp E kf vf op = some op') :
    dstep E kf vf d op = bdstep d op' := by
  cases op with
  | set k v =>
    simp only [normDOp] at h
    cases he : validateEntry E kf vf k v with
    | error e => simp [he, Except.toOption] at h
    | ok kv => simp [he, Except.toOption] at h; subst h; simp [dstep, bdstep, he]
  | update pairs compat kw =>
    simp only [normDOp] at h
    cases hk : validateEntries E kf vf kw with
    | error e => cases compat <;> simp [hk] at h <;> (split at h <;> simp at h)
    | ok ks =>
      cases compat with
      | true =>
        simp [hk] at h
        subst h
        by_cases hp : pairs.isEmpty = true
        · have : pairs = [] := by simpa using hp
          subst this
          simp [dstep, bdstep, setSeq_ok E kf vf kw ks _ hk, setAll]
        · simp [dstep, bdstep, hp, setSeq_ok E kf vf kw ks _ hk]
      | false =>
        cases hps : validateEntries E kf vf pairs with
        | error e => simp [hk, hps] at h
        | ok ps =>
          simp [hk, hps] at h
          subst h
          by_cases hp : pairs.isEmpty = true
          · have : pairs = [] := by simpa using hp
            subst this
            simp [validateEntries] at hps
            subst hps
            simp [dstep, bdstep, setSeq_ok E kf vf kw ks _ hk, setAll]
          · simp [dstep, bdstep, hp, hps, Except.map, setSeq_ok E kf vf kw ks _ hk]
  | setdefault k v =>
    simp only [normDOp] at h
    cases he : validateEntry E kf vf k (v.getD .none) with
    | error e => simp [he, Except.toOption] at h
    | ok kv =>
      simp [he, Except.toOption] at h
      subst h
      obtain ⟨k', v'⟩ := kv
      simp only [dstep, bdstep, he, Proxy.presentUnder_of_ok d he, Option.getD_some]
      cases dictLookup k' d <;> simp
  | ior pairs =>
    simp only [normDOp] at h
    cases hps : validateEntries E kf vf pairs with
    | error e => simp [hps, Except.toOption] at h
    | ok ps =>
      simp [hps, Except.toOption] at h
      subst h
      by_cases hp : pairs.isEmpty = true
      · have : pairs = [] := by simpa using hp
        subst this
        simp [validateEntries] at hps
        subst hps
        simp [dstep, bdstep, setAll]
      · simp [dstep, bdstep, hp, hps]
  | pop k dflt => simp only [normDOp, Option.some.injEq] at h; subst h; rfl
  | popitem => simp only [normDOp, Option.some.injEq] at h; subst h; rfl
  | del k => simp only [normDOp, Option.some.injEq] at h; subst h; rfl
  | clear => simp only [normDOp, Option.some.injEq] at h; subst h; rfl

/-- **A rejected single item assignment or `setdefault` leaves the dict exactly as it was** (C06 for typed dicts). -/
theorem dict_single_rejected_unchanged (E : Env) (kf vf : Option FieldSpec) (d : List (Val × Val)) (op : DOp) (key : Val)
    (hop : match op with | .set _ _ => True | .setdefault _ _ => True | _ => False)
    (h : (dstep E kf vf d op).2 = .rejected key) : (dstep E kf vf d op).1 = d := by
  cases op <;> simp at hop
  · rename_i k v
    simp only [dstep] at h ⊢
    cases he : validateEntry E kf vf k v <;> simp [he] at h ⊢
  · rename_i k v
    simp only [dstep] at h ⊢
    cases hp : Proxy.presentUnder E kf d k with
    | some old => simp
    | none =>
      simp only [hp] at h ⊢
      cases he : validateEntry E kf vf k (v.getD .none) with
      | error e => simp
      | ok kv =>
        obtain ⟨k', v'⟩ := kv
        simp only [he] at h ⊢
        cases hl : dictLookup k' d <;> simp [hl] at h

def env0 : Env where
  parseFloat := fun _ => none
  fsKind := fun _ => .absent
  isabs := fun _ => false
  resolve := fun _ t => t
  urlOk := fun _ => false
  salt := fun _ => []
  hash := fun _ b => b
  utf8 := fun _ => []
  custom := fun _ v => .ok v

/-- Non-vacuity: an int list whose items are validation results; a normalising append ("7" becomes 7). -/
example : AllOk env0 (.mk (.int none none) false none) [.int 1, .int 2] := by
  intro v hv; simp at hv; rcases hv with h | h <;> subst h
  · exact ⟨.int 1, rfl⟩
  · exact ⟨.int 2, rfl⟩
example : (lstep env0 (.mk (.int none none) false none) [.int 1] (.append (.str ['7']))).1 = [.int 1, .int 7] := by decide +kernel

end Cinco.C17
