import Cinco.Crypto.Digest
import Cinco.Proofs.Base64
/-
  C09 — challenge fields keep only a salted hash that verifies exactly the secret.
  The hash function is a parameter; "a different secret fails" needs collision freedom of the hash on the
  two inputs concerned, which is an explicit hypothesis (a cryptographic assumption, not a theorem).
-/
namespace Cinco.C09
open Cinco Cinco.Digest

/-- **What is stored**: with no salt given, the salt is the next tape entry (fresh randomness of the digest's
    length) and the digest is `H(salt ++ plaintext)`; the tape advances by exactly one entry. -/
theorem digest_create (E : HashEnv) (alg : String) (p r : Bytes) (rest : List Bytes) :
    create E alg p none (r :: rest) = .ok (⟨r, E.H alg (r ++ p), alg⟩, rest) := rfl

/-- A given salt is truncated to the digest size; a short one is refused. -/
theorem digest_create_salt (E : HashEnv) (alg : String) (p s : Bytes) (tape : List Bytes) (hs : s ≠ []) :
    create E alg p (some s) tape =
      if s.length < E.size alg then .error .shortSalt
      else .ok (⟨s.take (E.size alg), E.H alg (s.take (E.size alg) ++ p), alg⟩, tape) := by
  cases s with
  | nil => exact absurd rfl hs
  | cons a t => rfl

/-- **Challenge ⇔ digest equality.** -/
theorem challenge_iff (E : HashEnv) (dv : DigestValue) (q : Bytes) :
    challenge E dv q = true ↔ E.H dv.alg (dv.salt ++ q) = dv.digest := by
  simp [challenge]

/-- **Challenging with the secret succeeds**, whatever the tape delivered as salt. -/
theorem challenge_self (E : HashEnv) (alg : String) (p : Bytes) (salt : Option Bytes) (tape tape' : List Bytes)
    (dv : DigestValue) (h : create E alg p salt tape = .ok (dv, tape')) : challenge E dv p = true := by
  unfold create at h
  cases salt with
  | none =>
    cases tape with
    | nil => simp at h; obtain ⟨h1, _⟩ := h; subst h1; simp [challenge]
    | cons r rest => simp at h; obtain ⟨h1, _⟩ := h; subst h1; simp [challenge]
  | some s =>
    cases s with
    | nil =>
      cases tape with
      | nil => simp at h; obtain ⟨h1, _⟩ := h; subst h1; simp [challenge]
      | cons r rest => simp at h; obtain ⟨h1, _⟩ := h; subst h1; simp [challenge]
    | cons a t =>
      simp only at h
      split at h
      · cases h
      · simp at h; obtain ⟨h1, _⟩ := h; subst h1; simp [challenge]

/-- **The empty secret is a secret like any other** (the edge of round 12: a challenge that refuses an empty plaintext up front,
    a route that skips falsy values): the digest created for `""` is the hash of the salt alone, challenging it with `""` succeeds,
    and a non-empty secret fails unless it collides with the salt alone. -/
theorem empty_secret (E : HashEnv) (alg : String) (r : Bytes) (rest : List Bytes) :
    create E alg [] none (r :: rest) = .ok (⟨r, E.H alg (r ++ []), alg⟩, rest) ∧
    challenge E ⟨r, E.H alg (r ++ []), alg⟩ [] = true ∧
    ∀ q, E.H alg (r ++ q) ≠ E.H alg (r ++ []) → challenge E ⟨r, E.H alg (r ++ []), alg⟩ q = false := by
  refine ⟨digest_create E alg [] r rest, ?_, ?_⟩
  · simp [challenge]
  · intro q hq
    simp only [challenge, beq_eq_false_iff_ne, ne_eq]
    exact hq

/-- the cryptographic assumption: no collision between these two salted inputs -/
def CollisionFree (E : HashEnv) (alg : String) (salt p q : Bytes) : Prop :=
  E.H alg (salt ++ p) = E.H alg (salt ++ q) → p = q

/-- **Challenging with any other secret fails** (under collision freedom for that pair). -/
theorem challenge_other (E : HashEnv) (alg : String) (p q r : Bytes) (rest : List Bytes)
    (hcf : CollisionFree E alg r p q) (hne : q ≠ p) :
    ∀ dv t, create E alg p none (r :: rest) = .ok (dv, t) → challenge E dv q = false := by
  intro dv t h
  rw [digest_create] at h
  simp at h
  obtain ⟨h1, _⟩ := h
  subst h1
  simp only [challenge, beq_eq_false_iff_ne, ne_eq]
  intro e
  exact hne (hcf e.symm).symm

/-- **Two assignments of the same secret draw different tape entries**: salts are consecutive tape entries. -/
theorem fresh_salts (E : HashEnv) (alg : String) (p r1 r2 : Bytes) (rest : List Bytes) :
    ∃ d1 d2, create E alg p none (r1 :: r2 :: rest) = .ok (d1, r2 :: rest) ∧
             create E alg p none (r2 :: rest) = .ok (d2, rest) ∧ d1.salt = r1 ∧ d2.salt = r2 :=
  ⟨_, _, rfl, rfl, rfl, rfl⟩

/-- **No plaintext on disk**: the stored form is exactly `{salt: base64, digest: base64}` — a function of salt and digest only. -/
theorem stored_shape (dv : DigestValue) :
    toBasic (some dv) = .dict [("salt", .str (B64.encode dv.salt)), ("digest", .str (B64.encode dv.digest))] := rfl

/-- **Salt and digest survive saving and loading unchanged** (so the same challenges keep succeeding and failing). -/
theorem digest_codec (E : HashEnv) (utf8 : Str → Bytes) (dv : DigestValue) (tape : List Bytes) :
    toPython E dv.alg utf8 (toBasic (some dv)) tape = .ok (some dv, tape) := by
  simp [toBasic, toPython, Kvs.lookup, B64.decode_encode]

theorem none_codec (E : HashEnv) (alg : String) (utf8 : Str → Bytes) (tape : List Bytes) :
    toPython E alg utf8 (toBasic none) tape = .ok (none, tape) := rfl

/-- **A plaintext written by hand into a file is hashed on load** (never kept). -/
theorem plaintext_hashed_on_load (E : HashEnv) (alg : String) (utf8 : Str → Bytes) (p : Str) (r : Bytes) (rest : List Bytes) :
    toPython E alg utf8 (.str p) (r :: rest) = .ok (some ⟨r, E.H alg (r ++ utf8 p), alg⟩, rest) := rfl

/-- Assigning an already hashed value keeps it (idempotence of validation on its own results). -/
theorem validate_digest_id (E : HashEnv) (alg : String) (dv : DigestValue) (tape : List Bytes) :
    validate E alg (.digest dv) tape = .ok (dv, tape) := rfl

/-- **Generated obligation**: the six offered algorithms, with the digest sizes hashlib reports today. -/
theorem algorithms_offered :
    Generated.challengeAlgorithms.map (fun a => (a.1, a.2.2)) =
      [("md5", 16), ("sha1", 20), ("sha224", 28), ("sha256", 32), ("sha384", 48), ("sha512", 64)] ∧
    Generated.challengeAlgorithms.all (fun a => a.1 == a.2.1) = true := by decide

/-- Non-vacuity of `challenge_other`'s hypothesis: the identity "hash" is collision free. -/
example : CollisionFree ⟨fun _ b => b, fun _ => 0⟩ "id" [1] [2] [3] := by
  intro h; simp at h

end Cinco.C09
