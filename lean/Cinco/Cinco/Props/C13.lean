import Cinco.Proofs.Heap
import Cinco.Generated.Defaults
/-
  C13 — configurations built from one schema share no mutable state.

  Model: `Cinco/Heap/Model.lean` (a heap of list / dict / configuration cells with ghost owners, so that the three ways a
  mutable default can reach a new configuration — `alias`, `shallow`, `deep` — are all expressible).
  Helper lemmas: `Cinco/Proofs/Heap.lean`.

  Conventions.  `S = initS specs` is the schema table with the declared default trees allocated (owner `schema`);
  `init specs` is the state before any configuration exists; a *history* is any list of `(root index, Op)`, i.e. any
  interleaving of `build`s and operations on any roots.  `State.cfg s j`, `State.dyn s j` are `none` while root `j` has not
  been built.  `obsCfg` / `obsDefaults` use the built-in fuel `heap.next + 1`; the `…N n` variants take an explicit fuel and
  the theorems about them hold for *every* fuel (no hypothesis).  `AllDeep S` is the only hypothesis on the schema table.
  `Inv S s` bundles the three invariants `Sep` (ownership), `Bounded` (acyclic, depth ≤ heap size) and `NoShare`; all three
  hold initially and are preserved by every step (section 6), so every reachable state satisfies them (`inv_reached`).
-/
namespace Cinco.C13
open Cinco.Heap

/-- the state reached from the initial state by a history -/
abbrev reached (specs : List SchemaSpec) (hist : List (Nat × Op)) : State := run (initS specs) (init specs) hist

/-! ## 6. the separation invariant -/

/-- **`Sep` holds initially** (together with the depth bound that makes the built-in fuel sufficient). -/
theorem sep_init (specs : List SchemaSpec) : Sep (initS specs) (init specs) ∧ Bounded (init specs).heap :=
  ⟨Heap.sep_init specs, bounded_init specs⟩

/-- **`Sep` is preserved by every step** on every root (successful or failing), under `AllDeep`. -/
theorem sep_step {S : Schemas} (hS : AllDeep S) {s : State} (hs : Sep S s) (i : Nat) (op : Op) : Sep S (step S s i op).1 :=
  step_sep hS hs i op

/-- the depth bound is preserved as well -/
theorem bounded_step {S : Schemas} (hS : AllDeep S) {s : State} (hs : Sep S s) (hb : Bounded s.heap) (i : Nat) (op : Op) :
    Bounded (step S s i op).1.heap := step_bounded hS hs hb i op

/-- hence both hold in every reachable state -/
theorem sep_reached (specs : List SchemaSpec) (hS : AllDeep (initS specs)) (hist : List (Nat × Op)) :
    Sep (initS specs) (reached specs hist) ∧ Bounded (reached specs hist).heap := reached_inv hS hist

/-- **no sharing** is preserved too: under `AllDeep` no step makes two references to one cell (needed for theorem 5) -/
theorem noShare_step {S : Schemas} (hS : AllDeep S) {s : State} (hs : Sep S s) (ns : NoShare s.heap) (i : Nat) (op : Op) :
    NoShare (step S s i op).1.heap := step_noShare hS hs ns i op

/-- all three invariants (`Inv` = `Sep` + `Bounded` + `NoShare`) hold in every reachable state -/
theorem inv_reached (specs : List SchemaSpec) (hS : AllDeep (initS specs)) (hist : List (Nat × Op)) :
    Inv (initS specs) (reached specs hist) := inv_run hS hist (inv_init specs)

/-- **every cell reachable from root `k` is owned by `cfg k`** -/
theorem sep_reach_root {S : Schemas} {s : State} (hs : Sep S s) {k r : Nat} (hr : s.roots[k]? = some r) {x : Nat}
    (hx : Reach s.heap (.ref r) x) : s.heap.owner? x = some (.cfg k) := by
  obtain ⟨c, e⟩ := reach_owned hs.closed hx (o := .cfg k) (hs.roots k r hr)
  simp [Heap.owner?, e]

/-- **every cell reachable from a declared default is owned by `schema`** -/
theorem sep_reach_default {S : Schemas} {s : State} (hs : Sep S s) {sd : SchemaDecl} (hsd : sd ∈ S) {p : String × HVal}
    (hp : p ∈ leafDefaults sd.fields) {x : Nat} (hx : Reach s.heap p.2 x) : s.heap.owner? x = some .schema := by
  obtain ⟨c, e⟩ := reach_owned hs.closed hx (o := .schema) (hs.defaults sd hsd p hp)
  simp [Heap.owner?, e]

/-- **a step on root `i` writes only cells owned by `cfg i` and allocates only cells owned by `cfg i`**: every cell that exists
    and has another owner (in particular every schema-owned cell) is literally unchanged, no cell changes owner, and all
    new cells belong to `cfg i`. -/
theorem step_writes_only_own {S : Schemas} (hS : AllDeep S) {s : State} (hs : Sep S s) (i : Nat) (op : Op) :
    Ext i s.heap (step S s i op).1.heap := (step_shape hS hs i op).ext

/-- schema-owned cells are never written -/
theorem schema_cells_never_written {S : Schemas} (hS : AllDeep S) {s : State} (hs : Sep S s) (i : Nat) (op : Op) {a : Nat} {c : Cell}
    (e : s.heap.get? a = some (.schema, c)) : (step S s i op).1.heap.get? a = some (.schema, c) :=
  (step_shape hS hs i op).frame e (by simp)

/-- **congruence: the observation of a value depends only on the cells of its owner.**  If `h'` agrees with `h` on every cell
    owned by `o` and regions of `h` are closed, every value owned by `o` reads the same in both heaps, at every fuel. -/
theorem obs_depends_on_owned_cells {h h' : Heap} {o : Owner} (hc : Closed h)
    (agree : ∀ a c, h.get? a = some (o, c) → h'.get? a = some (o, c)) (n : Nat) (v : HVal) (ov : OwnedBy h o v) :
    readV n h' v = readV n h v := read_congr hc agree n v ov

/-! ## 1. operations on one configuration are invisible through another -/

/-- **Frame, one step.**  In any state satisfying the invariant, an operation `o` on root `i` (any operation: `build` of root
    `i`, assignment, in-place mutation, reset, adding an item; successful or not) leaves the deep observation and the
    dynamic-field list of every other root `j` unchanged, and leaves every declared default unchanged.
    (For a root `j` not yet built both sides are `none`.) -/
theorem frame_other_config {S : Schemas} (hS : AllDeep S) {s : State} (hs : Sep S s) (hb : Bounded s.heap)
    {i j : Nat} (hij : i ≠ j) (o : Op) :
    (step S s i o).1.cfg j = s.cfg j ∧ (step S s i o).1.dyn j = s.dyn j ∧
    obsDefaults (step S s i o).1.heap S = obsDefaults s.heap S :=
  ⟨step_cfg_other hS hs hb hij o, step_dyn_other hS hs hij o, step_defaults hS hs hb i o⟩

/-- the same at every explicit fuel (needs no depth bound) -/
theorem frame_other_config_fuel {S : Schemas} (hS : AllDeep S) {s : State} (hs : Sep S s) {i j : Nat} (hij : i ≠ j) (o : Op) (n : Nat) :
    (step S s i o).1.cfgN n j = s.cfgN n j ∧ obsDefaultsN n (step S s i o).1.heap S = obsDefaultsN n s.heap S :=
  ⟨step_cfgN_other hS hs hij o n, step_defaultsN hS hs i o n⟩

/-- **Frame, operation sequences** on root `i`. -/
theorem frame_other_config_seq {S : Schemas} (hS : AllDeep S) {s : State} (hs : Sep S s) (hb : Bounded s.heap)
    {i j : Nat} (hij : i ≠ j) (ops : List Op) :
    (runOn S s i ops).cfg j = s.cfg j ∧ (runOn S s i ops).dyn j = s.dyn j ∧
    obsDefaults (runOn S s i ops).heap S = obsDefaults s.heap S :=
  let r := runOn_other hS hij ops hs hb
  ⟨r.1, r.2.1, r.2.2.1⟩

/-- **Frame, full statement.**  For every schema table with `AllDeep`, every history `hist`, every two distinct root indices
    and every operation sequence on `i` afterwards: root `j` (built before, or not at all) and the declared defaults observe
    the same before and after. -/
theorem frame_other_config_reached (specs : List SchemaSpec) (hS : AllDeep (initS specs)) (hist : List (Nat × Op))
    {i j : Nat} (hij : i ≠ j) (ops : List Op) :
    (runOn (initS specs) (reached specs hist) i ops).cfg j = (reached specs hist).cfg j ∧
    (runOn (initS specs) (reached specs hist) i ops).dyn j = (reached specs hist).dyn j ∧
    obsDefaults (runOn (initS specs) (reached specs hist) i ops).heap (initS specs) =
      obsDefaults (reached specs hist).heap (initS specs) :=
  frame_other_config_seq hS (reached_inv hS hist).1 (reached_inv hS hist).2 hij ops

/-! ## 3. the declared defaults never change -/

/-- **After any history the declared defaults of every schema read exactly as in the initial state.** -/
theorem defaults_never_change (specs : List SchemaSpec) (hS : AllDeep (initS specs)) (hist : List (Nat × Op)) :
    obsDefaults (reached specs hist).heap (initS specs) = obsDefaults (init specs).heap (initS specs) :=
  run_defaults hS hist (Heap.sep_init specs) (bounded_init specs)

/-- the same at every explicit fuel -/
theorem defaults_never_change_fuel (specs : List SchemaSpec) (hS : AllDeep (initS specs)) (hist : List (Nat × Op)) (n : Nat) :
    obsDefaultsN n (reached specs hist).heap (initS specs) = obsDefaultsN n (init specs).heap (initS specs) :=
  run_defaultsN hS n hist (Heap.sep_init specs)

/-! ## 2. a configuration built later is as pristine as one built first -/

/-- **A configuration built after any history observes exactly what a configuration built in the initial state observes**
    (the "before or after each other's mutations" clause).  Both sides are `none` only if schema 0 does not exist. -/
theorem fresh_build_pristine (specs : List SchemaSpec) (hS : AllDeep (initS specs)) (hist : List (Nat × Op)) :
    (step (initS specs) (reached specs hist) (reached specs hist).roots.length .build).1.cfg (reached specs hist).roots.length =
    (step (initS specs) (init specs) 0 .build).1.cfg 0 :=
  build_same hS (reached_inv hS hist).1 (reached_inv hS hist).2 (Heap.sep_init specs) (bounded_init specs)
    (fun _ hsd _ _ _ hm n => run_default_read hS hist (Heap.sep_init specs) hsd hm n)

/-- the functional form: at every fuel `n` the new root reads as `pristine`, a function of the schema table and of the reads
    of the declared defaults *in the initial state* only. -/
theorem fresh_build_pristine_fuel (specs : List SchemaSpec) (hS : AllDeep (initS specs)) (hist : List (Nat × Op)) (n : Nat) :
    (step (initS specs) (reached specs hist) (reached specs hist).roots.length .build).1.cfgN n (reached specs hist).roots.length =
      if ((initS specs)[0]?).isSome
      then some (pristine (initS specs) (fun m v => readV m (init specs).heap v) (buildFuel (initS specs)) n 0)
      else none :=
  build_cfgN hS (reached_inv hS hist).1 _
    (fun _ hsd _ _ _ hm m => run_default_read hS hist (Heap.sep_init specs) hsd hm m) n

/-! ## 4. dynamic fields stay with their configuration -/

/-- **Adding a dynamic key to root `i`** (an assignment to an undeclared key, at any depth of `path`) changes the dynamic-field
    list of no other root — and, by construction, not the schema: `step` has no way to return a schema table. -/
theorem dynamic_stays_local {S : Schemas} (hS : AllDeep S) {s : State} (hs : Sep S s) {i j : Nat} (hij : i ≠ j)
    (path : List PStep) (key : String) (value : Tree) :
    (step S s i (.set path key value)).1.dyn j = s.dyn j ∧
    fieldNames (stepWorld (S, s) i (.set path key value)).1 = fieldNames S :=
  ⟨step_dyn_other hS hs hij _, rfl⟩

/-- the schema table (declared defaults, field set, field options) after any history is the schema table before -/
theorem schema_immutable (S : Schemas) (s : State) : ∀ (hist : List (Nat × Op)), (runWorld (S, s) hist).1 = S
  | [] => rfl
  | (i, o) :: rest => schema_immutable S (step S s i o).1 rest

/-! ## 5. items of configuration lists (and sub-configurations) are independent of each other

  Paths are lists of `PStep`: `fld name` enters a sub-configuration, `item name n` enters the `n`-th configuration of the
  `cfgList` field `name` (this is the path step added for list items).  `State.at s i p` is the address of the configuration
  at path `p` below root `i`, `State.cfgAt s i p` its deep observation.  Two configurations of one root are *unrelated* when
  neither path is a prefix of the other — e.g. two items of one list, items of two different lists of the same parent, an item
  and a sibling sub-configuration.  (If `pB` extended `pA`, `B` would be a part of `A` and an operation on `A` may of course
  change it.)  The item schema plays no role: the statements hold whether or not the lists share an item schema. -/

/-- **Unrelated configurations of one root.**  An operation on root `i` whose path goes through `pA` (it acts on the
    configuration at `pA` or anywhere inside it) neither moves nor changes the configuration at an unrelated path `pB`. -/
theorem items_independent {S : Schemas} (hS : AllDeep S) {s : State} (inv : Inv S s) {i : Nat} (o : Op)
    {pA rest pB : List PStep} (hop : o.path = pA ++ rest) (h1 : ¬ pA <+: pB) (h2 : ¬ pB <+: pA) {B : Nat}
    (hB : s.at i pB = some B) :
    (step S s i o).1.at i pB = some B ∧ (step S s i o).1.cfgAt i pB = s.cfgAt i pB := by
  obtain ⟨a1, a2⟩ := step_incomparable hS inv o hop h1 h2 hB
  exact ⟨a1, by simp [State.cfgAt, a1, hB, a2]⟩

/-- the same for a sequence of operations that all go through `pA` -/
theorem items_independent_seq {S : Schemas} (hS : AllDeep S) {s : State} (inv : Inv S s) {i : Nat} (ops : List Op)
    {pA pB : List PStep} (hops : ∀ o ∈ ops, pA <+: o.path) (h1 : ¬ pA <+: pB) (h2 : ¬ pB <+: pA) {B : Nat}
    (hB : s.at i pB = some B) :
    (runOn S s i ops).at i pB = some B ∧ (runOn S s i ops).cfgAt i pB = s.cfgAt i pB := by
  obtain ⟨a1, a2⟩ := runOn_incomparable hS h1 h2 ops inv hops hB
  exact ⟨a1, by simp [State.cfgAt, a1, hB, a2]⟩

/-- **Two items of lists of the same parent configuration** (the same list with different indices, or two different lists):
    operations through one item leave the other alone. -/
theorem items_independent_siblings {S : Schemas} (hS : AllDeep S) {s : State} (inv : Inv S s) {i : Nat} (o : Op)
    {p rest : List PStep} {l1 l2 : String} {n1 n2 : Nat} (hne : (l1, n1) ≠ (l2, n2))
    (hop : o.path = (p ++ [.item l1 n1]) ++ rest) {B : Nat} (hB : s.at i (p ++ [.item l2 n2]) = some B) :
    (step S s i o).1.at i (p ++ [.item l2 n2]) = some B ∧
    (step S s i o).1.cfgAt i (p ++ [.item l2 n2]) = s.cfgAt i (p ++ [.item l2 n2]) := by
  refine items_independent hS inv o hop ?_ ?_ hB
  · intro hp
    rw [List.prefix_append_right_inj, List.cons_prefix_cons] at hp
    have := hp.1; simp at this; exact hne (by rw [this.1, this.2])
  · intro hp
    rw [List.prefix_append_right_inj, List.cons_prefix_cons] at hp
    have := hp.1; simp at this; exact hne (by rw [this.1, this.2])

/-- **Items (or any configurations) below different roots**: an operation on root `i` neither moves nor changes a
    configuration at any path below another root `j`. -/
theorem items_independent_roots {S : Schemas} (hS : AllDeep S) {s : State} (inv : Inv S s) {i j : Nat} (hij : i ≠ j) (o : Op)
    {pB : List PStep} {B : Nat} (hB : s.at j pB = some B) :
    (step S s i o).1.at j pB = some B ∧ (step S s i o).1.cfgAt j pB = s.cfgAt j pB := by
  obtain ⟨a1, a2⟩ := step_other_root_path hS inv hij o hB
  exact ⟨a1, by simp [State.cfgAt, a1, hB, a2]⟩

/-- the general fact behind the three: an operation on root `i` at path `q` changes the observation of the configuration at
    path `pB` of the same root only if `pB` is a prefix of `q` (i.e. only if it acts on that configuration or inside it) -/
theorem frame_below_path {S : Schemas} (hS : AllDeep S) {s : State} (inv : Inv S s) {i : Nat} (o : Op)
    {pB : List PStep} (hp : ¬ pB <+: o.path) {B : Nat} (hB : s.at i pB = some B) :
    obsCfg (step S s i o).1.heap B = obsCfg s.heap B := by
  obtain ⟨r, hr, eB⟩ := State.at_some hB
  exact step_obs_path hS inv hr o eB hp

/-- in reachable states -/
theorem items_independent_reached (specs : List SchemaSpec) (hS : AllDeep (initS specs)) (hist : List (Nat × Op)) {i : Nat}
    (ops : List Op) {pA pB : List PStep} (hops : ∀ o ∈ ops, pA <+: o.path) (h1 : ¬ pA <+: pB) (h2 : ¬ pB <+: pA) {B : Nat}
    (hB : (reached specs hist).at i pB = some B) :
    (runOn (initS specs) (reached specs hist) i ops).at i pB = some B ∧
    (runOn (initS specs) (reached specs hist) i ops).cfgAt i pB = (reached specs hist).cfgAt i pB :=
  items_independent_seq hS (inv_reached specs hS hist) ops hops h1 h2 hB

/-! ## 7. necessity of `AllDeep` and non-vacuity (all by kernel evaluation of the model) -/

section Demo

/-- one schema, one field `xs` whose default is the nested list `[["1"]]`, stored by discipline `d` -/
def spec (d : Disc) : List SchemaSpec :=
  [{ fields := [("xs", .leaf d (.list [.list [.atom "1"]]))], dynamic := true }]

/-- two configurations built from it -/
def two (d : Disc) : State := reached (spec d) [(0, .build), (1, .build)]

/-- `cfg.xs.append("9")` -/
def appendTop : Op := .mut [] "xs" [] (.append (.atom "9"))
/-- `cfg.xs[0].append("9")` -/
def appendInner : Op := .mut [] "xs" [.idx 0] (.append (.atom "9"))

def after (d : Disc) (o : Op) : State := (step (initS (spec d)) (two d) 0 o).1

def pristineObs : Tree := .dict [("xs", .list [.list [.atom "1"]])]
def pristineDefaults : List (List (String × Tree)) := [[("xs", .list [.list [.atom "1"]])]]

/-- both configurations start pristine, whatever the discipline -/
example (d : Disc) : (two d).cfg 0 = some pristineObs ∧ (two d).cfg 1 = some pristineObs ∧
    obsDefaults (two d).heap (initS (spec d)) = pristineDefaults := by cases d <;> exact ⟨rfl, rfl, rfl⟩

/-- `alias` violates the hypothesis of the theorems, `deep` satisfies it -/
example : ¬ AllDeep (initS (spec .alias)) := fun h => absurd (check_of_allDeep h) (by decide)
example : ¬ AllDeep (initS (spec .shallow)) := fun h => absurd (check_of_allDeep h) (by decide)
theorem deep_ok : AllDeep (initS (spec .deep)) := allDeep_of_check (by decide)

/-- **(a) alias**: mutating the list through configuration 0 is seen through configuration 1 and in the schema default -/
theorem alias_leaks :
    (after .alias appendTop).cfg 1 = some (.dict [("xs", .list [.list [.atom "1"], .atom "9"])]) ∧
    (after .alias appendTop).cfg 1 ≠ (two .alias).cfg 1 ∧
    obsDefaults (after .alias appendTop).heap (initS (spec .alias)) ≠ obsDefaults (two .alias).heap (initS (spec .alias)) :=
  ⟨rfl, optTree_ne (by decide), defaults_ne (by decide)⟩

/-- **(b) shallow**: the top level is separate … -/
theorem shallow_top_ok :
    (after .shallow appendTop).cfg 1 = (two .shallow).cfg 1 ∧
    obsDefaults (after .shallow appendTop).heap (initS (spec .shallow)) = obsDefaults (two .shallow).heap (initS (spec .shallow)) ∧
    (after .shallow appendTop).cfg 0 = some (.dict [("xs", .list [.list [.atom "1"], .atom "9"])]) :=
  ⟨rfl, rfl, rfl⟩

/-- … but the nested list is still shared with configuration 1 and with the default -/
theorem shallow_inner_leaks :
    (after .shallow appendInner).cfg 1 = some (.dict [("xs", .list [.list [.atom "1", .atom "9"]])]) ∧
    (after .shallow appendInner).cfg 1 ≠ (two .shallow).cfg 1 ∧
    obsDefaults (after .shallow appendInner).heap (initS (spec .shallow)) ≠ obsDefaults (two .shallow).heap (initS (spec .shallow)) :=
  ⟨rfl, optTree_ne (by decide), defaults_ne (by decide)⟩

/-- **(c) deep**: the same two histories are instances of `frame_other_config_reached`, every hypothesis discharged -/
theorem deep_top_framed :
    (after .deep appendTop).cfg 1 = (two .deep).cfg 1 ∧ (after .deep appendTop).dyn 1 = (two .deep).dyn 1 ∧
    obsDefaults (after .deep appendTop).heap (initS (spec .deep)) = obsDefaults (two .deep).heap (initS (spec .deep)) :=
  frame_other_config_reached (spec .deep) deep_ok [(0, .build), (1, .build)] (i := 0) (j := 1) (by decide) [appendTop]

theorem deep_inner_framed :
    (after .deep appendInner).cfg 1 = (two .deep).cfg 1 ∧ (after .deep appendInner).dyn 1 = (two .deep).dyn 1 ∧
    obsDefaults (after .deep appendInner).heap (initS (spec .deep)) = obsDefaults (two .deep).heap (initS (spec .deep)) :=
  frame_other_config_reached (spec .deep) deep_ok [(0, .build), (1, .build)] (i := 0) (j := 1) (by decide) [appendInner]

/-- … and the operations did happen (the statements are not about failing operations) -/
example : (after .deep appendTop).cfg 0 = some (.dict [("xs", .list [.list [.atom "1"], .atom "9"])]) ∧
    (after .deep appendInner).cfg 0 = some (.dict [("xs", .list [.list [.atom "1", .atom "9"]])]) ∧
    (after .deep appendInner).cfg 1 = some pristineObs := ⟨rfl, rfl, rfl⟩

/-- a configuration built *after* the mutation is pristine under `deep` (instance of `fresh_build_pristine`) but not under `alias` -/
example : (step (initS (spec .deep)) (after .deep appendInner) 2 .build).1.cfg 2 = (step (initS (spec .deep)) (init (spec .deep)) 0 .build).1.cfg 0 :=
  fresh_build_pristine (spec .deep) deep_ok [(0, .build), (1, .build), (0, appendInner)]
example : (step (initS (spec .alias)) (after .alias appendTop) 2 .build).1.cfg 2 ≠ (step (initS (spec .alias)) (init (spec .alias)) 0 .build).1.cfg 0 :=
  optTree_ne (by decide)

/-- a dynamic field is recorded on the configuration it was assigned to, and nowhere else -/
example : ((step (initS (spec .deep)) (two .deep) 0 (.set [] "extra" (.atom "v"))).1.dyn 0 = some ["extra"]) ∧
    ((step (initS (spec .deep)) (two .deep) 0 (.set [] "extra" (.atom "v"))).1.dyn 1 = some []) ∧
    fieldNames (initS (spec .deep)) = [["xs"]] := ⟨rfl, rfl, rfl⟩

/-- a schema with two configuration lists `a`, `b` whose items come from one item schema with a list default `v` -/
def listSpec (d : Disc) : List SchemaSpec :=
  [{ fields := [("a", .cfgList 1), ("b", .cfgList 1)], dynamic := false },
   { fields := [("v", .leaf d (.list []))], dynamic := false }]

/-- one root with one item in each list -/
def lists (d : Disc) : State := reached (listSpec d) [(0, .build), (0, .addItem [] "a"), (0, .addItem [] "b")]

/-- `cfg.a[0].v.append("x")` -/
def appendInItem : Op := .mut [.item "a" 0] "v" [] (.append (.atom "x"))

/-- with an aliased default the item of list `b` sees the mutation of the item of list `a` … -/
example : (step (initS (listSpec .alias)) (lists .alias) 0 appendInItem).1.cfgAt 0 [.item "b" 0] = some (.dict [("v", .list [.atom "x"])]) ∧
    (lists .alias).cfgAt 0 [.item "b" 0] = some (.dict [("v", .list [])]) := ⟨rfl, rfl⟩

/-- … with `deep` it does not: an instance of `items_independent_siblings` -/
theorem deep_items_independent :
    (step (initS (listSpec .deep)) (lists .deep) 0 appendInItem).1.cfgAt 0 [.item "b" 0] = (lists .deep).cfgAt 0 [.item "b" 0] :=
  (items_independent_siblings (allDeep_of_check (by decide)) (inv_reached (listSpec .deep) (allDeep_of_check (by decide)) _)
    appendInItem (p := []) (rest := []) (l1 := "a") (n1 := 0) (l2 := "b") (n2 := 0) (by decide) rfl (B := 7) rfl).2

example : (step (initS (listSpec .deep)) (lists .deep) 0 appendInItem).1.cfgAt 0 [.item "a" 0] = some (.dict [("v", .list [.atom "x"])]) ∧
    (lists .deep).cfgAt 0 [.item "b" 0] = some (.dict [("v", .list [])]) := ⟨rfl, rfl⟩

end Demo

/-! ## 8. the tie to the source: how `__setdefault__` hands a mutable default over today

`Generated.defaultDisc` is rewritten from `/repo` on every run (harness/extract.py, `default_disciplines`): for `Field`,
`ListField` (typed / untyped) and `DictField` (typed / untyped) it records whether the default reaches a new configuration as
the object itself (`alias`), through `list()` / `dict()` (`shallow`), through a validating proxy (`proxy`: new top level, items
through the item field) or through `copy.deepcopy` (`deep`).  The correspondence check gives every leaf of the model the
discipline this table says; `AllDeep`, the one hypothesis of the theorems above, is therefore discharged exactly when the
table is all `deep`. -/

def discOfEntry : String → Disc
  | "deep" => .deep
  | "shallow" => .shallow
  | "proxy" => .shallow            -- a proxy copies the top level only where an item field keeps its items as they are
  | _ => .alias

/-- **Every `__setdefault__` of the current source deep-copies a mutable default.** -/
theorem source_disciplines_deep : ∀ e ∈ Generated.defaultDisc, discOfEntry e.2 = .deep := by
  decide

end Cinco.C13
