import Cinco.Proofs.Roundtrip
import Cinco.Proofs.RoundtripLeaf
import Cinco.Config.Doc
/-
  C02 — saving and re-loading a configuration reproduces it exactly.
  Property theorems only; the induction lives in Cinco/Proofs/Roundtrip.lean.
-/
namespace Cinco.C02
open Cinco Cinco.Field Cinco.Config

/-- **Tree round trip.**  For every schema with distinct keys and every configuration `c` of it, at any nesting depth
    (sub-configurations, config types, lists of configurations, dynamically added fields): if `c` validates, `to_tree`
    returns `t`, and `c0` is a fresh configuration of the same schema, then `load_tree(t)` with validation does not fail and
    the result holds the same value as `c` under every persistent field at every depth — up to exactly the allowed
    normalisations (an unset typed list / dict comes back empty, an empty secret comes back unset, an unset list of
    configurations comes back empty) — the same dynamically added values, and nothing else.
    Premises: `SchemaLoadable` (no field is bound to a set environment variable — `load_tree` skips those — and item schemas
    can be instantiated), `Shaped` (each declared storing field has a slot of its shape; no extra fields unless the schema is
    dynamic), `CodecOkAll` (each leaf's stored form decodes to the held value: the field-level law of C05/C08/C09),
    `StableAll` (automatic without custom validators), `ValidDeep` (nested configurations validate). -/
theorem tree_roundtrip (W : World) (fuel : Nat) (s : Schema) (c : Cfg) (t : List (Val × Val)) (c0 : Cfg) (n0 n1 : Nat)
    (hnd : s.keysNodup = true) (hsr : SchemaLoadable W fuel s) (hsh : Shaped fuel s c) (hco : CodecOkAll W fuel s c)
    (hst : StableAll W fuel s c) (hvd : ValidDeep W fuel s c) (hv : ∃ p, validateCfg W (fuel + 1) s p c = none)
    (ht : toTree W fuel s c false none = some t) (hb : build W "" false none s n0 = .ok (c0, n1)) :
    (loadTree W fuel s "" c0 t true n1).err = none ∧
    SameValues W fuel s c (loadTree W fuel s "" c0 t true n1).cfg :=
  roundtrip_validate W fuel s c t c0 n0 n1 hnd hsr hsh hco hst hvd hv ht hb

/-- the same without validation on load (`load_tree(validate=False)`), for any state whose nested configurations validate -/
theorem tree_roundtrip_novalidate (W : World) (fuel : Nat) (s : Schema) (c : Cfg) (t : List (Val × Val)) (c0 : Cfg) (n0 n1 : Nat)
    (hnd : s.keysNodup = true) (hsr : SchemaLoadable W fuel s) (hsh : Shaped fuel s c) (hco : CodecOkAll W fuel s c)
    (hst : StableAll W fuel s c) (hvd : ValidDeep W fuel s c)
    (ht : toTree W fuel s c false none = some t) (hb : build W "" false none s n0 = .ok (c0, n1)) :
    (loadTree W fuel s "" c0 t false n1).err = none ∧
    SameValues W fuel s c (loadTree W fuel s "" c0 t false n1).cfg :=
  roundtrip W fuel s c t c0 n0 n1 hnd hsr hsh hco hst hvd ht hb

/-- **Document round trip, in every format.**  `Config.dumps` then `Config.loads` into a fresh configuration: for any
    format that gives the tree back (`LawOn`: the format-level law of C04), saving succeeds, loading succeeds, and the
    reloaded configuration holds the same values. -/
theorem doc_roundtrip (W : World) (fuel : Nat) (s : Schema) (c : Cfg) (c0 : Cfg) (n0 n1 : Nat) (F : DocFormat)
    (hnd : s.keysNodup = true) (hsr : SchemaLoadable W fuel s) (hsh : Shaped fuel s c) (hco : CodecOkAll W fuel s c)
    (hst : StableAll W fuel s c) (hvd : ValidDeep W fuel s c) (hv : ∃ p, validateCfg W (fuel + 1) s p c = none)
    (t : List (Val × Val)) (ht : toTree W fuel s c false none = some t) (hF : F.LawOn t)
    (hb : build W "" false none s n0 = .ok (c0, n1)) :
    ∃ doc out, dumpsCfg W fuel s c F = some doc ∧ loadsCfg W fuel s c0 F doc n1 = some out ∧
      out.err = none ∧ SameValues W fuel s c out.cfg := by
  obtain ⟨b, hd, hl⟩ := hF
  refine ⟨b, loadTree W fuel s "" c0 t true n1, ?_, ?_, ?_⟩
  · simp [dumpsCfg, ht, hd]
  · simp [loadsCfg, hl]
  · exact tree_roundtrip W fuel s c t c0 n0 n1 hnd hsr hsh hco hst hvd hv ht hb

/-- two formats that both give the tree back reload to configurations holding the same values as the saved one (so the
    choice of format is unobservable after a reload) -/
theorem formats_interchangeable (W : World) (fuel : Nat) (s : Schema) (c : Cfg) (c0 : Cfg) (n0 n1 : Nat) (F G : DocFormat)
    (hnd : s.keysNodup = true) (hsr : SchemaLoadable W fuel s) (hsh : Shaped fuel s c) (hco : CodecOkAll W fuel s c)
    (hst : StableAll W fuel s c) (hvd : ValidDeep W fuel s c) (hv : ∃ p, validateCfg W (fuel + 1) s p c = none)
    (t : List (Val × Val)) (ht : toTree W fuel s c false none = some t) (hF : F.LawOn t) (hG : G.LawOn t)
    (hb : build W "" false none s n0 = .ok (c0, n1)) :
    ∃ d1 d2 o, dumpsCfg W fuel s c F = some d1 ∧ dumpsCfg W fuel s c G = some d2 ∧
      loadsCfg W fuel s c0 F d1 n1 = some o ∧ loadsCfg W fuel s c0 G d2 n1 = some o := by
  obtain ⟨b1, hd1, hl1⟩ := hF
  obtain ⟨b2, hd2, hl2⟩ := hG
  exact ⟨b1, b2, loadTree W fuel s "" c0 t true n1, by simp [dumpsCfg, ht, hd1], by simp [dumpsCfg, ht, hd2],
    by simp [loadsCfg, hl1], by simp [loadsCfg, hl2]⟩

/-- what "the same values" gives for one declared leaf: the reloaded value is the saved one, or one of the named normalisations -/
theorem reloaded_leaf {W : World} {d : Nat} {s : Schema} {c c' : Cfg} (h : SameValues W (d + 1) s c c')
    {k : String} {fs : FieldSpec} {m : LeafMeta} (hk : s.get k = some (.leaf fs m)) :
    ∃ v v', c.get k = some (.val v) ∧ c'.get k = some (.val v') ∧
      (v' = v ∨ (v = .none ∧ v' = .list [] ∧ ∃ it, fs.kind = .list it) ∨
       (v = .none ∧ v' = .dict [] ∧ ∃ kf vf, fs.kind = .dict kf vf) ∨
       (v = .str [] ∧ v' = .none ∧ ∃ m, fs.kind = .secure m)) :=
  sameValues_leaf h hk


/-! ### the serialised tree -/

/-- **The tree is plain data**: strings, numbers, booleans, null, lists and string-keyed maps only — for every configuration
    whose leaf declarations are typed (no AnyField / untyped container / custom validator, dict keys required and string-like)
    and whose leaves hold validation results, at every depth; dynamically added fields must hold plain data themselves. -/
theorem tree_is_plain (W : World) (hE : ∀ m s r, W.fe.encryptS m s = some r → r.plain = true)
    (fuel : Nat) (s : Schema) (c : Cfg) (t : List (Val × Val))
    (hnd : s.keysNodup = true) (hsh : Shaped fuel s c) (hl : AllLeaves (PlainLeaf W.fe) fuel s c)
    (hdyn : AllCfgs DynPlain fuel s c) (ht : toTree W fuel s c false none = some t) :
    (Val.dict t).plain = true :=
  toTree_plain W hE fuel s c t hnd hsh hl hdyn ht

/-- **No virtual or instance-method field is written** unless virtual output is asked for (no premises at all) … -/
theorem tree_has_no_computed_field (W : World) (fuel : Nat) (s : Schema) (c : Cfg) (mask : Option Str) (t : List (Val × Val))
    (h : toTree W fuel s c false mask = some t) :
    ∀ kv ∈ t, ∃ n : String, kv.1 = .str n.toList ∧
      ((∃ f, (n, f) ∈ s.fields ∧ f.stores = true) ∨ (n ∈ c.dyn ∧ s.get n = none)) :=
  toTree_keys W fuel s c mask t h

/-- … and with virtual output every virtual field is written -/
theorem tree_virtual_when_asked (W : World) (fuel : Nat) (s : Schema) (c : Cfg) (mask : Option Str) (t : List (Val × Val))
    (h : toTree W fuel s c true mask = some t) (n : String) (cst : Val) (hs : Bool)
    (hm : (n, SField.virtual cst hs) ∈ s.fields) : (Val.str n.toList, cst) ∈ t :=
  toTree_virtual W fuel s c mask t h n cst hs hm

/-! ### the per-leaf codec premise, discharged -/

/-- **Round trip for the supported field kinds, with the codec premise proved**: every leaf declaration is `Supported`
    (all built-in kinds; typed lists and dicts of them, nested; custom validators anywhere except on a typed container
    itself), every held leaf is a fixed point of its field's validation and `TopCanon` (a digest carries the field's own
    algorithm — else finding F23; no `None` / empty secret nested inside a typed container; no tuple under an untyped list), and
    the encryption environment decrypts what it encrypted (`hS`, proved for the cipher models in C08) and reads null as unset
    (`hN`). -/
theorem tree_roundtrip_supported (W : World)
    (hS : ∀ m s r, s ≠ [] → W.fe.encryptS m s = some r → W.fe.decryptS r = some (some s))
    (hN : W.fe.decryptS .none = some none)
    (fuel : Nat) (s : Schema) (c : Cfg) (t : List (Val × Val)) (c0 : Cfg) (n0 n1 : Nat)
    (hnd : s.keysNodup = true) (hsr : SchemaLoadable W fuel s) (hsh : Shaped fuel s c)
    (hsup : SchemaLeaves (fun fs => Supported fs = true) fuel s) (hheld : AllLeaves (HeldOk W) fuel s c)
    (hst : StableAll W fuel s c) (hvd : ValidDeep W fuel s c) (hv : ∃ p, validateCfg W (fuel + 1) s p c = none)
    (ht : toTree W fuel s c false none = some t) (hb : build W "" false none s n0 = .ok (c0, n1)) :
    (loadTree W fuel s "" c0 t true n1).err = none ∧
    SameValues W fuel s c (loadTree W fuel s "" c0 t true n1).cfg :=
  tree_roundtrip W fuel s c t c0 n0 n1 hnd hsr hsh (codecOkAll_of_supported W hS hN fuel s c hsup hheld) hst hvd hv ht hb

/-- the conditions on held values are needed — each of these is accepted by its field and does not come back: a digest of a
    foreign algorithm (finding F23), and a tuple under an untyped list field (a tuple is not representable) -/
theorem held_conditions_needed :
    (validate lfWorld.fe.toEnv (.mk (.challenge "md5") false none) (.digest [] [] "sha1") = .ok (.digest [] [] "sha1") ∧
      ¬ CodecOk lfWorld (.mk (.challenge "md5") false none) (.digest [] [] "sha1")) ∧
    (validate lfWorld.fe.toEnv (.mk (.list none) false none) (.tuple [.int 1]) = .ok (.tuple [.int 1]) ∧
      ¬ CodecOk lfWorld (.mk (.list none) false none) (.tuple [.int 1])) :=
  ⟨codecOk_false_foreign_digest, codecOk_false_tuple⟩

/-- a dict key field that is not required accepts the key `None` and writes it as it is: a map that is not string-keyed
    (finding F34, with the non-string key kinds) -/
theorem plain_needs_string_keys :
    let fs : FieldSpec := .mk (.dict (some (.mk (.string {}) false none)) (some (.mk (.int none none) false none))) false none
    validate lfWorld.fe.toEnv fs (.dict [(.none, .int 1)]) = .ok (.dict [(.none, .int 1)]) ∧
    toBasic lfWorld.fe fs (.dict [(.none, .int 1)]) = .ok (.dict [(.none, .int 1)]) ∧
    (Val.dict [(.none, .int 1)]).plain = false :=
  toBasic_not_plain_none_key

/-- non-vacuity of the discharged premises: a stripped required string, base64 bytes, a list of ints, a sub-configuration
    with a flag and a secret, a virtual field -/
theorem example_leaves :
    toTree lfWorld 2 lfSchema lfCfg false none = some lfTree ∧ (Val.dict lfTree).plain = true ∧
    CodecOkAll lfWorld 2 lfSchema lfCfg :=
  leaf_example

/-- custom validators aside, the `StableAll` premise is automatic -/
theorem stable_automatic (W : World) (d : Nat) (s : Schema) (c : Cfg)
    (h : SchemaLeaves (fun fs => fs.custom = none) d s) : StableAll W d s c :=
  stableAll_of_no_custom W d s c h

/-- **Non-vacuity**: all premises hold together on a schema with a plain leaf, an unset typed list (reloaded as `[]`), a dynamic
    sub-configuration with a dynamically added field, a list of configurations and a virtual field. -/
theorem example_roundtrip : ∃ t c0 n1, toTree rtWorld 2 rtSchema rtCfg false none = some t ∧
    build rtWorld "" false none rtSchema 0 = .ok (c0, n1) ∧
    (loadTree rtWorld 2 rtSchema "" c0 t true n1).err = none ∧
    SameValues rtWorld 2 rtSchema rtCfg (loadTree rtWorld 2 rtSchema "" c0 t true n1).cfg :=
  roundtrip_example

end Cinco.C02
