import Cinco.Proofs.Roundtrip
import Cinco.Config.Doc
/-
  C02 — saving and re-loading a configuration reproduces it exactly.
  Property theorems only; the induction lives in Cinco/Proofs/Roundtrip.lean.
-/
namespace Cinco.C02
open Cinco Cinco.Field Cinco.Config

/-- **Tree round trip.**  For every schema with distinct keys and every configuration `c` of it, at any nesting depth
    (sub-configurations, config types, lists of configurations, dynamically added fields): if `c` validates, `to_tree`
    returns `t`, and `c0` is a fresh configuration of the same schema, then `load_tree(t)` with validation does not fail and
    the result holds the same value as `c` under every persistent field at every depth — up to exactly the allowed
    normalisations (an unset typed list / dict comes back empty, an empty secret comes back unset, an unset list of
    configurations comes back empty) — the same dynamically added values, and nothing else.
    Premises: `SchemaLoadable` (no field is bound to a set environment variable — `load_tree` skips those — and item schemas
    can be instantiated), `Shaped` (each declared storing field has a slot of its shape; no extra fields unless the schema is
    dynamic), `CodecOkAll` (each leaf's stored form decodes to the held value: the field-level law of C05/C08/C09),
    `StableAll` (automatic without custom validators), `ValidDeep` (nested configurations validate). -/
theorem tree_roundtrip (W : World) (fuel : Nat) (s : Schema) (c : Cfg) (t : List (Val × Val)) (c0 : Cfg) (n0 n1 : Nat)
    (hnd : s.keysNodup = true) (hsr : SchemaLoadable W fuel s) (hsh : Shaped fuel s c) (hco : CodecOkAll W fuel s c)
    (hst : StableAll W fuel s c) (hvd : ValidDeep W fuel s c) (hv : ∃ p, validateCfg W (fuel + 1) s p c = none)
    (ht : toTree W fuel s c false none = some t) (hb : build W "" false none s n0 = .ok (c0, n1)) :
    (loadTree W fuel s "" c0 t true n1).err = none ∧
    SameValues W fuel s c (loadTree W fuel s "" c0 t true n1).cfg :=
  roundtrip_validate W fuel s c t c0 n0 n1 hnd hsr hsh hco hst hvd hv ht hb

/-- the same without validation on load (`load_tree(validate=False)`), for any state whose nested configurations validate -/
theorem tree_roundtrip_novalidate (W : World) (fuel : Nat) (s : Schema) (c : Cfg) (t : List (Val × Val)) (c0 : Cfg) (n0 n1 : Nat)
    (hnd : s.keysNodup = true) (hsr : SchemaLoadable W fuel s) (hsh : Shaped fuel s c) (hco : CodecOkAll W fuel s c)
    (hst : StableAll W fuel s c) (hvd : ValidDeep W fuel s c)
    (ht : toTree W fuel s c false none = some t) (hb : build W "" false none s n0 = .ok (c0, n1)) :
    (loadTree W fuel s "" c0 t false n1).err = none ∧
    SameValues W fuel s c (loadTree W fuel s "" c0 t false n1).cfg :=
  roundtrip W fuel s c t c0 n0 n1 hnd hsr hsh hco hst hvd ht hb

/-- **Document round trip, in every format.**  `Config.dumps` then `Config.loads` into a fresh configuration: for any
    format that gives the tree back (`LawOn`: the format-level law of C04), saving succeeds, loading succeeds, and the
    reloaded configuration holds the same values. -/
theorem doc_roundtrip (W : World) (fuel : Nat) (s : Schema) (c : Cfg) (c0 : Cfg) (n0 n1 : Nat) (F : DocFormat)
    (hnd : s.keysNodup = true) (hsr : SchemaLoadable W fuel s) (hsh : Shaped fuel s c) (hco : CodecOkAll W fuel s c)
    (hst : StableAll W fuel s c) (hvd : ValidDeep W fuel s c) (hv : ∃ p, validateCfg W (fuel + 1) s p c = none)
    (t : List (Val × Val)) (ht : toTree W fuel s c false none = some t) (hF : F.LawOn t)
    (hb : build W "" false none s n0 = .ok (c0, n1)) :
    ∃ doc out, dumpsCfg W fuel s c F = some doc ∧ loadsCfg W fuel s c0 F doc n1 = some out ∧
      out.err = none ∧ SameValues W fuel s c out.cfg := by
  obtain ⟨b, hd, hl⟩ := hF
  refine ⟨b, loadTree W fuel s "" c0 t true n1, ?_, ?_, ?_⟩
  · simp [dumpsCfg, ht, hd]
  · simp [loadsCfg, hl]
  · exact tree_roundtrip W fuel s c t c0 n0 n1 hnd hsr hsh hco hst hvd hv ht hb

/-- two formats that both give the tree back reload to configurations holding the same values as the saved one (so the
    choice of format is unobservable after a reload) -/
theorem formats_interchangeable (W : World) (fuel : Nat) (s : Schema) (c : Cfg) (c0 : Cfg) (n0 n1 : Nat) (F G : DocFormat)
    (hnd : s.keysNodup = true) (hsr : SchemaLoadable W fuel s) (hsh : Shaped fuel s c) (hco : CodecOkAll W fuel s c)
    (hst : StableAll W fuel s c) (hvd : ValidDeep W fuel s c) (hv : ∃ p, validateCfg W (fuel + 1) s p c = none)
    (t : List (Val × Val)) (ht : toTree W fuel s c false none = some t) (hF : F.LawOn t) (hG : G.LawOn t)
    (hb : build W "" false none s n0 = .ok (c0, n1)) :
    ∃ d1 d2 o, dumpsCfg W fuel s c F = some d1 ∧ dumpsCfg W fuel s c G = some d2 ∧
      loadsCfg W fuel s c0 F d1 n1 = some o ∧ loadsCfg W fuel s c0 G d2 n1 = some o := by
  obtain ⟨b1, hd1, hl1⟩ := hF
  obtain ⟨b2, hd2, hl2⟩ := hG
  exact ⟨b1, b2, loadTree W fuel s "" c0 t true n1, by simp [dumpsCfg, ht, hd1], by simp [dumpsCfg, ht, hd2],
    by simp [loadsCfg, hl1], by simp [loadsCfg, hl2]⟩

/-- what "the same values" gives for one declared leaf: the reloaded value is the saved one, or one of the named normalisations -/
theorem reloaded_leaf {W : World} {d : Nat} {s : Schema} {c c' : Cfg} (h : SameValues W (d + 1) s c c')
    {k : String} {fs : FieldSpec} {m : LeafMeta} (hk : s.get k = some (.leaf fs m)) :
    ∃ v v', c.get k = some (.val v) ∧ c'.get k = some (.val v') ∧
      (v' = v ∨ (v = .none ∧ v' = .list [] ∧ ∃ it, fs.kind = .list it) ∨
       (v = .none ∧ v' = .dict [] ∧ ∃ kf vf, fs.kind = .dict kf vf) ∨
       (v = .str [] ∧ v' = .none ∧ ∃ m, fs.kind = .secure m)) :=
  sameValues_leaf h hk

/-- custom validators aside, the `StableAll` premise is automatic -/
theorem stable_automatic (W : World) (d : Nat) (s : Schema) (c : Cfg)
    (h : SchemaLeaves (fun fs => fs.custom = none) d s) : StableAll W d s c :=
  stableAll_of_no_custom W d s c h

/-- **Non-vacuity**: all premises hold together on a schema with a plain leaf, an unset typed list (reloaded as `[]`), a dynamic
    sub-configuration with a dynamically added field, a list of configurations and a virtual field. -/
theorem example_roundtrip : ∃ t c0 n1, toTree rtWorld 2 rtSchema rtCfg false none = some t ∧
    build rtWorld "" false none rtSchema 0 = .ok (c0, n1) ∧
    (loadTree rtWorld 2 rtSchema "" c0 t true n1).err = none ∧
    SameValues rtWorld 2 rtSchema rtCfg (loadTree rtWorld 2 rtSchema "" c0 t true n1).cfg :=
  roundtrip_example

end Cinco.C02
