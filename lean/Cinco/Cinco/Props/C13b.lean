import Cinco.Proofs.HeapTransfer
import Cinco.Heap.Transfer
import Cinco.Props.C13
import Cinco.Generated.FastPaths
/-
  C13b — a typed container handed from one configuration to another carries no shared mutable state.

  Model: `Cinco/Heap/Transfer.lean` (`transfer S s i j path key mode`: `cfg_i.<path>.key = cfg_j.key`, on the heap model of
  C13).  `mode = .revalidate` is the repaired library (the receiving field validates, hence re-creates, every level of the
  value: a deep copy owned by the receiver); `mode = .adopt` is the defect (new top-level container, the giver's own inner
  containers).  Helper lemmas: `Cinco/Proofs/HeapTransfer.lean`.

  The theorems say that a guarded transfer behaves like one more kind of step of the C13 model: it preserves `Inv`
  (`Sep` + `Bounded` + `NoShare`), it is invisible through every other root (the giver included) and in the declared
  defaults, the receiver reads back exactly what the giver held, and — because `Inv` holds afterwards — every frame theorem
  of `Props/C13.lean` applies to whatever happens after the transfer.  None of this needs `AllDeep` for the transfer itself
  (the copy is deep whatever the schema table says); `AllDeep` is needed only for the ordinary steps of a history.
  The `Demo` section shows by evaluation that all of it fails for `.adopt`.
-/
namespace Cinco.C13b
open Cinco.Heap

/-! ## 1. a guarded transfer preserves the invariant -/

/-- **A guarded transfer preserves the whole invariant** (`Sep`, `Bounded`, `NoShare`), whatever its outcome.
    (`AllDeep S` is not used: the hypothesis is kept so that the statement has the form of `inv_step`.) -/
theorem transfer_revalidate_inv {S : Schemas} (_hS : AllDeep S) {s : State} (hs : Inv S s) (i j : Nat) (path : List PStep)
    (key : String) : Inv S (transfer S s i j path key .revalidate).1 :=
  (transfer_shape hs.sep i j path key).inv (transfer_roots S s i j path key .revalidate) hs

/-- a transfer never creates or removes a root, in either mode -/
theorem transfer_roots_unchanged (S : Schemas) (s : State) (i j : Nat) (path : List PStep) (key : String) (mode : TransferMode) :
    (transfer S s i j path key mode).1.roots = s.roots := transfer_roots S s i j path key mode

/-- every error leaves the state exactly as it was, in either mode -/
theorem transfer_error_unchanged (S : Schemas) (s : State) (i j : Nat) (path : List PStep) (key : String) (mode : TransferMode)
    (err : (transfer S s i j path key mode).2 ≠ .ok) : (transfer S s i j path key mode).1 = s := by
  cases transfer_res S s i j path key mode with
  | failed e _ => exact e
  | done ri rj c v h' _ _ _ _ _ e => rw [e] at err; exact absurd rfl err

/-- a guarded transfer into root `i` writes only cells owned by `cfg i` and allocates only cells owned by `cfg i` -/
theorem transfer_writes_only_own {S : Schemas} {s : State} (hs : Sep S s) (i j : Nat) (path : List PStep) (key : String) :
    Ext i s.heap (transfer S s i j path key .revalidate).1.heap := (transfer_shape hs i j path key).ext

/-! ## 2. frame: a guarded transfer into root `i` is invisible through every other root -/

/-- **Frame.**  In any state satisfying the invariant, a guarded transfer into root `i` (from any giver `j`, at any path,
    successful or not) leaves the deep observation and the dynamic-field list of every root `k ≠ i` unchanged, and leaves
    every declared default unchanged.  (For a root `k` not yet built both sides are `none`.) -/
theorem transfer_revalidate_frame {S : Schemas} (_hS : AllDeep S) {s : State} (hs : Inv S s) {i k : Nat} (hik : i ≠ k)
    (j : Nat) (path : List PStep) (key : String) :
    (transfer S s i j path key .revalidate).1.cfg k = s.cfg k ∧
    (transfer S s i j path key .revalidate).1.dyn k = s.dyn k ∧
    obsDefaults (transfer S s i j path key .revalidate).1.heap S = obsDefaults s.heap S :=
  let sh := transfer_shape hs.sep i j path key
  let hr := transfer_roots S s i j path key .revalidate
  ⟨sh.cfg_other hr hs.sep hs.bounded hik, sh.dyn_other hr hs.sep hik, sh.defaults hs.sep hs.bounded⟩

/-- the same at every explicit fuel -/
theorem transfer_revalidate_frame_fuel {S : Schemas} (_hS : AllDeep S) {s : State} (hs : Inv S s) {i k : Nat} (hik : i ≠ k)
    (j : Nat) (path : List PStep) (key : String) (n : Nat) :
    (transfer S s i j path key .revalidate).1.cfgN n k = s.cfgN n k ∧
    obsDefaultsN n (transfer S s i j path key .revalidate).1.heap S = obsDefaultsN n s.heap S :=
  let sh := transfer_shape hs.sep i j path key
  ⟨sh.cfgN_other (transfer_roots S s i j path key .revalidate) hs.sep hik n, sh.defaultsN hs.sep n⟩

/-- **in particular the giver** (when it is another root) observes the same before and after, at the built-in and at every
    explicit fuel -/
theorem transfer_revalidate_giver_unchanged {S : Schemas} (hS : AllDeep S) {s : State} (hs : Inv S s) {i j : Nat} (hij : i ≠ j)
    (path : List PStep) (key : String) :
    (transfer S s i j path key .revalidate).1.cfg j = s.cfg j ∧
    (transfer S s i j path key .revalidate).1.dyn j = s.dyn j ∧
    ∀ n, (transfer S s i j path key .revalidate).1.cfgN n j = s.cfgN n j :=
  let f := transfer_revalidate_frame hS hs hij j path key
  ⟨f.1, f.2.1, fun n => (transfer_revalidate_frame_fuel hS hs hij j path key n).1⟩

/-- configurations at any path below another root `k ≠ i` (sub-configurations, items of configuration lists) neither move
    nor change -/
theorem transfer_revalidate_frame_paths {S : Schemas} (_hS : AllDeep S) {s : State} (hs : Inv S s) {i k : Nat} (hik : i ≠ k)
    (j : Nat) (path : List PStep) (key : String) {pB : List PStep} {B : Nat} (hB : s.at k pB = some B) :
    (transfer S s i j path key .revalidate).1.at k pB = some B ∧
    (transfer S s i j path key .revalidate).1.cfgAt k pB = s.cfgAt k pB := by
  obtain ⟨a1, a2⟩ := (transfer_shape hs.sep i j path key).at_other (transfer_roots S s i j path key .revalidate) hs hik hB
  exact ⟨a1, by simp [State.cfgAt, a1, hB, a2]⟩

/-- inside the receiving root, the observation of the configuration at path `pB` changes only if `pB` is a prefix of the
    transfer's path (i.e. only if the receiver is that configuration or lies inside it) -/
theorem transfer_revalidate_frame_below_path {S : Schemas} (_hS : AllDeep S) {s : State} (hs : Inv S s) (i j : Nat)
    (path : List PStep) (key : String) {pB : List PStep} (hp : ¬ pB <+: path) {B : Nat} (hB : s.at i pB = some B) :
    obsCfg (transfer S s i j path key .revalidate).1.heap B = obsCfg s.heap B :=
  transfer_obs_path hs i j path key hp hB

/-! ## 3. everything that happens after a guarded transfer is covered by C13 -/

/-- **The invariant holds after a guarded transfer followed by any history** (any interleaving of `build`s and operations
    on any roots), so every theorem of `Props/C13.lean` stated under `Inv` / `Sep` / `Bounded` applies there. -/
theorem transfer_then_history_inv {S : Schemas} (hS : AllDeep S) {s : State} (hs : Inv S s) (i j : Nat) (path : List PStep)
    (key : String) (hist : List (Nat × Op)) : Inv S (run S (transfer S s i j path key .revalidate).1 hist) :=
  inv_run hS hist (transfer_revalidate_inv hS hs i j path key)

/-- for instance the sequence frame theorem of C13: after a guarded transfer and any history, operations on a root `a` are
    invisible through every other root `k` (giver and receiver of the transfer included) and in the declared defaults -/
theorem transfer_then_history_frame {S : Schemas} (hS : AllDeep S) {s : State} (hs : Inv S s) (i j : Nat) (path : List PStep)
    (key : String) (hist : List (Nat × Op)) {a k : Nat} (hak : a ≠ k) (ops : List Op) :
    (runOn S (run S (transfer S s i j path key .revalidate).1 hist) a ops).cfg k =
      (run S (transfer S s i j path key .revalidate).1 hist).cfg k ∧
    (runOn S (run S (transfer S s i j path key .revalidate).1 hist) a ops).dyn k =
      (run S (transfer S s i j path key .revalidate).1 hist).dyn k ∧
    obsDefaults (runOn S (run S (transfer S s i j path key .revalidate).1 hist) a ops).heap S =
      obsDefaults (run S (transfer S s i j path key .revalidate).1 hist).heap S :=
  let inv := transfer_then_history_inv hS hs i j path key hist
  C13.frame_other_config_seq hS inv.sep inv.bounded hak ops

/-! ## 4. read-back: the receiver holds what the giver held -/

/-- **Read-back.**  After a successful guarded transfer the value observed under `key` in the receiver (the configuration
    at `path` below root `i`) equals the value observed under `key` in the giver (root `j`) before — with the built-in fuel and
    at every explicit fuel —, that value exists (both sides are `some`), and the receiver is the configuration cell it was.
    Needs only `Inv S s` (no `AllDeep`); `i = j` is allowed.  Full statement, nothing left out. -/
theorem transfer_observes_giver {S : Schemas} {s : State} (hs : Inv S s) {i j : Nat} {path : List PStep} {key : String}
    (ok : (transfer S s i j path key .revalidate).2 = .ok) :
    (transfer S s i j path key .revalidate).1.val i path key = s.val j [] key ∧
    (∀ n, (transfer S s i j path key .revalidate).1.valN n i path key = s.valN n j [] key) ∧
    (s.val j [] key).isSome ∧
    (transfer S s i j path key .revalidate).1.at i path = s.at i path := by
  obtain ⟨hat, v, hg, hr, ov⟩ := transfer_read hs ok
  have hle := (transfer_shape hs.sep i j path key).next_le
  refine ⟨?_, fun n => by rw [hr n, hg n], ?_, hat⟩
  · rw [State.val_eq_valN, State.val_eq_valN, hr, hg]
    simp only [Option.some.injEq]
    exact read_fuel2 hs.bounded ov (by omega) (by omega)
  · rw [State.val_eq_valN, hg]; rfl

/-! ## 5. the mode is not decoration (all by kernel evaluation of the model) -/

section Demo

/-- schema 0: a typed list of lists `rows` with the nested default `[["1"]]`, and a sub-configuration `inner` of schema 1,
    which has a typed list `rows` of its own -/
def tspec : List SchemaSpec :=
  [{ fields := [("rows", .leaf .deep (.list [.list [.atom "1"]])), ("inner", .sub 1)], dynamic := false },
   { fields := [("rows", .leaf .deep (.list []))], dynamic := false }]

def TS : Schemas := initS tspec

theorem tspec_deep : AllDeep TS := allDeep_of_check (by decide)

/-- `cfg.rows[0].append("7")` -/
def fill : Op := .mut [] "rows" [.idx 0] (.append (.atom "7"))
/-- `cfg.rows[0].append("9")`: an append *below* the top level -/
def appendInner : Op := .mut [] "rows" [.idx 0] (.append (.atom "9"))

/-- two roots built, the second one changed so that the transfer is visible -/
def pre : List (Nat × Op) := [(0, .build), (1, .build), (1, fill)]
def base : State := C13.reached tspec pre

/-- the hypotheses of the theorems are satisfied by `base` -/
theorem base_inv : Inv TS base := C13.inv_reached tspec tspec_deep pre

example : base.cfg 0 = some (.dict [("rows", .list [.list [.atom "1"]]), ("inner", .dict [("rows", .list [])])]) ∧
    base.cfg 1 = some (.dict [("rows", .list [.list [.atom "1", .atom "7"]]), ("inner", .dict [("rows", .list [])])]) :=
  ⟨rfl, rfl⟩

/-- `cfg0.rows = cfg1.rows`, defective and repaired -/
def adopted : State := (transfer TS base 0 1 [] "rows" .adopt).1
def guarded : State := (transfer TS base 0 1 [] "rows" .revalidate).1

/-- both transfers succeed, and right afterwards both receivers read what the giver holds -/
example : (transfer TS base 0 1 [] "rows" .adopt).2 = .ok ∧ (transfer TS base 0 1 [] "rows" .revalidate).2 = .ok ∧
    adopted.val 0 [] "rows" = some (.list [.list [.atom "1", .atom "7"]]) ∧
    guarded.val 0 [] "rows" = some (.list [.list [.atom "1", .atom "7"]]) ∧
    base.val 1 [] "rows" = some (.list [.list [.atom "1", .atom "7"]]) := ⟨rfl, rfl, rfl, rfl, rfl⟩

/-- **(a) `adopt`**: one append below the top level through the receiver (root 0) is seen through the giver (root 1): the
    conclusion of the frame theorem (`C13.frame_other_config` after the transfer, i.e. `transfer_then_history_frame` with
    the empty history) FAILS … -/
theorem adopt_leaks :
    (step TS adopted 0 appendInner).1.cfg 1 =
      some (.dict [("rows", .list [.list [.atom "1", .atom "7", .atom "9"]]), ("inner", .dict [("rows", .list [])])]) ∧
    (step TS adopted 0 appendInner).1.cfg 1 ≠ adopted.cfg 1 ∧
    (runOn TS (run TS adopted []) 0 [appendInner]).cfg 1 ≠ (run TS adopted []).cfg 1 :=
  ⟨rfl, optTree_ne (by decide), optTree_ne (by decide)⟩

/-- … because the invariant is broken right after the `adopt` transfer: the giver's inner list (cell 8) is referenced twice (from cells 9 and 13)
    (`NoShare` fails), and a cell owned by `cfg 0` refers to a cell owned by `cfg 1` (`Closed`, hence `Sep`, fails) -/
theorem adopt_breaks_noShare : ¬ NoShare adopted.heap := not_noShare_of_check (by decide)

theorem adopt_breaks_inv : ¬ Inv TS adopted := fun inv => adopt_breaks_noShare inv.noShare

theorem adopt_breaks_sep : ¬ Sep TS adopted := fun hs => by
  have e13 : adopted.heap.get? 13 = some (.cfg 0, .list [.ref 8]) := by rfl
  have e8 : adopted.heap.get? 8 = some (.cfg 1, .list [.atom "1", .atom "7"]) := by rfl
  obtain ⟨c, e⟩ := hs.closed 13 _ _ e13 (.ref 8) (by simp [Cell.kids])
  rw [e8] at e
  simp at e

/-- **(b) `revalidate`**: the same scenario.  The transfer itself and the append afterwards leave root 1 and the declared
    defaults unchanged — as instances of the theorems, every hypothesis discharged … -/
theorem guarded_framed :
    guarded.cfg 1 = base.cfg 1 ∧ guarded.dyn 1 = base.dyn 1 ∧ obsDefaults guarded.heap TS = obsDefaults base.heap TS :=
  transfer_revalidate_frame tspec_deep base_inv (i := 0) (k := 1) (by decide) 1 [] "rows"

theorem guarded_then_append_framed :
    (runOn TS (run TS guarded []) 0 [appendInner]).cfg 1 = (run TS guarded []).cfg 1 ∧
    (runOn TS (run TS guarded []) 0 [appendInner]).dyn 1 = (run TS guarded []).dyn 1 ∧
    obsDefaults (runOn TS (run TS guarded []) 0 [appendInner]).heap TS = obsDefaults (run TS guarded []).heap TS :=
  transfer_then_history_frame tspec_deep base_inv 0 1 [] "rows" [] (a := 0) (k := 1) (by decide) [appendInner]

theorem guarded_inv : Inv TS guarded := transfer_revalidate_inv tspec_deep base_inv 0 1 [] "rows"

theorem guarded_read_back : guarded.val 0 [] "rows" = base.val 1 [] "rows" :=
  (transfer_observes_giver base_inv (i := 0) (j := 1) (path := []) (key := "rows") rfl).1

/-- … and by evaluation: the operations did happen (the statements are not about failing operations), root 1 is unchanged,
    and the executable `NoShare` check agrees -/
example : (step TS guarded 0 appendInner).1.cfg 0 =
      some (.dict [("rows", .list [.list [.atom "1", .atom "7", .atom "9"]]), ("inner", .dict [("rows", .list [])])]) ∧
    (step TS guarded 0 appendInner).1.cfg 1 =
      some (.dict [("rows", .list [.list [.atom "1", .atom "7"]]), ("inner", .dict [("rows", .list [])])]) ∧
    (step TS guarded 0 appendInner).2 = .ok ∧ (step TS adopted 0 appendInner).2 = .ok ∧
    noShareB guarded.heap = true ∧ noShareB adopted.heap = false := ⟨rfl, rfl, rfl, rfl, by decide, by decide⟩

/-- a transfer into a sub-configuration (`cfg0.inner.rows = cfg1.rows`), a transfer within one root (`i = j`), and the errors -/
example : (transfer TS base 0 1 [.fld "inner"] "rows" .revalidate).2 = .ok ∧
    (transfer TS base 0 1 [.fld "inner"] "rows" .revalidate).1.cfg 0 =
      some (.dict [("rows", .list [.list [.atom "1"]]), ("inner", .dict [("rows", .list [.list [.atom "1", .atom "7"]])])]) ∧
    (transfer TS base 1 1 [.fld "inner"] "rows" .revalidate).1.cfg 1 =
      some (.dict [("rows", .list [.list [.atom "1", .atom "7"]]),
                   ("inner", .dict [("rows", .list [.list [.atom "1", .atom "7"]])])]) ∧
    transfer TS base 0 2 [] "rows" .revalidate = (base, .nocfg) ∧
    transfer TS base 2 0 [] "rows" .revalidate = (base, .nocfg) ∧
    transfer TS base 0 1 [] "nokey" .revalidate = (base, .attr) ∧
    transfer TS base 0 1 [] "inner" .revalidate = (base, .type) ∧
    transfer TS base 0 1 [.fld "nosub"] "rows" .revalidate = (base, .attr) := ⟨rfl, rfl, rfl, rfl, rfl, rfl, rfl, rfl⟩

end Demo

/-! ## 6. tie to the source: the proxies' fast paths

The translator (`harness/extract.py`, `proxy_fast_paths`) lists every place where `ListProxy` / `DictProxy` take the items of
another proxy without validating them, and whether the test guarding it also requires that proxy to belong to the same
configuration (`x.cfg is …`, or `_is_compatible_proxy`, whose body compares the two `cfg`s by identity).  A guarded fast path is
only ever taken inside one configuration, so a value arriving from another configuration goes through validation, which
re-creates every level: `TransferMode.revalidate`.  An unguarded one adopts the other configuration's inner proxies:
`TransferMode.adopt`, for which section `Demo` shows every conclusion above failing.  The correspondence check gives the model's
transfer step the mode this table says. -/

def modeOfGuard : Bool → TransferMode
  | true => .revalidate
  | false => .adopt

/-- **Every fast path of the current source is guarded by the identity of the owning configuration.** -/
theorem source_fast_paths_guarded : ∀ e ∈ Generated.proxyFastPaths, modeOfGuard e.2 = .revalidate := by
  decide

end Cinco.C13b
