import Cinco.Proofs.Cfg
import Cinco.Config.ListOps
import Cinco.Generated.Effects
/-
  C06 — a rejected operation leaves the configuration exactly as it was.
  Every operation of the model returns the state *at the moment it returned or raised* (`Out.cfg`), so these
  theorems are about write ordering in `_set_value` / `__setitem__`: validation, and the construction and loading
  of a new sub-configuration, all happen before the first write.
-/
namespace Cinco.C06
open Cinco Cinco.Field Cinco.Config

theorem setSub_rejected_unchanged (W : World) (fuel : Nat) (s' : Schema) (kf : Option String) (path : String) (c : Cfg)
    (k : String) (a : Arg) (n : Nat) (h : (setSub W fuel s' kf path c k a n).err ≠ none) :
    (setSub W fuel s' kf path c k a n).cfg = c := by
  unfold setSub at h ⊢
  cases a with
  | cfg sub same =>
    cases same <;> simp at h ⊢
  | val v =>
    cases v <;> try rfl
    rename_i kvs
    simp only at h ⊢
    cases hb : build W (joinPath path k) true kf s' n with
    | error e => simp [hb]
    | ok r =>
      obtain ⟨fresh, n1⟩ := r
      simp only [hb] at h ⊢
      cases he : (loadTree W fuel s' (joinPath path k) fresh kvs true n1).err with
      | none => simp [he] at h
      | some e => simp [he]

/-- **A rejected assignment by attribute / constructor keyword leaves the configuration unchanged**: values at all depths,
    default marks, dynamic fields, identities of nested configurations — the state at the raise *is* the state before,
    for a leaf value, a map or a configuration assigned to a sub-configuration slot, or a list assigned to a list of
    configurations. -/
theorem setValue_rejected_unchanged (W : World) (fuel : Nat) (s : Schema) (path : String) (c : Cfg) (k : String) (a : Arg) (n : Nat)
    (h : (setValue W fuel s path c k a n).err ≠ none) : (setValue W fuel s path c k a n).cfg = c := by
  cases fuel with
  | zero => unfold setValue; rfl
  | succ fuel =>
    unfold setValue at h ⊢
    cases hg : getField s c k with
    | missing =>
      simp only [hg] at h ⊢
      by_cases hd : s.dynamic = true
      · simp only [hd, Bool.not_true, Bool.false_eq_true, if_false] at h ⊢
        cases a <;> simp at h
      · simp [hd]
    | dynamic =>
      simp only [hg] at h ⊢
      cases a <;> simp at h
    | declared f =>
      simp only [hg] at h ⊢
      cases f with
      | leaf fs m =>
        cases a with
        | val v =>
          simp only at h ⊢
          cases hv : validate W.fe.toEnv fs v <;> simp [hv] at h ⊢
        | cfg sub same =>
          simp only at h ⊢
          cases hv : validate W.fe.toEnv fs (.opaque "Config") <;> simp [hv] at h ⊢
      | virtual cst hs => cases hs <;> simp at h ⊢
      | method => rfl
      | sub s' => exact setSub_rejected_unchanged W fuel s' none path c k a n h
      | ctype s' kf => exact setSub_rejected_unchanged W fuel s' kf path c k a n h
      | cfgList s' it req m =>
        cases a with
        | cfg sub same => rfl
        | val v =>
          cases v <;> try rfl
          · -- none
            simp only at h ⊢
            cases req <;> simp at h ⊢
          · -- list
            rename_i items
            simp only at h ⊢
            cases hl : loadItems W fuel s' path k 0 items [] n with
            | mk r n' =>
              cases r with
              | error e => simp
              | ok cs =>
                simp only [hl] at h ⊢
                by_cases hr : (req && cs.isEmpty) = true
                · simp [hr]
                · simp [hr] at h

theorem Cfg.set_node_of_unchanged {c : Cfg} {key : String} {sub : Cfg} (h : c.get key = some (.node sub)) :
    c.set key (.node sub) = c := Cfg.set_of_get h

/-- **A rejected assignment by dotted path leaves the configuration unchanged**, at every depth of the path. -/
theorem setItem_rejected_unchanged (W : World) : ∀ (fuel : Nat) (s : Schema) (path : String) (c : Cfg) (dotted : List Char) (a : Arg) (n : Nat),
    (setItem W fuel s path c dotted a n).err ≠ none → (setItem W fuel s path c dotted a n).cfg = c
  | 0, s, path, c, dotted, a, n, _ => by simp [setItem]
  | fuel + 1, s, path, c, dotted, a, n, h => by
    unfold setItem at h ⊢
    cases hp : partitionDot dotted with
    | mk k rest =>
      cases rest with
      | none =>
        simp only [hp] at h ⊢
        exact setValue_rejected_unchanged W (fuel + 1) s path c (String.ofList k) a n h
      | some rest =>
        simp only [hp] at h ⊢
        by_cases hre : rest.isEmpty = true
        · simp only [hre, if_true] at h ⊢
          exact setValue_rejected_unchanged W (fuel + 1) s path c (String.ofList k) a n h
        · simp only [hre, Bool.false_eq_true, if_false] at h ⊢
          cases hg : getField s c (String.ofList k) with
          | missing => simp
          | dynamic => simp
          | declared f =>
            simp only [hg] at h ⊢
            cases hs : subSchema f with
            | none => simp
            | some ss =>
              obtain ⟨s', kf⟩ := ss
              cases hget : c.get (String.ofList k) with
              | none => simp
              | some sl =>
                cases sl with
                | node sub =>
                  simp only [hs, hget] at h ⊢
                  have ih := setItem_rejected_unchanged W fuel s' (joinPath path (String.ofList k)) sub rest a n h
                  rw [ih]
                  exact Cfg.set_of_get hget
                | val v => simp
                | nodes cs => simp

def loadsProgIndex (fn : String) : Option Nat :=
  (List.range Generated.loadsProg.length).find? (fun i => Effects.isCall fn (Generated.loadsProg.getD i .read))

/-- **Generated obligation** (document loads): in today's `Config.loads`, parsing (`formatter.loads`) and include processing
    (`self._process_includes`) both come strictly before `self.load_tree`, the only statement that touches the configuration;
    nothing in `loads` is untranslatable. -/
theorem loads_order :
    (match loadsProgIndex "formatter.loads", loadsProgIndex "self._process_includes", loadsProgIndex "self.load_tree" with
     | some a, some b, some c => decide (a < c) && decide (b < c)
     | _, _, _ => false) = true ∧
    Generated.loadsProg.all (fun e => match e with | .unknown _ => false | _ => true) = true := by
  decide

/-- **In-place operations on a list of configurations** (`append`, `insert`, index assignment with a map as the new item):
    the item is built, loaded and validated before the list is touched (an index assignment first looks the index up: F76,
    next theorem), so a rejection — by the item schema, for a non-map item, or for an index out of range — leaves the whole
    configuration as it was. -/
theorem list_item_op_rejected_unchanged (W : World) (fuel : Nat) (s : Schema) (c : Cfg) (dotted : List Char) (mode : ListMode)
    (item : Val) (n : Nat) (e : CErr) (h : (cfgListOp W fuel s c dotted mode item n).err = some e) :
    (cfgListOp W fuel s c dotted mode item n).cfg = c :=
  cfgListOp_rejected_unchanged W fuel s c dotted mode item n e h

/-- **An index assignment whose index names no item is refused before the new item is looked at** (finding F76): nothing is
    built, loaded or validated — no salt or IV is drawn (`next = n`), no object is linked to the list — and the configuration is
    returned as it is with the built-in's `IndexError`, whatever the offered item. -/
theorem list_item_no_slot_untouched (W : World) (fuel : Nat) (s s1 s' : Schema) (c owner : Cfg) (dotted : List Char) (path k : String)
    (it : Bool) (req : Bool) (m : LeafMeta) (cs : List Cfg) (i : Int) (item : Val) (n : Nat)
    (hw : walk fuel s "" c dotted = some (s1, path, owner, k)) (hf : s1.get k = some (.cfgList s' it req m))
    (hh : (owner.get k).bind heldItems = some cs) (hi : PyList.resolveIdx cs.length i = none) :
    cfgListOp W fuel s c dotted (.setIdx i) item n = { cfg := c, err := some (.raw "IndexError"), next := n } :=
  cfgListOp_no_slot W fuel s s1 s' c owner dotted path k it req m cs i item n hw hf hh hi

end Cinco.C06
