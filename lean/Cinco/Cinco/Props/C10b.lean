import Cinco.Proofs.Nested
import Cinco.Props.C10
import Cinco.Generated.ContainerShape
/-
  C10b — the mask (and the virtual flag) reach configurations held below nested containers.

  `field.to_basic` renders a list of lists of configurations (a dict of lists of configurations, …) with a bare
  `item.to_tree()` for every configuration inside: no mask, so sensitive values in clear (finding F38).  After the repair
  `Config.to_tree(virtual, sensitive_mask)` walks the held value alongside the field's rendering (`Config._render_nested`,
  modelled by `Nested.renderNested`) and re-renders every configuration position with the caller's options.

  `R id` is `to_tree(virtual, sensitive_mask)` of configuration `id` (the caller's options), `U id` its bare `to_tree()`;
  `toBasic U h` is what `field.to_basic` returns for the held value `h`.
-/
namespace Cinco.C10b
open Cinco Cinco.Nested

/-- **After the walk every configuration, at every depth, is rendered with the caller's options — and nothing else changes**:
    same list / dict structure, same keys, same leaves; the unmasked renderings `U` are gone altogether. -/
theorem nested_rendered_with_options (R U : Nat → Tree) (h : Held) :
    renderNested R h (toBasic U h) = toBasic R h :=
  render_toBasic R U h

/-- …so the result does not depend on what the bare `to_tree()` calls produced. -/
theorem unmasked_renderings_irrelevant (R U U' : Nat → Tree) (h : Held) :
    renderNested R h (toBasic U h) = renderNested R h (toBasic U' h) := by
  rw [nested_rendered_with_options, nested_rendered_with_options]

/-- **A held value without any configuration inside is rendered exactly as the field rendered it** — whatever `basic` is
    (when the shapes agree the walk rebuilds the very same tree, otherwise it returns `basic` itself). -/
theorem no_config_no_change (R : Nat → Tree) (h : Held) (b : Tree) (hc : cfgIds h = []) :
    renderNested R h b = b :=
  render_noCfg R h b hc

/-- **With the field's own options (no mask, no virtual flag) nothing is altered.** -/
theorem same_options_identity (U : Nat → Tree) (h : Held) :
    renderNested U h (toBasic U h) = toBasic U h :=
  nested_rendered_with_options U U h

/-- The walk asks only for the configurations that are inside the held value. -/
theorem only_inner_configs_matter (R R' : Nat → Tree) (h : Held) (b : Tree) (hr : ∀ id ∈ cfgIds h, R id = R' id) :
    renderNested R h b = renderNested R' h b :=
  render_congr R R' h b hr

/-! ### No leak -/

/-- Which strings (leaves and keys) the field's rendering contains: those of the held value itself and those of the
    renderings of the configurations inside — nothing more, nothing less. -/
theorem mentions_to_basic (U : Nat → Tree) (s : Str) (h : Held) :
    (toBasic U h).mentions s = (ownMentions s h || (cfgIds h).any (fun id => (U id).mentions s)) :=
  anyStr_toBasic _ U h

/-- The same for the tree after the walk: only the caller's renderings `R` count. -/
theorem mentions_after_walk (R U : Nat → Tree) (s : Str) (h : Held) :
    (renderNested R h (toBasic U h)).mentions s = (ownMentions s h || (cfgIds h).any (fun id => (R id).mentions s)) := by
  rw [nested_rendered_with_options]
  exact mentions_to_basic R s h

/-- **The masked tree does not mention a secret**: if no masked rendering `R id` of a configuration inside mentions `s`
    and neither does a leaf or a key of the held value itself, then the tree after the walk does not mention `s` —
    whatever the unmasked renderings `U` contain. -/
theorem masked_tree_mentions_no_secret (R U : Nat → Tree) (s : Str) (h : Held)
    (hown : ownMentions s h = false) (hR : ∀ id ∈ cfgIds h, (R id).mentions s = false) :
    (renderNested R h (toBasic U h)).mentions s = false := by
  rw [mentions_after_walk, hown, Bool.false_or, List.any_eq_false]
  intro id hm
  simp [hR id hm]

/-- The same for any decidable property of strings (e.g. "contains the secret as a substring") instead of equality with `s`. -/
theorem masked_tree_has_no_such_string (p : Str → Bool) (R U : Nat → Tree) (h : Held)
    (hown : ownAnyStr p h = false) (hR : ∀ id ∈ cfgIds h, Tree.anyStr p (R id) = false) :
    Tree.anyStr p (renderNested R h (toBasic U h)) = false := by
  rw [nested_rendered_with_options, anyStr_toBasic, hown, Bool.false_or, List.any_eq_false]
  intro id hm
  simp [hR id hm]

/-- **The walk is needed**: on a list of lists of configurations the field's rendering alone mentions the secret, the tree
    after the walk does not, for every masked rendering that does not. -/
theorem to_basic_alone_leaks : ∃ (h : Held) (U : Nat → Tree) (s : Str),
    (toBasic U h).mentions s = true ∧
    ∀ R : Nat → Tree, (∀ id, (R id).mentions s = false) → (renderNested R h (toBasic U h)).mentions s = false := by
  refine ⟨.list [.list [.cfg 1], .list []], fun _ => .dict [("password", .str "hunter2".toList)], "hunter2".toList, by decide, ?_⟩
  intro R hR
  exact masked_tree_mentions_no_secret R _ _ _ (by decide) (fun id _ => hR id)

/-! ### Robustness: shapes that do not agree -/

/-- **A held list against anything but a list of the same length: `basic` comes back untouched.** -/
theorem shape_mismatch_unchanged (R : Nat → Tree) (items : List Held) (b : Tree)
    (hb : ∀ bs, b = .list bs → items.length ≠ bs.length) :
    renderNested R (.list items) b = b := by
  cases b with
  | list bs => rw [renderNested_list, if_neg (hb bs rfl)]
  | _ => exact renderNested_list_not_list R items _ (by simp)

/-- **A held dict against anything but a dict with as many entries: `basic` comes back untouched.** -/
theorem shape_mismatch_unchanged_dict (R : Nat → Tree) (kvs : List (String × Held)) (b : Tree)
    (hb : ∀ bkvs, b = .dict bkvs → kvs.length ≠ bkvs.length) :
    renderNested R (.dict kvs) b = b := by
  cases b with
  | dict bkvs => rw [renderNested_dict, if_neg (hb bkvs rfl)]
  | _ => exact renderNested_dict_not_dict R kvs _ (by simp)

/-- Kinds that differ: a held list against a dict, a held dict against a list, anything else against anything. -/
theorem kind_mismatch_unchanged (R : Nat → Tree) (items : List Held) (kvs : List (String × Held)) (bs : List Tree)
    (bkvs : List (String × Tree)) (t b : Tree) :
    renderNested R (.list items) (.dict bkvs) = .dict bkvs ∧ renderNested R (.dict kvs) (.list bs) = .list bs ∧
    renderNested R (.leaf t) b = b :=
  ⟨shape_mismatch_unchanged R items _ (by simp), shape_mismatch_unchanged_dict R kvs _ (by simp), renderNested_leaf R t b⟩

/-- A configuration object is rendered by its own `to_tree`, whatever the field made of it. -/
theorem config_rendered_by_to_tree (R : Nat → Tree) (id : Nat) (b : Tree) : renderNested R (.cfg id) b = R id :=
  renderNested_cfg R id b

/-- When the shapes agree the walk is item-wise, over any `basic`: a list stays a list of the same length… -/
theorem list_walk_itemwise (R : Nat → Tree) (items : List Held) (bs : List Tree) (hl : items.length = bs.length) :
    renderNested R (.list items) (.list bs) = .list (List.zipWith (renderNested R) items bs) := by
  rw [renderNested_list, if_pos hl, renderItems_eq_zipWith]

/-- …and a dict keeps the keys of `basic`, in their order. -/
theorem dict_walk_keeps_keys (R : Nat → Tree) (kvs : List (String × Held)) (bkvs : List (String × Tree)) (hl : kvs.length = bkvs.length) :
    ∃ out, renderNested R (.dict kvs) (.dict bkvs) = .dict out ∧ out.map (·.1) = bkvs.map (·.1) ∧
      out = List.zipWith (fun e kb => (kb.1, renderNested R e.2 kb.2)) kvs bkvs := by
  refine ⟨renderVals R kvs bkvs, ?_, keys_renderVals R kvs bkvs hl, renderVals_eq_zipWith R kvs bkvs⟩
  rw [renderNested_dict, if_pos hl]

/-! ### Non-vacuity -/
section Demo

/-- the masked and the bare rendering of configuration `id`: one sensitive field `pw`, one plain field `n` -/
def masked (id : Nat) : Tree := .dict [("n", .int id), ("pw", .str "****".toList)]
def bare (id : Nat) : Tree := .dict [("n", .int id), ("pw", .str "s3cr".toList)]

/-- a grid (list of lists of configurations) with an empty row -/
def grid : Held := .list [.list [.cfg 1, .cfg 2], .list [], .list [.cfg 3]]

/-- a dict of lists: configurations, a plain leaf next to them, an empty list -/
def shelves : Held := .dict [("a", .list [.cfg 1, .leaf (.str "note".toList)]), ("b", .list []), ("c", .leaf (.int 7))]

example : toBasic bare grid = .list [.list [bare 1, bare 2], .list [], .list [bare 3]] := by decide

example : renderNested masked grid (toBasic bare grid) = .list [.list [masked 1, masked 2], .list [], .list [masked 3]] := by decide

example : renderNested masked shelves (toBasic bare shelves) =
    .dict [("a", .list [masked 1, .str "note".toList]), ("b", .list []), ("c", .int 7)] := by decide

/-- the walk keeps the keys of `basic` (here re-encoded by the field), not those recorded for the held dict -/
example : renderNested masked shelves (.dict [("A", .list [bare 1, .str "note".toList]), ("B", .list []), ("C", .int 7)]) =
    .dict [("A", .list [masked 1, .str "note".toList]), ("B", .list []), ("C", .int 7)] := by decide

/-- the leak and its absence, on the grid -/
example : (toBasic bare grid).mentions "s3cr".toList = true ∧
    (renderNested masked grid (toBasic bare grid)).mentions "s3cr".toList = false ∧ cfgIds grid = [1, 2, 3] := by decide

/-- a row that lost an item on the way: that row comes back as the field rendered it, the others are still walked -/
example : renderNested masked grid (.list [.list [bare 1], .list [], .list [bare 3]]) =
    .list [.list [bare 1], .list [], .list [masked 3]] := by decide

/-- kinds that differ, and a tuple rendered as a list of another length -/
example : renderNested masked grid (.str "x".toList) = .str "x".toList ∧
    renderNested masked grid (.list [.null]) = .list [.null] ∧
    renderNested masked shelves (.list [.null, .null, .null]) = .list [.null, .null, .null] := by decide

end Demo

/-- **/repo's `Config._render_nested` is the walk `renderNested` models** (generated reading of cincoconfig/core.py, regenerated on
    every run): a configuration position is re-rendered with the caller's options; a held list or TUPLE is walked item by item
    alongside a rendering that is a list or a tuple of the same length (F77: an untyped field hands a tuple back as it is — the
    model's `Tree.list` stands for both, and the result keeps the rendering's type); a held dict alongside a dict of the same
    length, keeping the rendering's keys; anything else is returned as the field rendered it. -/
theorem render_nested_code_order :
    Generated.containerShape.lookup "Config._render_nested" =
      some ["if[isinstance(held, Config)]", "return held.to_tree(virtual=virtual, sensitive_mask=sensitive_mask)", "end",
            "if[isinstance(held, (list, tuple)) and isinstance(basic, (list, tuple)) and (len(held) == len(basic))]",
            "return type(basic)((self._render_nested(item, rendered, virtual, sensitive_mask) for item, rendered in zip(held, basic)))",
            "end",
            "if[isinstance(held, dict) and isinstance(basic, dict) and (len(held) == len(basic))]",
            "return {key: self._render_nested(item, rendered, virtual, sensitive_mask) for item, (key, rendered) in zip(held.values(), basic.items())}",
            "end", "return basic"] := by decide +kernel

/-- **/repo's `Config.to_tree` has the order the mask model follows** (generated reading, regenerated on every run): per field —
    a held configuration is rendered with the caller's options; a non-empty LIST of configurations is rendered by the library
    itself only when a mask or the virtual flag has to be passed on AND the list field is not itself sensitive under a mask (F8,
    F60, F73: otherwise the field's own `to_basic` renders it, so a list field subclass keeps its on-disk form); a sensitive field
    under a mask is replaced by the mask (empty values stay `None`, a one-character mask is repeated to the length of `str(value)`);
    every other field is rendered by its `to_basic` (errors wrapped) and, under options, walked by `_render_nested`. -/
theorem to_tree_code_order :
    Generated.containerShape.lookup "Config.to_tree" =
      some ["tree = {}",
            "fields: Dict[str, BaseField] = dict(self._schema._fields)",
            "fields.update(self._fields)",
            "loop[fields.items()]",
            "is_virtual = virtual and isinstance(field, VirtualFieldMixin)",
            "if[key not in self._data and (not is_virtual)]",
            "continue",
            "end",
            "if[isinstance(field, InstanceMethodFieldMixin)]",
            "continue",
            "end",
            "field_value = field.__getval__(self)",
            "value: Any = None",
            "if[isinstance(field_value, Config)]",
            "value = field_value.to_tree(virtual=virtual, sensitive_mask=sensitive_mask)",
            "else",
            "if[(virtual or sensitive_mask is not None) and isinstance(field_value, list) and field_value and all((isinstance(item, Config) for item in field_value)) and (not (isinstance(field, Field) and field.sensitive and (sensitive_mask is not None)))]",
            "value = [item.to_tree(virtual=virtual, sensitive_mask=sensitive_mask) for item in field_value]",
            "else",
            "if[isinstance(field, Field) and field.sensitive and (sensitive_mask is not None)]",
            "if[not field_value]",
            "pass",
            "else",
            "if[len(sensitive_mask) == 1]",
            "value = sensitive_mask * len(str(field_value))",
            "else",
            "value = sensitive_mask",
            "end",
            "end",
            "else",
            "if[isinstance(field, Field)]",
            "try",
            "value = field.to_basic(self, field_value)",
            "except:ValidationError",
            "raise",
            "except:Exception",
            "raise:ValidationError",
            "end",
            "if[virtual or sensitive_mask is not None]",
            "value = self._render_nested(field_value, value, virtual, sensitive_mask)",
            "end",
            "end",
            "end",
            "end",
            "end",
            "tree[key] = value",
            "end",
            "return tree"] := by decide +kernel

end Cinco.C10b
