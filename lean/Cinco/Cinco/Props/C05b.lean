import Cinco.Proofs.Sound
/-
  C05 / C01 (continuation) — validation is *sound* with respect to the constraints a field declares.
  `Sat E f v` (Cinco/Proofs/Sound.lean) is written from the declaration, not through the validator's own rule functions:
  type shape, numeric bounds (an int value is compared exactly with a float bound), string length bounds / choices / regex /
  case- and strip-normal form / non-empty when required, network prefix bounds and canonical text, address / host / URL syntax,
  existence mode of file names, item and key / value constraints of typed lists and dicts (with duplicate-free keys).
-/
namespace Cinco.C05b
open Cinco Cinco.Field Cinco.Config Cinco.Num

/-- **Whatever a field accepts satisfies what the field declares** — every kind, every option, nested typed lists and dicts. -/
theorem accepted_satisfies_declaration (E : Env) (hE : EnvOk E) (f : FieldSpec) (v0 v : Val)
    (h : validate E f v0 = .ok v) : Sat E f v :=
  validate_sound E hE f v0 v h

/-- the clause for integers against integer bounds, spelled out: `min ≤ i ≤ max` -/
theorem int_bounds_spelled_out (i m : Int) :
    (NotBelow (ofInt i) (some (.int m)) ↔ m ≤ i) ∧ (NotAbove (ofInt i) (some (.int m)) ↔ i ≤ m) :=
  ⟨notBelow_int_int i m, notAbove_int_int i m⟩

/-- an unset value satisfies a field exactly when the field is not required -/
theorem unset_iff_not_required (E : Env) (k : Kind) (r : Bool) : Sat E (.mk k r none) .none ↔ r = false :=
  sat_none_iff E k r

/-- NaN satisfies every pair of float bounds (both comparisons are false in the code as well): the one value the bounds do not constrain -/
theorem nan_escapes_bounds (E : Env) (mn mx : Option Num) (r : Bool) : Sat E (.mk (.float mn mx) r none) (.flt .nan) :=
  sat_float_nan E mn mx r

/-- `float(i)` — what a `FloatField` holds for a whole number — is exact for every whole number of at most 53 bits
    (beyond that the model rounds to 53 bits, ties to even, as CPython does; from 2^1024 − 2^970 on the conversion overflows) -/
theorem float_of_int_exact (i : Int) (h : i.natAbs < 2 ^ 53) : intToFlt i = norm i 0 := by
  by_cases h0 : i.natAbs = 0
  · simp [intToFlt, h0]
  · have hl := (Nat.log2_lt h0).2 h
    have hb : i.natAbs.log2 + 1 ≤ 53 := by omega
    simp [intToFlt, h0, hb]

/-- a whole number given to a `FloatField` is never rejected for overflow below the binary64 range -/
theorem float_field_takes_every_53_bit_int (E : Env) (i : Int) (h : i.natAbs < 2 ^ 53) :
    floatRule E none none (.int i) = .ok (.flt (norm i 0)) := by
  have hov : intOverflows i = false := by
    unfold intOverflows
    simp only [decide_eq_false_iff_not, Nat.not_le]
    calc i.natAbs < 2 ^ 53 := h
      _ ≤ 2 ^ 1024 - 2 ^ 970 := by decide +kernel
  simp [floatRule, hov, checkBounds, float_of_int_exact i h]

-- rounding to 53 bits, ties to even: tests on literals (the general statement is validated by the correspondence stream)
example : intToFlt (2 ^ 53 + 1) = norm (2 ^ 52) 1 := by decide +kernel
example : intToFlt (2 ^ 53 + 3) = norm (2 ^ 52 + 2) 1 := by decide +kernel
example : intToFlt (-(2 ^ 53 + 1)) = norm (-(2 ^ 52)) 1 := by decide +kernel
example : intToFlt (2 ^ 64 - 1) = norm 1 64 := by decide +kernel

end Cinco.C05b
