import Cinco.Proofs.Sound
/-
  C05 / C01 (continuation) — validation is *sound* with respect to the constraints a field declares.
  `Sat E f v` (Cinco/Proofs/Sound.lean) is written from the declaration, not through the validator's own rule functions:
  type shape, numeric bounds (an int value is compared exactly with a float bound), string length bounds / choices / regex /
  case- and strip-normal form / non-empty when required, network prefix bounds and canonical text, address / host / URL syntax,
  existence mode of file names, item and key / value constraints of typed lists and dicts (with duplicate-free keys).
-/
namespace Cinco.C05b
open Cinco Cinco.Field Cinco.Config Cinco.Num

/-- **Whatever a field accepts satisfies what the field declares** — every kind, every option, nested typed lists and dicts. -/
theorem accepted_satisfies_declaration (E : Env) (hE : EnvOk E) (f : FieldSpec) (v0 v : Val)
    (h : validate E f v0 = .ok v) : Sat E f v :=
  validate_sound E hE f v0 v h

/-- the clause for integers against integer bounds, spelled out: `min ≤ i ≤ max` -/
theorem int_bounds_spelled_out (i m : Int) :
    (NotBelow (ofInt i) (some (.int m)) ↔ m ≤ i) ∧ (NotAbove (ofInt i) (some (.int m)) ↔ i ≤ m) :=
  ⟨notBelow_int_int i m, notAbove_int_int i m⟩

/-- an unset value satisfies a field exactly when the field is not required -/
theorem unset_iff_not_required (E : Env) (k : Kind) (r : Bool) : Sat E (.mk k r none) .none ↔ r = false :=
  sat_none_iff E k r

/-- NaN satisfies every pair of float bounds (both comparisons are false in the code as well): the one value the bounds do not constrain -/
theorem nan_escapes_bounds (E : Env) (mn mx : Option Num) (r : Bool) : Sat E (.mk (.float mn mx) r none) (.flt .nan) :=
  sat_float_nan E mn mx r

end Cinco.C05b
