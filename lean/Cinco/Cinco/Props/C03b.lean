import Cinco.Proofs.KeyfileLoad
/-
  C03 (continuation) — where key-file names come from after a build or a load (finding F19 in general), and the
  "one key file per tree" premise of `C03.reload_same_key_partial` derived for built and loaded configurations.
-/
namespace Cinco.C03b
open Cinco Cinco.Field Cinco.Config Cinco.Config.KeyfileLoad

/-- a built configuration carries exactly the key file it was built with -/
theorem built_with (W : World) (path : String) (linked : Bool) (kf : Option String) (s : Schema) (n : Nat) (c : Cfg) (n' : Nat)
    (h : build W path linked kf s n = .ok (c, n')) : c.keyfile = kf :=
  build_keyfile W path linked kf s n c n' h

/-- a load never changes the key file of the configuration it loads into — whatever the tree, whatever the outcome -/
theorem load_keeps_own_keyfile (W : World) (fuel : Nat) (s : Schema) (path : String) (t : List (Val × Val)) (c : Cfg) (dv : Bool)
    (n : Nat) : (loadTree W fuel s path c t dv n).cfg.keyfile = c.keyfile :=
  loadTree_keyfile W fuel s path t c dv n

/-- **F19 in general**: a key file *assigned* to a plain sub-configuration is gone after any successful load that mentions the
    sub-configuration (the object is rebuilt from the schema) … -/
theorem assigned_name_does_not_survive_load (W : World) (fuel : Nat) (s : Schema) (path : String) (c : Cfg) (t : List (Val × Val))
    (dv : Bool) (n : Nat) (k : String) (s' : Schema) (old : Cfg) (name : String)
    (hf : s.get k = some (.sub s')) (hold : c.get k = some (.node old)) (hname : old.keyfile = some name)
    (hmem : k ∈ treeKeys t) (hok : (loadTree W fuel s path c t dv n).err = none) :
    ∃ node, (loadTree W fuel s path c t dv n).cfg.get k = some (.node node) ∧ node.keyfile = none :=
  assigned_key_lost W fuel s path c t dv n k s' old name hf hold hname hmem hok

/-- … a key file *declared* by a config type comes back … -/
theorem declared_name_survives_load (W : World) (fuel : Nat) (s : Schema) (path : String) (c : Cfg) (t : List (Val × Val))
    (dv : Bool) (n : Nat) (k : String) (s' : Schema) (kf : Option String)
    (hf : s.get k = some (.ctype s' kf)) (hmem : k ∈ treeKeys t) (hok : (loadTree W fuel s path c t dv n).err = none) :
    ∃ node, (loadTree W fuel s path c t dv n).cfg.get k = some (.node node) ∧ node.keyfile = kf :=
  declared_key_restored W fuel s path c t dv n k s' kf hf hmem hok

/-- … and a sub-configuration the tree does not mention is left alone, key file included. -/
theorem unmentioned_subconfiguration_kept (W : World) (fuel : Nat) (s : Schema) (path : String) (c : Cfg) (t : List (Val × Val))
    (dv : Bool) (n : Nat) (k : String) (old : Cfg) (hold : c.get k = some (.node old)) (hmem : k ∉ treeKeys t) :
    (loadTree W fuel s path c t dv n).cfg.get k = some (.node old) :=
  unmentioned_key_kept W fuel s path c t dv n k old hold hmem

/-- **One key file per tree, derived**: a configuration freshly built from a schema whose config types declare no key file, and
    then loaded from any tree, uses the key file it was built with at every node — the premise of the reload theorem. -/
theorem built_and_loaded_use_one_key (W : World) (d fuel : Nat) (inh path : String) (linked : Bool) (kf : Option String) (s : Schema)
    (n0 n1 : Nat) (c0 : Cfg) (t : List (Val × Val)) (dv : Bool) (hnd : s.keysNodup = true) (hno : s.noDeclaredKey = true)
    (hb : build W path linked kf s n0 = .ok (c0, n1)) :
    ∀ x ∈ nodeKeys d inh s (loadTree W fuel s path c0 t dv n1).cfg, x = kf.getD inh :=
  loaded_one_key W d fuel inh path linked kf s n0 n1 c0 t dv hnd hno hb

/-- **Reload under the configuration's key file**, with the uniformity premise replaced by what build and load guarantee. -/
theorem reload_same_key (WK : String → World) (fuel : Nat) (dflt : String) (s : Schema) (c : Cfg)
    (hno : s.noDeclaredKey = true) (hsk : SchemaKeys fuel s c)
    (t : List (Val × Val)) (c0 : Cfg) (n0 n1 : Nat)
    (hnd : s.keysNodup = true) (hsr : SchemaLoadable (WK (effKey dflt c)) fuel s) (hsh : Shaped fuel s c)
    (hco : CodecOkAll (WK (effKey dflt c)) fuel s c) (hst : StableAll (WK (effKey dflt c)) fuel s c)
    (hvd : ValidDeep (WK (effKey dflt c)) fuel s c)
    (hv : ∃ p, validateCfg (WK (effKey dflt c)) (fuel + 1) s p c = none)
    (ht : toTreeK WK fuel dflt s c = some t) (hb : build (WK (effKey dflt c)) "" false none s n0 = .ok (c0, n1)) :
    (loadTree (WK (effKey dflt c)) fuel s "" c0 t true n1).err = none ∧
    SameValues (WK (effKey dflt c)) fuel s c (loadTree (WK (effKey dflt c)) fuel s "" c0 t true n1).cfg :=
  reload_same_key_of_schemaKeys WK fuel dflt s c hno hsk t c0 n0 n1 hnd hsr hsh hco hst hvd hv ht hb

end Cinco.C03b
