import Cinco.Drv.FieldWire
import Cinco.Config.Ops
import Cinco.Config.Keys
import Cinco.Config.ListOps
import Cinco.Config.Env
import Cinco.Config.Paths
/-
  Wire format of schemas, configurations and operation histories (driver side only).
-/
namespace Cinco.Wire
open Lean Cinco Cinco.Field Cinco.Config

def defaultOfJson (j : Json) : R Default := do
  match fieldOpt j "default" with
  | none => pure .none
  | some d => do
    match (← fStr d "kind") with
    | "const" => pure (.const (← valOfJson (← field d "v")))
    | "callable" => pure (.callable (← valOfJson (← field d "v")))
    | _ => pure .none

def metaOfJson (j : Json) : R LeafMeta := do
  let env ← match fieldOpt j "env" with
    | some (.str s) => pure (some s)
    | _ => pure none
  let name ← match fieldOpt j "name" with
    | some (.str s) => pure (some s)
    | _ => pure none
  pure { default := ← defaultOfJson j, env := env, sensitive := fBoolD j "sensitive" false, isFlag := fBoolD j "flag" false,
         isInclude := fBoolD j "include" false, name := name }

mutual
  partial def sfieldOfJson (j : Json) : R SField := do
    match (← fStr j "s") with
    | "leaf" => do pure (.leaf (← fieldOfJson (← field j "field")) (← metaOfJson j))
    | "sub" => do pure (.sub (← schemaOfJson (← field j "schema")))
    | "ctype" => do
        let kf ← match fieldOpt j "keyfile" with
          | some (.str s) => pure (some s)
          | _ => pure none
        pure (.ctype (← schemaOfJson (← field j "schema")) kf)
    | "cfglist" => do pure (.cfgList (← schemaOfJson (← field j "schema")) (fBoolD j "is_type" false) (fBoolD j "required" false) (← metaOfJson j))
    | "virtual" => do pure (.virtual (← valOfJson (← field j "const")) (fBoolD j "setter" false))
    | "method" => pure .method
    | s => throw s!"unknown schema field {s}"
  partial def schemaOfJson (j : Json) : R Schema := do
    let fs ← (← fArr j "fields").mapM (fun p => match p with
      | .arr #[.str k, f] => do pure (k, ← sfieldOfJson f)
      | _ => throw "bad schema entry")
    let vs ← match fieldOpt j "validators" with
      | some (.arr a) => a.toList.mapM (fun x => match x with | .str s => pure s | _ => throw "bad validator")
      | _ => pure []
    pure (.mk fs (fBoolD j "dynamic" false) vs)
end

mutual
  partial def cfgToJson : Cfg → Json
    | .mk oid slots defaults dyn kf linked =>
      Json.mkObj [("oid", Json.num (JsonNumber.fromNat oid)),
        ("slots", Json.arr (slots.map (fun (k, s) => Json.arr #[Json.str k, slotToJson s])).toArray),
        ("defaults", Json.arr (defaults.map Json.str).toArray),
        ("dyn", Json.arr (dyn.map Json.str).toArray),
        ("keyfile", match kf with | some k => Json.str k | none => Json.null),
        ("linked", Json.bool linked)]
  partial def slotToJson : Slot → Json
    | .val v => Json.mkObj [("v", valToJson v)]
    | .node c => Json.mkObj [("node", cfgToJson c)]
    | .nodes cs => Json.mkObj [("nodes", Json.arr (cs.map cfgToJson).toArray)]
end

def cerrToJson : CErr → Json
  | .validation p => Json.mkObj [("err", "ValidationError"), ("path", Json.str p)]
  | .attribute => Json.mkObj [("err", "AttributeError")]
  | .raw k => Json.mkObj [("err", Json.str k)]

def worldOfJson (j : Json) : R World := do
  let environ ← match fieldOpt j "environ" with
    | some (.arr a) => a.toList.mapM (fun p => match p with
        | .arr #[.str k, .str v] => pure (k, v)
        | _ => throw "bad environ entry")
    | _ => pure []
  let fe ← envOfJson (match fieldOpt j "env" with | some e => e | none => Json.mkObj [])
  pure { environ := fun k => lookupTable environ k, fe := fe }

def envSettingOfJson : Json → R EnvSetting
  | .null => pure .unset
  | .bool true => pure .auto
  | .bool false => pure .disabled
  | .str s => pure (.named s)
  | _ => throw "bad env setting"

/-- `env.name`: the variable a field is bound to, from the `env` settings on the way down -/
def envNameCmd (j : Json) : R Json := do
  let root ← envSettingOfJson ((j.getObjVal? "root").toOption.getD .null)
  let chain ← (← fArr j "chain").mapM (fun p => match p with
    | .arr #[.str k, st] => do pure (k, ← envSettingOfJson st)
    | _ => throw "bad chain entry")
  let fs ← envSettingOfJson ((j.getObjVal? "field").toOption.getD .null)
  match envName root chain fs (← fStr j "key") with
  | some n => pure (Json.str n)
  | none => pure Json.null

def sfieldTag : SField → String
  | .leaf _ _ => "leaf" | .sub _ => "sub" | .ctype _ _ => "ctype" | .cfgList _ _ _ _ => "cfglist" | .virtual _ _ => "virtual" | .method => "method"

/-- `paths`: enumeration and generated parser of a schema -/
def pathsCmd (j : Json) : R Json := do
  let s ← schemaOfJson (← field j "schema")
  let all := (allFields s).map (fun (p, f) => Json.arr #[Json.str p, Json.str (sfieldTag f)])
  let opts := (genParser s).map (fun o => Json.mkObj [("flag", Json.str o.flag), ("dest", Json.str o.dest),
    ("const", match o.const with | some b => Json.bool b | none => Json.null)])
  pure (Json.mkObj [("fields", Json.arr all.toArray), ("options", Json.arr opts.toArray)])

def fuelDefault : Nat := 24

/-- find the schema of the configuration reached by a dotted path -/
def schemaAtK : Nat → Schema → Option String → List Char → Option (Schema × Option String)
  | 0, _, _, _ => none
  | fuel + 1, s, kf0, dotted =>
    if dotted.isEmpty then some (s, kf0) else
    match partitionDot dotted with
    | (k, rest) =>
      match s.get (String.ofList k) with
      | some f => (match subSchema f with
          | some (s', kf) => (match rest with
              | some r => schemaAtK fuel s' kf r
              | none => some (s', kf))
          | none => (match f with
              | .cfgList s' _ _ _ => some (s', none)
              | _ => none))
      | none => none

def schemaAt (fuel : Nat) (s : Schema) (dotted : List Char) : Option Schema := (schemaAtK fuel s none dotted).map (·.1)

/-- run one operation; returns the reply and the new state -/
def cfgOp (W : World) (s : Schema) (c : Cfg) (n : Nat) (j : Json) : R (Json × Cfg × Nat) := do
  let argOf (target : List Char) (n : Nat) : R (Arg × Nat) := do
    let a ← field j "value"
    match (← fStr a "a") with
    | "val" => do pure (.val (← valOfJson (← field a "v")), n)
    | "cfg" => do
        let same := fBoolD a "schema_same" true
        if !same then pure (.cfg (Cfg.mk n [] [] [] none false) false, n + 1) else
        match schemaAtK fuelDefault s none target with
        | none => pure (.cfg (Cfg.mk n [] [] [] none false) false, n + 1)
        | some (s', kf) =>
          -- a config type's own constructor is used for the argument: its declared key file comes with it
          match build W "" false kf s' n with
          | .error _ => throw "cannot build argument configuration"
          | .ok (fresh, n1) =>
            match (← valOfJson (← field a "tree")) with
            | .dict kvs =>
              let o := loadTree W fuelDefault s' "" fresh kvs false n1
              if o.err.isSome then throw "ARGBUILD" else
              pure (.cfg o.cfg true, o.next)
            | _ => pure (.cfg fresh true, n1)
    | x => throw s!"unknown arg kind {x}"
  let outJson (o : Out) : Json := match o.err with
    | some e => cerrToJson e
    | none => Json.str "ok"
  match (← fStr j "op") with
  | "setitem" => do
      let key ← fChars j "key"
      match argOf key n with
      | .error "ARGBUILD" => pure (cerrToJson (.raw "ArgBuild"), c, n)
      | .error e => throw e
      | .ok (a, n1) =>
        let o := setItem W fuelDefault s "" c key a n1
        pure (outJson o, o.cfg, o.next)
  | "load_tree" => do
      match (← valOfJson (← field j "tree")) with
      | .dict kvs =>
        let o := loadTree W fuelDefault s "" c kvs (fBoolD j "validate" true) n
        pure (outJson o, o.cfg, o.next)
      | _ => pure (cerrToJson (.raw "AttributeError"), c, n)
  | "validate" => do
      match validateCfg W fuelDefault s "" c with
      | some e => pure (cerrToJson e, c, n)
      | none => pure (Json.str "ok", c, n)
  | "validate_collect" => do
      match fuelDefault with
      | 0 => throw "fuel"
      | f + 1 => pure (Json.mkObj [("errors", Json.arr ((validateCollect W f s "" c).map cerrToJson).toArray)], c, n)
  | "cmdline" => do
      -- `given`: the (dest, value) pairs the command line supplied, in order; the namespace is computed by the model
      let given ← (← fArr j "given").mapM (fun p => match p with
        | .arr #[.str d, v] => do pure (d, some (← valOfJson v))
        | _ => throw "bad given entry")
      let ignore ← (← fArr j "ignore").mapM (fun x => match x with | .str s => pure s | _ => throw "bad ignore")
      let ns := parseArgs (genParser s) given
      let o := cmdlineOverride W fuelDefault s c ns ignore n
      pure (outJson o, o.cfg, o.next)
  | "reset" => do
      let o := resetValue W fuelDefault s c (← fChars j "key") n
      pure (outJson o, o.cfg, o.next)
  | "defined" => do
      match isDefined fuelDefault s c (← fChars j "key") with
      | some b => pure (Json.mkObj [("defined", Json.bool b)], c, n)
      | none => pure (cerrToJson (.raw "KeyError"), c, n)
  | "to_tree" => do
      let mask ← match fieldOpt j "mask" with
        | some m => do pure (some (← strOfJson m))
        | none => pure none
      match toTree W fuelDefault s c (fBoolD j "virtual" false) mask with
      | some t => pure (Json.mkObj [("tree", valToJson (.dict t))], c, n)
      | none => pure (cerrToJson (.raw "error"), c, n)
  | "list_op" => do
      let key ← fChars j "key"
      let mode ← match (← fStr j "mode") with
        | "append" => pure ListMode.append
        | "insert" => do pure (ListMode.insert (← fInt j "i"))
        | "setidx" => do pure (ListMode.setIdx (← fInt j "i"))
        | m => throw s!"unknown list mode {m}"
      let o := cfgListOp W fuelDefault s c key mode (← valOfJson (← field j "v")) n
      pure (outJson o, o.cfg, o.next)
  | "setkey" => do
      let path ← (← fArr j "path").mapM (fun x => match x with | .str s => pure s | _ => throw "bad path")
      let file := match fieldOpt j "file" with | some (.str f) => some f | _ => none
      match setKeyAt c path file with
      | some c' => pure (Json.str "ok", c', n)
      | none => pure (cerrToJson (.raw "AttributeError"), c, n)
  | "to_tree_keyed" => do
      let dflt ← fStr j "default"
      match toTreeK (markWorld W) fuelDefault dflt s c with
      | some t => pure (Json.mkObj [("tree", valToJson (.dict t)),
          ("keys", Json.arr ((nodeKeys fuelDefault dflt s c).map Json.str).toArray)], c, n)
      | none => pure (cerrToJson (.raw "error"), c, n)
  | o => throw s!"unknown config op {o}"

/-- `cfg.run`: build a configuration and run a history on it, reporting the outcome and the full state after every step -/
def cfgRun (j : Json) : R Json := do
  let s ← schemaOfJson (← field j "schema")
  let W ← worldOfJson (← field j "world")
  let ops ← fArr j "ops"
  match build W "" false none s 0 with
  | .error e => pure (Json.mkObj [("build", cerrToJson e), ("steps", Json.arr #[])])
  | .ok (c0, n0) =>
    let rec go (c : Cfg) (n : Nat) : List Json → R (List Json)
      | [] => pure []
      | op :: rest => do
        let (out, c', n') ← cfgOp W s c n op
        let tl ← go c' n' rest
        pure (Json.mkObj [("out", out), ("state", cfgToJson c')] :: tl)
    let steps ← go c0 n0 ops
    pure (Json.mkObj [("build", Json.mkObj [("state", cfgToJson c0)]), ("steps", Json.arr steps.toArray)])

end Cinco.Wire
