import Cinco.Drv.Wire
import Cinco.Config.Nested
/-
  Wire form of the walk over nested containers of configurations (`nested.render`).

    H = {"cfg": id} | {"list": [H…]} | {"dict": [[key, H]…]} | {"dict": [H…]} | {"leaf": TREE}

  A dict entry is `[key, H]` (key = a wire string) or a bare `H` (key ""): the walk never reads the held dict's keys,
  it keeps those of `basic`.  Exactly one of the four tags must be present.
-/
namespace Cinco.Wire
open Lean Cinco Cinco.Nested

partial def heldOfJson (j : Json) : R Held := do
  match fieldOpt j "cfg", j.getObjVal? "list", j.getObjVal? "dict", j.getObjVal? "leaf" with
  | some c, .error _, .error _, .error _ => do
      let i ← intOfJson c
      if i < 0 then throw "held: negative configuration id" else pure (.cfg i.toNat)
  | none, .ok (.arr a), .error _, .error _ => do pure (.list (← a.toList.mapM heldOfJson))
  | none, .error _, .ok (.arr a), .error _ => do
      let kvs ← a.toList.mapM (fun e => match e with
        | .arr #[k, h] => do pure (String.ofList (← strOfJson k), ← heldOfJson h)
        | .arr _ => throw "held: bad dict entry"
        | h => do pure ("", ← heldOfJson h))
      pure (.dict kvs)
  | none, .error _, .error _, .ok t => do pure (.leaf (← treeOfJson t))
  | _, _, _, _ => throw "held: exactly one of cfg / list / dict / leaf expected (list and dict take arrays)"

/-- `{"held": H, "basic": TREE, "rendered": [[id, TREE]…]}` ↦ the TREE of `renderNested R held basic`,
    `R id` looked up in the table (first entry wins; a missing id renders as null) -/
def nestedRender (j : Json) : R Json := do
  let held ← heldOfJson (← field j "held")
  let basic ← treeOfJson (← field j "basic")
  let table ← (← fArr j "rendered").mapM (fun p => match p with
    | .arr #[i, t] => do
        let n ← intOfJson i
        if n < 0 then throw "rendered: negative configuration id" else pure (n.toNat, ← treeOfJson t)
    | _ => throw "bad rendered entry")
  let R : Nat → Tree := fun id =>
    match table.find? (fun e => e.1 == id) with
    | some e => e.2
    | none => .null
  pure (treeToJson (renderNested R held basic))

end Cinco.Wire
