import Lean.Data.Json
import Cinco.Basic.Tree
/-
  Wire format of the line protocol (driver side only; no model or proof depends on this file).
  Strings travel either as a JSON string (printable ASCII only) or as an array of code points.
-/
namespace Cinco.Wire
open Lean Cinco

abbrev R := Except String

def isPlainAscii (s : List Char) : Bool := s.all (fun c => 0x20 ≤ c.toNat && c.toNat ≤ 0x7e && c != '"' && c != '\\')

def strToJson (s : List Char) : Json :=
  if isPlainAscii s then Json.str (String.ofList s)
  else Json.arr (s.map (fun c => Json.num (JsonNumber.fromNat c.toNat))).toArray

def strOfJson : Json → R (List Char)
  | .str s => pure s.toList
  | .arr a => a.toList.mapM (fun j => match j.getNat? with
      | .ok n => pure (Char.ofNat n)
      | .error e => throw e)
  | _ => throw "string expected"

def field (j : Json) (k : String) : R Json :=
  match j.getObjVal? k with
  | .ok v => pure v
  | .error _ => throw s!"missing field {k}"

def fieldOpt (j : Json) (k : String) : Option Json :=
  match j.getObjVal? k with
  | .ok .null => none
  | .ok v => some v
  | .error _ => none

def fStr (j : Json) (k : String) : R String := do
  match (← field j k) with
  | .str s => pure s
  | _ => throw s!"field {k}: string expected"

def fChars (j : Json) (k : String) : R (List Char) := do strOfJson (← field j k)

def fBool (j : Json) (k : String) : R Bool := do
  match (← field j k) with
  | .bool b => pure b
  | _ => throw s!"field {k}: bool expected"

def fBoolD (j : Json) (k : String) (d : Bool) : Bool :=
  match j.getObjVal? k with
  | .ok (.bool b) => b
  | _ => d

def fArr (j : Json) (k : String) : R (List Json) := do
  match (← field j k) with
  | .arr a => pure a.toList
  | _ => throw s!"field {k}: array expected"

def intOfJson : Json → R Int
  | .str s => match s.toInt? with
      | some i => pure i
      | none => throw s!"bad int {s}"
  | .num n => if n.exponent = 0 then pure n.mantissa else throw "non-integer number"
  | _ => throw "int expected"

def fInt (j : Json) (k : String) : R Int := do intOfJson (← field j k)
def fNat (j : Json) (k : String) : R Nat := do
  let i ← fInt j k
  if i < 0 then throw s!"field {k}: negative" else pure i.toNat

def intToJson (i : Int) : Json := Json.str (toString i)

def hexDigit (n : Nat) : Char := if n < 10 then Char.ofNat (48 + n) else Char.ofNat (87 + n)
def bytesToHex (b : List UInt8) : String :=
  String.ofList (b.flatMap (fun x => [hexDigit (x.toNat / 16), hexDigit (x.toNat % 16)]))
def hexVal (c : Char) : Option Nat :=
  if '0' ≤ c && c ≤ '9' then some (c.toNat - 48)
  else if 'a' ≤ c && c ≤ 'f' then some (c.toNat - 87)
  else if 'A' ≤ c && c ≤ 'F' then some (c.toNat - 55) else none
def hexToBytes : List Char → R (List UInt8)
  | [] => pure []
  | a :: b :: rest => do
      match hexVal a, hexVal b with
      | some x, some y => pure (UInt8.ofNat (x * 16 + y) :: (← hexToBytes rest))
      | _, _ => throw "bad hex"
  | _ => throw "odd hex"
def fBytes (j : Json) (k : String) : R (List UInt8) := do hexToBytes (← fStr j k).toList

def fltToJson : Flt → Json
  | .nan => Json.str "nan"
  | .pinf => Json.str "inf"
  | .ninf => Json.str "-inf"
  | .negzero => Json.str "-0"
  | .dy m e => Json.arr #[intToJson m, intToJson e]

/-- normalise `m * 2^e` so that `m` is odd (or `0 * 2^0`) -/
partial def Flt.norm (m e : Int) : Flt :=
  if m == 0 then .dy 0 0
  else if m % 2 == 0 then Flt.norm (m / 2) (e + 1) else .dy m e

def fltOfJson : Json → R Flt
  | .str "nan" => pure .nan
  | .str "inf" => pure .pinf
  | .str "-inf" => pure .ninf
  | .str "-0" => pure .negzero
  | .arr #[m, e] => do pure (Flt.norm (← intOfJson m) (← intOfJson e))
  | _ => throw "bad float"

partial def treeToJson : Tree → Json
  | .null => Json.mkObj [("t", "null")]
  | .bool b => Json.mkObj [("t", "bool"), ("v", Json.bool b)]
  | .int i => Json.mkObj [("t", "int"), ("v", intToJson i)]
  | .flt f => Json.mkObj [("t", "flt"), ("v", fltToJson f)]
  | .str s => Json.mkObj [("t", "str"), ("v", strToJson s)]
  | .list xs => Json.mkObj [("t", "list"), ("v", Json.arr (xs.map treeToJson).toArray)]
  | .dict kvs => Json.mkObj [("t", "dict"), ("v", Json.arr (kvs.map (fun (k, v) =>
        Json.arr #[strToJson k.toList, treeToJson v])).toArray)]

partial def treeOfJson (j : Json) : R Tree := do
  match (← fStr j "t") with
  | "null" => pure .null
  | "bool" => pure (.bool (← fBool j "v"))
  | "int" => pure (.int (← fInt j "v"))
  | "flt" => pure (.flt (← fltOfJson (← field j "v")))
  | "str" => pure (.str (← fChars j "v"))
  | "list" => do
      let xs ← (← fArr j "v").mapM treeOfJson
      pure (.list xs)
  | "dict" => do
      let kvs ← (← fArr j "v").mapM (fun p => match p with
        | .arr #[k, v] => do pure (String.ofList (← strOfJson k), ← treeOfJson v)
        | _ => throw "bad dict entry")
      pure (.dict kvs)
  | t => throw s!"unknown tree tag {t}"

def kvsOfJson (j : Json) : R Kvs := do
  match (← treeOfJson j) with
  | .dict kvs => pure kvs
  | _ => throw "dict expected"

end Cinco.Wire
