import Cinco.Drv.FieldWire
import Cinco.Proxy.ListProxy
import Cinco.Proxy.DictProxy
namespace Cinco.Wire
open Lean Cinco Cinco.Field Cinco.Proxy Cinco.PyList

def optIntJ (j : Json) (k : String) : R (Option Int) :=
  match fieldOpt j k with
  | some v => do pure (some (← intOfJson v))
  | none => pure none

def iterOfJson (j : Json) : R Iter := do
  let items ← (← fArr j "items").mapM valOfJson
  match (← fStr j "kind") with
  | "proxy_same" => pure (.sameProxy items)
  | _ => pure (.plain items)

def lopOfJson (j : Json) : R LOp := do
  match (← fStr j "op") with
  | "append" => do pure (.append (← valOfJson (← field j "v")))
  | "insert" => do pure (.insert (← fInt j "i") (← valOfJson (← field j "v")))
  | "extend" => do pure (.extend (← iterOfJson (← field j "it")))
  | "iadd" => do pure (.iadd (← iterOfJson (← field j "it")))
  | "setidx" => do pure (.setIdx (← fInt j "i") (← valOfJson (← field j "v")))
  | "setslice" => do
      let st ← optIntJ j "step"
      pure (.setSlice (← optIntJ j "start") (← optIntJ j "stop") (st.map Int.toNat) (← iterOfJson (← field j "it")))
  | "pop" => do pure (.pop (← optIntJ j "i"))
  | "remove" => do pure (.remove (← valOfJson (← field j "v")))
  | "delidx" => do pure (.delIdx (← fInt j "i"))
  | "reverse" => pure .reverse
  | "clear" => pure .clear
  | "imul" => do pure (.imul (← fInt j "k"))
  | o => throw s!"unknown list op {o}"

def loutToJson : LOut → Json
  | .none => Json.str "none"
  | .value v => Json.mkObj [("value", valToJson v)]
  | .err .index => Json.mkObj [("err", "IndexError")]
  | .err .value => Json.mkObj [("err", "ValueError")]
  | .err .type => Json.mkObj [("err", "TypeError")]
  | .rejected e => Json.mkObj [("err", Json.str ("rejected:" ++ errName e))]

def listRun (j : Json) : R Json := do
  let f ← fieldOfJson (← field j "field")
  let E ← envOfJson (← field j "env")
  let init ← (← fArr j "init").mapM valOfJson
  let ops ← (← fArr j "ops").mapM lopOfJson
  let (_, outs) := ops.foldl (fun (acc : List Val × List Json) op =>
    let (xs', o) := lstep E.toEnv f acc.1 op
    (xs', acc.2 ++ [Json.mkObj [("out", loutToJson o), ("state", Json.arr (xs'.map valToJson).toArray)]])) (init, [])
  pure (Json.arr outs.toArray)

def pairsOfJson (j : Json) (k : String) : R (List (Val × Val)) := do
  (← fArr j k).mapM (fun p => match p with
    | .arr #[a, b] => do pure (← valOfJson a, ← valOfJson b)
    | _ => throw "bad pair")

def dopOfJson (j : Json) : R DOp := do
  match (← fStr j "op") with
  | "set" => do pure (.set (← valOfJson (← field j "k")) (← valOfJson (← field j "v")))
  | "update" => do pure (.update (← pairsOfJson j "pairs") (fBoolD j "compatible" false) (← pairsOfJson j "kw"))
  | "setdefault" => do
      let v ← match fieldOpt j "v" with
        | some x => do pure (some (← valOfJson x))
        | none => pure none
      pure (.setdefault (← valOfJson (← field j "k")) v)
  | "ior" => do pure (.ior (← pairsOfJson j "pairs"))
  | "pop" => do
      let d ← match fieldOpt j "default" with
        | some x => do pure (some (← valOfJson x))
        | none => pure none
      pure (.pop (← valOfJson (← field j "k")) d)
  | "popitem" => pure .popitem
  | "del" => do pure (.del (← valOfJson (← field j "k")))
  | "clear" => pure .clear
  | o => throw s!"unknown dict op {o}"

def doutToJson : DOut → Json
  | .none => Json.str "none"
  | .value v => Json.mkObj [("value", valToJson v)]
  | .keyError => Json.mkObj [("err", "KeyError")]
  | .rejected _ => Json.mkObj [("err", "rejected")]

def dictRun (j : Json) : R Json := do
  let sub (k : String) : R (Option FieldSpec) :=
    match fieldOpt j k with
    | some f => do pure (some (← fieldOfJson f))
    | none => pure none
  let kf ← sub "key"
  let vf ← sub "value"
  let E ← envOfJson (← field j "env")
  let init ← pairsOfJson j "init"
  let ops ← (← fArr j "ops").mapM dopOfJson
  let (_, outs) := ops.foldl (fun (acc : List (Val × Val) × List Json) op =>
    let (d', o) := dstep E.toEnv kf vf acc.1 op
    (d', acc.2 ++ [Json.mkObj [("out", doutToJson o), ("state", valToJson (.dict d'))]])) (init, [])
  pure (Json.arr outs.toArray)

end Cinco.Wire
