import Cinco.Drv.Wire
import Cinco.Stub.Gen
namespace Cinco.Wire
open Lean Cinco Cinco.Stub

partial def tyOfJson (j : Json) : R Ty := do
  match fieldOpt j "b", fieldOpt j "n", fieldOpt j "none", fieldOpt j "s", fieldOpt j "g" with
  | some (.str b), _, _, _, _ => pure (.builtin b)
  | _, some (.arr #[.str m, .str n]), _, _, _ => pure (.named m n)
  | _, _, some _, _, _ => pure .noneT
  | _, _, _, some (.str s), _ => pure (.text s)
  | _, _, _, _, some (.arr #[.str b, .arr args]) => do pure (.generic b (← args.toList.mapM tyOfJson))
  | _, _, _, _, _ => throw "bad type"

def paramOfJson (j : Json) : R Param := do
  match j with
  | .arr #[.str n, .null] => pure ⟨n, none⟩
  | .arr #[.str n, t] => do pure ⟨n, some (← tyOfJson t)⟩
  | _ => throw "bad param"

def optStrJ (j : Json) (k : String) : Option String :=
  match fieldOpt j k with
  | some (.str s) => some s
  | _ => none

def methodOfJson (j : Json) : R Method := do
  let ret ← match fieldOpt j "ret" with
    | none => pure none
    | some r => match fieldOpt r "bad" with
      | some _ => pure (some none)
      | none => do pure (some (some (← tyOfJson r)))
  pure { posonly := ← (← fArr j "posonly").mapM paramOfJson, pos := ← (← fArr j "pos").mapM paramOfJson,
         varargs := optStrJ j "varargs", kwonly := ← (← fArr j "kwonly").mapM paramOfJson,
         varkw := optStrJ j "varkw", ret := ret }

def sfOfJson (j : Json) : R (String × SF) := do
  match j with
  | .arr #[.str k, f] =>
    match (← fStr f "k") with
    | "attr" => do pure (k, .attr (← tyOfJson (← field f "ty")))
    | "virt" => do pure (k, .virt (← tyOfJson (← field f "ty")))
    | "meth" => do pure (k, .meth (← methodOfJson (← field f "m")))
    | o => throw s!"unknown stub field {o}"
  | _ => throw "bad stub field"

def kindName : PKind → String
  | .posOnly => "posonly" | .pos => "pos" | .varArgs => "varargs" | .kwOnly => "kwonly" | .varKw => "varkw"

def pairsJ (l : List (String × String)) : Json :=
  Json.arr (l.map (fun (a, b) => Json.arr #[Json.str a, Json.str b])).toArray

def stubGen (j : Json) : R Json := do
  let fs ← (← fArr j "fields").mapM sfOfJson
  let st := generate (← fStr j "cls") fs
  let (lines, effs) := generateStub (← fStr j "cls") fs
  pure (Json.mkObj [
    ("lines", Json.arr (lines.map Json.str).toArray),
    ("effects", Json.num effs.length),
    ("attrs", pairsJ st.attrs), ("init", pairsJ st.init),
    ("methods", Json.arr (st.methods.map (fun d => Json.arr #[Json.str d.name,
        Json.arr ((readKinds d.params).map (fun (n, k) => Json.arr #[Json.str n, Json.str (kindName k)])).toArray,
        Json.str d.ret])).toArray)])

end Cinco.Wire
