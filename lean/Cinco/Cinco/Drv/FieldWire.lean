import Cinco.Drv.Wire
import Cinco.Field.Codec
import Cinco.Crypto.Secure
import Cinco.Crypto.Hashes
import Cinco.Crypto.Aes256
import Cinco.Field.Chain
import Cinco.Generated.Registration
/-
  Wire format of values, field declarations and validator environments (driver side only).
-/
namespace Cinco.Wire
open Lean Cinco Cinco.Field

partial def valToJson : Val → Json
  | .none => Json.mkObj [("t", "none")]
  | .bool b => Json.mkObj [("t", "bool"), ("v", Json.bool b)]
  | .int i => Json.mkObj [("t", "int"), ("v", intToJson i)]
  | .flt f => Json.mkObj [("t", "flt"), ("v", fltToJson f)]
  | .str s => Json.mkObj [("t", "str"), ("v", strToJson s)]
  | .bytes b => Json.mkObj [("t", "bytes"), ("v", Json.str (bytesToHex b))]
  | .list xs => Json.mkObj [("t", "list"), ("v", Json.arr (xs.map valToJson).toArray)]
  | .tuple xs => Json.mkObj [("t", "tuple"), ("v", Json.arr (xs.map valToJson).toArray)]
  | .dict kvs => Json.mkObj [("t", "dict"), ("v", Json.arr (kvs.map (fun (k, v) => Json.arr #[valToJson k, valToJson v])).toArray)]
  | .digest s d a => Json.mkObj [("t", "digest"), ("salt", Json.str (bytesToHex s)), ("digest", Json.str (bytesToHex d)), ("alg", Json.str a)]
  | .opaque k => Json.mkObj [("t", "opaque"), ("k", Json.str k)]

partial def valOfJson (j : Json) : R Val := do
  match (← fStr j "t") with
  | "none" => pure .none
  | "null" => pure .none
  | "bool" => pure (.bool (← fBool j "v"))
  | "int" => pure (.int (← fInt j "v"))
  | "flt" => pure (.flt (← fltOfJson (← field j "v")))
  | "str" => pure (.str (← fChars j "v"))
  | "bytes" => pure (.bytes (← fBytes j "v"))
  | "list" => do pure (.list (← (← fArr j "v").mapM valOfJson))
  | "tuple" => do pure (.tuple (← (← fArr j "v").mapM valOfJson))
  | "dict" => do
      let kvs ← (← fArr j "v").mapM (fun p => match p with
        | .arr #[k, v] => do
            -- plain-data trees send string keys bare; values send tagged keys
            let kk ← match k with
              | .obj _ => valOfJson k
              | other => do pure (Val.str (← strOfJson other))
            pure (kk, ← valOfJson v)
        | _ => throw "bad dict entry")
      pure (.dict kvs)
  | "digest" => pure (.digest (← fBytes j "salt") (← fBytes j "digest") (← fStr j "alg"))
  | "opaque" => pure (.opaque (← fStr j "k"))
  | t => throw s!"unknown value tag {t}"

partial def reOfJson : Json → R Regex.Re
  | .arr a => do
    let chr (j : Json) : R Char := do pure (Char.ofNat (← j.getNat?))
    match a.toList with
    | [.str "eps"] => pure .eps
    | [.str "any"] => pure .any
    | [.str "bol"] => pure .bol
    | [.str "eol"] => pure .eol
    | [.str "eos"] => pure .eos
    | [.str "lit", c] => do pure (.lit (← chr c))
    | [.str "notLit", c] => do pure (.notLit (← chr c))
    | [.str "seq", x, y] => do pure (.seq (← reOfJson x) (← reOfJson y))
    | [.str "alt", x, y] => do pure (.alt (← reOfJson x) (← reOfJson y))
    | [.str "rep", mn, mx, r] => do
        let mx' ← match mx with
          | .null => pure none
          | m => do pure (some (← m.getNat?))
        pure (.rep (← mn.getNat?) mx' (← reOfJson r))
    | [.str "cls", .bool neg, .arr items] => do
        let its ← items.toList.mapM (fun it => match it with
          | .arr #[.str "ch", c] => do pure (Regex.ClsItem.ch (← chr c))
          | .arr #[.str "range", lo, hi] => do pure (Regex.ClsItem.range (← chr lo) (← chr hi))
          | .arr #[.str "word"] => pure .word
          | .arr #[.str "notWord"] => pure .notWord
          | .arr #[.str "digit"] => pure .digit
          | .arr #[.str "notDigit"] => pure .notDigit
          | .arr #[.str "space"] => pure .space
          | .arr #[.str "notSpace"] => pure .notSpace
          | _ => throw "bad class item")
        pure (.cls neg its)
    | _ => throw "bad regex node"
  | _ => throw "bad regex"

def optInt (j : Json) (k : String) : R (Option Int) :=
  match fieldOpt j k with
  | some v => do pure (some (← intOfJson v))
  | none => pure none

def numOfJson (j : Json) : R Num.Num := do
  match (← fStr j "t") with
  | "int" => pure (.int (← fInt j "v"))
  | "flt" => pure (.flt (← fltOfJson (← field j "v")))
  | _ => throw "bad bound"

def optNum (j : Json) (k : String) : R (Option Num.Num) :=
  match fieldOpt j k with
  | some v => do pure (some (← numOfJson v))
  | none => pure none

def strOptsOfJson (j : Json) : R StrOpts := do
  let regex ← match fieldOpt j "regex" with
    | some r => do pure (some (← reOfJson r))
    | none => pure none
  let choices ← match fieldOpt j "choices" with
    | some (.arr a) => a.toList.mapM strOfJson
    | _ => pure []
  let case ← match fieldOpt j "case" with
    | some (.str "lower") => pure (some Case.lower)
    | some (.str "upper") => pure (some Case.upper)
    | _ => pure none
  let strip ← match fieldOpt j "strip" with
    | some (.bool true) => pure Strip.ws
    | some (.bool false) => pure Strip.off
    | some s => do
        let cs ← strOfJson s
        pure (if cs.isEmpty then Strip.off else Strip.chars cs)
    | none => pure Strip.off
  pure { minLen := ← optInt j "min_len", maxLen := ← optInt j "max_len", regex := regex, choices := choices, case := case, strip := strip }

partial def fieldOfJson (j : Json) : R FieldSpec := do
  let req := fBoolD j "required" false
  let custom ← optStr' j "custom"
  let sub (k : String) : R (Option FieldSpec) :=
    match fieldOpt j k with
    | some f => do pure (some (← fieldOfJson f))
    | none => pure none
  let kind ← match (← fStr j "k") with
    | "any" => pure Kind.any
    | "string" => do pure (Kind.string (← strOptsOfJson j))
    | "int" => do pure (Kind.int (← optNum j "min") (← optNum j "max"))
    | "float" => do pure (Kind.float (← optNum j "min") (← optNum j "max"))
    | "bool" => pure Kind.bool
    | "bytes" => do pure (Kind.bytes (if (← fStr j "encoding") == "hex" then .hex else .base64))
    | "ipv4addr" => do pure (Kind.ipv4addr (← strOptsOfJson j))
    | "ipv4net" => do pure (Kind.ipv4net (← strOptsOfJson j) (← optInt j "min_prefix") (← optInt j "max_prefix"))
    | "hostname" => do pure (Kind.hostname (← strOptsOfJson j) (fBoolD j "allow_ipv4" true))
    | "filename" => do
        let ex ← match fieldOpt j "exists" with
          | some (.bool true) => pure Exists.yes
          | some (.bool false) => pure Exists.no
          | some (.str "dir") => pure Exists.dir
          | some (.str "file") => pure Exists.file
          | _ => pure Exists.any
        let sd ← match fieldOpt j "startdir" with
          | some s => do pure (some (← strOfJson s))
          | none => pure none
        pure (Kind.filename (← strOptsOfJson j) ex sd)
    | "url" => do pure (Kind.url (← strOptsOfJson j))
    | "challenge" => do pure (Kind.challenge (← fStr j "alg"))
    | "secure" => do pure (Kind.secure (← fStr j "method"))
    | "list" => do pure (Kind.list (← sub "item"))
    | "dict" => do pure (Kind.dict (← sub "key") (← sub "value"))
    | k => throw s!"unknown field kind {k}"
  pure (.mk kind req custom)
where
  optStr' (j : Json) (k : String) : R (Option String) :=
    match fieldOpt j k with
    | some (.str s) => pure (some s)
    | _ => pure none

/-- the validator catalogue (the harness implements the same functions in Python) -/
def customCatalogue (name : String) (v : Val) : Except Err Val :=
  match name with
  | "reject" => .error .value
  | "typeerr" => .error .type
  | "nonneg" => match v with
      | .int i => if i ≥ 0 then .ok v else .error .value
      | .flt f => if Num.lt (Num.ofFlt f) (Num.ofInt 0) then .error .value else .ok v
      | _ => .error .value
  | "upper" => match v with
      | .str s => .ok (.str (Str.upper s))
      | v => .ok v
  | "short" => match v with                      -- at most 5 characters / items
      | .str s => if s.length ≤ 5 then .ok v else .error .value
      | .list xs => if xs.length ≤ 5 then .ok v else .error .value
      | v => .ok v
  | "keyerr" => .error .value                    -- fails with KeyError: a rejection like any other
  | "clamp0" => match v with                     -- a normalising validator whose result may be falsy
      | .int i => if i < 0 then .ok (.int 0) else .ok v
      | v => .ok v
  | "blank" => match v with                      -- a comment becomes the empty string
      | .str ('#' :: _) => .ok (.str [])
      | v => .ok v
  | "small" => match v with                      -- at most 2 items / entries
      | .list xs => if xs.length ≤ 2 then .ok v else .error .value
      | .dict kvs => if kvs.length ≤ 2 then .ok v else .error .value
      | v => .ok v
  | _ => .ok v

/-- how /repo combines several registrations on one field (Generated/Registration.lean, read off `support.validator`) -/
def registrationMode : Field.RegMode :=
  if Generated.validatorRegistration == "chain" then .chain else .replace

def lookupTable {α β} [BEq α] (tbl : List (α × β)) (k : α) : Option β :=
  (tbl.find? (fun e => e.1 == k)).map (·.2)

def realHashFn (alg : String) (d : List UInt8) : List UInt8 :=
  match Hash.byName alg with
  | some h => h d
  | none => []

def leanUtf8Enc (s : Str) : List UInt8 := (String.ofList s).toUTF8.toList
def leanUtf8Dec (b : List UInt8) : Option Str := (String.fromUTF8? (ByteArray.mk b.toArray)).map String.toList

def secureEnv : Secure.Env :=
  { cipher := ⟨Aes.encryptBlock, Aes.decryptBlock⟩, utf8 := ⟨leanUtf8Enc, leanUtf8Dec⟩, aesAvailable := true }

/-- environment tables sent by the harness (values CPython's standard library computed for the strings at hand) -/
def envOfJson (j : Json) : R CodecEnv := do
  let pairs (k : String) : R (List Json) := match fieldOpt j k with
    | some (.arr a) => pure a.toList
    | _ => pure []
  let pf ← (← pairs "parse_float").mapM (fun p => match p with
    | .arr #[t, .null] => do pure (← strOfJson t, (none : Option Flt))
    | .arr #[t, f] => do pure (← strOfJson t, some (← fltOfJson f))
    | _ => throw "bad parse_float entry")
  let fs ← (← pairs "fs").mapM (fun p => match p with
    | .arr #[t, .str "file"] => do pure (← strOfJson t, FsKind.file)
    | .arr #[t, .str "dir"] => do pure (← strOfJson t, FsKind.dir)
    | .arr #[t, _] => do pure (← strOfJson t, FsKind.absent)
    | _ => throw "bad fs entry")
  let ia ← (← pairs "isabs").mapM (fun p => match p with
    | .arr #[t, .bool b] => do pure (← strOfJson t, b)
    | _ => throw "bad isabs entry")
  let rs ← (← pairs "resolve").mapM (fun p => match p with
    | .arr #[sd, v, r] => do pure ((← strOfJson sd, ← strOfJson v), ← strOfJson r)
    | _ => throw "bad resolve entry")
  let uo ← (← pairs "url_ok").mapM (fun p => match p with
    | .arr #[t, .bool b] => do pure (← strOfJson t, b)
    | _ => throw "bad url_ok entry")
  let salts ← (← pairs "salts").mapM (fun p => match p with
    | .arr #[.str a, .str h] => do pure (a, ← hexToBytes h.toList)
    | _ => throw "bad salt entry")
  let key ← match fieldOpt j "key" with
    | some (.str h) => hexToBytes h.toList
    | _ => pure (List.replicate 32 0)
  let iv ← match fieldOpt j "iv" with
    | some (.str h) => hexToBytes h.toList
    | _ => pure (List.replicate 16 0)
  pure {
    parseFloat := fun s => (lookupTable pf s).getD none,
    fsKind := fun s => (lookupTable fs s).getD .absent,
    isabs := fun s => (lookupTable ia s).getD (s.head? == some '/'),
    resolve := fun sd v => (lookupTable rs (sd, v)).getD v,
    urlOk := fun s => (lookupTable uo s).getD false,
    salt := fun a => (lookupTable salts a).getD [],
    hash := realHashFn,
    utf8 := leanUtf8Enc,
    custom := Field.compositeCatalogue customCatalogue registrationMode,
    encryptS := fun m s => (Secure.toBasic secureEnv key iv m (some s)).map Val.ofTree,
    decryptS := fun v => match v.toTree? with
      | some t => Secure.toPython secureEnv key t
      | none => none }

def errName : Err → String
  | .value => "ValueError" | .type => "TypeError" | .overflow => "OverflowError" | .entry _ => "ValidationError"

def resToJson : Except Err Val → Json
  | .ok v => Json.mkObj [("out", "ok"), ("value", valToJson v)]
  | .error e => Json.mkObj [("out", "err"), ("err", Json.str (errName e))]

end Cinco.Wire
