import Cinco.Drv.Wire
import Cinco.Heap.Model
import Cinco.Heap.Transfer
/-
  Wire adapter for the C13 heap model: command "heap.run".
  TREE  = null | {"a":text} | {"l":[TREE,…]} | {"d":[[key,TREE],…]}
  FIELD = {"f":"leaf","disc":"alias"|"shallow"|"deep","default":TREE} | {"f":"sub","schema":n} | {"f":"cfglist","schema":n}
  PSTEP = "fieldname" | {"item":[fieldname, n]}
  OP    = … | {"op":"transfer","cfg":i,"src":j,"path":[PSTEP…],"key":k,"mode":"revalidate"|"adopt"}   (Heap/Transfer.lean)
-/
namespace Cinco.Wire
open Lean Cinco

namespace HeapW
open Cinco.Heap

partial def treeOfJ (j : Json) : R Heap.Tree := do
  match j with
  | .null => pure .null
  | _ =>
    match fieldOpt j "a", fieldOpt j "l", fieldOpt j "d" with
    | some (.str s), _, _ => pure (.atom s)
    | _, some (.arr xs), _ => do pure (.list (← xs.toList.mapM treeOfJ))
    | _, _, some (.arr kvs) => do
        let ps ← kvs.toList.mapM (fun p => match p with
          | .arr #[.str k, v] => do pure (k, ← treeOfJ v)
          | _ => throw "bad dict entry")
        pure (.dict ps)
    | _, _, _ => throw "bad tree"

partial def treeToJ : Heap.Tree → Json
  | .null => Json.null
  | .atom s => Json.mkObj [("a", Json.str s)]
  | .list ts => Json.mkObj [("l", Json.arr (ts.map treeToJ).toArray)]
  | .dict kvs => Json.mkObj [("d", Json.arr (kvs.map (fun (k, v) => Json.arr #[Json.str k, treeToJ v])).toArray)]

def natOfJ (j : Json) : R Nat :=
  match j.getNat? with
  | .ok n => pure n
  | .error _ => throw "natural number expected"

def discOfJ : String → R Disc
  | "alias" => pure .alias
  | "shallow" => pure .shallow
  | "deep" => pure .deep
  | d => throw s!"unknown disc {d}"

def fieldSpecOfJ (j : Json) : R (String × FieldSpec) := do
  match j with
  | .arr #[.str name, f] =>
    match (← fStr f "f") with
    | "leaf" => do pure (name, .leaf (← discOfJ (← fStr f "disc")) (← treeOfJ ((fieldOpt f "default").getD Json.null)))
    | "sub" => do pure (name, .sub (← natOfJ (← field f "schema")))
    | "cfglist" => do pure (name, .cfgList (← natOfJ (← field f "schema")))
    | o => throw s!"unknown field kind {o}"
  | _ => throw "bad field entry"

def schemaSpecOfJ (j : Json) : R SchemaSpec := do
  pure { fields := ← (← fArr j "fields").mapM fieldSpecOfJ, dynamic := fBoolD j "dynamic" false }

def pstepOfJ (j : Json) : R PStep := do
  match j with
  | .str name => pure (.fld name)
  | _ =>
    match fieldOpt j "item" with
    | some (.arr #[.str name, n]) => do pure (.item name (← natOfJ n))
    | _ => throw "bad path step"

def vstepOfJ (j : Json) : R VStep := do
  match fieldOpt j "i", fieldOpt j "k" with
  | some n, _ => do pure (.idx (← natOfJ n))
  | _, some (.str k) => pure (.key k)
  | _, _ => throw "bad value step"

def howOfJ (j : Json) : R How := do
  match fieldOpt j "append", fieldOpt j "setkey", fieldOpt j "clear", fieldOpt j "pop" with
  | _, some (.arr #[.str k, t]), _, _ => do pure (.setKey k (← treeOfJ t))
  | _, _, some _, _ => pure .clear
  | _, _, _, some _ => pure .pop
  | _, _, _, _ =>
    -- `{"append": null}` appends None: `fieldOpt` hides a null payload, so look the key up directly
    match j.getObjVal? "append" with
    | .ok t => do pure (.append (← treeOfJ t))
    | .error _ => throw "bad how"

def pathOfJ (j : Json) : R (List PStep) := do
  match fieldOpt j "path" with
  | some (.arr a) => a.toList.mapM pstepOfJ
  | none => pure []
  | _ => throw "bad path"

/-- a transfer of the value under `key` from root `src` into the configuration at `path` below root `cfg` -/
structure TransferReq where
  i : Nat
  j : Nat
  path : List PStep
  key : String
  mode : TransferMode

def transferOfJ (j : Json) : R TransferReq := do
  let mode ← match (← fStr j "mode") with
    | "revalidate" => pure TransferMode.revalidate
    | "adopt" => pure TransferMode.adopt
    | m => throw s!"unknown transfer mode {m}"
  pure { i := ← natOfJ (← field j "cfg"), j := ← natOfJ (← field j "src"), path := ← pathOfJ j, key := ← fStr j "key", mode := mode }

/-- an operation together with the root index it acts on (`none`: build the next root) -/
def opOfJ (j : Json) : R (Option Nat × Op) := do
  match (← fStr j "op") with
  | "build" => pure (none, .build)
  | "set" => do
      let v ← match j.getObjVal? "value" with
        | .ok t => treeOfJ t
        | .error _ => throw "missing field value"
      pure (some (← natOfJ (← field j "cfg")), .set (← pathOfJ j) (← fStr j "key") v)
  | "mut" => do
      let steps ← match fieldOpt j "steps" with
        | some (.arr a) => a.toList.mapM vstepOfJ
        | none => pure []
        | _ => throw "bad steps"
      pure (some (← natOfJ (← field j "cfg")), .mut (← pathOfJ j) (← fStr j "key") steps (← howOfJ (← field j "how")))
  | "reset" => do pure (some (← natOfJ (← field j "cfg")), .reset (← pathOfJ j) (← fStr j "key"))
  | "additem" => do pure (some (← natOfJ (← field j "cfg")), .addItem (← pathOfJ j) (← fStr j "key"))
  | o => throw s!"unknown heap op {o}"

def outName : Outcome → String
  | .ok => "ok" | .attr => "attr" | .index => "index" | .key => "key" | .type => "type" | .nocfg => "nocfg"

def kvsToJ (kvs : List (String × Heap.Tree)) : Json :=
  Json.arr (kvs.map (fun (k, v) => Json.arr #[Json.str k, treeToJ v])).toArray

def snapshot (S : Schemas) (s : State) (o : Outcome) : Json :=
  Json.mkObj [
    ("out", Json.str (outName o)),
    ("cfgs", Json.arr (s.roots.map (fun r => treeToJ (obsCfg s.heap r))).toArray),
    ("dyn", Json.arr (s.roots.map (fun r => Json.arr ((obsDyn s.heap r).map Json.str).toArray)).toArray),
    ("defaults", Json.arr ((obsDefaults s.heap S).map kvsToJ).toArray)]

end HeapW

def heapRun (j : Json) : R Json := do
  let specs ← (← fArr j "schemas").mapM HeapW.schemaSpecOfJ
  let ops ← (← fArr j "ops").mapM (fun o => do
    match fieldOpt o "op" with
    | some (.str "transfer") => pure (Sum.inr (← HeapW.transferOfJ o))
    | _ => pure (Sum.inl (← HeapW.opOfJ o)))
  let S := Heap.initS specs
  let (_, outs) := ops.foldl (fun (acc : Heap.State × List Json) (p : Sum (Option Nat × Heap.Op) HeapW.TransferReq) =>
    let r := match p with
      | .inl p =>
        let i := match p.1 with
          | some i => i
          | none => acc.1.roots.length
        Heap.step S acc.1 i p.2
      | .inr t => Heap.transfer S acc.1 t.i t.j t.path t.key t.mode
    (r.1, acc.2 ++ [HeapW.snapshot S r.1 r.2])) (Heap.init specs, [])
  pure (Json.mkObj [("steps", Json.arr outs.toArray)])

end Cinco.Wire
