import Cinco.Basic.Tree
import Cinco.TreeIO.Include
