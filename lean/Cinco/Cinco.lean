import Cinco.Props.C04
import Cinco.Props.C18
