import Cinco.Props.C04
import Cinco.Props.C05
import Cinco.Props.C07
import Cinco.Props.C08
import Cinco.Props.C09
import Cinco.Props.C18
import Cinco.Props.C19
