"""known_findings.json: read-only at run time."""
import json
import os

HERE = os.path.dirname(os.path.abspath(__file__))
PATH = os.path.join(os.path.dirname(HERE), "known_findings.json")


def load():
    if not os.path.exists(PATH):
        return []
    return json.load(open(PATH))["findings"]


def open_for(prop):
    return [f for f in load() if f["property"] == prop and f["status"] == "open"]
