"""Schemas, configurations and operation histories shared by the configuration-level properties
(C01 C06 C11 C12 C15 and friends): generators, wire encoding, the adapter that drives the real library,
and the state dump both sides are compared on."""
import copy
import os

import fields as F
from protocol import enc_str

KEYS = ["alpha", "beta", "gamma", "delta", "eps", "zeta", "eta", "theta", "iota", "kappa", "x", "y", "name", "port", "mode_a"]
VALIDATORS = ["never", "x_lt_y", "always"]


# ------------------------------------------------------------------------------------------------ generation

def valid_default(rng, f, tmp, keypath):
    """a default that the field itself accepts, in normal form (the property's premise), or None"""
    from cincoconfig import Schema
    for _ in range(4):
        v = F.gen_value(rng, f, tmp, 0.0)
        try:
            fld = F.build_field(dict(f, custom=None), tmp)
            s = Schema()
            s.fld = fld
            cfg = s()
            cfg._key_filename = keypath
            out = fld.validate(cfg, v)
        except Exception:  # noqa
            continue
        if out is None:
            continue
        if f["k"] == "challenge":
            continue
        if f.get("custom"):
            try:
                out = F.CATALOGUE[f["custom"]](None, out)
            except Exception:  # noqa
                continue
        enc = F.enc_val(out)
        if F.has_opaque(enc):
            continue
        res = F.unproxy(out) if hasattr(F, "unproxy") else plain_copy(out)
        if f.get("custom"):
            # the default as it will be declared (a tuple becomes a list): the field's own validator has to accept that form too
            try:
                F.CATALOGUE[f["custom"]](None, list(res) if isinstance(res, tuple) else plain_copy(res))
            except Exception:  # noqa
                continue
        if f["k"] in ("list", "dict"):
            # a container default also has to survive construction (items of a list with AnyField items are only looked at there)
            try:
                s2 = Schema()
                s2.fld = F.build_field(dict(f, custom=None, default=plain_copy(res)), tmp)
                s2()
            except Exception:  # noqa
                continue
        return res
    return None


def plain_copy(v):
    if isinstance(v, list):
        return [plain_copy(x) for x in v]
    if isinstance(v, dict):
        return {k: plain_copy(x) for k, x in v.items()}
    return v


def gen_schema(rng, tmp, keypath, depth=2, width=(2, 5), opts=None):
    """wire-level schema skeleton: {'fields': [[key, sfield]], 'dynamic': bool, 'validators': [...]}"""
    opts = opts or {}
    n = rng.randint(*width)
    keys = rng.sample(KEYS, n)
    fs = []
    for k in keys:
        r = rng.random()
        if depth > 0 and r < 0.18:
            fs.append([k, {"s": "sub", "schema": gen_schema(rng, tmp, keypath, depth - 1, (1, 3), opts)}])
        elif depth > 0 and r < 0.26:
            fs.append([k, {"s": "ctype", "schema": gen_schema(rng, tmp, keypath, depth - 1, (1, 3), opts), "keyfile": None}])
        elif depth > 0 and r < 0.36:
            fs.append([k, {"s": "cfglist", "schema": gen_schema(rng, tmp, keypath, depth - 1, (1, 3), opts), "is_type": rng.random() < 0.4,
                           "required": rng.random() < 0.15, "default": {"kind": "callable", "v": []} if rng.random() < 0.7 else None}])
        elif r < 0.40 and opts.get("virtual", True):
            fs.append([k, {"s": "virtual", "const": rng.choice([1, "v", None, True]), "setter": False}])
        elif r < 0.43 and opts.get("virtual", True):
            fs.append([k, {"s": "method"}])
        else:
            f = F.gen_field(rng, 1)
            if f["k"] == "appmode":
                f["helpers"] = False
            sf = {"s": "leaf", "field": f, "sensitive": rng.random() < 0.15, "flag": False, "include": False}
            if rng.random() < 0.6:
                d = valid_default(rng, f, tmp, keypath)
                if d is not None:
                    sf["default"] = {"kind": "callable" if (rng.random() < 0.4 or isinstance(d, (list, dict))) else "const", "v": d}
            if f["k"] == "bool" and rng.random() < 0.3 and opts.get("flags", True):
                sf["flag"] = True
                f["custom"] = None
            fs.append([k, sf])
    vs = []
    if rng.random() < 0.2:
        vs.append(rng.choice(VALIDATORS))
    return {"fields": fs, "dynamic": rng.random() < 0.25, "validators": vs}


# ------------------------------------------------------------------------------------------------ real schema

class Built:
    """the real Schema plus what the adapter needs to know about it"""

    def __init__(self):
        self.types = {}          # id(skeleton) -> ConfigType class / Schema object
        self.counter = 0


def _validator_fn(name, log):
    def never(cfg):
        log.append(("schema", name, id(cfg)))
        raise ValueError("never valid")

    def x_lt_y(cfg):
        log.append(("schema", name, id(cfg)))
        d = cfg._data
        x, y = d.get("x"), d.get("y")
        if isinstance(x, int) and isinstance(y, int) and not isinstance(x, bool) and not isinstance(y, bool) and not x < y:
            raise ValueError("x must be less than y")

    def always(cfg):
        log.append(("schema", name, id(cfg)))
    return {"never": never, "x_lt_y": x_lt_y, "always": always}[name]


def build_schema(sk, tmp, built=None, log=None, key=None):
    import cincoconfig as cc
    from cincoconfig.fields import FeatureFlagField
    built = built or Built()
    log = log if log is not None else []
    s = cc.Schema(dynamic=sk.get("dynamic", False), env=sk.get("env"))
    for k, sf in sk["fields"]:
        kind = sf["s"]
        if kind == "leaf":
            f = dict(sf["field"])
            if "default" in sf and sf["default"]:
                d = sf["default"]
                if d["kind"] == "const":
                    f["default"] = d["v"]
                else:
                    f["default"] = (lambda v: (lambda: copy.deepcopy(v)))(d["v"])
            if sf.get("env") is not None:
                f["env"] = sf["env"]
            f["sensitive"] = sf.get("sensitive", False)
            if sf.get("flag"):
                fld = FeatureFlagField(default=f.get("default"), required=f.get("required", False))
            elif sf.get("include"):
                fld = cc.IncludeField(startdir=tmp)
            else:
                if f["k"] == "secure":
                    fld = cc.SecureField(method=f.get("method", "best"), sensitive=f["sensitive"], required=f.get("required", False),
                                         **({"default": f["default"]} if "default" in f else {}), **({"env": f["env"]} if "env" in f else {}))
                else:
                    fld = F.build_field(f, tmp)
            s._add_field(k, fld)
        elif kind == "sub":
            s._add_field(k, build_schema(sf["schema"], tmp, built, log))
        elif kind == "ctype":
            sub = build_schema(sf["schema"], tmp, built, log)
            built.counter += 1
            T = cc.make_type(sub, "T%d" % built.counter, key_filename=sf.get("keyfile"))
            built.types[id(sf)] = T
            s._add_field(k, T)
        elif kind == "cfglist":
            sub = build_schema(sf["schema"], tmp, built, log)
            item = sub
            if sf.get("is_type"):
                built.counter += 1
                item = cc.make_type(sub, "I%d" % built.counter, key_filename=sf.get("keyfile"))
            built.types[id(sf)] = item
            d = sf.get("default")
            kw = {"required": sf.get("required", False)}
            if d:
                kw["default"] = (lambda: [])
            s._add_field(k, cc.ListField(item, **kw))
        elif kind == "virtual":
            s._add_field(k, cc.VirtualField((lambda c: (lambda cfg: c))(sf["const"])))
        elif kind == "method":
            cc.instance_method(s, k)(lambda cfg, a=1, *args, **kw: a)
    for v in sk.get("validators", []):
        cc.validator(s)(_validator_fn(v, log))
    built.root = s
    return s


def wire_schema(sk, tmp):
    out = {"fields": [], "dynamic": sk.get("dynamic", False), "validators": sk.get("validators", [])}
    for k, sf in sk["fields"]:
        kind = sf["s"]
        if kind == "leaf":
            w = {"s": "leaf", "field": F.wire_field(sf["field"], tmp), "sensitive": sf.get("sensitive", False), "flag": sf.get("flag", False),
                 "include": sf.get("include", False)}
            if sf.get("flag"):
                w["field"] = {"k": "bool", "required": sf["field"].get("required", False), "custom": None}
            if sf.get("default"):
                w["default"] = {"kind": sf["default"]["kind"], "v": F.enc_val(sf["default"]["v"])}
            if sf.get("env_resolved"):
                w["env"] = sf["env_resolved"]
            out["fields"].append([k, w])
        elif kind in ("sub", "ctype"):
            w = {"s": kind, "schema": wire_schema(sf["schema"], tmp)}
            if kind == "ctype":
                w["keyfile"] = sf.get("keyfile")
            out["fields"].append([k, w])
        elif kind == "cfglist":
            w = {"s": "cfglist", "schema": wire_schema(sf["schema"], tmp), "is_type": sf.get("is_type", False), "required": sf.get("required", False)}
            if sf.get("default"):
                w["default"] = {"kind": "callable", "v": F.enc_val([])}
            out["fields"].append([k, w])
        elif kind == "virtual":
            out["fields"].append([k, {"s": "virtual", "const": F.enc_val(sf["const"]), "setter": False}])
        elif kind == "method":
            out["fields"].append([k, {"s": "method"}])
    return out


# ------------------------------------------------------------------------------------------------ state dump

class Ids:
    """object identity -> first-seen ordinal, persistent over a history (objects are kept alive so ids are not reused)"""

    def __init__(self):
        self.m = {}
        self.keep = []

    def of(self, obj):
        k = id(obj)
        if k not in self.m:
            self.m[k] = len(self.m)
            self.keep.append(obj)
        return self.m[k]


def dump_cfg(cfg, ids):
    from cincoconfig.core import Config
    slots = []
    for k, v in cfg._data.items():
        if isinstance(v, Config):
            slots.append([k, {"node": dump_cfg(v, ids)}])
        elif isinstance(v, list) and v and all(isinstance(x, Config) for x in v):
            slots.append([k, {"nodes": [dump_cfg(x, ids) for x in v]}])
        elif isinstance(v, list) and not v and type(v).__name__ == "ListProxy" and not isinstance(getattr(v, "item_field", None), __import__("cincoconfig").core.Field):
            slots.append([k, {"nodes": []}])
        else:
            slots.append([k, {"v": F.enc_val(v)}])
    kf = cfg._Config__keyfile
    return {"oid": ids.of(cfg), "slots": slots, "defaults": sorted(cfg._default_value_keys), "dyn": list(cfg._fields),
            "keyfile": kf.filename if kf is not None else None, "linked": cfg._parent is not None}


def canon_state(st, ids_map):
    """canonical comparable form of a state dump (oids through a persistent first-seen map)"""
    def cfg(c):
        o = c["oid"]
        if o not in ids_map:
            ids_map[o] = len(ids_map)
        slots = []
        for k, s in c["slots"]:
            if "v" in s:
                slots.append((k, ("v", F.canon_val(s["v"]))))
            elif "node" in s:
                slots.append((k, ("node", cfg(s["node"]))))
            else:
                slots.append((k, ("nodes", tuple(cfg(x) for x in s["nodes"]))))
        return (ids_map[o], tuple(slots), tuple(sorted(c["defaults"])), tuple(c["dyn"]), c.get("linked"))
    return cfg(st)


def strip_oids(c):
    """canonical state without identities (for comparisons where identity is not the point)"""
    if isinstance(c, tuple) and len(c) == 5 and isinstance(c[1], tuple):
        return (tuple((k, (s[0], strip_oids(s[1]) if s[0] == "node" else (tuple(strip_oids(x) for x in s[1]) if s[0] == "nodes" else s[1]))) for k, s in c[1]), c[2], c[3], c[4])
    return c


# ------------------------------------------------------------------------------------------------ paths

def leaf_paths(sk, prefix=""):
    """[(dotted path, sfield)] for every entry reachable by dotted paths (not inside lists)"""
    out = []
    for k, sf in sk["fields"]:
        p = prefix + k
        out.append((p, sf))
        if sf["s"] in ("sub", "ctype"):
            out.extend(leaf_paths(sf["schema"], p + "."))
    return out


def gen_tree_for(rng, sk, tmp, p_key=0.6, p_bad=0.1, depth=3):
    """a tree for load_tree: mostly valid values in their on-disk form, sometimes junk / unknown keys"""
    t = {}
    for k, sf in sk["fields"]:
        if rng.random() > p_key:
            continue
        kind = sf["s"]
        if kind == "leaf":
            f = sf["field"]
            v = F.gen_value(rng, f, tmp, p_bad)
            t[k] = to_disk(f, v)
        elif kind in ("sub", "ctype"):
            t[k] = gen_tree_for(rng, sf["schema"], tmp, p_key, p_bad, depth - 1) if rng.random() > p_bad else rng.choice([None, 5, "x", []])
        elif kind == "cfglist":
            if rng.random() < p_bad:
                t[k] = rng.choice([None, 5, "x", [1]])
            else:
                t[k] = [gen_tree_for(rng, sf["schema"], tmp, 0.8, p_bad, depth - 1) for _ in range(rng.randint(0, 2))]
        elif kind in ("virtual", "method") and rng.random() < 0.1:
            t[k] = 1
    if rng.random() < 0.12:
        t["unknown_key"] = rng.choice([1, "z", None])
    items = list(t.items())
    rng.shuffle(items)
    return dict(items)


def to_disk(f, v):
    """a plausible on-disk form of an in-memory candidate value (bytes -> text, etc.); junk stays junk"""
    import base64
    k = f["k"]
    if isinstance(v, bytes):
        return base64.b64encode(v).decode() if f.get("encoding", "base64") == "base64" else v.hex()
    if isinstance(v, (list, tuple)) and k == "list":
        return [to_disk(f["item"], x) for x in v]
    if isinstance(v, tuple):
        return list(v)
    if isinstance(v, dict) and k == "dict":
        out = {}
        for a, b in v.items():
            if not isinstance(a, str):
                a = str(a)
            out[a] = to_disk(f["value"], b) if f.get("value") else b
        return out
    if isinstance(v, (set, bytearray)) or type(v).__name__ in ("object", "DigestValue"):
        return None
    if isinstance(v, float) and v != v:
        return None
    return v


def jsonable_slot(s):
    """a slot of a state dump without object identities (for value comparisons)"""
    def cfg(c):
        return {"slots": [[k, jsonable_slot(x)] for k, x in c["slots"]], "defaults": sorted(c["defaults"]), "dyn": list(c["dyn"])}
    if "v" in s:
        return {"v": repr(F.canon_val(s["v"]))}
    if "node" in s:
        return {"node": cfg(s["node"])}
    return {"nodes": [cfg(x) for x in s["nodes"]]}
