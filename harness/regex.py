"""Python regex source -> the model's regex AST (via CPython's own parser), as JSON for the wire or as a Lean term."""
import re

try:
    import re._parser as sre_parse
    import re._constants as C
except ImportError:  # pragma: no cover
    import sre_parse
    import sre_constants as C


class Unsupported(Exception):
    pass


CATS = {C.CATEGORY_WORD: "word", C.CATEGORY_NOT_WORD: "notWord", C.CATEGORY_DIGIT: "digit", C.CATEGORY_NOT_DIGIT: "notDigit",
        C.CATEGORY_SPACE: "space", C.CATEGORY_NOT_SPACE: "notSpace"}


def _seq(items):
    out = None
    for it in reversed(items):
        out = it if out is None else ["seq", it, out]
    return out if out is not None else ["eps"]


def _conv(sub):
    items = []
    for op, av in sub:
        if op is C.LITERAL:
            items.append(["lit", av])
        elif op is C.NOT_LITERAL:
            items.append(["notLit", av])
        elif op is C.ANY:
            items.append(["any"])
        elif op is C.IN:
            neg = False
            cls = []
            for o2, a2 in av:
                if o2 is C.NEGATE:
                    neg = True
                elif o2 is C.LITERAL:
                    cls.append(["ch", a2])
                elif o2 is C.RANGE:
                    cls.append(["range", a2[0], a2[1]])
                elif o2 is C.CATEGORY and a2 in CATS:
                    cls.append([CATS[a2]])
                else:
                    raise Unsupported(str(o2))
            items.append(["cls", neg, cls])
        elif op in (C.MAX_REPEAT, C.MIN_REPEAT):
            mn, mx, body = av
            items.append(["rep", mn, None if mx == C.MAXREPEAT else mx, _conv(body)])
        elif op is C.SUBPATTERN:
            group, add, dele, body = av
            if add or dele:
                raise Unsupported("inline flags")
            items.append(_conv(body))
        elif op is C.BRANCH:
            alts = [_conv(b) for b in av[1]]
            out = alts[-1]
            for a in reversed(alts[:-1]):
                out = ["alt", a, out]
            items.append(out)
        elif op is C.AT:
            if av in (C.AT_BEGINNING, C.AT_BEGINNING_STRING):
                items.append(["bol"])
            elif av is C.AT_END:
                items.append(["eol"])
            elif av is C.AT_END_STRING:
                items.append(["eos"])
            else:
                raise Unsupported(str(av))
        else:
            raise Unsupported(str(op))
    return _seq(items)


def to_ast(src):
    p = sre_parse.parse(src)
    if p.state.flags & ~re.UNICODE:
        raise Unsupported("flags")
    return _conv(p)


def _lch(n):
    return "(Char.ofNat %d)" % n


def to_lean(ast):
    k = ast[0]
    if k in ("eps", "any", "bol", "eol", "eos"):
        return ".%s" % k
    if k in ("lit", "notLit"):
        return "(.%s %s)" % (k, _lch(ast[1]))
    if k == "cls":
        its = []
        for it in ast[2]:
            if it[0] == "ch":
                its.append(".ch %s" % _lch(it[1]))
            elif it[0] == "range":
                its.append(".range %s %s" % (_lch(it[1]), _lch(it[2])))
            else:
                its.append(".%s" % it[0])
        return "(.cls %s [%s])" % ("true" if ast[1] else "false", ", ".join(its))
    if k in ("seq", "alt"):
        return "(.%s %s %s)" % (k, to_lean(ast[1]), to_lean(ast[2]))
    if k == "rep":
        return "(.rep %d %s %s)" % (ast[1], "none" if ast[2] is None else "(some %d)" % ast[2], to_lean(ast[3]))
    raise ValueError(k)
