"""Operation histories on configurations: generation, execution on the real library, execution on the model, comparison.
Used by C01, C06, C12, C15 (and C11/C02/C10 for their own op mixes)."""
import copy
import json
import os

import cfgs as C
import fields as F
from protocol import enc_str


def all_leaf_fields(sk):
    for k, sf in sk["fields"]:
        if sf["s"] == "leaf":
            yield sf["field"]
        elif sf["s"] in ("sub", "ctype", "cfglist"):
            yield from all_leaf_fields(sf["schema"])


def schema_env(sk, values, tmp, key=None, iv=None, salts=None):
    """environment tables for every leaf field of the schema over all strings at hand"""
    env = {"parse_float": [], "fs": [], "isabs": [], "resolve": [], "url_ok": [], "salts": [[a, s.hex()] for a, s in (salts or {}).items()]}
    seen = set()
    for f in all_leaf_fields(sk):
        kind = f["k"]
        if kind not in ("float", "filename", "url") and not F.has_kind(f, ("float", "filename", "url")):
            continue
        sig = json.dumps(f, sort_keys=True, default=str)
        if sig in seen:
            continue
        seen.add(sig)
        e = F.env_tables(f, values, tmp)
        for k in ("parse_float", "fs", "isabs", "resolve", "url_ok"):
            env[k].extend(e[k])
    if key is not None:
        env["key"] = key.hex()
    if iv is not None:
        env["iv"] = iv.hex()
    return env


def schema_values(sk):
    """every declared default, at any depth (they are validated / looked up when configurations are built)"""
    out = []
    for k, sf in sk["fields"]:
        if sf.get("default") and sf["s"] == "leaf":
            out.append(sf["default"]["v"])
        if sf["s"] in ("sub", "ctype", "cfglist"):
            out.extend(schema_values(sf["schema"]))
    return out


def schema_modelled(sk, values):
    for f in all_leaf_fields(sk):
        if not F.modelled(f, values):
            return False
    return True


# ------------------------------------------------------------------------------------------------ op generation

JUNK_FOR_SUB = [None, 5, "x", [], [1], True, 1.5]


def gen_arg(rng, sf, tmp):
    kind = sf["s"]
    if kind == "leaf":
        return {"a": "val", "py": F.gen_value(rng, sf["field"], tmp, 0.15)}
    if kind in ("sub", "ctype"):
        r = rng.random()
        if r < 0.55:
            return {"a": "val", "py": C.gen_tree_for(rng, sf["schema"], tmp, 0.7, 0.1)}
        if r < 0.75:
            return {"a": "cfg", "schema_same": True, "tree": C.gen_tree_for(rng, sf["schema"], tmp, 0.6, 0.0)}
        if r < 0.80:
            return {"a": "cfg", "schema_same": False, "tree": {}}
        if r < 0.85:
            return {"a": "cfg", "schema_same": False, "tree": {}, "held_elsewhere": True}
        return {"a": "val", "py": rng.choice(JUNK_FOR_SUB)}
    if kind == "cfglist":
        r = rng.random()
        if r < 0.7:
            return {"a": "val", "py": [C.gen_tree_for(rng, sf["schema"], tmp, 0.8, 0.08) for _ in range(rng.randint(0, 3))]}
        return {"a": "val", "py": rng.choice([None, 5, "x", [1], [None], {}])}
    return {"a": "val", "py": rng.choice([1, "v", None])}


def gen_list_op(rng, sk, tmp):
    """an in-place operation on a list of configurations: a map for the new item (mostly acceptable), sometimes junk"""
    lists = [(p, sf) for p, sf in C.leaf_paths(sk) if sf["s"] == "cfglist"]
    if not lists:
        return None
    p, sf = rng.choice(lists)
    v = C.gen_tree_for(rng, sf["schema"], tmp, 0.8, 0.12) if rng.random() < 0.85 else rng.choice([5, "x", None, [1]])
    mode = rng.choice(["append", "append", "insert", "setidx"])
    return {"op": "list_op", "key": p, "mode": mode, "i": rng.choice([0, 0, 1, -1, 2, 5, -3]), "value": v}


def gen_ops(rng, sk, tmp, n):
    paths = C.leaf_paths(sk)
    ops = []
    for _ in range(n):
        r = rng.random()
        lo = gen_list_op(rng, sk, tmp) if r < 0.10 else None
        if lo is not None:
            ops.append(lo)
            continue
        if r < 0.55 and paths:
            p, sf = rng.choice(paths)
            ops.append({"op": "setitem", "key": p, "value": gen_arg(rng, sf, tmp), "via": rng.choice(["item", "attr"])})
        elif r < 0.60:
            pre = rng.choice([""] + [p + "." for p, sf in paths if sf["s"] in ("sub", "ctype")])
            ops.append({"op": "setitem", "key": pre + rng.choice(["nope", "dyn_a", "dyn_b"]), "value": {"a": "val", "py": rng.choice([1, "s", None, [1, 2], {"k": 1}])},
                        "via": rng.choice(["item", "attr"])})
        elif r < 0.75:
            ops.append({"op": "load_tree", "tree": C.gen_tree_for(rng, sk, tmp, 0.5, 0.08), "validate": rng.random() < 0.8})
        elif r < 0.80:
            ops.append({"op": "validate"})
        elif r < 0.90 and paths:
            p, sf = rng.choice(paths)
            ops.append({"op": "reset", "key": p})
        elif r < 0.95 and paths:
            ops.append({"op": "defined", "key": rng.choice(paths)[0]})
        else:
            ops.append({"op": "to_tree", "virtual": rng.random() < 0.3, "mask": None})
    return ops


def op_values(ops):
    vals = []
    for op in ops:
        if op["op"] == "setitem":
            a = op["value"]
            vals.append(a.get("py") if a["a"] == "val" else a.get("tree"))
        elif op["op"] == "load_tree":
            vals.append(op["tree"])
        elif op["op"] == "list_op":
            vals.append(op["value"])
        elif op["op"] == "cmdline":
            vals.extend(v for _, v in op["given"])
    return vals


def wire_op(op):
    w = {k: v for k, v in op.items() if k not in ("value", "via", "tree", "raw")}
    if op["op"] == "setitem":
        a = op["value"]
        if a["a"] == "val":
            w["value"] = {"a": "val", "v": F.enc_val(a["py"])}
        else:
            w["value"] = {"a": "cfg", "schema_same": a["schema_same"], "tree": F.enc_val(a["tree"])}
    if op["op"] == "load_tree":
        w["tree"] = F.enc_val(op["tree"])
    if op["op"] == "list_op":
        w["v"] = F.enc_val(op["value"])
        w["i"] = str(op.get("i", 0))
    if op["op"] == "cmdline":
        w.pop("argv", None)
        w["given"] = [[d, F.enc_val(v)] for d, v in op["given"]]
        w["ignore"] = [op["ignore"]] if isinstance(op["ignore"], str) else list(op["ignore"])
    if op["op"] == "to_tree" and op.get("mask") is not None:
        w["mask"] = enc_str(op["mask"])
    return w


# ------------------------------------------------------------------------------------------------ implementation side

def exc_out(e):
    from cincoconfig.core import ValidationError
    if isinstance(e, ValidationError):
        try:
            p = e.ref_path
        except Exception:  # noqa
            p = "?"
        return {"err": "ValidationError", "path": p}
    if isinstance(e, AttributeError):
        return {"err": "AttributeError"}
    return {"err": type(e).__name__}


def find_sf(sk, dotted):
    cur = sk
    sf = None
    for part in dotted.split("."):
        sf = dict(cur["fields"]).get(part)
        if sf is None:
            return None
        if sf["s"] in ("sub", "ctype"):
            cur = sf["schema"]
    return sf


def make_cfg_arg(built, sk, dotted, arg, tmp):
    """a Config object of the same (or a foreign) schema to be assigned"""
    import cincoconfig as cc
    if not arg["schema_same"]:
        s = cc.Schema()
        sf0 = find_sf(sk, dotted)
        keys = [k for k, _ in (sf0 or {}).get("schema", {}).get("fields", [])]
        if keys and len(dotted) % 2 == 0:
            # a look-alike: another schema that happens to declare the same names (without any of the constraints)
            from cincoconfig.core import AnyField
            for k in keys:
                s._add_field(k, AnyField())
        else:
            s.zzz = cc.IntField(default=1)
        return s()
    sf = find_sf(sk, dotted)
    obj = built.real_for[id(sf)]
    c = obj() if not isinstance(obj, type) else obj()
    c.load_tree(copy.deepcopy(arg["tree"]), validate=False)
    return c


def held_elsewhere(cfg, sk, dotted):
    """a sub-configuration (of another schema: every nested schema of the skeleton is its own Schema object) that currently sits
    in another slot of this configuration, or None: assigning it where it does not belong must be rejected and must leave it
    where it is, as it is"""
    from cincoconfig.core import Config
    for p, sf in C.leaf_paths(sk):
        if sf["s"] not in ("sub", "ctype") or p == dotted or dotted.startswith(p + ".") or p.startswith(dotted + "."):
            continue
        cur = cfg
        for part in p.split("."):
            cur = cur._data.get(part) if isinstance(cur, Config) else None
        if isinstance(cur, Config):
            return cur
    return None


def real_objects(sk, schema, built):
    """map skeleton sub-schemas to the real Schema / ConfigType objects that produce their configurations"""
    built.real_for = getattr(built, "real_for", {})
    for k, sf in sk["fields"]:
        if sf["s"] == "sub":
            built.real_for[id(sf)] = schema._fields[k]
            real_objects(sf["schema"], schema._fields[k], built)
        elif sf["s"] == "ctype":
            T = schema._fields[k].config_type
            built.real_for[id(sf)] = T
            real_objects(sf["schema"], T.__schema__, built)
        elif sf["s"] == "cfglist":
            item = schema._fields[k].field
            built.real_for[id(sf)] = item
            real_objects(sf["schema"], item if not isinstance(item, type) else item.__schema__, built)


def run_impl(sk, ops, tmp, keypath, environ=None, tape=None):
    """returns {'build': {...}, 'steps': [{'out':..., 'state':...}]}, and the live objects"""
    import cincoconfig as cc
    from cincoconfig.core import Config
    log = []
    built = C.Built()
    saved_env = dict(os.environ)
    ids = C.Ids()
    real_urandom = os.urandom
    if tape is not None:
        os.urandom = tape
    try:
        if environ:
            os.environ.update(environ)
        schema = C.build_schema(sk, tmp, built, log)
        real_objects(sk, schema, built)
        try:
            cfg = schema()
        except Exception as e:  # noqa
            return {"build": exc_out(e), "steps": []}, None
        if keypath:
            cfg._key_filename = keypath
        res = {"build": {"state": C.dump_cfg(cfg, ids)}, "steps": []}
        for op in ops:
            out = "ok"
            try:
                k = op["op"]
                if k == "setitem":
                    a = op["value"]
                    if a["a"] == "val":
                        val = copy.deepcopy(a["py"])
                    else:
                        try:
                            val = held_elsewhere(cfg, sk, op["key"]) if a.get("held_elsewhere") else None
                            if val is None:
                                val = make_cfg_arg(built, sk, op["key"], a, tmp)
                        except Exception:  # noqa  (the argument itself could not be built: not an operation on cfg)
                            res["steps"].append({"out": {"err": "ArgBuild"}, "state": C.dump_cfg(cfg, ids)})
                            continue
                    if op.get("via") == "attr":
                        parts = op["key"].split(".")
                        tgt = cfg
                        for p in parts[:-1]:
                            tgt = getattr(tgt, p)
                        setattr(tgt, parts[-1], val)
                    else:
                        cfg[op["key"]] = val
                elif k == "load_tree":
                    cfg.load_tree(copy.deepcopy(op["tree"]), validate=op.get("validate", True))
                elif k == "validate":
                    cfg.validate()
                elif k == "cmdline":
                    parser = cc.generate_argparse_parser(schema)
                    try:
                        args = parser.parse_args(op["argv"])
                    except SystemExit:                     # argparse's way of rejecting a command line
                        raise ValueError("the generated parser rejected the command line")
                    cc.cmdline_args_override(cfg, args, ignore=op["ignore"])
                elif k == "validate_collect":
                    errs = cfg.validate(collect_errors=True)
                    out = {"errors": [exc_out(e) for e in errs]}
                elif k == "reset":
                    cc.reset_value(cfg, op["key"])
                elif k == "defined":
                    out = {"defined": cc.is_value_defined(cfg, op["key"])}
                elif k == "list_op":
                    lst = cfg
                    for part in op["key"].split("."):
                        lst = lst._data.get(part) if isinstance(lst, Config) else None
                    val = copy.deepcopy(op["value"])
                    if op["mode"] == "append":
                        lst.append(val)
                    elif op["mode"] == "insert":
                        lst.insert(op["i"], val)
                    else:
                        lst[op["i"]] = val
                elif k == "setkey":
                    tgt = cfg
                    for part in op["path"]:
                        tgt = tgt._data.get(part)
                        if not isinstance(tgt, Config):
                            raise AttributeError(part)
                    tgt._key_filename = op["file"]
                elif k == "to_tree_keyed":
                    out = keyed_tree(cfg, sk, op)
                elif k == "to_tree":
                    out = {"tree": F.enc_val(cfg.to_tree(virtual=op.get("virtual", False), sensitive_mask=op.get("mask")))}
            except Exception as e:  # noqa
                out = exc_out(e)
            res["steps"].append({"out": out, "state": C.dump_cfg(cfg, ids)})
        return res, (schema, cfg, built, log)
    finally:
        os.urandom = real_urandom
        os.environ.clear()
        os.environ.update(saved_env)


def keyed_tree(cfg, sk, op):
    """to_tree() with every written secret replaced by 'ENC|<key file that decrypts it to the held value>|<value>', plus the
    key files opened meanwhile.  Trial decryption uses the cipher providers on the raw bytes of each candidate file (no KeyFile)."""
    import base64
    import builtins
    from cincoconfig.core import Config
    from cincoconfig.encryption import AesProvider, XorProvider
    cands = op["candidates"]
    opened = []
    real_open = builtins.open

    def spy(file, *a, **k):
        try:
            fp = os.path.abspath(os.fspath(file))
        except TypeError:
            fp = None
        if fp in cands and fp not in opened:
            opened.append(fp)
        return real_open(file, *a, **k)
    builtins.open = spy
    try:
        tree = cfg.to_tree()
    finally:
        builtins.open = real_open
    keys = {}
    for c in cands:
        try:
            with real_open(c, "rb") as fh:
                keys[c] = fh.read()
        except OSError:
            pass

    def which(stored, held):
        if not (isinstance(stored, dict) and set(stored) == {"method", "ciphertext"}):
            return stored
        try:
            ct = base64.b64decode(stored["ciphertext"])
        except Exception:  # noqa
            return "ENC|?|"
        for c, kb in keys.items():
            try:
                prov = AesProvider(kb) if stored["method"] == "aes" else XorProvider(kb)
                if prov.decrypt(ct).decode("utf-8") == held:
                    return "ENC|%s|%s" % (c, held)
            except Exception:  # noqa
                continue
        return "ENC|?|%s" % (held if isinstance(held, str) else "")

    def walk(s, c, t):
        for k, sf in s["fields"]:
            if k not in t:
                continue
            if sf["s"] == "leaf":
                f = sf["field"]
                held = c._data.get(k)
                if f["k"] == "secure":
                    t[k] = which(t[k], held)
                elif f["k"] == "list" and isinstance(f.get("item"), dict) and f["item"]["k"] == "secure" and isinstance(t[k], list):
                    t[k] = [which(x, h) for x, h in zip(t[k], list(held))]
            elif sf["s"] in ("sub", "ctype") and isinstance(t[k], dict) and isinstance(c._data.get(k), Config):
                walk(sf["schema"], c._data[k], t[k])
            elif sf["s"] == "cfglist" and isinstance(t[k], list):
                for it, ic in zip(t[k], c._data.get(k) or []):
                    if isinstance(it, dict) and isinstance(ic, Config):
                        walk(sf["schema"], ic, it)
    walk(sk, cfg, tree)
    return {"tree": F.enc_val(tree), "raw": tree, "opened": opened}


def canon_out(o):
    if o == "ok":
        return "ok"
    if "err" in o:
        if o["err"] == "ValidationError":
            p = o.get("path") or ""
            return ("ValidationError", p)
        if o["err"] == "AttributeError":
            return ("AttributeError",)
        return ("Other",)
    if "defined" in o:
        return ("defined", o["defined"])
    if "tree" in o:
        return ("tree", F.canon_val(o["tree"]))
    if "errors" in o:
        return ("errors", tuple(canon_out(e) for e in o["errors"]))
    return ("?", json.dumps(o, sort_keys=True))


def compare(impl, model):
    """first difference between the two runs (None if they agree); oids are compared through first-seen maps"""
    if ("state" in impl["build"]) != ("state" in model["build"]):
        return {"at": "build", "impl": impl["build"], "model": model["build"]}
    if "state" not in impl["build"]:
        a, b = canon_out(impl["build"]), canon_out(model["build"])
        return None if a[0] == b[0] else {"at": "build", "impl": impl["build"], "model": model["build"]}
    mi, mm = {}, {}
    if C.canon_state(impl["build"]["state"], mi) != C.canon_state(model["build"]["state"], mm):
        return {"at": "build", "impl": impl["build"], "model": model["build"]}
    for n, (a, b) in enumerate(zip(impl["steps"], model["steps"])):
        ca, cb = canon_out(a["out"]), canon_out(b["out"])
        if ca[0] == cb[0] == "ValidationError" and "[?]" in cb[1]:
            # a dict key the model cannot print (e.g. a float): compare the path up to the key
            cut = cb[1].index("[?]")
            ca, cb = (ca[0], ca[1][:cut]), (cb[0], cb[1][:cut])
        if ca != cb:
            return {"at": n, "what": "outcome", "impl": a["out"], "model": b["out"]}
        if C.canon_state(a["state"], mi) != C.canon_state(b["state"], mm):
            return {"at": n, "what": "state", "impl": a["state"], "model": b["state"]}
    if len(impl["steps"]) != len(model["steps"]):
        return {"at": "length", "impl": len(impl["steps"]), "model": len(model["steps"])}
    return None
