"""./check Cxx [--tier quick|thorough] [--replay PATH]   (see DESIGN.md section 2.1)"""
import argparse
import importlib
import json
import os
import shutil
import sys
import time
import traceback

HERE = os.path.dirname(os.path.abspath(__file__))
sys.path.insert(0, HERE)
import core  # noqa: E402
import findings  # noqa: E402
import lean  # noqa: E402

VERIF = core.VERIF


EVDIR = os.environ.get("VERIF_EVIDENCE_DIR") or os.path.join(VERIF, "evidence")


def write_evidence(prop, tier, seed, cov, assumptions, wall, nviol):
    os.makedirs(EVDIR, exist_ok=True)
    ev = {
        "property_id": prop, "tier": tier, "seed": seed, "level": "proof",
        "coverage": cov, "assumptions": assumptions, "wall_s": round(wall, 2), "violations": nviol,
    }
    tmp = os.path.join(EVDIR, ".%s.json.%d" % (prop, os.getpid()))
    with open(tmp, "w") as f:
        json.dump(core.jsonable(ev), f, indent=1, default=core.jdefault)
    os.replace(tmp, os.path.join(EVDIR, prop + ".json"))


def write_replay(prop, seed, n, payload):
    os.makedirs(os.path.join(VERIF, "replays"), exist_ok=True)
    p = os.path.join(VERIF, "replays", "%s-%s-%d.json" % (prop, seed, n))
    with open(p, "w") as f:
        json.dump(core.jsonable(payload), f, indent=1, default=core.jdefault)
    return p


def main():
    ap = argparse.ArgumentParser()
    ap.add_argument("prop")
    ap.add_argument("--tier", default=os.environ.get("VERIF_TIER") or "quick", choices=["quick", "thorough"])
    ap.add_argument("--replay")
    a = ap.parse_args()
    prop = a.prop
    seed = int(os.environ.get("VERIF_SEED") or 0)
    t0 = time.time()
    home = core.setup_sandbox_home()
    driver = None
    ctx = None
    try:
        mod = importlib.import_module("props." + prop.lower())
        import extract
        gen_notes = extract.run(core.REPO)          # source -> Cinco/Generated/*.lean (exit 2 on unknown syntax)

        # ---- proof side -------------------------------------------------------------------------
        broken = []                                  # names of obligations / streams that no longer check
        for u in gen_notes.get("unreadable", []):
            # the source no longer has the shape the translator reads: the model cannot be regenerated from it, so nothing proved about the
            # generated tables is established for this source (the stale tables stay in place for the search that follows)
            broken.append({"kind": "translator", "table": u["table"], "why": u["why"]})
        ok_props, log_props = lean.build(lean.targets_of(prop))
        ok_drv, log_drv = lean.build(["driver"])
        axioms = {}
        if ok_props:
            axioms, audit_log = lean.audit(prop)
        else:
            axioms = {n: None for n in lean.theorems_of(prop)}
            m = [ln for ln in log_props.splitlines() if "error" in ln][:6]
            broken.append({"kind": "build", "target": "Cinco.Props." + prop, "log": m, "theorems": lean.theorems_at(log_props)})
        forb = lean.forbidden_tokens()
        discharged = 0
        for name, ax in axioms.items():
            if ax is not None and set(ax) <= lean.ALLOWED_AXIOMS and not forb:
                discharged += 1
            elif ok_props:
                broken.append({"kind": "axioms", "theorem": name, "axioms": ax})
        if forb:
            broken.append({"kind": "forbidden-token", "hits": forb})
        checker = "lake build Cinco.Props.%s && lake env lean <#print axioms of every theorem in Props/%s.lean>" % (prop, prop)
        if a.tier == "thorough" and ok_props:
            okc, outc = lean.leanchecker(prop)
            checker += " && lake env leanchecker Cinco.Props." + prop
            if not okc:
                broken.append({"kind": "leanchecker", "log": outc[-800:]})
                discharged = 0

        # ---- correspondence + direct oracle ------------------------------------------------------
        if ok_drv:
            driver = lean.Driver()
        else:
            broken.append({"kind": "build", "target": "driver (model no longer compiles against Generated/*)",
                           "log": [ln for ln in log_drv.splitlines() if "error" in ln][:6]})
        ctx = core.Ctx(prop, a.tier, seed, driver)
        if a.replay:
            res = mod.replay(ctx, json.load(open(a.replay)))
        else:
            try:
                res = mod.run(ctx)
            except lean.InfraError:
                raise
            except Exception as e:  # noqa
                # the implementation behaved in a way the adapter cannot even drive (an operation of the stream raised where the unchanged
                # library never does): the correspondence no longer checks; the search below gets its chance, and the trace is the replay
                import traceback
                res = core.Result()
                broken.append({"kind": "correspondence", "stream": "adapter-exception", "error": "%s: %s" % (type(e).__name__, e),
                               "trace": traceback.format_exc().splitlines()[-8:]})
        for d in res.disagreements[:1]:
            broken.append({"kind": "correspondence", "stream": d["stream"]})

        # a proof obligation or the correspondence broke, and the oracle is silent: extended search
        searched = False
        if broken and not res.violations and hasattr(mod, "search") and not a.replay:
            searched = True
            ctx.scale = 8
            try:
                res2 = mod.search(ctx, broken, res)
                res.violations.extend(res2.violations)
                res.evaluations += res2.evaluations
                res.nontrivial |= res2.nontrivial
            except lean.InfraError:
                raise
            except Exception:  # noqa  (the same adapter failure again: reported as found above)
                pass

        if os.environ.get("VERIF_DEBUG"):
            import collections
            print("violation keys:", collections.Counter(str(v["key"]) + " | " + v["what"] for v in res.violations).most_common(40), file=sys.stderr)
            print("disagreement streams:", collections.Counter(d["stream"] for d in res.disagreements).most_common(40), file=sys.stderr)
            with open("/tmp/verif-debug-%s.json" % prop, "w") as fdbg:
                json.dump(core.jsonable({"violations": res.violations[:300], "disagreements": res.disagreements[:300]}), fdbg, indent=1, default=core.jdefault)

        # ---- decide ------------------------------------------------------------------------------
        known = findings.open_for(prop)
        known_keys = {f["key"]: f for f in known}
        seen_known = {}
        new = []
        for v in res.violations:
            if v["key"] is not None and v["key"] in known_keys:
                seen_known.setdefault(v["key"], v)
            else:
                new.append(v)
        for k, v in seen_known.items():
            print("KNOWN-FINDING: property=%s %s [%s] %s" % (prop, known_keys[k]["id"], k, known_keys[k]["witness"]))
        for f in known:
            if f["key"] not in seen_known and getattr(mod, "REPLAYS_FINDINGS", False):
                print("note: known finding %s (%s) did not reproduce on this run (stale entry?)" % (f["id"], f["key"]))
        exit_code = 0
        n = 0
        reported = set()
        for v in new:
            if v["key"] in reported:
                continue
            reported.add(v["key"])
            n += 1
            p = write_replay(prop, seed, n, {"property": prop, "kind": "failing-input", "what": v["what"], "key": v["key"],
                                             "case": v["case"], "seed": seed, "tier": a.tier})
            print("VIOLATION property=%s replay=%s" % (prop, os.path.relpath(p, VERIF)))
            exit_code = 1
            if n >= 5:
                break
        if broken and not new:
            n += 1
            p = write_replay(prop, seed, n, {"property": prop, "kind": "no-longer-checks", "broken": broken,
                                             "first_disagreement": res.disagreements[:3], "searched": searched,
                                             "seed": seed, "tier": a.tier})
            print("VIOLATION property=%s replay=%s no-failing-input-found" % (prop, os.path.relpath(p, VERIF)))
            exit_code = 1

        cov = {
            "obligations": len(axioms), "discharged": discharged, "checker_cmd": checker,
            "trusted_base": getattr(mod, "TRUSTED_BASE", []) + ["Lean 4.33 kernel; axioms allowed: propext, Classical.choice, Quot.sound"],
            "theorems": {k: v for k, v in axioms.items()},
            "evaluations": res.evaluations, "distinct_nontrivial": len(res.nontrivial),
            "rule": getattr(mod, "RULE", ""), "samples": res.samples or [{"note": "no cases"}],
            "traces_validated_against_impl": res.traces, "unmodelled": res.unmodelled,
            "histogram": dict(res.hist), "disagreements": len(res.disagreements),
            "known_findings_reproduced": sorted(seen_known), "generated": gen_notes,
        }
        cov.update(res.extra)
        write_evidence(prop, a.tier, seed, cov, getattr(mod, "ASSUMPTIONS", []), time.time() - t0, len(new) + (1 if broken and not new else 0))
        print("%s %s seed=%d: obligations %d/%d, cases %d (non-trivial %d, compared with model %d, unmodelled %d), "
              "disagreements %d, violations %d, %.1fs" % (prop, a.tier, seed, discharged, len(axioms), res.evaluations,
                                                          len(res.nontrivial), res.traces, res.unmodelled, len(res.disagreements),
                                                          len(new), time.time() - t0))
        return exit_code
    except lean.InfraError as e:
        print("infrastructure failure: %s" % e, file=sys.stderr)
        return 2
    except Exception:
        traceback.print_exc()
        return 2
    finally:
        if driver:
            driver.close()
        if ctx:
            ctx.cleanup()
        shutil.rmtree(home, ignore_errors=True)


if __name__ == "__main__":
    sys.exit(main())
