"""Field declarations (wire <-> real cincoconfig fields), value pools and value encoding shared by the
field- and configuration-level properties."""
import base64
import math
import re
import os

import regex as rx
from protocol import enc_str, dec_str, enc_float, dec_float


# ------------------------------------------------------------------------------------------------ values

def alg_name(fn):
    from cincoconfig import ChallengeField
    for k, v in ChallengeField.ALGORITHMS.items():
        if v is fn:
            return k
    return getattr(fn, "__name__", "?")


def enc_val(v):
    from cincoconfig.fields import DigestValue
    if v is None:
        return {"t": "none"}
    if isinstance(v, bool):
        return {"t": "bool", "v": v}
    if isinstance(v, int):
        return {"t": "int", "v": str(v)}
    if isinstance(v, float):
        return {"t": "flt", "v": enc_float(v)}
    if isinstance(v, str):
        return {"t": "str", "v": enc_str(v)}
    if isinstance(v, bytes):
        return {"t": "bytes", "v": v.hex()}
    if isinstance(v, DigestValue):
        return {"t": "digest", "salt": v.salt.hex(), "digest": v.digest.hex(), "alg": alg_name(v.algorithm)}
    if isinstance(v, list):
        return {"t": "list", "v": [enc_val(x) for x in v]}
    if isinstance(v, tuple):
        return {"t": "tuple", "v": [enc_val(x) for x in v]}
    if isinstance(v, dict):
        return {"t": "dict", "v": [[enc_val(k), enc_val(x)] for k, x in v.items()]}
    return {"t": "opaque", "k": type(v).__name__}


def canon_val(j):
    """hashable canonical form of a wire value (type exact; proxies are lists/dicts)"""
    t = j["t"]
    if t in ("none", "null"):
        return ("none",)
    if t == "bool":
        return ("bool", j["v"])
    if t == "int":
        return ("int", int(j["v"]))
    if t == "flt":
        v = j["v"]
        return ("flt", v if isinstance(v, str) else (int(v[0]), int(v[1])))
    if t == "str":
        return ("str", dec_str(j["v"]))
    if t == "bytes":
        return ("bytes", j["v"])
    if t in ("list", "tuple"):
        return (t, tuple(canon_val(x) for x in j["v"]))
    if t == "dict":
        return ("dict", tuple((canon_val(k) if isinstance(k, dict) else ("str", dec_str(k)), canon_val(x)) for k, x in j["v"]))
    if t == "digest":
        return ("digest", j["salt"], j["digest"], j["alg"])
    return ("opaque", j.get("k"))


def has_opaque(j):
    t = j["t"]
    if t == "opaque":
        return True
    if t in ("list", "tuple"):
        return any(has_opaque(x) for x in j["v"])
    if t == "dict":
        return any((isinstance(k, dict) and has_opaque(k)) or has_opaque(x) for k, x in j["v"])
    return False


def in_alphabet(s):
    for c in s:
        n = ord(c)
        if not (n < 0x80 or n in (0x85, 0xA0, 0x2028, 0x3000) or (0xC0 <= n <= 0xDE and n != 0xD7) or (0xE0 <= n <= 0xFE and n != 0xF7)):
            return False
    return True


def strings_in(v, acc):
    if isinstance(v, str):
        acc.append(v)
    elif isinstance(v, (list, tuple)):
        for x in v:
            strings_in(x, acc)
    elif isinstance(v, dict):
        for k, x in v.items():
            strings_in(k, acc)
            strings_in(x, acc)
    return acc


def err_name(e):
    from cincoconfig.core import ValidationError
    if isinstance(e, ValidationError):
        return "ValidationError"
    if isinstance(e, ValueError):
        return "ValueError"
    if isinstance(e, TypeError):
        return "TypeError"
    if isinstance(e, OverflowError):
        return "OverflowError"
    return type(e).__name__


# ------------------------------------------------------------------------------------------------ validator catalogue

def _reject(cfg, v):
    raise ValueError("rejected")


def _typeerr(cfg, v):
    raise TypeError("boom")


def _nonneg(cfg, v):
    if isinstance(v, bool) or not isinstance(v, (int, float)):
        raise ValueError("not a number")
    if v < 0:
        raise ValueError("negative")
    return v


def _upper(cfg, v):
    return v.upper() if isinstance(v, str) else v


def _short(cfg, v):
    if isinstance(v, (str, list)) and len(v) > 5:
        raise ValueError("too long")
    return v


def _small(cfg, v):
    if isinstance(v, (list, dict)) and len(v) > 2:
        raise ValueError("too many")
    return v


def _clamp0(cfg, v):
    return 0 if isinstance(v, int) and not isinstance(v, bool) and v < 0 else v          # a normalising validator whose result may be falsy


def _blank(cfg, v):
    return "" if isinstance(v, str) and v.startswith("#") else v                          # likewise: a comment becomes the empty string


def _keyerr(cfg, v):
    return {"known": v}["unknown"]            # a validator that fails with something other than ValueError / TypeError


CATALOGUE = {"reject": _reject, "typeerr": _typeerr, "nonneg": _nonneg, "upper": _upper, "short": _short, "small": _small, "keyerr": _keyerr, "clamp0": _clamp0, "blank": _blank}


# ------------------------------------------------------------------------------------------------ declarations

REGEXES = ["^[a-z]+$", "^\\d{2,4}", "[A-Z][a-z]*", "^(ab|cd)+$", "^\\w+@\\w+\\.com$", "^\\s*x", "a.c", "^[^0-9]*$", "^$", "x?y*z+$"]


def str_opts(rng, light=False):
    o = {}
    if rng.random() < 0.35:
        o["min_len"] = rng.choice([0, 1, 2, 3, 4, 8])
    if rng.random() < 0.35:
        o["max_len"] = rng.choice([0, 1, 3, 4, 5, 8, 20])
    if rng.random() < (0.1 if light else 0.25):
        o["regex"] = rng.choice(REGEXES)
    if rng.random() < 0.2:
        o["choices"] = rng.sample(["a", "b", "abc", "ABC", "x y", "", "debug", "info", "xabc", "abcx"], rng.randint(1, 4))
    if rng.random() < 0.4:
        o["case"] = rng.choice(["lower", "upper"])
    if rng.random() < 0.5:
        o["strip"] = rng.choice([True, True, "x", "xX", " ", "ab", "-_"])
    return o


def gen_num(rng, allow_float=True):
    r = rng.random()
    if r < 0.7 or not allow_float:
        return rng.choice([-10, -1, 0, 1, 2, 3, 5, 10, 100, 65535, 2 ** 40, 2 ** 53, -(2 ** 53), 2 ** 64])
    return rng.choice([-1.5, 0.0, 0.5, 1.0, 2.5, 1e10, math.inf, -math.inf])


def gen_field(rng, depth=2, scalar_only=False, hashable=False):
    """a random field declaration (wire form)"""
    kinds = ["string", "string", "int", "int", "float", "bool", "bytes", "port", "ipv4addr", "ipv4net", "hostname", "url", "filename",
             "loglevel", "appmode", "challenge", "secure", "any"]
    if hashable:
        kinds = ["string", "string", "int", "bool", "ipv4addr", "hostname", "loglevel", "bytes"]
    if depth > 0 and not scalar_only and not hashable:
        kinds += ["list", "list", "dict", "list_untyped", "dict_untyped"]
    k = rng.choice(kinds)
    f = {"k": k, "required": rng.random() < 0.25}
    if rng.random() < 0.12 and k in ("string", "int", "float", "list", "dict") and not hashable:
        f["custom"] = rng.choice({"string": ["upper", "short", "reject", "keyerr", "blank", "blank"], "int": ["nonneg", "reject", "typeerr", "keyerr", "clamp0", "clamp0"], "float": ["nonneg"],
                                  "list": ["short", "small"], "dict": ["small", "small", "reject"]}[k])
    if k in ("string", "ipv4addr", "ipv4net", "hostname", "url", "filename"):
        f.update(str_opts(rng, light=k != "string"))
    if k in ("int", "float", "port"):
        if rng.random() < 0.6:
            f["min"] = gen_num(rng, k == "float" or rng.random() < 0.2)
        if rng.random() < 0.6:
            f["max"] = gen_num(rng, k == "float" or rng.random() < 0.2)
    if k == "bytes":
        f["encoding"] = rng.choice(["base64", "hex"])
    if k == "ipv4net":
        if rng.random() < 0.5:
            f["min_prefix"] = rng.choice([0, 1, 8, 16, 24, 32])
        if rng.random() < 0.5:
            f["max_prefix"] = rng.choice([0, 8, 16, 24, 31, 32])
    if k == "hostname":
        f["allow_ipv4"] = rng.random() < 0.6
    if k == "filename":
        f["exists"] = rng.choice([None, None, True, False, "dir", "file"])
        f["startdir"] = rng.choice([None, None, "@TMP", "@TMP/sub", "", "sub"])
    if k == "loglevel":
        if rng.random() < 0.3:
            f["levels"] = ["low", "high"]
    if k == "appmode":
        if rng.random() < 0.3:
            f["modes"] = ["dev", "prod", "test"]
    if k == "challenge":
        f["alg"] = rng.choice(["md5", "sha1", "sha224", "sha256", "sha384", "sha512"])
    if k == "secure":
        f["method"] = rng.choice(["aes", "xor", "best"])
    if k == "list":
        f["item"] = gen_field(rng, depth - 1)
    if k == "dict":
        f["key"] = gen_field(rng, 0, hashable=True) if rng.random() < 0.8 else None
        f["value"] = gen_field(rng, depth - 1) if (rng.random() < 0.8 or f["key"] is None) else None
    return f


def build_field(f, tmp="/nonexistent"):
    """wire declaration -> real cincoconfig field"""
    import cincoconfig as cc
    kw = {"required": f.get("required", False)}
    if f.get("custom"):
        kw["validator"] = CATALOGUE[f["custom"]]
    k = f["k"]
    if "default" in f:
        kw["default"] = f["default"]
    if "env" in f:
        kw["env"] = f["env"]
    if "sensitive" in f:
        kw["sensitive"] = f["sensitive"]
    if "name" in f:
        kw["name"] = f["name"]

    def so():
        o = {}
        for a, b in (("min_len", "min_len"), ("max_len", "max_len"), ("regex", "regex"), ("choices", "choices"), ("case", "transform_case"),
                     ("strip", "transform_strip")):
            if f.get(a) is not None:
                o[b] = f[a]
        return o
    if k == "any":
        return cc.AnyField(**kw)
    if k == "string":
        return cc.StringField(**so(), **kw)
    if k == "loglevel":
        return cc.LogLevelField(levels=f.get("levels"), **kw)
    if k == "appmode":
        return cc.ApplicationModeField(modes=f.get("modes"), create_helpers=f.get("helpers", False), **kw)
    if k in ("int", "float", "port"):
        o = {a: f[a] for a in ("min", "max") if a in f}
        return {"int": cc.IntField, "float": cc.FloatField, "port": cc.PortField}[k](**o, **kw)
    if k == "bool":
        return cc.BoolField(**kw)
    if k == "bytes":
        return cc.BytesField(encoding=f.get("encoding", "base64"), **kw)
    if k == "ipv4addr":
        return cc.IPv4AddressField(**so(), **kw)
    if k == "ipv4net":
        return cc.IPv4NetworkField(min_prefix_len=f.get("min_prefix"), max_prefix_len=f.get("max_prefix"), **so(), **kw)
    if k == "hostname":
        return cc.HostnameField(allow_ipv4=f.get("allow_ipv4", True), **so(), **kw)
    if k == "url":
        return cc.UrlField(**so(), **kw)
    if k == "filename":
        sd = f.get("startdir")
        if isinstance(sd, str):
            sd = sd.replace("@TMP", tmp)
        return cc.FilenameField(exists=f.get("exists"), startdir=sd, **so(), **kw)
    if k == "challenge":
        return cc.ChallengeField(f.get("alg", "sha256"), **kw)
    if k == "secure":
        return cc.SecureField(method=f.get("method", "best"), **{a: b for a, b in kw.items()})
    if k == "list":
        return cc.ListField(build_field(f["item"], tmp), **kw)
    if k == "list_untyped":
        return cc.ListField(**kw)
    if k == "dict":
        return cc.DictField(build_field(f["key"], tmp) if f.get("key") else None, build_field(f["value"], tmp) if f.get("value") else None, **kw)
    if k == "dict_untyped":
        return cc.DictField(**kw)
    raise ValueError(k)


def wire_field(f, tmp="/nonexistent"):
    """declaration -> what the model driver expects (subclass defaults made explicit, regex parsed)"""
    k = f["k"]
    w = {"required": f.get("required", False), "custom": f.get("custom")}

    def so(src):
        for a in ("min_len", "max_len"):
            if src.get(a) is not None:
                w[a] = str(src[a])
        if src.get("regex") is not None:
            w["regex"] = rx.to_ast(src["regex"])
        if src.get("choices"):
            w["choices"] = [enc_str(c) for c in src["choices"]]
        if src.get("case"):
            w["case"] = src["case"]
        st = src.get("strip")
        if st is True:
            w["strip"] = True
        elif isinstance(st, str) and st:
            w["strip"] = enc_str(st)
    def num(x):
        return {"t": "flt", "v": enc_float(x)} if isinstance(x, float) else {"t": "int", "v": str(x)}
    if k == "any":
        w["k"] = "any"
    elif k == "string":
        w["k"] = "string"
        so(f)
    elif k == "loglevel":
        w["k"] = "string"
        so({"case": "lower", "strip": True, "choices": f.get("levels") or ["debug", "info", "warning", "error", "critical"]})
    elif k == "appmode":
        w["k"] = "string"
        so({"case": "lower", "strip": True, "choices": f.get("modes") or ["development", "production"]})
    elif k in ("int", "float"):
        w["k"] = k
        for a in ("min", "max"):
            if f.get(a) is not None:
                w[a] = num(f[a])
    elif k == "port":
        w["k"] = "int"
        w["min"] = num(f.get("min", 1))
        w["max"] = num(f.get("max", 65535))
    elif k == "bool":
        w["k"] = "bool"
    elif k == "bytes":
        w["k"] = "bytes"
        w["encoding"] = f.get("encoding", "base64")
    elif k in ("ipv4addr", "url"):
        w["k"] = k
        so(f)
    elif k == "ipv4net":
        w["k"] = k
        so(f)
        # the unrepaired code tests the bounds by truthiness: 0 means "no bound" there
        for a in ("min_prefix", "max_prefix"):
            if f.get(a) is not None:
                w[a] = str(f[a])
    elif k == "hostname":
        w["k"] = k
        so(f)
        w["allow_ipv4"] = f.get("allow_ipv4", True)
    elif k == "filename":
        w["k"] = k
        so(f)
        w["exists"] = f.get("exists")
        sd = f.get("startdir")
        if isinstance(sd, str):
            w["startdir"] = enc_str(sd.replace("@TMP", tmp))
    elif k == "challenge":
        w["k"] = k
        w["alg"] = f.get("alg", "sha256")
    elif k == "secure":
        w["k"] = k
        w["method"] = f.get("method", "best")
    elif k == "list":
        w["k"] = "list"
        w["item"] = wire_field(f["item"], tmp)
    elif k == "list_untyped":
        w["k"] = "list"
    elif k == "dict":
        w["k"] = "dict"
        if f.get("key"):
            w["key"] = wire_field(f["key"], tmp)
        if f.get("value"):
            w["value"] = wire_field(f["value"], tmp)
    elif k == "dict_untyped":
        w["k"] = "dict"
    else:
        raise ValueError(k)
    return w


def uses_case_or_regex(f):
    k = f["k"]
    if k in ("loglevel", "appmode"):
        return True
    if f.get("case") or f.get("regex") or k == "hostname" or f.get("custom") == "upper":
        return True
    for sub in ("item", "key", "value"):
        if isinstance(f.get(sub), dict) and uses_case_or_regex(f[sub]):
            return True
    return False


def has_kind(f, kinds):
    if f["k"] in kinds:
        return True
    return any(isinstance(f.get(s), dict) and has_kind(f[s], kinds) for s in ("item", "key", "value"))


# ------------------------------------------------------------------------------------------------ value pools

WRONG = [None, True, False, 0, 1, -1, 7, 2 ** 70, 1.5, 0.0, -0.0, math.nan, math.inf, -math.inf, "", "abc", b"", b"\x00\xff", [], [1], (), (1, 2),
         {}, {"a": 1}, {1, 2}, bytearray(b"x"), object()]

STR_POOL = ["", "a", "abc", "ABC", "Abc", "  abc  ", "xabcx", "Xabc", "xXabcXx", "x", "X", "xx", " ", "\t\n", "a b", "ab", "abcd", "abcde", "abcdefghi",
            "éa", "É", " abc ", "\x85abc", "12", "1234", "12345", "foo@bar.com", "-_a_-", "debug", " INFO ", "Warning", "low", "HIGH ",
            "development", "Production ", "dev", "abab", "abcdab", "xyz", "yyzz", "z", "info\n", "a\nc", "a\n", "ß", "İ", "ǅ", "ﬁ",
            "xax", "XaX", "xAAx", "xXaXx", "abxab", "-a-", "_ab_", "straße", "ßß", "ßßß", "aßa", "ﬁﬁ", "groß",
            "a\x85b", "tail\x85z", "a\n\nb", "a\n \nb", "see // docs", "x //", "#note", "#", "\u2028a", "a\u2029b"]
INT_POOL = [0, 1, -1, 2, 3, 5, 10, 11, 99, 100, 101, 65535, 65536, 2 ** 40, 2 ** 53, -10, -11, "0", "5", " 7 ", "+3", "-4", "1_000", "1__0", "_1", "007",
            "0x10", "1e3", "1.0", "abc", "", " ", "٣", "1٣", "１２", 1.0, 1.5, -1.5, 2.999, -0.0, 1e10, 1e300, 2.0 ** 60, "10", "100", "65535", "65536",
            # integer text beyond 53 significant bits: exact, never through a float
            2 ** 53 + 1, "9007199254740993", "-9007199254740993", "1234567890123456789", " 18446744073709551617 ", "9007199254740992"]
FLOAT_POOL = [0, 1, -1, 10, 2 ** 53, 0.0, -0.0, 0.5, 1.5, -1.5, 2.5, 1e10, 1e300, 5e-324, math.inf, -math.inf, math.nan, "0.5", "1", " 2.5 ", "1e3", "inf",
              "-inf", "nan", "NaN", "Infinity", "1_0.5", ".5", "5.", "+1.5", "abc", "", "1,5", "0x1p3", "1e400", "٣", "2.50", "0.1", "0.25"]
BOOL_POOL = ["t", "T", "true", "TRUE", "True", "1", "on", "On", "yes", "YES", "y", "f", "false", "FALSE", "0", "off", "no", "N", "n", "maybe", "", " true", "2",
             "tRuE", "yEs", "İ", "ON "]
ADDR_POOL = ["0.0.0.0", "1.2.3.4", "255.255.255.255", "192.168.1.1", "10.0.0.1", "256.1.1.1", "1.2.3", "1.2.3.4.5", "01.2.3.4", "1.2.3.04", "1.2.3.4 ", " 1.2.3.4",
             "1..3.4", "a.b.c.d", "1.2.3.4/24", "1234.1.1.1", "1.2.3.-4", "٣.1.1.1", "", "1.2.3.4\n", "127.1", "0.0.0.00", "255.255.255.0", "0.0.0.255",
             # IPv6 literals are not IPv4 addresses
             "::1", "fe80::1", "::ffff:10.0.0.1", "2001:db8::8a2e:370:7334", "::", "0:0:0:0:0:0:0:1", "[::1]", "1.2.3.4%eth0"]
NET_POOL = ["10.0.0.0/8", "192.168.1.0/24", "192.168.1.1/24", "0.0.0.0/0", "1.2.3.4/32", "1.2.3.4", "10.0.0.0/255.0.0.0", "10.0.0.0/0.255.255.255",
            "192.168.1.0/255.255.255.0", "192.168.0.0/0.0.255.255", "10.0.0.0/08", "10.0.0.0/008", "10.0.0.0/33", "10.0.0.0/-1", "10.0.0.0/", "10.0.0.0/8/8",
            "10.0.0.0/255.0.255.0", "10.0.0.0/a", "/8", "", "10.0.0.0 /8", " 10.0.0.0/8 ", "128.0.0.0/1", "10.0.0.0/16", "172.16.0.0/12", "1.1.1.1/31", "1.1.1.0/31",
            "0.0.0.0/0.0.0.0", "0.0.0.0/255.255.255.255", "1.2.3.4/255.255.255.255", "10.0.0.0/٨"]
HOST_POOL = ["localhost", "example.com", "a", "ab", "a-b.c", "-ab", "ab-", "a_b", "MYPC", "my pc", "host!", "toolongnetbiosname1", "under_score_host", "1.2.3.4",
             "256.1.1.1", "a.b", "é", "éé", "host\n", "example.com\n", "1.2.3.4\n", "a\n", "", "x" * 16, "x" * 15, "a..b", "A1", "~tilde", "{brace}", "a/b", "a:b",
             "::1", "fe80::1", "::ffff:10.0.0.1", "2001:db8::1", "example.com.", "beta.", "4.4.4.4.", "a.", "ab.", "1.2.3.4..", "host.."]
URL_POOL = ["http://example.com", "https://a.b/c?d=e#f", "ftp://x", "mailto:a@b", "example.com", "//example.com/x", "http:", ":80", "1http://x", "a+b.c-d://x", "", "x",
            "HTTP://EXAMPLE.COM", " http://x", "http://x ", "\thttp://x", "ht tp://x", "http://[::1]/", "http://[::1/", "http://]x[/", "http://a]b/", "file:///etc/passwd",
            "a:b", "a1:b", "é://x", "http://é.com", "x:", "javascript:alert(1)", "ht\ntp://x", "http://exa\tmple.com"]
FILE_POOL = ["", "f.txt", "g.txt", "sub", "sub/g.txt", "missing", "@TMP/f.txt", "@TMP/sub", "@TMP/missing", "./f.txt", "sub/../f.txt", "~", "~/x", "/", "/etc", "/etc/passwd", "f.txt ",
             " f.txt", "a//b", "..", "."]
BYTES_POOL = ["", "abc", "é", "𝄞", b"", b"abc", b"\x00\xff\x10", b"0123456789abcdef0", "A" * 50,
              # base64 text that needs the characters 62 and 63 ('+' and '/'), with and without padding
              b"~~~", b"???", b"\xfb\xff", b"a>b?c~", b"\xff\xfe\xfd\xfc\xfb\xfa", "~?~?"]
SECRET_POOL = ["", "s3cr3t", "pässwörd", " x ", "a" * 40, "user:pass", " padded ", "tab\tend\t",
               "x\u00b2", "\ufb01x", "\u212b", "e\u0301", "\uff21\uff22"]          # not in NFC / NFKC form: a secret is its exact code points


def scalar_pool(f):
    k = f["k"]
    return {"string": STR_POOL, "loglevel": STR_POOL, "appmode": STR_POOL, "int": INT_POOL, "port": INT_POOL, "float": FLOAT_POOL, "bool": BOOL_POOL + [0, 1, 2, 0.0, 1.5, math.nan],
            "ipv4addr": ADDR_POOL, "ipv4net": NET_POOL, "hostname": HOST_POOL, "url": URL_POOL, "filename": FILE_POOL, "bytes": BYTES_POOL,
            "challenge": SECRET_POOL + [b"raw", b""], "secure": SECRET_POOL, "any": WRONG + STR_POOL[:5]}.get(k)


def crafted_values(f):
    """boundary values derived from the declaration itself: exactly at / just beyond each bound, and for strings values whose
    length changes under the declared transformations (strip characters in the other case, letters whose case mapping is longer)"""
    k = f.get("k")
    out = []
    if k in ("int", "port", "float"):
        for b in (f.get("min"), f.get("max")):
            if isinstance(b, (int, float)) and b == b and abs(b) != float("inf"):
                out += [b, b - 1, b + 1, str(b)]
                if isinstance(b, int):
                    out += [str(b - 1), str(b + 1)]
                if k in ("int", "port") and abs(b) < 2 ** 50:
                    out += [b + 0.5, b - 0.5, float(b), b + 0.999, b - 0.001]       # floats whose truncation lies on the other side of the bound
                if k == "float":
                    out += [b - 0.5, b + 0.5]
        out += [0, -0.0] if (f.get("min") == 0 or f.get("max") == 0) else []
    if k == "string":
        strip = f.get("strip")
        chars = strip if isinstance(strip, str) else (" " if strip else "")
        for n in (f.get("min_len"), f.get("max_len")):
            if isinstance(n, int):
                for m in {max(n - 1, 0), n, n + 1}:
                    out.append("a" * m)
                    out.append("ß" * m)                       # upper() doubles the length
                    if chars:
                        c = chars[0]
                        out.append(c + "a" * m + c)
                        out.append(c.swapcase() + "a" * max(m - 2, 0) + c.swapcase())
                        out.append(c.swapcase() + "A" * max(m - 2, 0) + c.swapcase())
        for ch in f.get("choices") or []:
            out += [ch, ch.upper(), " " + ch + " ", ch.swapcase()]
    if k == "hostname":
        for n in (f.get("min_len"), f.get("max_len")):
            if isinstance(n, int):
                for m in {max(n - 1, 1), n, n + 1}:
                    out += ["a" * m, "a" * max(m - 1, 1) + ".", "a" * m + ".", "a." + "b" * max(m - 2, 1), "a" * max(m - 2, 1) + ".b."]   # names at the bound, with and without the root label
        if f.get("allow_ipv4", True) is False:
            out += ["4.4.4.4", "4.4.4.4.", "10.0.0.1.", "1.2.3.4"]
    if k in ("url", "hostname", "ipv4addr", "ipv4net") and not any(f.get(o) not in (None, [], "", False) for o in _STR_OPTS):
        out += [x for x in scalar_pool(f) if isinstance(x, str)]           # syntax: every spelling of the pool, on every route
    if k == "ipv4net":
        for n in (f.get("min_prefix"), f.get("max_prefix")):
            if isinstance(n, int):
                for m in {max(n - 1, 0), n, min(n + 1, 32)}:
                    out += ["0.0.0.0/%d" % m, "128.0.0.0/%d" % m if m >= 1 else "0.0.0.0/0", "255.255.255.255/%d" % m if m == 32 else "10.0.0.0/%d" % max(m, 8)]
    return out


_PLAIN_INT = re.compile(r"\A[ \t]*[+-]?[0-9]+[ \t]*\Z")
_PY_INT_TEXT = re.compile(r"\A\s*[+-]?\d+(_\d+)*\s*\Z")          # what int(text) reads in base ten: digits (any script), single underscores between digits
REJECTED = object()


def independent_normal(f, v):
    """the normal form of v for field f where the declaration alone fixes it, computed without the library: (True, want) or (False, None).
    Only the unambiguous cases: a whole number (or plain ASCII decimal text of one) given to an integer field is that exact integer,
    a finite float its truncation — then tested against the declared bounds."""
    if f.get("k") in ("int", "port") and not f.get("custom"):
        if type(v) is int:
            return True, v
        if isinstance(v, str) and _PLAIN_INT.match(v):
            return True, int(v)
        if isinstance(v, str) and not _PY_INT_TEXT.match(v):
            return True, REJECTED                 # text that is not a whole number in base ten (a prefix literal, a float, words) is not an integer
        if type(v) is float and v == v and abs(v) != math.inf:
            return True, int(v)                   # the whole number a finite float is truncated to: int(value)
    return False, None


def gen_value(rng, f, tmp="/nonexistent", p_wrong=0.15):
    """a candidate value for the field: mostly from its own pool (valid, boundary, normalisable, invalid), sometimes wrongly typed"""
    k = f["k"]
    if rng.random() < p_wrong:
        return rng.choice(WRONG)
    if k in ("list", "list_untyped"):
        item = f.get("item") or {"k": "any"}
        n = rng.choice([0, 0, 1, 2, 3])
        xs = [gen_value(rng, item, tmp, 0.08) for _ in range(n)]
        return tuple(xs) if rng.random() < 0.2 else xs
    if k in ("dict", "dict_untyped"):
        kf = f.get("key") or {"k": "string"}
        vf = f.get("value") or {"k": "any"}
        d = {}
        for _ in range(rng.choice([0, 0, 1, 2, 3])):
            key = gen_value(rng, kf, tmp, 0.05)
            try:
                hash(key)
            except TypeError:
                continue
            if isinstance(key, float) and key != key:
                continue
            if any(key == k2 and type(key) is not type(k2) for k2 in d):
                continue                      # 1 / True / 1.0 are one key to Python; keep the model's key equality exact
            d[key] = gen_value(rng, vf, tmp, 0.08)
        return d
    crafted = crafted_values(f)
    if crafted and rng.random() < 0.25:
        return rng.choice(crafted)
    v = rng.choice(scalar_pool(f))
    if isinstance(v, str) and not in_alphabet(v) and rng.random() < 0.85:
        v = rng.choice([x for x in scalar_pool(f) if not isinstance(x, str) or in_alphabet(x)])
    if isinstance(v, str) and "@TMP" in v:
        v = v.replace("@TMP", tmp)
    if k == "challenge" and rng.random() < 0.2:
        from cincoconfig.fields import DigestValue
        import hashlib
        return DigestValue(b"s" * 8, b"d" * 8, hashlib.md5)
    return v


# ------------------------------------------------------------------------------------------------ environment tables

def env_tables(f, values, tmp, salts=None, key=None, iv=None):
    """values CPython's standard library computes for the strings at hand, handed to the model as tables"""
    from urllib.parse import urlparse
    strs = []
    for v in values:
        strings_in(v, strs)
    strs = list(dict.fromkeys(strs))
    env = {"parse_float": [], "fs": [], "isabs": [], "resolve": [], "url_ok": [], "salts": [[a, s.hex()] for a, s in (salts or {}).items()]}
    startdirs = set()

    def collect(ff):
        if ff["k"] == "filename" and isinstance(ff.get("startdir"), str):
            startdirs.add(ff["startdir"].replace("@TMP", tmp))
        for s in ("item", "key", "value"):
            if isinstance(ff.get(s), dict):
                collect(ff[s])
    collect(f)
    need_float = has_kind(f, ("float",))
    need_file = has_kind(f, ("filename",))
    need_url = has_kind(f, ("url",))
    cands = set(strs)
    if need_file or need_url:
        # the validators see the *transformed* text: include every strip/case variant the options can produce
        for s in strs:
            for t in (s.strip(), s.lower(), s.upper(), s.strip().lower(), s.strip().upper(), s.strip("x"), s.strip("xX"), s.strip(" "), s.strip("ab"), s.strip("-_"),
                      s.strip("x").lower().strip("x"), s.strip("x").upper().strip("x"), s.strip("xX").lower().strip("xX"), s.strip("xX").upper().strip("xX"),
                      s.strip("ab").upper().strip("ab"), s.strip("ab").lower().strip("ab"), s.strip("-_").upper().strip("-_"), s.strip("-_").lower().strip("-_"),
                      s.strip(" ").lower().strip(" "), s.strip(" ").upper().strip(" ")):
                cands.add(t)
    for s in sorted(cands):
        if need_float:
            try:
                env["parse_float"].append([enc_str(s), enc_float(float(s))])
            except ValueError:
                env["parse_float"].append([enc_str(s), None])
        if need_url:
            try:
                ok = bool(urlparse(s).scheme)
            except Exception:  # noqa
                ok = False
            env["url_ok"].append([enc_str(s), ok])
        if need_file:
            paths = {s}
            env["isabs"].append([enc_str(s), os.path.isabs(s)])
            for sd in startdirs:
                if sd:
                    r = os.path.abspath(os.path.expanduser(os.path.join(sd, s)))
                    env["resolve"].append([enc_str(sd), enc_str(s), enc_str(r)])
                    paths.add(r)
            for p in paths:
                kind = "dir" if os.path.isdir(p) else ("file" if os.path.isfile(p) else ("file" if os.path.exists(p) else "absent"))
                env["fs"].append([enc_str(p), kind])
    if key is not None:
        env["key"] = key.hex()
    if iv is not None:
        env["iv"] = iv.hex()
    return env


_STR_OPTS = ("min_len", "max_len", "regex", "choices", "strip", "case")


def nonidempotent_container(f):
    """a typed list / dict whose item field is one of the recorded non-idempotent ones (findings F22, F25).  The real
    proxies validate an item once and recognise their own kind afterwards; the model validates decoded items again on
    assignment, which is the same thing exactly when item validation is idempotent (theorem C05.validate_idem)."""
    if f.get("k") not in ("list", "dict"):
        return False

    def bad(x):
        if not isinstance(x, dict):
            return False
        if x.get("k") == "ipv4net" and any(x.get(o) not in (None, [], "") for o in _STR_OPTS):
            return True
        if x.get("k") == "filename" and x.get("startdir") and any(x.get(o) not in (None, [], "") for o in _STR_OPTS):
            return True
        return any(bad(x.get(s)) for s in ("item", "key", "value"))
    return any(bad(f.get(s)) for s in ("item", "key", "value"))


def modelled(f, values):
    """is (field, values) inside the model's declared domain?"""
    if nonidempotent_container(f):
        return False
    if f.get("k") == "list" and isinstance(f.get("item"), dict) and f["item"].get("k") == "any" and (f["item"].get("required") or f["item"].get("custom")):
        # ListField.__setdefault__ wraps a list default in a proxy whenever an item field is given, so an AnyField item's own
        # required / custom check runs on default items; the model treats AnyField items as untyped throughout
        return False
    strs = []
    for v in values:
        strings_in(v, strs)
    if any("\ud800" <= c <= "\udfff" for s in strs for c in s):
        return False
    if uses_case_or_regex(f) and not all(in_alphabet(s) for s in strs):
        return False
    if has_kind(f, ("int", "port")) and not all(s.isascii() for s in strs):
        return False
    if has_kind(f, ("float",)):
        def big(v):
            if isinstance(v, bool):
                return False
            if isinstance(v, int) and abs(v) > 2 ** 53:
                return True
            if isinstance(v, (list, tuple)):
                return any(big(x) for x in v)
            if isinstance(v, dict):
                return any(big(x) or big(k) for k, x in v.items())
            return False
        if any(big(v) for v in values):
            return False
    return True


def satisfies(f, v):
    """A declarative reading of a field's *declared constraints* on a stored value, written without looking at the library's
    validators: True / False, or None where this harness makes no independent statement (AnyField, custom validators, kinds whose
    constraint is a parser of the standard library, NaN).  Soundness oracle: what a field accepted has to satisfy what it declares."""
    import re
    k = f.get("k")
    if f.get("custom"):
        return None
    if v is None:
        return not f.get("required")
    if k in ("int", "port", "float"):
        if isinstance(v, bool) or not isinstance(v, (int, float)):
            return False
        if k in ("int", "port") and not isinstance(v, int):
            return False
        if k == "float" and not isinstance(v, float):
            return False
        if v != v:
            return None
        lo = f.get("min", 1 if k == "port" else None)
        hi = f.get("max", 65535 if k == "port" else None)
        if lo is not None and v < lo:
            return False
        if hi is not None and v > hi:
            return False
        return True
    if k == "bool":
        return isinstance(v, bool)
    if k == "string":
        if not isinstance(v, str):
            return False
        if f.get("min_len") is not None and len(v) < f["min_len"]:
            return False
        if f.get("max_len") is not None and len(v) > f["max_len"]:
            return False
        if f.get("choices") and v not in f["choices"]:
            return False
        if f.get("regex") and not re.match(f["regex"], v):
            return False
        if f.get("case") == "lower" and v != v.lower():
            return False
        if f.get("case") == "upper" and v != v.upper():
            return False
        if f.get("required") and v == "":
            return False
        return True
    if k == "ipv4net":
        if not isinstance(v, str) or "/" not in v:
            return False
        try:
            n = int(v.rsplit("/", 1)[1])
        except ValueError:
            return False
        if f.get("min_prefix") is not None and n < f["min_prefix"]:
            return False
        if f.get("max_prefix") is not None and n > f["max_prefix"]:
            return False
        return None if any(f.get(o) not in (None, [], "") for o in _STR_OPTS) else True
    if k == "url":
        # "a valid URL that contains a valid scheme": once what urllib discards is discarded (tabs and line breaks anywhere, control
        # characters and blanks in front), the text begins with ALPHA *( ALPHA / DIGIT / "+" / "-" / "." ) ":"  (RFC 3986, 3.1)
        if not isinstance(v, str):
            return False
        t = v.replace("\t", "").replace("\r", "").replace("\n", "").lstrip("".join(chr(c) for c in range(0x21)))
        if re.match(r"[A-Za-z][A-Za-z0-9+.\-]*:", t) is None:
            return False
        return None
    if k in ("hostname", "ipv4addr"):
        # whatever else such a name has to be, it is text without line breaks, control characters or blanks at its ends
        # (URLs are left to urllib: it drops tabs and line breaks while parsing, which is its documented behaviour)
        if not isinstance(v, str):
            return False
        if any(ch in v for ch in "\n\r\x0b\x0c\x1c\x1d\x1e\x85\u2028\u2029") or v != v.strip():
            return False
        if k == "ipv4addr" and not any(f.get(o) not in (None, [], "", False) for o in _STR_OPTS):
            # an IPv4 address in its canonical text: four decimal numbers 0..255 without leading zeros, separated by dots
            parts = v.split(".")
            if len(parts) != 4 or not all(p.isascii() and p.isdigit() and (p == "0" or not p.startswith("0")) and int(p) <= 255 for p in parts):
                return False
            return True
        if ":" in v:
            return False                         # neither a host name nor an IPv4 address has a colon (an IPv6 literal does)
        if k == "hostname":
            # the declared length bounds are about the text the field holds; a field that says allow_ipv4=False holds no IPv4 literal
            if f.get("min_len") is not None and len(v) < f["min_len"]:
                return False
            if f.get("max_len") is not None and len(v) > f["max_len"]:
                return False
            if len(v) > 15 and re.fullmatch(r"[A-Za-z0-9][A-Za-z0-9.\-]+", v, re.ASCII) is None:
                # longer than a NetBIOS name (15 characters): a DNS name — ASCII letters, digits, hyphens and dots, nothing else
                # (K, ſ, ı, İ fold into ASCII letters under Unicode case-insensitive matching; they are not host name characters)
                return False
            parts = v.split(".")
            if f.get("allow_ipv4", True) is False and len(parts) == 4 and all(p.isascii() and p.isdigit() and (p == "0" or not p.startswith("0")) and int(p) <= 255 for p in parts):
                return False
        return None
    if k == "bytes":
        return isinstance(v, bytes)
    if k == "filename":
        if not isinstance(v, str):
            return False
        if v == "" or any(f.get(o) not in (None, [], "") for o in _STR_OPTS):
            return None
        import os as _os
        ex = f.get("exists")
        if ex is True and not _os.path.exists(v):
            return False
        if ex is False and _os.path.exists(v):
            return False
        if ex == "dir" and not _os.path.isdir(v):
            return False
        if ex == "file" and not _os.path.isfile(v):
            return False
        if f.get("startdir") and not _os.path.isabs(v):
            return False                   # with a start directory the stored name is the absolute path
        return True
    if k == "list" and isinstance(f.get("item"), dict):
        if f["item"].get("k") == "any":
            return None                # handled like an untyped list: the value is kept as it is (a tuple stays a tuple)
        if not isinstance(v, list):
            return False
        if f.get("required") and not v:
            return False
        rs = [satisfies(f["item"], x) for x in v]
        return False if False in rs else (None if None in rs else True)
    if k == "dict" and (isinstance(f.get("key"), dict) or isinstance(f.get("value"), dict)):
        if not isinstance(v, dict):
            return False
        if f.get("required") and not v:
            return False
        rs = []
        for a, b in v.items():
            rs.append(satisfies(f["key"], a) if isinstance(f.get("key"), dict) else None)
            rs.append(satisfies(f["value"], b) if isinstance(f.get("value"), dict) else None)
        return False if False in rs else (None if None in rs else True)
    return None
