"""Build, audit and drive the Lean side."""
import fcntl
import json
import os
import re
import subprocess
import threading
import time

HERE = os.path.dirname(os.path.abspath(__file__))
VERIF = os.path.dirname(HERE)
LEANDIR = os.path.join(VERIF, "lean", "Cinco")
ALLOWED_AXIOMS = {"propext", "Classical.choice", "Quot.sound"}
FORBIDDEN = re.compile(r"\bsorry\b|\badmit\b|^axiom\s|\bnative_decide\b|\bbv_decide\b|implemented_by|\bunsafe\s|maxHeartbeats\s+0\b", re.M)


class InfraError(Exception):
    """tooling failure (exit 2, never a violation)"""


def _lock():
    os.makedirs(os.path.join(LEANDIR, ".lake"), exist_ok=True)
    f = open(os.path.join(LEANDIR, ".lake", "verif.lock"), "w")
    fcntl.flock(f, fcntl.LOCK_EX)
    return f


def run(cmd, timeout, cwd=LEANDIR):
    try:
        p = subprocess.run(cmd, cwd=cwd, stdout=subprocess.PIPE, stderr=subprocess.STDOUT, timeout=timeout, text=True)
    except subprocess.TimeoutExpired as e:
        raise InfraError("timeout: %s" % " ".join(cmd)) from e
    except FileNotFoundError as e:
        raise InfraError("tool missing: %s" % cmd[0]) from e
    return p.returncode, p.stdout


def build(targets, timeout=3000):
    """lake build under the workspace lock; returns (ok, log)"""
    lk = _lock()
    try:
        rc, out = run(["lake", "build"] + list(targets), timeout)
    finally:
        lk.close()
    return rc == 0, out


def strip_comments(src):
    src = re.sub(r"/-.*?-/", " ", src, flags=re.S)
    src = re.sub(r"--[^\n]*", " ", src)
    return src


def forbidden_tokens():
    hits = []
    for root, _, files in os.walk(LEANDIR):
        if ".lake" in root:
            continue
        for fn in files:
            if fn.endswith(".lean"):
                p = os.path.join(root, fn)
                src = strip_comments(open(p, encoding="utf-8").read())
                for m in FORBIDDEN.finditer(src):
                    hits.append("%s: %s" % (os.path.relpath(p, LEANDIR), m.group(0).strip()))
    return hits


def modules_of(prop):
    """the property file and, when present, its continuations `Props/<prop>b.lean`, `…c.lean`, … (theorems that need lemma files which themselves
    build on the property file, so cannot be imported by it)"""
    mods = [prop]
    for suffix in "bcdef":
        if os.path.exists(os.path.join(LEANDIR, "Cinco", "Props", prop + suffix + ".lean")):
            mods.append(prop + suffix)
    return mods


def targets_of(prop):
    return ["Cinco.Props." + m for m in modules_of(prop)]


def theorems_of(prop):
    out = []
    for mod in modules_of(prop):
        p = os.path.join(LEANDIR, "Cinco", "Props", mod + ".lean")
        src = strip_comments(open(p, encoding="utf-8").read())
        stack = []                                   # nested namespaces (sections do not qualify names)
        for line in src.splitlines():
            m = re.match(r"^\s*namespace\s+(\S+)", line)
            if m:
                stack.append(m.group(1))
                continue
            m = re.match(r"^\s*end\s+(\S+)", line)
            if m and stack and stack[-1] == m.group(1):
                stack.pop()
                continue
            m = re.match(r"^\s*(?:@\[[^\]]*\]\s*)?(?:protected\s+|private\s+)?theorem\s+([^\s:({\[]+)", line)
            if m:
                out.append(".".join(stack + [m.group(1)]))
    return out


def theorems_at(build_log):
    """the theorems (or definitions) that enclose the positions a build log reports errors at: `Cinco/…/X.lean:LINE:COL: error` ->
    the nearest `theorem` / `def` / `example` heading above LINE in that file"""
    out = []
    for m in re.finditer(r"(Cinco/[\w/]+\.lean):(\d+):\d+:", "\n".join(ln for ln in build_log.splitlines() if "error" in ln)):
        path, line = os.path.join(LEANDIR, m.group(1)), int(m.group(2))
        try:
            src = open(path, encoding="utf-8").read().splitlines()
        except OSError:
            continue
        name = None
        for ln in reversed(src[:line]):
            h = re.match(r"^\s*(?:@\[[^\]]*\]\s*)?(?:protected\s+|private\s+)?(theorem|def|example|instance|lemma)\s*([^\s:({\[]*)", ln)
            if h:
                name = (h.group(2) or "<%s>" % h.group(1))
                break
        entry = "%s:%d %s" % (m.group(1), line, name or "?")
        if entry not in out:
            out.append(entry)
    return out[:8]


def audit(prop, timeout=600):
    """#print axioms for every theorem of Props/<prop>.lean (and its continuation) -> {name: [axioms]} (None = did not check)"""
    names = theorems_of(prop)
    adir = os.path.join(LEANDIR, ".lake", "audit")
    os.makedirs(adir, exist_ok=True)
    path = os.path.join(adir, "Audit_%s_%d.lean" % (prop, os.getpid()))
    with open(path, "w") as f:
        for mod in modules_of(prop):
            f.write("import Cinco.Props.%s\n" % mod)
        for n in names:
            f.write("#print axioms %s\n" % n)
    try:
        rc, out = run(["lake", "env", "lean", path], timeout)
    finally:
        try:
            os.unlink(path)
        except OSError:
            pass
    res = {n: None for n in names}
    for m in re.finditer(r"'([^']+)' depends on axioms: \[([^\]]*)\]", out, re.S):
        res[m.group(1)] = [a.strip() for a in m.group(2).split(",") if a.strip()]
    for m in re.finditer(r"'([^']+)' does not depend on any axioms", out):
        res[m.group(1)] = []
    return res, out


def leanchecker(prop, timeout=3000):
    rc, out = run(["lake", "env", "leanchecker"] + targets_of(prop), timeout)
    return rc == 0, out


class Driver:
    """the compiled model driver (falls back to `lean --run`)"""

    def __init__(self):
        exe = os.path.join(LEANDIR, ".lake", "build", "bin", "driver")
        if os.path.exists(exe):
            cmd = [exe]
        else:
            cmd = ["lake", "env", "lean", "--run", "Driver.lean"]
        self.p = subprocess.Popen(cmd, cwd=LEANDIR, stdin=subprocess.PIPE, stdout=subprocess.PIPE, text=True, bufsize=1)
        self.n = 0

    def ask(self, obj):
        return self.batch([obj])[0]

    def batch(self, objs):
        if not objs:
            return []
        lines = [json.dumps(o, separators=(",", ":")) + "\n" for o in objs]

        def w():
            try:
                for ln in lines:
                    self.p.stdin.write(ln)
                self.p.stdin.flush()
            except (BrokenPipeError, ValueError):
                pass

        t = threading.Thread(target=w, daemon=True)
        t.start()
        out = []
        for _ in lines:
            ln = self.p.stdout.readline()
            if not ln:
                raise InfraError("model driver died (after %d replies)" % self.n)
            self.n += 1
            out.append(json.loads(ln))
        t.join()
        return out

    def close(self):
        try:
            self.p.stdin.close()
            self.p.wait(timeout=10)
        except Exception:
            self.p.kill()
