"""Shared context / result types for the property modules."""
import collections
import json
import os
import random
import shutil
import sys
import tempfile

HERE = os.path.dirname(os.path.abspath(__file__))
VERIF = os.path.dirname(HERE)
REPO = os.environ.get("VERIF_REPO", "/repo")


class Result:
    def __init__(self):
        self.evaluations = 0
        self.nontrivial = set()
        self.samples = []
        self.hist = collections.Counter()
        self.disagreements = []   # model and implementation differ (not by itself a violation)
        self.violations = []      # the implementation breaks the property on a concrete input
        self.unmodelled = 0
        self.traces = 0           # cases on which model and implementation were compared
        self.extra = {}

    def case(self, nontrivial_key=None, sample=None, kind=None):
        self.evaluations += 1
        if nontrivial_key is not None:
            self.nontrivial.add(nontrivial_key if isinstance(nontrivial_key, (str, int, tuple)) else json.dumps(nontrivial_key, sort_keys=True, default=str))
        if kind is not None:
            self.hist[kind] += 1
        if sample is not None and len(self.samples) < 4:
            self.samples.append(sample)

    def disagree(self, stream, case, impl=None, model=None):
        self.disagreements.append({"stream": stream, "case": case, "impl": impl, "model": model})

    def violate(self, key, what, case):
        """key identifies the failing input class for known-finding matching (None = never a known finding)"""
        self.violations.append({"key": key, "what": what, "case": case})


class Ctx:
    def __init__(self, prop, tier, seed, driver):
        self.prop = prop
        self.tier = tier
        self.seed = seed
        self.driver = driver
        self.rng = random.Random("%s/%s" % (prop, seed))
        self.repo = REPO
        self.scale = 1
        self._tmp = []

    def thorough(self):
        return self.tier == "thorough"

    def n(self, quick, thorough):
        return (thorough if self.tier == "thorough" else quick) * self.scale

    def tmpdir(self):
        d = tempfile.mkdtemp(prefix="cincoverif-")
        self._tmp.append(d)
        return d

    def cleanup(self):
        for d in self._tmp:
            shutil.rmtree(d, ignore_errors=True)
        self._tmp = []

    def model(self, reqs):
        """ask the model driver; returns list of replies (dict with 'ok' or 'err'), or None when no driver"""
        if self.driver is None:
            return None
        return self.driver.batch(reqs)


def setup_sandbox_home():
    """HOME must point at a scratch dir BEFORE cincoconfig is imported (the default key path is fixed at import)."""
    home = tempfile.mkdtemp(prefix="cincoverif-home-")
    os.environ["HOME"] = home
    for k in list(os.environ):
        if k.startswith("CINCO_T_"):
            del os.environ[k]
    if REPO not in sys.path:
        sys.path.insert(0, REPO)
    return home


def stable(o):
    """a deterministic string for any nested Python value (used as a distinctness key)"""
    if isinstance(o, dict):
        return "{" + ",".join(stable(k) + ":" + stable(v) for k, v in o.items()) + "}"
    if isinstance(o, (list, tuple)):
        return "[" + ",".join(stable(x) for x in o) + "]"
    if o is None or isinstance(o, (bool, int, float, str, bytes)):
        return repr(o)
    return "<" + type(o).__name__ + ">"


def jdefault(o):
    if isinstance(o, bytes):
        return {"bytes": o.hex()}
    if isinstance(o, (set, frozenset)):
        return sorted(map(str, o))
    return repr(o)


def jsonable(o):
    """make any nested value JSON-serialisable (dict keys of arbitrary types become strings)"""
    if isinstance(o, dict):
        return {(k if isinstance(k, str) else stable(k)): jsonable(v) for k, v in o.items()}
    if isinstance(o, (list, tuple)):
        return [jsonable(x) for x in o]
    if isinstance(o, float) and (o != o or o in (float("inf"), float("-inf"))):
        return repr(o)
    if o is None or isinstance(o, (bool, int, float, str)):
        return o
    return jdefault(o)


def guard(res, label, fn, *args):
    """run one stream of a check; if the *implementation* makes the adapter itself fail (an operation of the stream raises where the
    unchanged library never does) the results gathered so far are kept and the failure is recorded as a broken correspondence"""
    try:
        fn(*args)
    except (Exception, SystemExit) as e:  # noqa  (argparse leaves through SystemExit when it refuses a command line)
        if type(e).__name__ == "InfraError":
            raise
        import traceback
        res.disagree("%s.adapter-exception:%s" % (label, getattr(fn, "__name__", "stream")),
                     {"trace": traceback.format_exc().splitlines()[-8:]}, impl="%s: %s" % (type(e).__name__, e), model=None)
