"""streams about the library's extension points that more than one property uses"""
import os

from core import stable


def extension_roundtrip_stream(ctx, res, prop="C19"):
    """files written for configurations that use the library's extension points load back equal: a field that keeps another
    representation in the table (`__setval__` / `__getval__`), a field with an on-disk form of its own (`to_basic` / `to_python`) as a
    direct field, as a dict KEY field and as a list item, a LIST field subclass that writes its configurations as a map, a number field on `Decimal`, items of a `ConfigType` SUBCLASS (they come
    back as that class, methods and equality included), and a user-defined file format"""
    import base64
    import ext
    import cincoconfig as cc
    X = ext.ns()
    tmp = ctx.tmpdir()

    class PackedField(cc.StringField):
        """keeps the text base64-packed in the table, hands out the text"""
        def __setval__(self, cfg, value):
            super().__setval__(cfg, None if value is None else base64.b64encode(value.encode()).decode())

        def __getval__(self, cfg):
            raw = super().__getval__(cfg)
            return None if raw is None else base64.b64decode(raw).decode()

    class TagKeyField(cc.StringField):
        """a key written with a prefix on disk"""
        def to_basic(self, cfg, value):
            return "k-" + value

        def to_python(self, cfg, value):
            return value[2:] if isinstance(value, str) and value.startswith("k-") else value

    class PercentTextField(cc.FloatField):
        """a ratio written as a percentage: same python type on disk and in memory"""
        def to_basic(self, cfg, value):
            return None if value is None else value * 100.0

        def to_python(self, cfg, value):
            return None if value is None else value / 100.0

    class KeyedListField(cc.ListField):
        """a list of configurations written as a map name -> rest of the item (`to_basic` / `to_python` overridden as a pair)"""
        def to_basic(self, cfg, value):
            if value is None:
                return None
            return {i.name: {k: v for k, v in i.to_tree().items() if k != "name"} for i in value}

        def to_python(self, cfg, value):
            if value is None:
                return None
            if not isinstance(value, dict):
                raise ValueError("expected a map of name -> server")
            return super().to_python(cfg, [dict(rest, name=name) for name, rest in value.items()])
    server = cc.Schema()
    server.name = cc.StringField(required=True)
    server.port = cc.IntField(default=1)
    hook = cc.Schema()
    hook.name = cc.StringField(default="h")
    hook.lo = cc.IntField(default=1)
    hook.hi = cc.IntField(default=2)
    Hook = cc.make_type(hook, "ExtHook")

    class MyHook(Hook):
        def describe(self):
            return "%s:%d-%d" % (self.name, self.lo, self.hi)
    n = [0]
    for fmt in ["json", "yaml", "bson", "xml", "pickle", "rjson"]:
        n[0] += 1
        s = cc.Schema()
        s.api.token = PackedField(default="t0")
        s.api.peers = cc.ListField(cc.Schema(), default=lambda: [])
        s.fill = PercentTextField(default=0.5)
        s.price = X["DecimalField"](default=X["Decimal"]("1.50"))
        s.words = X["CsvField"](default=lambda: ["a"])
        s.by_tag = cc.DictField(TagKeyField(), cc.IntField(), default=dict)
        s.ratios = cc.ListField(PercentTextField(), default=lambda: [])
        s.hooks = cc.ListField(MyHook, default=lambda: [])
        s.servers = KeyedListField(server, default=lambda: [])
        s.spare = KeyedListField(server, default=lambda: [])
        s.celsius = cc.FloatField(default=20.0)
        s.fahrenheit = cc.VirtualField(lambda c: c.celsius * 9 / 5 + 32, setter=lambda c, v: c.__setitem__("celsius", (v - 32) * 5 / 9) or v)
        cfg = s()
        cfg.fahrenheit = 65.0
        cfg.api.token = "s3cret-token"
        cfg.fill = 0.25
        cfg.price = "19.99"
        cfg.words = "x, y,z"
        cfg.by_tag = {"10.0.0.1": 5, "db host": 0}
        cfg.ratios = [0.1, 0.75]
        cfg.hooks = [MyHook(name="a", lo=1, hi=9), {"name": "b"}]
        cfg.servers = [{"name": "alpha", "port": 8080}, {"name": "beta"}]
        dest = os.path.join(tmp, "ext-%d.%s" % (n[0], fmt))
        case = {"stream": "extension-roundtrip", "fmt": fmt}
        res.case(stable(case), kind="extension-roundtrip:" + fmt)
        try:
            cfg.save(dest, fmt)
        except Exception as e:  # noqa
            res.hist["extension-roundtrip:save-raised:%s:%s" % (fmt, type(e).__name__)] += 1
            continue
        fresh = s()
        try:
            fresh.load(dest, fmt)
            problems = []
            for label, a_, b_ in (("api.token", cfg.api.token, fresh.api.token), ("fill", cfg.fill, fresh.fill), ("price", cfg.price, fresh.price), ("words", cfg.words, fresh.words),
                                  ("by_tag", dict(cfg.by_tag), dict(fresh.by_tag)), ("ratios", [round(x, 9) for x in cfg.ratios], [round(x, 9) for x in fresh.ratios])):
                if a_ != b_ or type(a_) is not type(b_):
                    problems.append([label, repr(a_), repr(b_)])
            if [(i.name, i.port) for i in fresh.servers] != [("alpha", 8080), ("beta", 1)] or list(fresh.spare) != [] or not isinstance(cfg.to_tree()["servers"], dict):
                problems.append(["servers", "a list field subclass with an on-disk form of its own: the form was not written / not read back", repr(cfg.to_tree()["servers"])[:80]])
            if [type(h).__name__ for h in fresh.hooks] != ["MyHook", "MyHook"] or list(fresh.hooks) != list(cfg.hooks) or fresh.hooks[0].describe() != "a:1-9":
                problems.append(["hooks", [type(h).__name__ for h in fresh.hooks], "items of a config-type subclass did not come back as that class / equal"])
            if "fahrenheit" in cfg.to_tree() or "fahrenheit" in fresh.to_tree() or abs(fresh.celsius - cfg.celsius) > 1e-9:
                problems.append(["fahrenheit", "a virtual field that was assigned reached the tree / the document", repr(cfg.to_tree().get("fahrenheit"))])
            again = s()
            again.loads(fresh.dumps(format=fmt), format=fmt)
            if again.to_tree() != fresh.to_tree():
                problems.append(["second save", "saving the re-loaded configuration gives another tree", ""])
        except Exception as e:  # noqa
            problems = [["load", "raised %s: %s" % (type(e).__name__, str(e)[:80]), ""]]
        if problems:
            res.violate(prop + ":reload-differs:extension", "a file written by a successful save of a configuration that uses extension points (own representation, own on-disk form, "
                        "config-type subclass items, a user-defined format) does not load back equal", dict(case, problems=problems[:4]))



def include_and_blank_roundtrip_stream(ctx, res, prop="C19"):
    """(a) a configuration loaded through include fields — at the root and two scopes down — whose fragments name only PART of
    sections two and three levels deep (values that agree with what the configuration holds), further values set in the same
    sections, saved and loaded back: every value is there again (a merge that replaces instead of recursing loses the neighbours);
    (b) blank-ish texts (`' \\t '`, `'\\n'`, `'//'`) given to required / stripping / constrained string fields: either refused at
    assignment, or — if accepted — the file a successful save writes loads back equal"""
    import json as _json
    import cincoconfig as cc
    tmp = os.path.realpath(ctx.tmpdir())
    d = os.path.join(tmp, "inc-rt-%s" % prop)
    os.makedirs(d, exist_ok=True)
    for fmt in ["json", "yaml", "bson", "xml", "pickle"]:
        F_ = cc.ConfigFormat.get(fmt)
        s = cc.Schema()
        s.include = cc.IncludeField(startdir=d)
        s.name = cc.StringField(default="n")
        s.server.tls.include = cc.IncludeField(startdir=d)
        s.server.tls.cert = cc.StringField(default="c")
        s.server.tls.port = cc.IntField(default=443)
        s.server.tls.ciphers = cc.ListField(cc.StringField(), default=lambda: [])
        s.server.tls.options.min_version = cc.StringField(default="1.0")
        s.server.tls.options.ocsp = cc.BoolField(default=False)
        s.db.pool.size = cc.IntField(default=5)
        s.db.pool.timeout = cc.IntField(default=30)
        s.db.host = cc.StringField(default="h")
        with open(os.path.join(d, "root." + fmt), "wb") as fp:
            fp.write(F_.dumps(None, {"db": {"pool": {"size": 20}}, "server": {"tls": {"options": {"ocsp": True}}}}))
        with open(os.path.join(d, "tls." + fmt), "wb") as fp:
            fp.write(F_.dumps(None, {"port": 8443, "options": {"ocsp": True}}))
        case = {"stream": "include-roundtrip", "fmt": fmt}
        res.case(stable(case), kind="include-roundtrip:" + fmt)
        try:
            cfg = s()
            cfg.loads(F_.dumps(None, {"include": "root." + fmt, "name": "www", "server": {"tls": {"include": "tls." + fmt}}}), format=fmt)
            cfg.server.tls.cert = "www.pem"
            cfg.server.tls.ciphers = ["AES256", "CHACHA20"]
            cfg.server.tls.options.min_version = "1.2"
            cfg.db.pool.timeout = 99
            cfg.db.host = "db1"
            dest = os.path.join(d, "saved." + fmt)
            cfg.save(dest, fmt)
            back = s()
            back.load(dest, fmt)
            a, b = cfg.to_tree(), back.to_tree()
        except Exception as e:  # noqa
            res.violate(prop + ":reload-differs:include", "saving and loading a configuration that names include files raised %s" % type(e).__name__, dict(case, error=str(e)[:120]))
            continue
        if a != b:
            res.violate(prop + ":reload-differs:include", "a file written by a successful save of a configuration that names include files (fragments naming part of nested "
                        "sections) does not load back equal", dict(case, saved=_json.dumps(a, sort_keys=True)[:300], loaded=_json.dumps(b, sort_keys=True)[:300]))
    for label, mk in (("required + strip", lambda: cc.StringField(required=True, transform_strip=True)), ("required + strip '/'", lambda: cc.StringField(required=True, transform_strip="/")),
                      ("required", lambda: cc.StringField(required=True)), ("strip + min_len", lambda: cc.StringField(transform_strip=True, min_len=1)),
                      ("required filename", lambda: cc.FilenameField(required=True, transform_strip=True)), ("required + strip + lower", lambda: cc.StringField(required=True, transform_strip=True, transform_case="lower"))):
        for text in (" \\t ", "\\n", "//", " ", "/ /", "x"):
            for fmt in ("json", "yaml", "xml"):
                s = cc.Schema()
                s.owner.name = mk()
                s.owner.note = cc.StringField(default="n")
                cfg = s()
                cfg.owner.name = "first"
                dest = os.path.join(d, "blank-%s.%s" % (prop, fmt))
                cfg.save(dest, fmt)
                case = {"stream": "blank-roundtrip", "field": label, "text": text, "fmt": fmt}
                res.case(stable(case), kind="blank-roundtrip")
                try:
                    cfg.owner.name = text
                except Exception:  # noqa
                    continue
                try:
                    cfg.save(dest, fmt)
                except Exception:  # noqa
                    continue
                try:
                    back = s()
                    back.load(dest, fmt)
                    ok = back.to_tree() == cfg.to_tree()
                    err = None
                except Exception as e:  # noqa
                    ok, err = False, "%s: %s" % (type(e).__name__, str(e)[:80])
                if not ok:
                    res.violate(prop + ":reload-differs:blank", "a blank-ish text was accepted by a required / stripping string field, the save succeeded, and the file does not load back",
                                dict(case, held=repr(cfg.owner.name), error=err))
